(* generic reader/printer around the extracted  run : tree -> tree ; appended to the extracted file *)
let rec pos_of_int n = if n = 1 then XH else if n land 1 = 0 then XO (pos_of_int (n lsr 1)) else XI (pos_of_int (n lsr 1))
let z_of_int n = if n = 0 then Z0 else if n > 0 then Zpos (pos_of_int n) else Zneg (pos_of_int (-n))
let rec int_of_pos = function XH -> 1 | XO p -> 2 * int_of_pos p | XI p -> 2 * int_of_pos p + 1
let int_of_z = function Z0 -> 0 | Zpos p -> int_of_pos p | Zneg p -> - (int_of_pos p)
let parse s =
  let n = String.length s in let i = ref 0 in
  let rec tree () =
    if s.[!i] = '[' then begin incr i; let acc = ref [] in
      while s.[!i] <> ']' do (if s.[!i] = ',' then incr i else acc := tree () :: !acc) done; incr i; L (List.rev !acc) end
    else begin let j = !i in while !i < n && (s.[!i] = '-' || (s.[!i] >= '0' && s.[!i] <= '9')) do incr i done;
      I (z_of_int (int_of_string (String.sub s j (!i - j)))) end in tree ()
let rec show b = function
  | I z -> Buffer.add_string b (string_of_int (int_of_z z))
  | L l -> Buffer.add_char b '['; List.iteri (fun k x -> if k > 0 then Buffer.add_char b ','; show b x) l; Buffer.add_char b ']'
let () =
  try while true do
    let line = input_line stdin in
    let b = Buffer.create 256 in
    (try show b (run (parse line)) with Stack_overflow -> Buffer.add_string b "[-2]");
    print_endline (Buffer.contents b)
  done with End_of_file -> ()
