import numpy as np
from biom import Table
def mk():
    t = Table(np.array([[1., 2.]]), ['o1'], ['s0', 's1'])
    t.add_metadata({'s1': {}}, axis='sample')
    return t
a = mk().update_ids({'s0': 'x'}, strict=False, inplace=True)
b = mk().update_ids({'s0': 'x'}, strict=False, inplace=False)
assert a == b, (a.metadata(), b.metadata())
assert mk().copy() == mk()
t = Table(np.array([[1., 2.]]), ['o1'], ['s0', 's1'], None, [{}, {'k': 'v'}])
a = t.copy(); a.filter(['s0'], inplace=True)
b = t.filter(['s0'], inplace=False)
assert a == b and a.copy() == a, (a.metadata(), b.metadata())
assert a.transform(lambda v, i, m: v, inplace=False) == a
