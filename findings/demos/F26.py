import numpy as np
from biom import Table
M = np.array([[1., 2.]])
a = Table(M, ['o1'], ['s1', 's2'], None, [{'g': 'a'}, None])
c = Table(M, ['o1'], ['s2', 's3'], None, [{'g': 'c2'}, {'g': 'c3'}])
assert dict(a.merge(c).metadata('s2')) == {'g': 'c2'}
b = Table(M, ['o1'], ['s2', 's3'])
assert dict(a.merge([b, c]).metadata('s3')) == {'g': 'c3'}
