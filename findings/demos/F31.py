from biom import Table
t = Table([{}, {}], ['a', 'b'], ['x', 'y'])
assert t.shape == (2, 2) and t.matrix_data.nnz == 0
t = Table([{}, {(0, 1): 2.}], ['a', 'b'], ['x', 'y'])
assert t.matrix_data.toarray().tolist() == [[0.0, 0.0], [0.0, 2.0]]
