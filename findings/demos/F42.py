import os, tempfile
import numpy as np, h5py
from biom import Table, load_table
d = tempfile.mkdtemp()
for payload in ('(a,b);', 'ab', 'x'):
    t = Table(np.array([[1.0, 2.0]]), ['o'], ['s1', 's2'], observation_group_metadata={'tree': ('newick', payload)})
    a, b = os.path.join(d, 'a.biom'), os.path.join(d, 'b.biom')
    with h5py.File(a, 'w') as f:
        t.to_hdf5(f, 'g')
    t2 = load_table(a)
    assert t2.group_metadata('observation') == {'tree': payload}
    with h5py.File(b, 'w') as f:
        t2.to_hdf5(f, 'g')          # raised ValueError (or split 'ab' into data type 'a' and payload 'b')
    assert load_table(b).group_metadata('observation') == {'tree': payload}
    os.remove(a); os.remove(b)
os.rmdir(d)
