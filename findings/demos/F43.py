import scipy.sparse as sp
from biom import Table
from biom.exception import TableException
def rows():
    r1 = sp.dok_matrix((1, 4)); r1[0, 0] = 1; r1[0, 2] = 2
    r2 = sp.dok_matrix((1, 4)); r2[0, 1] = 3
    return [r1, r2]
assert Table(rows(), ['a', 'b'], list('wxyz')).shape == (2, 4)
for sids in (list('wxyzq'), list('wxy')):
    try:
        Table(rows(), ['a', 'b'], sids)
    except TableException:
        continue
    raise AssertionError('a list of 1x4 dok rows was accepted with %d sample ids' % len(sids))
# plain row dicts cannot express trailing zeros: the id count still decides there
assert Table([{(0, 0): 1.0}, {(0, 1): 2.0}], ['a', 'b'], list('wxy')).shape == (2, 3)
