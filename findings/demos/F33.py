import json, numpy as np
from biom import Table, parse_table
from biom.cli.table_subsetter import _subset_table
cut = lambda t, ax, ids, ser=lambda s: s: parse_table('\n'.join(_subset_table(None, ser(t.to_json('x')), ax, ids)[0]))
z = Table(np.zeros((2, 3)), ['o1', 'o2'], ['s1', 's2', 's3'])
for ser in (lambda s: s, lambda s: json.dumps(json.loads(s)), lambda s: json.dumps(json.loads(s), indent=2)):
    r = cut(z, 'observation', ['o1'], ser)
    assert r.shape == (1, 3) and list(r.ids()) == ['s1', 's2', 's3'], r
    r = cut(z, 'sample', ['s2', 's3'], ser)
    assert r.shape == (2, 2), r
    t = Table(np.array([[0, 1, 2], [0, 0, 0], [3, 0, 4.5]]), ['o1', 'o2', 'o3'], ['s1', 's2', 's3'])
    r = cut(t, 'observation', ['o2'], ser)
    assert r.shape == (1, 3) and r.matrix_data.nnz == 0, r
    r = cut(t, 'sample', ['s1'], ser)
    assert r.shape == (3, 1) and r.matrix_data.toarray().ravel().tolist() == [0, 0, 3], r
