import os, tempfile
import numpy as np, h5py
from biom import Table, parse_table
t = Table(np.array([[0, 1, 2], [3, 0, 4.5]]), ['o1', 'o2'], ['s1', 's2', 's3'],
          sample_metadata=[{'a': 'x'}, {'a': 'y'}, {'a': 'z'}])
d = tempfile.mkdtemp(); p = os.path.join(d, 'x.biom')
with h5py.File(p, 'w') as f:
    t.to_hdf5(f, 'g')
want = t.filter(['s1', 's3'], inplace=False)
with h5py.File(p, 'r') as f:
    for ids in (['s3', 's1'], ('s3', 's1'), {'s3', 's1'}, {'s3': 1, 's1': 2}.keys(), (i for i in ['s3', 's1']), np.array(['s3', 's1'])):
        got = Table.from_hdf5(f, ids=ids, axis='sample')        # raised TypeError for the set, the keys view and the generator
        assert got == want, (type(ids), got)
    assert parse_table(f, ids={'s3', 's1'}, axis='sample') == want
    try:
        Table.from_hdf5(f, ids={'s3', 'nope'}, axis='sample')
    except ValueError:
        pass
    else:
        raise AssertionError('unknown id accepted')
os.remove(p); os.rmdir(d)
