import io, json
import numpy as np
from biom import Table, parse_table
for shape, o, s in (((2, 0), ['x', 'y'], []), ((0, 3), [], ['a', 'b', 'c']), ((0, 0), [], [])):
    t = Table(np.zeros(shape), o, s)
    txt = t.to_json('g')
    buf = io.StringIO(); t.to_json('g', direct_io=buf)
    for text in (txt, buf.getvalue()):
        d = json.loads(text)
        assert [r['id'] for r in d['rows']] == o and [c['id'] for c in d['columns']] == s, d
        r = parse_table(io.StringIO(text))
        assert list(r.ids(axis='observation')) == o and list(r.ids()) == s and r.shape == shape, r
