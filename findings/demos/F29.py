import numpy as np
from biom import Table
from biom.exception import TableException
for data in ([[0, 0, 1.], [2, 0, 3.]], {(0, 0): 1., (2, 0): 3.}, [[0, 0, 1.], [0, 1, 3.]], {(0, 0): 1., (0, -1): 2.}):
    try:
        Table(data, ['a', 'b'], ['x'])
    except TableException:
        continue
    raise AssertionError('not refused with TableException: %r' % (data,))
t = Table([[0, 0, 1.], [1, 0, 3.]], ['a', 'b'], ['x'])
assert t.matrix_data.toarray().tolist() == [[1.0], [3.0]]
