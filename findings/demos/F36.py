import numpy as np
from biom import Table
x = Table(np.array([[1., 2.]]), ['o1'], ['s1', 's2'], None, [{'a': 1}, {'a': 2}])
y = Table(np.array([[3., 4.]]), ['o1'], ['s2', 's3'])
r = x.merge(y, sample='intersection', sample_metadata_f=None, observation_metadata_f=None)
assert list(r.ids()) == ['s2'] and r.matrix_data.toarray().tolist() == [[5.0]] and r.metadata() is None
r = x.merge(y, sample='union', observation='intersection', sample_metadata_f=None)
assert r.metadata() is None and r.matrix_data.toarray().tolist() == [[1.0, 5.0, 4.0]]
