import numpy as np
from biom import Table
from biom.exception import TableException
for md in (['', 0], [0, 0], ['', {}]):
    try:
        Table(np.ones((2, 2)), ['a', 'b'], ['x', 'y'], md)
    except TableException:
        continue
    raise AssertionError('accepted %r' % (md,))
assert Table(np.ones((2, 2)), ['a', 'b'], ['x', 'y'], [None, {}]).metadata(axis='observation') is None
assert Table(np.ones((2, 2)), ['a', 'b'], ['x', 'y'], None, [{}, {'k': 1}]).metadata() is not None
