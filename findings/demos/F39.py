import numpy as np
from biom import Table
t = Table(np.array([[1, 0, 2], [0, 0, 0], [-1, 0, 1.]]), ['o1', 'o2', 'o3'], ['s1', 's2', 's3'])
r = t.collapse(lambda i, m: i, axis='sample', norm=False, min_group_size=2)
assert r.shape == (3, 0) and list(r.ids(axis='observation')) == ['o1', 'o2', 'o3']
r = t.collapse(lambda i, m: i, axis='observation', norm=False, min_group_size=2)
assert r.shape == (0, 3) and list(r.ids()) == ['s1', 's2', 's3']
