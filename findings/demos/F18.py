# F18: direct_parse_key must take a whole JSON string value, not cut it at
# the first comma
import json
import numpy as np
from biom import Table
from biom.parse import direct_parse_key
from biom.cli.table_subsetter import _subset_table

data = np.array([[1., 0., 3.], [0., 0., 6.], [7, 8, 0]])
t = Table(data, ['o1', 'o2', 'o3'], ['s1', 's2', 's3'], type='OTU table')
js = t.to_json('a, b')
assert direct_parse_key(js, 'generated_by') == '"generated_by": "a, b"', \
    direct_parse_key(js, 'generated_by')

doc = json.loads(js)
for gen, tid, type_ in (('a, b', 'None', 'OTU table'),
                        ('g', 'x,y', None),
                        ('with {brace} and "quote", and \\ backslash\\', 'i}d', None),
                        ('plain', 'None', None)):
    doc['generated_by'], doc['id'], doc['type'] = gen, tid, type_
    for txt in (json.dumps(doc), json.dumps(doc, indent=2),
                json.dumps(doc, separators=(',', ':'))):
        for axis, ids in (('observation', ['o1']), ('sample', ['s2', 's3'])):
            out, _ = _subset_table(None, txt, axis, ids)
            text = ''.join(out)
            try:
                sub = json.loads(text)
            except ValueError as e:
                raise AssertionError("not JSON (%r, %r): %s" % (gen, tid, e))
            assert sub['generated_by'] == gen, sub['generated_by']
            assert sub['id'] == tid and sub['type'] == type_
            exp = Table.from_json(doc).filter(ids, axis=axis, inplace=False)
            assert Table.from_json(sub) == exp

# other kinds of value are found as before
s = '{"a": [1, {"b": "]"}], "n": 12.5, "z": null, "o": {"k": [1]}, "last": -3}'
assert direct_parse_key(s, 'n') == '"n": 12.5'
assert direct_parse_key(s, 'o') == '"o": {"k": [1]}'
assert direct_parse_key(s, 'last') == '"last": -3'
assert direct_parse_key(s, 'z') == '"z": null', direct_parse_key(s, 'z')
assert direct_parse_key(s, 'missing') == ''
print("F18 ok")
