# F13: the validator must reject duplicated ids and inconsistent HDF5
# sparse matrices, and keep accepting everything the library writes
import json, os, tempfile, copy
import numpy as np, h5py
from biom import Table
from biom.cli.table_validator import _validate_table

tmpd = tempfile.mkdtemp()
n = [0]
def path(suffix):
    n[0] += 1
    return os.path.join(tmpd, 't%d%s' % (n[0], suffix))

def val_json(doc):
    fn = path('.json')
    with open(fn, 'w') as f:
        json.dump(doc, f)
    return _validate_table(fn)

def write_h5(t, **kw):
    fn = path('.biom')
    with h5py.File(fn, 'w') as f:
        t.to_hdf5(f, 'gen', **kw)
    return fn

t = Table(np.array([[1., 2., 0.], [3., 4., 5.]]), ['o1', 'o2'], ['s1', 's2', 's3'],
          type='OTU table')
doc = json.loads(t.to_json('g'))
assert val_json(doc)[0] is True, val_json(doc)

# (a) JSON duplicates
d = copy.deepcopy(doc); d['rows'][1]['id'] = 'o1'
ok, lines = val_json(d)
assert not ok, "duplicate row id accepted"
assert any('DUPLICATE' in l.upper() for l in lines), lines
d = copy.deepcopy(doc); d['columns'][2]['id'] = 's1'
ok, lines = val_json(d)
assert not ok, "duplicate column id accepted"

# (b) HDF5 duplicates
for axis in ('observation', 'sample'):
    fn = write_h5(t)
    assert _validate_table(fn)[0] is True
    with h5py.File(fn, 'a') as h:
        ids = h[axis + '/ids'][:]
        ids[1] = ids[0]
        h[axis + '/ids'][:] = ids
    ok, lines = _validate_table(fn)
    assert not ok, "duplicate %s id accepted in HDF5" % axis
    assert any('Duplicate' in l for l in lines), lines

# (c) HDF5 matrix consistency
def corrupt(f):
    fn = write_h5(t)
    with h5py.File(fn, 'a') as h:
        f(h)
    return _validate_table(fn)

def set_(name, idx, v):
    def f(h):
        h[name][idx] = v
    return f

def replace(name, arr):
    def f(h):
        del h[name]
        h.create_dataset(name, data=np.asarray(arr, dtype=np.int32))
    return f

cases = {
    'obs index too large': set_('observation/matrix/indices', 0, 99),
    'obs index == n_samp': set_('observation/matrix/indices', 0, 3),
    'samp index too large': set_('sample/matrix/indices', 0, 2),
    'negative index': set_('sample/matrix/indices', 0, -1),
    'indptr end != nnz (obs)': set_('observation/matrix/indptr', -1, 4),
    'indptr end != nnz (samp)': set_('sample/matrix/indptr', -1, 9),
    'indptr start != 0': set_('observation/matrix/indptr', 0, 1),
    'indptr decreasing': replace('sample/matrix/indptr', [0, 4, 2, 5]),
    'indptr too short': replace('observation/matrix/indptr', [0, 5]),
    'indices too short': replace('observation/matrix/indices', [0, 1, 0, 1]),
}
for name, f in cases.items():
    ok, lines = corrupt(f)
    assert not ok, "accepted: %s" % name
    assert lines, name

# everything the library writes still validates
rng = np.random.RandomState(0)
tables = [Table([], [], []),
          Table(np.zeros((0, 2)), [], ['s1', 's2']),
          Table(np.zeros((2, 0)), ['o1', 'o2'], []),
          Table(np.zeros((2, 3)), ['o1', 'o2'], ['s1', 's2', 's3']),
          Table(np.array([[5.]]), ['o'], ['s']),
          t]
for i in range(10):
    shape = tuple(rng.randint(1, 7, 2))
    m = rng.randint(0, 3, shape).astype(float)
    tables.append(Table(m, ['o%d' % j for j in range(shape[0])],
                        ['s%d' % j for j in range(shape[1])],
                        [{'taxonomy': ['a', 'b']}] * shape[0],
                        [{'x': 'y'}] * shape[1]))
for tab in tables:
    tab.type = 'OTU table'    # a table without type is reported (as before)
    for kw in ({}, {'compress': False}):
        ok, lines = _validate_table(write_h5(tab, **kw))
        assert ok, (tab.shape, kw, lines)
    if (tab.shape[0] == 0) != (tab.shape[1] == 0):
        # to_json drops the ids of the other axis when one axis is empty and
        # the validator already refuses that (unrelated to this fix)
        continue
    fn = path('.json')
    with open(fn, 'w') as f:
        f.write(tab.to_json('g'))
    ok, lines = _validate_table(fn)
    assert ok, (tab.shape, lines)
print("F13 ok")
