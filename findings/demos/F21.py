import numpy as np
from biom import Table
t = Table(np.array([[10, 0, 0], [1, 1, 1], [0, 0, 0]]), ['o1', 'o2', 'o3'], ['s1', 's2', 's3'])
r = t.subsample(2, axis='observation', with_replacement=True, seed=5)
assert list(r.ids(axis='observation')) == ['o1', 'o2'] and r.sum('observation').tolist() == [2, 2], r
t = Table(np.array([[10, 0, 0], [1, 0, 1], [0, 0, 0]]), ['o1', 'o2', 'o3'], ['s1', 's2', 's3'])
r = t.subsample(1, with_replacement=True, seed=1)
assert list(r.ids()) == ['s1', 's3'] and r.sum('sample').tolist() == [1, 1], r
