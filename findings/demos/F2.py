# F2: to_json must not lose precision of matrix values
import io, json
import numpy as np
from biom import Table
from biom.parse import parse_biom_table

vals = np.array([[1e-7, 1.23456789], [0.1, 3.], [1e300, -2.5e-12]])
t = Table(vals, ['o1', 'o2', 'o3'], ['s1', 's2'])
js = t.to_json('x')
buf = io.StringIO()
t.to_json('x', direct_io=buf)
for text in (js, buf.getvalue()):
    doc = json.loads(text)          # must be valid JSON
    got = np.zeros(vals.shape)
    for r, c, v in doc['data']:
        got[r, c] = v
    assert (got == vals).all(), (got, vals)
    r = parse_biom_table(io.StringIO(text))
    assert (r.matrix_data.toarray() == vals).all(), r.matrix_data.toarray()
# whole numbers are still written as JSON floats
assert '[1,1,3.0]' in js, js
print("F2 ok")
