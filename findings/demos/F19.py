# F19: summarize-table printed a fractional total with %d (2.7 -> "2").
import numpy as np
from biom import Table
from biom.cli.table_summarizer import _summarize_table


def total(arr, **kw):
    t = Table(np.array(arr), ['o1', 'o2'], ['s1', 's2'])
    lines = _summarize_table(t, **kw).split('\n')
    return [x for x in lines if x.startswith('Total count: ')][0]


assert total([[0.5, 1.2], [0.25, 0.75]]) == 'Total count: 2.700', \
    total([[0.5, 1.2], [0.25, 0.75]])
assert total([[0.5, 1.2], [0.25, 0.75]], observations=True) == \
    'Total count: 2.700'
assert total([[0.5, 0.25], [0.125, 0.0625]]) == 'Total count: 0.938'
# integer valued totals keep their text
assert total([[0.5, 1.25], [0.25, 1.]]) == 'Total count: 3'
assert total([[1., 2.], [3., 4.]]) == 'Total count: 10'
assert total([[0., 0.], [0., 0.]]) == 'Total count: 0'
print("F19 ok")
