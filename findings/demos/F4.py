# F4: an all-zero table must be readable back from JSON and TSV
import io, json
import numpy as np
from biom import Table
from biom.parse import parse_biom_table
from biom.table import list_list_to_sparse

t = Table(np.zeros((2, 3)), ['o1', 'o2'], ['s1', 's2', 's3'])
js = t.to_json('x')
assert json.loads(js)['data'] == []
try:
    r = parse_biom_table(io.StringIO(js))
except Exception as e:
    raise AssertionError("JSON: %s: %s" % (type(e).__name__, e))
assert r.shape == (2, 3), r.shape
assert r == t
assert r.ids('observation').tolist() == ['o1', 'o2']
assert r.matrix_data.format == 'csr'
assert r.matrix_data.toarray().tolist() == [[0.] * 3] * 2

try:
    r = Table.from_tsv(t.to_tsv().split('\n'), None, None, lambda x: x)
except Exception as e:
    raise AssertionError("TSV: %s: %s" % (type(e).__name__, e))
assert r == t and r.shape == (2, 3)

# the root: empty value list + explicit shape
m = Table._to_sparse([], shape=(2, 3))
assert m.shape == (2, 3) and m.nnz == 0, m.shape
m = list_list_to_sparse([], shape=(2, 3))
assert m.shape == (2, 3) and m.nnz == 0
assert list_list_to_sparse([]).shape == (0, 0)
# zero-length axes
assert Table([], [], []).shape == (0, 0)
assert Table([], [], ['a', 'b']).shape == (0, 2)
# usual operations on the result work
assert r.sum('sample').tolist() == [0., 0., 0.]
assert r.filter(lambda v, i, m: True, inplace=False) == t
print("F4 ok")
