# F10: Table.from_hdf5(..., ids=...) used np.in1d which numpy 2 removed
import os, tempfile
import numpy as np, h5py
from biom import Table

t = Table(np.array([[1., 0., 3.], [0., 0., 6.], [7, 8, 0]]),
          ['o1', 'o2', 'o3'], ['s1', 's2', 's3'],
          [{'a': 'x'}, {'a': 'y'}, {'a': 'z'}])
fn = tempfile.mktemp(suffix='.biom')
try:
    with h5py.File(fn, 'w') as f:
        t.to_hdf5(f, 'gen')
    with h5py.File(fn, 'r') as h:
        try:
            r = Table.from_hdf5(h, ids=['s1', 's2'], axis='sample')
        except AttributeError as e:
            raise AssertionError("AttributeError: %s" % e)
        exp = t.filter(['s1', 's2'], inplace=False).remove_empty(
            axis='observation', inplace=False)
        assert r == exp, (r, exp)
        r = Table.from_hdf5(h, ids=['o3', 'o1'], axis='observation')
        exp = t.filter(['o1', 'o3'], axis='observation', inplace=False)
        assert r == exp
        try:
            Table.from_hdf5(h, ids=['s1', 'zz'], axis='sample')
        except ValueError:
            pass
        else:
            raise AssertionError("unknown id accepted")
finally:
    if os.path.exists(fn):
        os.unlink(fn)
print("F10 ok")
