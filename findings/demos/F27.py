import numpy as np
from biom import Table
from biom.exception import TableException
for md in ([{}, {}, {}], [None]):
    try:
        Table(np.ones((2, 2)), ['a', 'b'], ['x', 'y'], md)
    except TableException:
        continue
    raise AssertionError('accepted %r' % (md,))
assert Table(np.ones((2, 2)), ['a', 'b'], ['x', 'y'], [{}, {}]).metadata(axis='observation') is None
