# F8b: table equality depended on explicitly stored zeros (and changed after
# reading t.nnz).
import numpy as np
from scipy.sparse import csr_matrix, csc_matrix
from biom import Table

m = csr_matrix((np.array([1., 0., 2.]), np.array([0, 1, 1]),
                np.array([0, 2, 3])), shape=(2, 2))
t1 = Table(m, ['o1', 'o2'], ['s1', 's2'])
t2 = Table(np.array([[1., 0.], [0., 2.]]), ['o1', 'o2'], ['s1', 's2'])
stored = t1.matrix_data.nnz
assert t1 == t2 and t2 == t1
assert not (t1 != t2)
assert t1.descriptive_equality(t2) == "Tables appear equal"
# comparing mutates neither operand nor the caller's matrix
assert t1.matrix_data.nnz == stored
assert m.nnz == 3 and t2.matrix_data.nnz == 2
_ = t1.nnz
assert t1 == t2

# still unequal when the content differs, same number of stored entries
m3 = csr_matrix((np.array([1., 0., 2.]), np.array([0, 1, 1]),
                 np.array([0, 2, 3])), shape=(2, 2))
t3 = Table(m3, ['o1', 'o2'], ['s1', 's2'])
t4 = Table(np.array([[1., 5.], [0., 2.]]), ['o1', 'o2'], ['s1', 's2'])
assert t3 != t4 and t4 != t3
t5 = Table(np.array([[1., 0.], [2., 0.]]), ['o1', 'o2'], ['s1', 's2'])
assert t3 != t5 and t5 != t3
# stored zeros on both sides at different places
a = Table(csr_matrix((np.array([1., 0.]), np.array([0, 1]),
                      np.array([0, 2, 2])), shape=(2, 2)),
          ['o1', 'o2'], ['s1', 's2'])
b = Table(csr_matrix((np.array([1., 0.]), np.array([0, 0]),
                      np.array([0, 1, 2])), shape=(2, 2)),
          ['o1', 'o2'], ['s1', 's2'])
assert a == b and b == a

# index order does not matter either
x = Table(np.array([[1., 2., 3.], [4., 5., 6.]]), ['o1', 'o2'],
          ['s1', 's2', 's3'])
y = x.sort_order(['s3', 's1', 's2']).sort_order(['s1', 's2', 's3'])
assert x == y and y == x
print("F8b ok")
