# F14a (prerequisite of F14): Table([], [], ['S1']) built a 0 x 0 matrix for
# a table with one sample id; only the masking fixed by F14 let it through.
from io import StringIO
import numpy as np
from biom import Table

t = Table([], [], ['S1'])
assert t.shape == (0, 1), t.shape
assert Table([], ['o1', 'o2'], []).shape == (2, 0)
assert Table([], [], []).shape == (0, 0)
assert Table([], [], ['S1', 'S2']) == Table(np.zeros((0, 2)), [],
                                             ['S1', 'S2'])
# header only classic table (issue 854)
obs = Table.from_tsv(StringIO('#FeatureID\tSample1'), None, None, lambda x: x)
assert obs.shape == (0, 1) and list(obs.ids()) == ['Sample1']
assert obs == Table([], [], ['Sample1'])
print("F14a ok")
