import json, numpy as np
from biom import Table, parse_table
from biom.cli.table_subsetter import _subset_table
M = np.array([[0, 1, 2], [3, 0, 4.5]])
def cut(t, ax, ids, ser=lambda s: s):
    return parse_table('\n'.join(_subset_table(None, ser(t.to_json('x')), ax, ids)[0]))
for oids in (['o]1', 'o2'], ['o[1', 'o2'], ['o"1', 'o2'], ['o}1', 'o{2'], ['a\\"]b', 'o2']):
    for md in (None, [{'a': 'x]'}, {'a': 'y"['}]):
        t = Table(M, oids, ['s1', 's2', 's3'], md)
        for ser in (lambda s: s, lambda s: json.dumps(json.loads(s), indent=2)):
            r = cut(t, 'observation', [oids[1]], ser)
            assert list(r.ids(axis='observation')) == [oids[1]] and r.matrix_data.toarray().tolist() == [[3.0, 0.0, 4.5]], (oids, md)
            r = cut(t, 'sample', ['s2'], ser)
            assert list(r.ids(axis='observation')) == oids and r.matrix_data.toarray().tolist() == [[1.0], [0.0]], (oids, md)
