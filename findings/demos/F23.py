import gzip, os, tempfile
import numpy as np
from biom import Table, load_table
t = Table(np.array([[1., 2.], [3., 4.]]), ['o\x0c1', 'o2'], ['s1', 's\x0c2'])
d = tempfile.mkdtemp()
p = os.path.join(d, 'x.tsv.gz')
with gzip.open(p, 'wb') as f:
    f.write(t.to_tsv().encode())
r = load_table(p)
os.remove(p); os.rmdir(d)
assert list(r.ids()) == ['s1', 's\x0c2'], r.ids()
assert list(r.ids(axis='observation')) == ['o\x0c1', 'o2']
