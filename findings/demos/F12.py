# F12: the JSON slicer behind `biom subset-table` must not depend on how the
# JSON text was spaced
import json
import numpy as np
from biom import Table
from biom.cli.table_subsetter import _subset_table

def strip_hdr(tab):
    return tab

def check(t, gen='g'):
    js = t.to_json(gen)
    doc = json.loads(js)
    texts = [('to_json', js),
             ('dumps', json.dumps(doc)),
             ('indent', json.dumps(doc, indent=2)),
             ('tight', json.dumps(doc, separators=(',', ':')))]
    for axis, ids in (('sample', ['s1', 's3']), ('observation', ['o3', 'o1'])):
        exp = Table.from_json(doc).filter(ids, axis=axis, inplace=False)
        for name, txt in texts:
            try:
                out, fmt = _subset_table(None, txt, axis, ids)
                text = ''.join(out)
                sub = json.loads(text)
                r = Table.from_json(sub)
            except Exception as e:
                raise AssertionError("%s/%s: %s: %s" % (name, axis,
                                                        type(e).__name__, e))
            assert fmt == 'json'
            assert r == exp, (name, axis, r, exp)
            assert r.metadata() == exp.metadata()
            assert r.metadata(axis='observation') == exp.metadata(axis='observation')
            for k in ('id', 'format', 'format_url', 'type', 'generated_by',
                      'date', 'matrix_type', 'matrix_element_type'):
                assert sub[k] == doc[k], (name, axis, k, sub[k], doc[k])
            assert sub['shape'] == list(exp.shape)

data = np.array([[1., 0., 3.], [0., 0., 6.], [7, 8, 0]])
check(Table(data, ['o1', 'o2', 'o3'], ['s1', 's2', 's3']))
check(Table(data, ['o1', 'o2', 'o3'], ['s1', 's2', 's3'],
            [{'a': 'x'}, {'a': 'y'}, {'a': 'z'}],
            [{'b': [1, 2]}, {'b': [3]}, {'b': []}], type='OTU table'))
print("F12 ok")
