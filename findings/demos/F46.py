import os, tempfile
import numpy as np, h5py
from biom import Table, load_table
from biom.cli.table_validator import _validate_table
t = Table(np.array([[1.0, 2.0]]), ['o'], ['s1', 's2'], type='OTU table')
d = tempfile.mkdtemp()
for ub in (0, 512, 1024):
    p = os.path.join(d, 'u%d.biom' % ub)
    with h5py.File(p, 'w', userblock_size=ub) as f:
        t.to_hdf5(f, 'g')
    assert load_table(p) == t
    ok, lines = _validate_table(p)          # raised AttributeError: 'File' object has no attribute 'read' for ub > 0
    assert ok, lines
    os.remove(p)
os.rmdir(d)
