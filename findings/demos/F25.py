import numpy as np
from biom import Table
t = Table(np.ones((2, 2)), ['a', 'b'], ['x', 'y'], None, [{'g': 1}, {'g': 2}])
e = t.filter([], axis='observation', inplace=False)
r = e.collapse(lambda i, m: 'g', axis='sample', norm=False)
assert r.shape == (0, 1) and list(r.ids()) == ['g'], r
assert dict(r.metadata('g'))['collapsed_ids'] == ['x', 'y']
r = e.collapse(lambda i, m: 'g', axis='observation', norm=False)
assert r.shape == (0, 2)
e2 = t.filter([], axis='sample', inplace=False)
assert e2.collapse(lambda i, m: 'g', axis='observation', norm=False).shape == (1, 0)
