import os, tempfile, datetime
import numpy as np, h5py
from biom import Table
from biom.cli.table_validator import _validate_table
t = Table(np.array([[1.5, 0], [0, 2]]), ['a', 'b'], ['x', 'y'], type='OTU table')
d = tempfile.mkdtemp()
tz = datetime.timezone(datetime.timedelta(hours=5, minutes=30))
for dt in (datetime.datetime(2024, 2, 29, 13, 14, 15, tzinfo=datetime.timezone.utc),
           datetime.datetime(2024, 2, 29, 13, 14, 15, 250000, tzinfo=tz),
           datetime.datetime(2024, 2, 29, 13, 14, 15)):
    pj, ph = os.path.join(d, 't.biom'), os.path.join(d, 't.h5')
    open(pj, 'w').write(t.to_json('g', creation_date=dt))
    with h5py.File(ph, 'w') as f:
        t.to_hdf5(f, 'g', creation_date=dt)
    for p in (pj, ph):
        ok, lines = _validate_table(p)      # (False, ['Timestamp does not appear to be ISO 8601']) for the tz-aware dates
        assert ok, (dt.isoformat(), p, lines)
        os.remove(p)
# a corrupt date is still rejected
pj = os.path.join(d, 'bad.biom')
open(pj, 'w').write(t.to_json('g').replace('"date": "', '"date": "x'))
assert not _validate_table(pj)[0]
os.remove(pj); os.rmdir(d)
