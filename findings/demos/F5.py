# F5: Table.filter with a predicate after sort_order hands the predicate
# wrong vectors (kernel assumes sorted sparse indices).
import numpy as np
from biom import Table


def check(t, axis):
    seen = {}

    def pred(v, i, md):
        seen[i] = v.copy()
        return v[0] > 2.5   # depends on the vector content

    before = t.matrix_data.toarray().copy()
    r = t.filter(pred, axis=axis, inplace=False)
    assert (t.matrix_data.toarray() == before).all()
    for i in t.ids(axis=axis):
        exp = t.data(i, axis=axis, dense=True)
        assert (seen[i] == exp).all(), (axis, i, seen[i], exp)
    exp_ids = [i for i in t.ids(axis=axis) if t.data(i, axis=axis)[0] > 2.5]
    assert list(r.ids(axis=axis)) == exp_ids, (list(r.ids(axis=axis)), exp_ids)
    for i in exp_ids:
        assert (r.data(i, axis=axis) == t.data(i, axis=axis)).all()
    # inplace too
    t2 = t.copy()
    t2.filter(pred, axis=axis)
    assert t2 == r


t = Table(np.array([[1., 2., 3.], [4., 5., 6.]]), ['o1', 'o2'],
          ['s1', 's2', 's3'])
ts = t.sort_order(['s3', 's1', 's2'])
check(ts, 'observation')

t = Table(np.array([[1., 2.], [3., 4.], [5., 6.]]), ['o1', 'o2', 'o3'],
          ['s1', 's2'])
ts = t.sort_order(['o3', 'o1', 'o2'], axis='observation')
check(ts, 'sample')
# a sample-major (CSC) matrix with unsorted indices, as the kernel would see it
u = Table(np.array([[1., 3., 5.], [2., 4., 6.]]), ['s1', 's2'],
          ['o1', 'o2', 'o3']).sort_order(['o3', 'o1', 'o2'])
ts._data = u.matrix_data.T
assert ts._data.format == 'csc' and not ts._data.has_sorted_indices
check(ts, 'sample')
ts = t.sort_order(['o3', 'o1', 'o2'], axis='observation')
check(ts, 'sample')
print("F5 ok")
