import scipy.sparse as sp
from biom import Table
r1 = sp.dok_matrix((1, 4)); r1[0, 0] = 1; r1[0, 2] = 2
for other in (sp.csr_matrix([[0, 3, 0, 0]]), sp.coo_matrix([[0, 3, 0, 0]]), sp.lil_matrix([[0, 3, 0, 0]])):
    a = Table([r1, other], ['a', 'b'], list('wxyz'))          # raised AttributeError: no attribute 'items'
    b = Table([other, r1], ['b', 'a'], list('wxyz'))
    assert a.matrix_data.toarray().tolist() == [[1, 0, 2, 0], [0, 3, 0, 0]]
    assert b.sort_order(['a', 'b'], axis='observation') == a
