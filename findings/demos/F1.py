# F1: non-ASCII ids must survive an HDF5 round trip
import os, tempfile
import numpy as np, h5py
from biom import Table, load_table

t = Table(np.array([[1., 2.], [3., 4.]]), ['é1', 'o2'], ['s1', 'sé2'])
fn = tempfile.mktemp(suffix='.biom')
try:
    with h5py.File(fn, 'w') as f:
        t.to_hdf5(f, 'gen')
    try:
        r = load_table(fn)
    except Exception as e:
        raise AssertionError("load_table failed: %s: %s" % (type(e).__name__, e))
    assert r.ids('observation').dtype.kind == 'U', r.ids('observation').dtype
    assert r.ids('observation').tolist() == ['é1', 'o2'], r.ids('observation')
    assert r.ids().tolist() == ['s1', 'sé2'], r.ids()
    assert all(isinstance(i, str) for i in r.ids('observation').tolist())
    assert r == t
    with h5py.File(fn, 'r') as h:
        # subset paths
        r2 = Table.from_hdf5(h, ids=['sé2'.encode('utf8')], axis='sample',
                             subset_with_metadata=False)
        assert r2.ids('observation').tolist() == ['é1', 'o2']
        assert r2.ids().tolist() == ['sé2']
finally:
    if os.path.exists(fn):
        os.unlink(fn)
print("F1 ok")
