# F8c: the Table constructor stored the explicit zeros of a caller-supplied
# sparse matrix; nonzero()/min()/transform then saw them.
import numpy as np
from scipy.sparse import csr_matrix, csc_matrix, coo_matrix
from biom import Table

for cls in (csr_matrix, csc_matrix, coo_matrix):
    m = cls(csr_matrix((np.array([1., 0., 2.]), np.array([0, 1, 1]),
                        np.array([0, 2, 3])), shape=(2, 2)))
    if cls is coo_matrix:
        m = coo_matrix((np.array([1., 0., 2.]),
                        (np.array([0, 0, 1]), np.array([0, 1, 1]))),
                       shape=(2, 2))
    assert m.nnz == 3
    snapshot = (m.data.copy(), m.toarray())
    t = Table(m, ['o1', 'o2'], ['s1', 's2'])
    # the caller's matrix is untouched and not aliased
    assert m.nnz == 3 and (m.data == snapshot[0]).all()
    assert not np.shares_memory(m.data, t.matrix_data.data)
    assert (t.matrix_data.toarray() == snapshot[1]).all()
    # no stored zero in the table
    assert t.matrix_data.nnz == 2, t.matrix_data.nnz
    assert (t.matrix_data.data != 0).all()
    assert sorted(t.nonzero()) == [('o1', 's1'), ('o2', 's2')]
    assert (t.min('observation') == [1., 2.]).all()
    assert (t.min('sample') == [1., 2.]).all()
    p = t.transform(lambda v, i, md: v + 1, inplace=False)
    assert (p.matrix_data.toarray() == [[2., 0.], [0., 3.]]).all()
    t.matrix_data.data[:] = 7
    assert (m.toarray() == snapshot[1]).all()
print("F8c ok")
