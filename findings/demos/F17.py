# F17: a list of row dicts whose last column(s) are all zero was rejected,
# the number of columns was inferred from the largest index only.
import numpy as np
from biom import Table
from biom.exception import TableException
from biom.table import list_dict_to_sparse

t = Table([{(0, 0): 1.}, {(0, 1): 2.}], ['o1', 'o2'], ['s1', 's2', 's3'])
assert t.shape == (2, 3)
assert (t.matrix_data.toarray() == [[1., 0., 0.], [0., 2., 0.]]).all()
assert t == Table(np.array([[1., 0., 0.], [0., 2., 0.]]), ['o1', 'o2'],
                  ['s1', 's2', 's3'])

# dicts that are column vectors, last row all zero
t = Table([{(0, 0): 1.}, {(1, 0): 2.}], ['o1', 'o2', 'o3'], ['s1', 's2'])
assert (t.matrix_data.toarray() == [[1., 0.], [0., 2.], [0., 0.]]).all()

# without a shape, and with a complete list, nothing changes
m = list_dict_to_sparse([{(0, 0): 10, (0, 1): 2}, {(1, 2): 15}, {(0, 3): 7}])
assert m.shape == (3, 4)
m = list_dict_to_sparse([{(0, 0): 1.}, {(0, 1): 2.}], shape=(2, 3))
assert m.shape == (2, 3)

# mismatches are still reported as such
for data, o, s in (([{(0, 0): 1.}, {(0, 3): 2.}], ['o1', 'o2'],
                    ['s1', 's2', 's3']),          # index beyond the ids
                   ([{(0, 0): 1.}, {(0, 1): 2.}], ['o1', 'o2', 'o3'],
                    ['s1', 's2', 's3']),          # too few rows
                   ([{(0, 0): 1.}, {(0, 1): 2.}], ['o1'],
                    ['s1', 's2', 's3'])):         # too many rows
    try:
        Table(data, o, s)
    except TableException:
        pass
    else:
        raise AssertionError("accepted %r" % (data,))
print("F17 ok")
