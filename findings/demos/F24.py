import numpy as np
from biom import Table
t = Table(np.zeros((0, 1)), [], ['s'])
assert t.shape == (0, 1), t.shape
t = Table(np.zeros((1, 0)), ['o'], [])
assert t.shape == (1, 0), t.shape
assert Table(np.array([[]]), [], []).shape == (0, 0)
