# F8a: Table.subsample left explicitly stored zeros in the result.
import numpy as np
from biom import Table

t = Table(np.array([[5., 1., 1.], [5., 9., 2.], [1., 1., 1.]]),
          ['o1', 'o2', 'o3'], ['s1', 's2', 's3'])
hit = False
for axis in ('sample', 'observation'):
    for repl in (False, True):
        for seed in range(10):
            r = t.subsample(4, axis=axis, seed=seed, with_replacement=repl)
            m = r.matrix_data
            dense = m.toarray()
            hit = hit or (dense == 0).any()
            assert (m.data != 0).all(), (axis, repl, seed, m.data)
            assert m.nnz == np.count_nonzero(dense)
            assert (r.sum(axis) == 4).all()
            # consumers of the sparse structure
            cells = list(r.nonzero())
            assert len(cells) == np.count_nonzero(dense)
            for o, s in cells:
                assert r.get_value_by_ids(o, s) != 0
            assert (r.min('sample') > 0).all()
            p1 = r.transform(lambda v, i, md: v + 1, inplace=False)
            exp = np.where(dense != 0, dense + 1, 0)
            assert (p1.matrix_data.toarray() == exp).all()
assert hit  # some cell was eliminated by the subsampling
r = t.subsample(4, seed=3)
assert r.matrix_data.nnz == np.count_nonzero(r.matrix_data.toarray())
print("F8a ok")
