# F6: Table.remove_empty dropped vectors whose sum is <= 0 although they are
# not empty, and must treat explicitly stored zeros as empty.
import warnings
import numpy as np
from scipy.sparse import csr_matrix
from biom import Table

warnings.simplefilter('error')

t = Table(np.array([[1., -1.], [-2., 0.], [0, 0]]), ['o1', 'o2', 'o3'],
          ['s1', 's2'])
r = t.remove_empty(inplace=False)
assert list(r.ids('observation')) == ['o1', 'o2'], r.ids('observation')
assert list(r.ids()) == ['s1', 's2'], r.ids()
assert (r.matrix_data.toarray() == [[1, -1], [-2, 0]]).all()
assert t.shape == (3, 2)

r = t.remove_empty(axis='observation', inplace=False)
assert list(r.ids('observation')) == ['o1', 'o2']

# per sample: s2 = [-1, 0, 0] is not empty
t2 = Table(np.array([[0., -1.], [0., 0.], [0, 0]]), ['o1', 'o2', 'o3'],
           ['s1', 's2'])
r = t2.remove_empty(axis='sample', inplace=False)
assert list(r.ids()) == ['s2'] and r.shape == (3, 1)
r = t2.remove_empty(inplace=False)
assert list(r.ids()) == ['s2'] and list(r.ids('observation')) == ['o1']

# explicitly stored zeros do not make a vector non-empty
m = csr_matrix((np.array([1., 0., 0.]), np.array([0, 1, 1]),
                np.array([0, 2, 3])), shape=(2, 2))
t3 = Table(m, ['o1', 'o2'], ['s1', 's2'])
r = t3.remove_empty(inplace=False)
assert list(r.ids('observation')) == ['o1'] and list(r.ids()) == ['s1']

# in place, and the empty table
t.remove_empty()
assert t.shape == (2, 2)
assert Table([], [], []).remove_empty().shape == (0, 0)
print("F6 ok")
