from biom import Table
from biom.exception import TableException
for oids in (['a', 'b', 'c'], ['a']):
    try:
        Table([[1., 2.], [3., 4.]], oids, ['x', 'y'], input_is_dense=True)
    except TableException:
        continue
    raise AssertionError('accepted %r' % (oids,))
assert Table([[1., 0.], [0., 0.]], ['a', 'b'], ['x', 'y'], input_is_dense=True).shape == (2, 2)
