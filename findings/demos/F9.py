# F9: a.merge(b) lost b's metadata when a had none (fast path selected by
# looking at the receiver only).
import numpy as np
from biom import Table

a = Table(np.array([[1., 2.], [3., 4.]]), ['o1', 'o2'], ['s1', 's2'])
b = Table(np.array([[1., 2.], [3., 4.]]), ['o1', 'o3'], ['s1', 's3'],
          [{'k': 'v1'}, {'k': 'v3'}], [{'m': 1}, {'m': 3}])


def as_dict(t):
    d = {}
    for o in t.ids('observation'):
        for s in t.ids():
            d[(o, s)] = t.get_value_by_ids(o, s)
    return d


def md(t, axis):
    m = t.metadata(axis=axis)
    ids = t.ids(axis=axis)
    if m is None:
        return {i: None for i in ids}
    # ids without metadata carry None or an empty dict
    return {i: (dict(x) if x else None) for i, x in zip(ids, m)}


exp_vals = {('o1', 's1'): 2., ('o1', 's2'): 2., ('o1', 's3'): 2.,
            ('o2', 's1'): 3., ('o2', 's2'): 4., ('o2', 's3'): 0.,
            ('o3', 's1'): 3., ('o3', 's2'): 0., ('o3', 's3'): 4.}
exp_obs = {'o1': {'k': 'v1'}, 'o2': None, 'o3': {'k': 'v3'}}
exp_samp = {'s1': {'m': 1}, 's2': None, 's3': {'m': 3}}

for f in (lambda: a.merge(b), lambda: b.merge(a), lambda: a.merge([b]),
          lambda: b.merge([a]), lambda: a.merge((b,))):
    r = f()
    assert as_dict(r) == exp_vals, as_dict(r)
    assert md(r, 'observation') == exp_obs, md(r, 'observation')
    assert md(r, 'sample') == exp_samp, md(r, 'sample')

# several tables: same as merging them one after the other
c = Table(np.array([[1., 1.]]), ['o2'], ['s1', 's4'], [{'k': 'c2'}],
          [{'m': 'c1'}, {'m': 'c4'}])
for r in (a.merge([b, c]), a.merge(b).merge(c)):
    assert md(r, 'observation') == {'o1': {'k': 'v1'}, 'o2': None,
                                    'o3': {'k': 'v3'}}
    assert md(r, 'sample') == {'s1': {'m': 1}, 's2': None, 's3': {'m': 3},
                               's4': {'m': 'c4'}}
    assert r.get_value_by_ids('o2', 's1') == 4.
    assert r.get_value_by_ids('o2', 's4') == 1.
    assert r.sum() == a.sum() + b.sum() + c.sum()
assert a.merge([b, c]) == a.merge(b).merge(c)
r = b.merge([a, c])   # receiver has metadata, list form
assert md(r, 'sample')['s1'] == {'m': 1} and r.sum() == 22.

# fast path still in use when there is nothing to lose
d = Table(np.array([[1., 2.], [3., 4.]]), ['o1', 'o3'], ['s1', 's3'])
r = a.merge(d)
assert r.metadata() is None and r.metadata(axis='observation') is None
assert as_dict(r) == exp_vals
assert as_dict(a.merge([d, d])) == {k: v + as_dict(d).get(k, 0.)
                                    for k, v in exp_vals.items()}
# explicitly ignoring metadata
r = a.merge(b, sample_metadata_f=None, observation_metadata_f=None)
assert r.metadata() is None and as_dict(r) == exp_vals
# inputs untouched
assert a.metadata() is None and md(b, 'sample') == {'s1': {'m': 1},
                                                    's3': {'m': 3}}
print("F9 ok")
