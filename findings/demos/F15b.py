# F15b: seterr applied part of an update before failing on a bad entry.
from biom.err import seterr, geterr, errstate

before = geterr()
assert before['empty'] == 'ignore'
for bad in (dict(empty='raise', bogus='raise'),
            dict(empty='raise', obssize='bogus'),
            dict(empty='raise', obsdup='warn', zzz='ignore')):
    try:
        seterr(**bad)
    except KeyError:
        pass
    else:
        raise AssertionError("no KeyError for %r" % bad)
    assert geterr() == before, (bad, geterr())
try:
    with errstate(empty='raise', bogus='raise'):
        pass
except KeyError:
    pass
assert geterr() == before
try:
    seterr(all='bogus')
except KeyError:
    pass
assert geterr() == before
# valid updates still work and report the old state
old = seterr(empty='raise', obsdup='warn')
assert old == before
assert geterr()['empty'] == 'raise' and geterr()['obsdup'] == 'warn'
seterr(**old)
assert geterr() == before
old = seterr(all='print')
assert set(geterr().values()) == {'print'}
seterr(**old)
assert geterr() == before
print("F15b ok")
