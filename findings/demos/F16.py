# F16: update_ids with a mapping that renames nothing raised
# "ValueError: max() iterable argument is empty".
import numpy as np
from biom import Table
from biom.exception import TableException

t = Table(np.array([[1., 2.], [3., 4.]]), ['o1', 'o2'], ['s1', 'sample2'],
          [{'k': 1}, {'k': 2}], [{'m': 1}, {'m': 2}])
for axis in ('sample', 'observation'):
    r = t.update_ids({}, axis=axis, strict=False, inplace=False)
    assert r is not t and r == t
    assert list(r.ids(axis=axis)) == list(t.ids(axis=axis))
    r = t.update_ids({'unknown': 'x'}, axis=axis, strict=False, inplace=False)
    assert r == t
    c = t.copy()
    assert c.update_ids({}, axis=axis, strict=False) is c and c == t
    assert c.exists(t.ids(axis=axis)[1], axis=axis)
    # strict still demands a full mapping
    try:
        t.update_ids({}, axis=axis, strict=True, inplace=False)
    except TableException:
        pass
    else:
        raise AssertionError("strict update with an empty map accepted")

# partial and full renamings still work
r = t.update_ids({'s1': 'a_much_longer_id'}, strict=False, inplace=False)
assert list(r.ids()) == ['a_much_longer_id', 'sample2']
r = t.update_ids({'s1': 'a', 'sample2': 'b'}, inplace=False)
assert list(r.ids()) == ['a', 'b']

# tables with an empty axis
e = t.filter([], inplace=False)
assert e.shape == (2, 0)
for strict in (True, False):
    r = e.update_ids({}, strict=strict, inplace=False)
    assert r.shape == (2, 0) and len(r.ids()) == 0
    r = e.update_ids({'s1': 'x'}, strict=strict, inplace=False)
    assert r.shape == (2, 0) and len(r.ids()) == 0
print("F16 ok")
