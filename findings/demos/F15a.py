# F15a: errstate did not restore the error state when the block raised.
from biom.err import errstate, geterr

before = geterr()
assert before['obsdup'] == 'raise'
try:
    with errstate(obsdup='ignore'):
        assert geterr()['obsdup'] == 'ignore'
        raise RuntimeError()
except RuntimeError:
    pass
assert geterr() == before, geterr()
# normal exit still restores
with errstate(obsdup='ignore', empty='warn'):
    assert geterr()['empty'] == 'warn'
assert geterr() == before
print("F15a ok")
