# validator: V1 blank HDF5 id, V2 missing metadata group, V3 non-numeric matrix data, V4 data not a list, V5 bool as int
import json, os, tempfile
import numpy as np, h5py
from biom import Table
from biom.cli.table_validator import _validate_table, TableValidator
t = Table(np.array([[1.5, 0, 2], [0, 0, 3.]]), ['o1', 'o2'], ['s1', 's2', 's3'], type='OTU table')
d = tempfile.mkdtemp()
def fresh():
    p = os.path.join(d, 't.h5')
    if os.path.exists(p): os.remove(p)
    with h5py.File(p, 'w') as f: t.to_hdf5(f, 'g')
    return p
p = fresh(); assert _validate_table(p)[0] is True
with h5py.File(p, 'a') as f:
    del f['observation/ids']; f.create_dataset('observation/ids', data=[b'', b'o2'], dtype=h5py.special_dtype(vlen=str))
assert _validate_table(p)[0] is False, 'V1'
p = fresh()
with h5py.File(p, 'a') as f: del f['observation/metadata']
assert _validate_table(p)[0] is False, 'V2'
p = fresh()
with h5py.File(p, 'a') as f:
    del f['observation/matrix/data']; f.create_dataset('observation/matrix/data', data=[b'x'] * 3, dtype=h5py.special_dtype(vlen=str))
assert _validate_table(p)[0] is False, 'V3'
os.remove(p); os.rmdir(d)
doc = json.loads(t.to_json('g'))
assert TableValidator()._validate_json(table=doc, format_version='1.0.0')['valid_table'] is True
bad = dict(doc, data='')
assert TableValidator()._validate_json(table=bad, format_version='1.0.0')['valid_table'] is False, 'V4'
bad = dict(doc, matrix_element_type='int', data=[[0, 0, True], [1, 2, 3]])
assert TableValidator()._validate_json(table=bad, format_version='1.0.0')['valid_table'] is False, 'V5'
