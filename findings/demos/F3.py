# F3: to_json must escape the header strings (id, generated_by, type)
import io, json
import numpy as np
from biom import Table

def both(t, gen):
    buf = io.StringIO()
    t.to_json(gen, direct_io=buf)
    return t.to_json(gen), buf.getvalue()

data = np.array([[1., 2.], [3., 4.]])
t = Table(data, ['o1', 'o2'], ['s1', 's2'], table_id='my "id"',
          type='OTU table')
for gen in ('gen "by"', 'gen\\by', 'a\nb\tc', 'plain'):
    for text in both(t, gen):
        try:
            doc = json.loads(text)
        except ValueError as e:
            raise AssertionError("invalid JSON for generated_by=%r: %s" % (gen, e))
        assert doc['generated_by'] == gen, (doc['generated_by'], gen)
        assert doc['id'] == 'my "id"', doc['id']
        assert doc['type'] == 'OTU table'

# the type string is interpolated as well
t2 = Table(data, ['o1', 'o2'], ['s1', 's2'])
t2.type = 'odd "type"\\'
for text in both(t2, 'g'):
    assert json.loads(text)['type'] == 'odd "type"\\'

# no type is still null, plain strings unchanged
t3 = Table(data, ['o1', 'o2'], ['s1', 's2'], table_id='abc')
for text in both(t3, 'g'):
    doc = json.loads(text)
    assert doc['type'] is None and doc['id'] == 'abc'
    assert text.startswith('{"id": "abc","format": "Biological Observation')
print("F3 ok")
