# F22: the duplicate id tests compared the number of distinct ids with the
# matrix size, so a plain size mismatch was reported as duplicate ids (and
# obsdup='ignore' let a size mismatch through).
import numpy as np
from biom import Table
from biom.exception import TableException
from biom.err import (errstate, _test_obsdup, _test_sampdup, OBSSIZE,
                      SAMPSIZE, OBSDUP, SAMPDUP)

d = np.array([[1, 2], [3, 4]])


def msg(f):
    try:
        f()
    except TableException as e:
        return e.args[0]
    return None


assert msg(lambda: Table(d, ['a', 'b', 'c'], ['x', 'y'])) == OBSSIZE
assert msg(lambda: Table(d, ['a', 'b'], ['x', 'y', 'z'])) == SAMPSIZE
assert msg(lambda: Table(d, ['a'], ['x', 'y'])) == OBSSIZE
assert msg(lambda: Table(d, ['a', 'a'], ['x', 'y'])) == OBSDUP
assert msg(lambda: Table(d, ['a', 'b'], ['x', 'x'])) == SAMPDUP
# 3 ids, one repeated, for 2 rows: both apply, the size is still reported
# when duplicates are ignored
assert msg(lambda: Table(d, ['a', 'a', 'b'], ['x', 'y'])) in (OBSDUP, OBSSIZE)
with errstate(obsdup='ignore', sampdup='ignore'):
    assert msg(lambda: Table(d, ['a', 'b', 'c'], ['x', 'y'])) == OBSSIZE
    assert msg(lambda: Table(d, ['a', 'b'], ['x', 'y', 'z'])) == SAMPSIZE
    assert msg(lambda: Table(d, ['a', 'a', 'b'], ['x', 'y'])) == OBSSIZE
    assert msg(lambda: Table(d, ['a', 'a'], ['x', 'x'])) is None

t = Table(d, ['a', 'b'], ['x', 'y'])
assert not _test_obsdup(t) and not _test_sampdup(t)
t._observation_ids = np.array(['a', 'b', 'c'])
t._sample_ids = np.array(['x'])
assert not _test_obsdup(t) and not _test_sampdup(t)
t._observation_ids = np.array(['a', 'a'])
t._sample_ids = np.array(['x', 'x'])
assert _test_obsdup(t) and _test_sampdup(t)
print("F22 ok")
