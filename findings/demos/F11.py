# F11: from_hdf5(..., subset_with_metadata=False) must accept text ids and
# refuse unknown ids like the default path
import os, tempfile
import numpy as np, h5py
from biom import Table

t = Table(np.array([[1., 0., 3.], [0., 0., 6.], [7, 8, 1]]),
          ['o1', 'o2', 'o3'], ['s1', 's2', 's3'],
          [{'a': 'x'}, {'a': 'y'}, {'a': 'z'}], [{'b': 1}, {'b': 2}, {'b': 3}])
fn = tempfile.mktemp(suffix='.biom')

def strip_md(tab):
    return Table(tab.matrix_data, tab.ids('observation'), tab.ids())

try:
    with h5py.File(fn, 'w') as f:
        t.to_hdf5(f, 'gen')
    with h5py.File(fn, 'r') as h:
        for axis, ids in (('sample', ['s1', 's3']), ('observation', ['o3', 'o1'])):
            try:
                r = Table.from_hdf5(h, ids=ids, axis=axis,
                                    subset_with_metadata=False)
            except ValueError as e:
                raise AssertionError("text ids refused: %s" % e)
            rb = Table.from_hdf5(h, ids=[i.encode() for i in ids], axis=axis,
                                 subset_with_metadata=False)
            assert r == rb
            assert r.metadata() is None and r.metadata(axis='observation') is None
            assert r.ids().dtype.kind == 'U'
            # same table as load + filter, metadata aside
            exp = strip_md(t.filter(ids, axis=axis, inplace=False))
            assert r == exp, (r, exp)
            # and as the default path (this table has no empty vectors)
            try:
                d = Table.from_hdf5(h, ids=ids, axis=axis)
            except AttributeError:
                d = None      # np.in1d on numpy 2 (F10)
            if d is not None:
                assert r == strip_md(d)
        for bad in (['s1', 'zz'], [b's1', b'zz']):
            try:
                Table.from_hdf5(h, ids=bad, axis='sample',
                                subset_with_metadata=False)
            except ValueError as e:
                assert 'zz' in str(e), e
            else:
                raise AssertionError("unknown id accepted: %r" % bad)
finally:
    if os.path.exists(fn):
        os.unlink(fn)
print("F11 ok")
