import numpy as np
from biom import Table
M = np.ones((2, 2))
df = Table(M, ['a', 'b'], ['w', 'x'], [{'p': 1, 'q': 2}, {'q': 3, 'p': 4}]).metadata_to_dataframe('observation')
assert df.loc['b', 'p'] == 4 and df.loc['b', 'q'] == 3, df
df = Table(M, ['a', 'b'], ['w', 'x'], [{'p': 1, 'q': 2}, {'p': 3}]).metadata_to_dataframe('observation')
assert df.loc['b', 'p'] == 3
