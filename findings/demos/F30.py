import numpy as np
from biom import Table
M = np.ones((2, 2))
df = Table(M, ['a', 'b'], ['w', 'x'], [{'p': 1, 'q': 2}, {'q': 3, 'p': 4}]).metadata_to_dataframe('observation')
assert df.loc['b', 'p'] == 4 and df.loc['b', 'q'] == 3, df
t = Table(M, ['a', 'b'], ['w', 'x'], [{'p': 1, 'q': 2}, {'p': 3}])
df = t.metadata_to_dataframe('observation')
assert df.loc['b', 'p'] == 3
assert [dict(m) for m in t.metadata(axis='observation')] == [{'p': 1, 'q': 2}, {'p': 3}]
df = Table(M, ['a', 'b'], ['w', 'x'], [{'tax': ['k', 'p', 'c'], 'n': 1}, {'tax': ['k'], 'n': 2}]).metadata_to_dataframe('observation')
assert df.loc['b', 'n'] == 2 and df.loc['b', 'tax_0'] == 'k', df
