# F7: Table.subsample(n, axis='observation') rarefied the samples.
import numpy as np
from biom import Table

arr = np.array([[10., 0., 0.], [1., 1., 1.]])
t = Table(arr, ['o1', 'o2'], ['s1', 's2', 's3'])
for seed in range(20):
    for repl in (False, True):
        r = t.subsample(2, axis='observation', seed=seed,
                        with_replacement=repl)
        # the input is untouched
        assert (t.matrix_data.toarray() == arr).all()
        assert list(t.ids()) == ['s1', 's2', 's3']
        # both observations have a total >= 2 and are retained with sum 2
        assert list(r.ids('observation')) == ['o1', 'o2'], \
            (seed, r.ids('observation'), r.matrix_data.toarray())
        assert (r.sum('observation') == 2).all()
        assert (r.data('o1', 'observation') ==
                [2.] + [0.] * (r.shape[1] - 1)).all()
        if not repl:
            # without replacement nothing can exceed the input
            for s in r.ids():
                assert (r.data(s) <= t.data(s)).all()
        # samples left without counts are dropped
        assert (r.sum('sample') > 0).all()
        assert 's1' in r.ids()

# observations with a total < n are dropped (without replacement)
t2 = Table(np.array([[5., 1., 0.], [1., 0., 1.], [0., 0., 4.]]),
           ['o1', 'o2', 'o3'], ['s1', 's2', 's3'])
r = t2.subsample(4, axis='observation', seed=1)
assert list(r.ids('observation')) == ['o1', 'o3']
assert (r.sum('observation') == 4).all()
assert (r.data('o3', 'observation', dense=True)[-1] == 4)

# the sample axis still behaves
r = t2.subsample(4, seed=1)
assert list(r.ids()) == ['s1', 's3'] and (r.sum('sample') == 4).all()
exp = t.subsample(1, seed=7)
assert exp == t.subsample(1, axis='sample', seed=7)
assert (exp.sum('sample') == 1).all() and exp.shape[1] == 3
print("F7 ok")
