# F14: an ignored error kind (by default 'empty', which sorts first) stopped
# the remaining tests, so ill-formed tables with an empty id list passed.
import numpy as np
from biom import Table
from biom.exception import TableException
from biom.err import errstate, geterr, errcheck, seterrcall


def raises(f):
    try:
        f()
    except TableException:
        return True
    return False


assert raises(lambda: Table(np.array([[1, 2], [3, 4]]), [], ['a', 'b']))
assert raises(lambda: Table(np.array([[1, 2], [3, 4]]), ['a', 'a'], []))
assert raises(lambda: Table(np.array([[1, 2], [3, 4]]), ['a', 'b'], []))

# well-formed empty tables are still fine
assert Table([], [], []).shape == (0, 0)
assert Table(np.zeros((0, 2)), [], ['a', 'b']).shape == (0, 2)
assert Table(np.zeros((2, 0)), ['a', 'b'], []).shape == (2, 0)
t = Table(np.array([[1, 2], [3, 4]]), ['a', 'b'], ['c', 'd'])
assert t.filter([], inplace=False).shape == (2, 0)
assert t.filter([], axis='observation', inplace=False).shape == (0, 2)

# any ignored kind is skipped, not only 'empty'
with errstate(obsdup='ignore'):
    assert raises(lambda: Table(np.array([[1, 2], [3, 4]]), ['a', 'a'],
                                ['c', 'c']))       # sampdup still raises
    ok = Table(np.array([[1, 2], [3, 4]]), ['a', 'a'], ['c', 'd'])
    assert errcheck(ok) is None
# everything ignored: nothing happens
with errstate(all='ignore'):
    bad = Table(np.array([[1, 2], [3, 4]]), [], ['a', 'a'])
    assert errcheck(bad) is None
# a kind that is not ignored still decides, in sorted order
seterrcall('empty', lambda item: 'called')
with errstate(empty='call'):
    assert errcheck(Table([], [], [])) == 'called'
assert raises(lambda: errcheck(bad))
assert geterr()['empty'] == 'ignore'
print("F14 ok")
