(* C15: the validator accepts what the library writes and rejects structural corruption.
   Model: Model/Validator.v (TableValidator._validate_json / _validate_hdf5 statement by
   statement, on JSON values and on an HDF5 tree of attributes, groups and datasets),
   Model/Json.v (Table.to_json, Table.from_json).  Proofs: Proofs/ValidatorProofs.v.
   validate_json j = true  means: valid_table is True and no exception was raised. *)
From Coq Require Import String.
From Coq Require Import List Arith ZArith Bool.
From BiomV Require Import Base.Tree Base.ListUtil Base.Matrix Model.Table Model.Json Model.Validator.
From BiomV Require Import Proofs.JsonProofs Proofs.ValidatorProofs.
From BiomV Require Import Gen.DynPrelude Gen.ValidatorGen Proofs.GenBridgeValidatorProofs.
Import ListNotations.
Open Scope Z_scope.

(* --- the validator accepts what the library writes --- *)

(* writable c: a well-formed table (both axes empty or neither) whose type is in the
   controlled vocabulary, with non-empty IDs, a non-empty generated_by and a creation date in
   one of the validator's four ISO formats (what isoformat() gives for a naive datetime) *)
Theorem writer_valid_json : forall c tid, writable c -> validate_json (to_json_tree c tid) = true.
Proof. exact ValidatorProofs.writer_valid_json. Qed.
Print Assumptions writer_valid_json.

(* the same for the streamed (direct_io) form of the writer, whose keys come in another order *)
Theorem writer_valid_json_direct : forall c tid, writable c -> validate_json (to_json_tree_direct c tid) = true.
Proof. exact ValidatorProofs.writer_valid_json_direct. Qed.
Print Assumptions writer_valid_json_direct.

Example writer_valid_json_witness : writable witness_table.
Proof. exact ValidatorProofs.witness_writable. Qed.

(* date_ok follows the six strptime formats of _valid_date: what isoformat() gives for a tz-aware
   datetime is accepted (so `writable` covers such tables), a corrupt offset is not *)
Theorem date_offsets :
  forallb date_ok [K "2024-02-29T13:14:15+00:00"; K "2024-02-29T13:14:15.000007+05:30"; K "2024-02-29T13:14:15-05:30";
                   K "2024-02-29T13:14:15Z"; K "2024-02-29T13:14:15+0530"; K "2024-02-29T13:14:15+05:30:15.5"] = true
  /\ existsb date_ok [K "2024-02-29T13:14:15+0"; K "2024-02-29T13:14:15+25:00"; K "2024-02-29T13:14:15+05:30x";
                       K "2024-02-29T13:14:15z"; K "2024-02-29T13:14+00:00"; K "2024-02-29+00:00";
                       K "2024-02-29T13:14:15+0530:15"; K "2024-02-29T13:14:15+05:3015"; K "2024-02-29T13:14:15+00:60"] = false.
Proof. exact ValidatorProofs.date_offsets. Qed.
Print Assumptions date_offsets.

(* --- a "valid" verdict guarantees the structure --- *)

(* valid_doc j (Proofs/ValidatorProofs.v) says: j is an object with all twelve required keys;
   shape is [a, b] with a, b ints; rows / columns are lists of a / b records, each an object
   with an "id" that is non-empty (truthy and hashable) and a "metadata" that is null or an
   object; no two IDs of an axis are equal; data is a list; matrix_type is "sparse" or
   "dense"; matrix_element_type is one of int/str/float/unicode; sparse: every entry is
   [x, y, v] with ints 0 <= x < a, 0 <= y < b and v of the element type (a bool is not an int);
   dense: a rows of b values of the element type *)
Theorem valid_sound_json : forall j, validate_json j = true -> valid_doc j.
Proof. exact ValidatorProofs.valid_sound_json. Qed.
Print Assumptions valid_sound_json.

Example valid_sound_json_witness : validate_json (to_json_tree witness_table (K "None")) = true.
Proof. exact ValidatorProofs.witness_valid. Qed.

(* the rejections named by the property, read off soundness *)
Theorem missing_key_rejected : forall kv k,
  In k (map fst REQUIRED) -> jget kv k = None -> validate_json (JObj kv) = false.
Proof. exact ValidatorProofs.missing_key_rejected. Qed.
Print Assumptions missing_key_rejected.

Theorem shape_mismatch_rejected : forall kv a b recs,
  jget kv (K "shape") = Some (JArr [JInt a; JInt b]) ->
  (jget kv (K "rows") = Some (JArr recs) /\ Z.of_nat (length recs) <> a
   \/ jget kv (K "columns") = Some (JArr recs) /\ Z.of_nat (length recs) <> b) ->
  validate_json (JObj kv) = false.
Proof. exact ValidatorProofs.shape_mismatch_rejected. Qed.
Print Assumptions shape_mismatch_rejected.

(* an entry that is not an int triple inside the shape (out of range, negative, mistyped, malformed) *)
Theorem bad_coordinate_rejected : forall kv a b entries e,
  jget kv (K "shape") = Some (JArr [JInt a; JInt b]) ->
  jget kv (K "matrix_type") = Some (JStr (K "sparse")) -> jget kv (K "data") = Some (JArr entries) ->
  In e entries ->
  (forall x y v, e = JArr [JInt x; JInt y; v] -> ~ (0 <= x < a /\ 0 <= y < b)) ->
  validate_json (JObj kv) = false.
Proof. exact ValidatorProofs.bad_coordinate_rejected. Qed.
Print Assumptions bad_coordinate_rejected.

Theorem bad_element_rejected : forall kv entries x y v met dt,
  jget kv (K "matrix_type") = Some (JStr (K "sparse")) -> jget kv (K "data") = Some (JArr entries) ->
  jget kv (K "matrix_element_type") = Some (JStr met) -> In (met, dt) ELEMENT_TYPES ->
  In (JArr [x; y; v]) entries -> py_isinstance v dt = false ->
  validate_json (JObj kv) = false.
Proof. exact ValidatorProofs.bad_element_rejected. Qed.
Print Assumptions bad_element_rejected.

(* a record with an empty ID or with metadata that is neither an object nor null is not good_rec
   (blank_id_not_good, bad_md_not_good) *)
Theorem bad_record_rejected : forall kv key recs r,
  (key = K "rows" \/ key = K "columns") -> jget kv key = Some (JArr recs) -> In r recs ->
  ~ good_rec r -> validate_json (JObj kv) = false.
Proof. exact ValidatorProofs.bad_record_rejected. Qed.
Print Assumptions bad_record_rejected.

Theorem blank_id_not_good : forall kv, jget kv (K "id") = Some (JStr []) -> ~ good_rec (JObj kv).
Proof. exact ValidatorProofs.blank_id_not_good. Qed.
Print Assumptions blank_id_not_good.

Theorem bad_md_not_good : forall kv md,
  jget kv (K "metadata") = Some md -> md <> JNull -> is_obj md = false -> ~ good_rec (JObj kv).
Proof. exact ValidatorProofs.bad_md_not_good. Qed.
Print Assumptions bad_md_not_good.

Theorem duplicate_id_rejected : forall kv key recs i j s,
  (key = K "rows" \/ key = K "columns") -> jget kv key = Some (JArr recs) ->
  (i < j)%nat -> nth_error (map rec_id recs) i = Some (JStr s) -> nth_error (map rec_id recs) j = Some (JStr s) ->
  validate_json (JObj kv) = false.
Proof. exact ValidatorProofs.duplicate_id_rejected. Qed.
Print Assumptions duplicate_id_rejected.

(* --- an accepted numeric document loads --- *)

(* with the declared shape, the declared IDs in order, and as values the declared entries
   (sparse: entries of one coordinate are added up; dense: the rows as given) *)
Theorem valid_loads : forall j kv rrecs crecs entries mt met dt,
  validate_json j = true -> j = JObj kv ->
  jget kv (K "rows") = Some (JArr rrecs) -> jget kv (K "columns") = Some (JArr crecs) ->
  jget kv (K "data") = Some (JArr entries) -> jget kv (K "matrix_type") = Some (JStr mt) ->
  jget kv (K "matrix_element_type") = Some (JStr met) -> In (met, dt) ELEMENT_TYPES -> numeric dt ->
  ids_text rrecs -> ids_text crecs ->
  exists c, from_json j = ROk c
    /\ j_oids c = id_strs rrecs /\ j_sids c = id_strs crecs
    /\ jget kv (K "shape") = Some (JArr [JInt (Z.of_nat (length (j_oids c))); JInt (Z.of_nat (length (j_sids c)))])
    /\ (mt = K "sparse" -> j_mat c = dense_of_triples (length rrecs) (length crecs) (map declared_entry entries))
    /\ (mt = K "dense" -> j_mat c = map declared_row entries).
Proof. exact ValidatorProofs.valid_loads. Qed.
Print Assumptions valid_loads.

(* limits of the above, each with a witness document *)
(* the validator does not require IDs to be text (the loader's coercion of such IDs is not modelled) *)
Theorem nontext_id_accepted :
  exists j kv recs r, validate_json j = true /\ j = JObj kv /\ jget kv (K "rows") = Some (JArr recs)
                      /\ In r recs /\ is_str (rec_id r) = false.
Proof. exact ValidatorProofs.nontext_id_accepted. Qed.
Print Assumptions nontext_id_accepted.

Theorem duplicate_coordinates_summed :
  exists j c, validate_json j = true /\ from_json j = ROk c /\ get (j_mat c) 0 1 = 5 + 64.
Proof. exact ValidatorProofs.duplicate_coordinates_summed. Qed.
Print Assumptions duplicate_coordinates_summed.

(* "numeric" is needed: element type "str" is accepted by the validator and unknown to the loader *)
Theorem str_element_type_does_not_load :
  exists j, validate_json j = true /\ from_json j = RErr E_KEY.
Proof. exact ValidatorProofs.str_element_type_does_not_load. Qed.
Print Assumptions str_element_type_does_not_load.

(* --- HDF5 --- *)

(* valid_h5 f: the eight attributes, the eight groups of the 2.1 specification and the eight
   datasets are present; shape = (number of observation IDs, number of sample IDs); IDs are
   non-empty and pairwise different; for each axis data is numeric, indices and indptr are
   integer datasets, |indices| = |data|, |indptr| = vectors + 1, indptr starts at 0, ends at
   |data| and never decreases, every index lies inside the other axis *)
Theorem valid_sound_hdf5 : forall f, validate_hdf5 f = true -> valid_h5 f.
Proof. exact ValidatorProofs.valid_sound_hdf5. Qed.
Print Assumptions valid_sound_hdf5.

(* the same under the requested version as run() passes it on: the core (attributes, the four
   matrix/axis groups, datasets, shape, IDs, matrices) in every case; asked for 2.0 the file has
   to say (2, 0); otherwise it has to say (2, 1) and have the four metadata groups *)
Theorem valid_sound_hdf5_as : forall ver f,
  validate_hdf5_as ver f = true -> valid_h5_core f /\ version_ok ver f.
Proof. exact ValidatorProofs.valid_sound_hdf5_as. Qed.
Print Assumptions valid_sound_hdf5_as.

(* run(): None, 'None', '2.1', '2.1.0' all validate against 2.1; '2.0', '2.0.0' against 2.0; other
   texts are refused with ValueError; a JSON file only takes None, 'None', '1.0.0' *)
Theorem run_version_spellings :
  run_version_hdf5 None = ROk HV21 /\ run_version_hdf5 (Some (K "None")) = ROk HV21
  /\ run_version_hdf5 (Some (K "2.1")) = ROk HV21 /\ run_version_hdf5 (Some (K "2.1.0")) = ROk HV21
  /\ run_version_hdf5 (Some (K "2.0")) = ROk HV20 /\ run_version_hdf5 (Some (K "2.0.0")) = ROk HV20
  /\ run_version_hdf5 (Some (K "1.0.0")) = RErr E_VALUE /\ run_version_hdf5 (Some (K "3.0")) = RErr E_VALUE
  /\ run_version_hdf5 (Some (K "2")) = RErr E_VALUE /\ run_version_hdf5 (Some (K "x.y")) = RErr E_VALUE
  /\ run_version_json None = ROk tt /\ run_version_json (Some (K "None")) = ROk tt
  /\ run_version_json (Some (K "1.0.0")) = ROk tt /\ run_version_json (Some (K "1.0")) = RErr E_VALUE
  /\ run_version_json (Some (K "2.1")) = RErr E_VALUE.
Proof. exact ValidatorProofs.run_version_spellings. Qed.
Print Assumptions run_version_spellings.

Theorem run_hdf5_sound : forall fv f lines,
  run_hdf5 fv f = ROk (true, lines) ->
  exists ver, run_version_hdf5 fv = ROk ver /\ valid_h5_core f /\ version_ok ver f.
Proof. exact ValidatorProofs.run_hdf5_sound. Qed.
Print Assumptions run_hdf5_sound.

Example valid_sound_hdf5_witness : validate_hdf5 witness_h5 = true.
Proof. exact ValidatorProofs.witness_h5_valid. Qed.

(* --- the tie to the source: the JSON half of the model is regenerated on every run --- *)

(* Gen/ValidatorGen.v is produced by tools/py2v_dyn from biom/cli/table_validator.py at the start
   of every check (every Python value a json, every dynamic operation one of the py_* primitives
   of Gen/DynPrelude.v).  Each theorem says: the generated definition equals the hand-written one
   the theorems above are proved over, for all inputs. *)
Theorem validator_constants_is_source :
  gen_FormatURL = FORMAT_URL /\ gen_TableTypes = TABLE_TYPES /\ gen_MatrixTypes = MATRIX_TYPES
  /\ gen_ElementTypes = ELEMENT_TYPES.
Proof. exact (conj FormatURL_bridge (conj TableTypes_bridge (conj MatrixTypes_bridge ElementTypes_bridge))). Qed.
Print Assumptions validator_constants_is_source.

(* _json_or_hdf5_get / _json_or_hdf5_key on a JSON document (no attrs), _is_int *)
Theorem json_get_is_source : forall j k, gen_json_or_hdf5_get j k = py_get j k.
Proof. exact json_or_hdf5_get_bridge. Qed.
Print Assumptions json_get_is_source.
Theorem json_key_is_source : forall j k, gen_json_or_hdf5_key j k = k.
Proof. exact json_or_hdf5_key_bridge. Qed.
Print Assumptions json_key_is_source.
Theorem is_int_is_source : forall x, gen_is_int x = py_is_int x.
Proof. exact is_int_bridge. Qed.
Print Assumptions is_int_is_source.

Theorem valid_format_is_source : forall j, gen_valid_format j = valid_format j.
Proof. exact valid_format_bridge. Qed.
Print Assumptions valid_format_is_source.
Theorem valid_format_url_is_source : forall j, gen_valid_format_url j = valid_format_url j.
Proof. exact valid_format_url_bridge. Qed.
Print Assumptions valid_format_url_is_source.
Theorem valid_type_is_source : forall j, gen_valid_type j = valid_type j.
Proof. exact valid_type_bridge. Qed.
Print Assumptions valid_type_is_source.
Theorem valid_shape_is_source : forall j, gen_valid_shape j = valid_shape j.
Proof. exact valid_shape_bridge. Qed.
Print Assumptions valid_shape_is_source.
Theorem valid_matrix_type_is_source : forall j, gen_valid_matrix_type j = valid_matrix_type j.
Proof. exact valid_matrix_type_bridge. Qed.
Print Assumptions valid_matrix_type_is_source.
Theorem valid_matrix_element_type_is_source : forall j, gen_valid_matrix_element_type j = valid_matrix_element_type j.
Proof. exact valid_matrix_element_type_bridge. Qed.
Print Assumptions valid_matrix_element_type_is_source.
Theorem valid_generated_by_is_source : forall j, gen_valid_generated_by j = valid_generated_by j.
Proof. exact valid_generated_by_bridge. Qed.
Print Assumptions valid_generated_by_is_source.
Theorem valid_nullable_id_is_source : forall j, ROk (gen_valid_nullable_id j) = valid_nullable_id j.
Proof. exact valid_nullable_id_bridge. Qed.
Print Assumptions valid_nullable_id_is_source.
(* _valid_date itself is pinned by AST hash and stands for date_ok (py_valid_date) *)
Theorem valid_datetime_is_source : forall j, gen_valid_datetime j = valid_datetime j.
Proof. exact valid_datetime_bridge. Qed.
Print Assumptions valid_datetime_is_source.
(* the loop over the entries is a Fixpoint in both; induction over the list *)
Theorem valid_sparse_data_is_source : forall j, gen_valid_sparse_data j = valid_sparse_data j.
Proof. exact valid_sparse_data_bridge. Qed.
Print Assumptions valid_sparse_data_is_source.
Theorem valid_dense_data_is_source : forall j, gen_valid_dense_data j = valid_dense_data j.
Proof. exact valid_dense_data_bridge. Qed.
Print Assumptions valid_dense_data_is_source.
Theorem valid_data_is_source : forall j, gen_valid_data j = valid_data j.
Proof. exact valid_data_bridge. Qed.
Print Assumptions valid_data_is_source.
(* _valid_id / _valid_metadata (inlined in the hand-written axis_loop) *)
Theorem valid_id_is_source : forall r, gen_valid_id r =
  (v <- py_getitem r (K "id") ;; if py_truthy v then ROk None else ROk (Some [MSG_ID_EMPTY])).
Proof. exact valid_id_unfold. Qed.
Print Assumptions valid_id_is_source.
Theorem valid_metadata_is_source : forall r, gen_valid_metadata r =
  (md <- py_getitem r (K "metadata") ;; if is_null md || is_obj md then ROk None else ROk (Some [MSG_MD])).
Proof. exact valid_metadata_unfold. Qed.
Print Assumptions valid_metadata_is_source.
(* _valid_rows / _valid_columns: the source's loop over the records with its inner loop over
   [('id', _valid_id), ('metadata', _valid_metadata)] and the set of IDs seen = axis_loop *)
Theorem valid_rows_is_source : forall j, gen_valid_rows j = valid_rows j.
Proof. exact valid_rows_bridge. Qed.
Print Assumptions valid_rows_is_source.
Theorem valid_columns_is_source : forall j, gen_valid_columns j = valid_columns j.
Proof. exact valid_columns_bridge. Qed.
Print Assumptions valid_columns_is_source.
(* _validate_json: the loop over the twelve required keys (in the source's order, with the
   source's validators) and the shape cross-check; the source keeps valid_table and report_lines
   separately, and valid_table is True exactly when no line was reported *)
Theorem validate_json_is_source : forall j,
  gen_validate_json j = (r <- validate_json_report j ;; ROk (match r with [] => true | _ => false end, r)).
Proof. exact validate_json_bridge. Qed.
Print Assumptions validate_json_is_source.
Theorem validate_json_verdict_is_source : forall j,
  validate_json j = match gen_validate_json j with ROk (true, _) => true | _ => false end.
Proof. exact validate_json_verdict_bridge. Qed.
Print Assumptions validate_json_verdict_is_source.
