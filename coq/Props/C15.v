From BiomV Require Import Model.Json Model.Validator.
Theorem placeholder : True. Proof. exact I. Qed.
Print Assumptions placeholder.
