(* C13: value transforms touch only non-zero entries and mean what they say.
   Statements only; proofs are in Proofs/TransformProofs.v.

   Vocabulary (Model/Transform.v, Model/Stored.v):
     kernel_arr n ids md outs r     the compiled _transform on the arrays r = (indptr, indices, data);
                                    outs = what the user function returned, one list per call
     lay                            for each vector of the axis, the positions of its STORED cells in stored
                                    order (decided by the table's history: CSR/CSC, sort_order, conversions)
     lay_wf vs lay / lay_ok vs lay  lay can denote the vectors vs / ... and stores no explicit zero
     transform a inplace lay outs t = (receiver afterwards, result)
     transform_calls a lay t        the (values, id, metadata) triples the user function is called with
     guard g x                      0 if x = 0, g x otherwise                                        *)
From Coq Require Import List Arith ZArith QArith Bool.
From BiomV Require Import Base.Tree Base.ListUtil Base.Matrix Model.Table Model.Stored Model.Transform
  Proofs.StoredProofs Proofs.TransformProofs.
Import ListNotations.
Close Scope Q_scope.

(* K3.  On well-formed segments and length-preserving outputs the kernel calls the function once
   per vector, in order, with that vector's stored values (as they were before the call), its id
   and its metadata entry; writes each result back to the same slice, so the value array becomes
   the concatenation of the results; and leaves indptr and indices alone. *)
Theorem transform_kernel : forall n indptr indices ids md outs data,
  ptr_wf n indptr (length data) -> outs_fit_ptr n indptr outs ->
  let r := mkA indptr indices data in
  snd (kernel_arr n ids md outs r)
    = map (fun i => (slice data (nth i indptr 0) (nth (S i) indptr 0), nth i ids 0%Z, kernel_md md i)) (seq 0 n) /\
  a_data (fst (kernel_arr n ids md outs r)) = concat (map (fun i => nth i outs []) (seq 0 n)) /\
  length (a_data (fst (kernel_arr n ids md outs r))) = length data /\
  a_indptr (fst (kernel_arr n ids md outs r)) = indptr /\
  a_indices (fst (kernel_arr n ids md outs r)) = indices.
Proof. intros n indptr indices ids md outs data HP HO. exact (kernel_spec n indptr ids md outs data HP HO indices). Qed.
Print Assumptions transform_kernel.

(* The content-level model below is the denotation of the kernel: with
     lay i    = indices[indptr[i]:indptr[i+1]]          (the stored positions of vector i)
     denote d i = the dense vector that segment i of the value array d stands for
   the function receives  gather (lay i) (denote data i)  and afterwards segment i stands for
   scatter (lay i) (its result): the per-vector definition of transform_table. *)
Theorem kernel_denotes_transform : forall n indptr indices ids md outs data minor,
  ptr_wf n indptr (length data) -> outs_fit_ptr n indptr outs -> length indices = length data ->
  let lay i := slice indices (nth i indptr 0) (nth (S i) indptr 0) in
  let denote (d : list Z) i := scatter 0%Z minor (lay i) (slice d (nth i indptr 0) (nth (S i) indptr 0)) in
  forall i, i < n -> NoDup (lay i) -> (forall j, In j (lay i) -> j < minor) ->
    fst (fst (nth i (snd (kernel n indptr ids md outs data)) ([], 0%Z, None))) = gather 0%Z (lay i) (denote data i) /\
    denote (fst (kernel n indptr ids md outs data)) i = scatter 0%Z minor (lay i) (nth i outs []).
Proof.
  intros n indptr indices ids md outs data minor HP HO HL lay denote i Hi Hn Hb.
  exact (kernel_denotes n indptr ids md outs data HP HO indices minor i Hi Hn Hb HL).
Qed.
Print Assumptions kernel_denotes_transform.

(* Table.transform, for every layout without stored zeros and every length-preserving function:
   it is called with exactly the stored (= non-zero) values of each vector, its id and metadata;
   zero cells stay zero; the number of non-zero cells does not grow; every non-zero cell holds the
   function's output for it; ids, metadata and type are untouched; in place the receiver becomes
   the result, otherwise it is unchanged; the result is coherent. *)
Theorem transform_cells : forall a inplace lay outs t,
  wf t -> lay_ok (axis_vecs a t) lay -> outs_fit a lay outs t = true ->
  exists t', transform a inplace lay outs t = (if inplace then t' else t, ROk t') /\ wf t' /\
    (forall i, i < length (ids a t) ->
       nth i (transform_calls a lay t) ([], 0%Z, None)
         = (gather 0%Z (nth i lay []) (vec a t i), nth i (ids a t) 0%Z, md_at a t i) /\
       length (nth i lay []) = count_nz (vec a t i) /\
       Forall (fun x => x <> 0%Z) (gather 0%Z (nth i lay []) (vec a t i))) /\
    (forall o s, cell t o s = Some 0%Z -> cell t' o s = Some 0%Z) /\
    nnz (mat t') <= nnz (mat t) /\
    (forall i k, i < length (ids a t) -> k < length (nth i lay []) ->
       nth (nth k (nth i lay []) 0) (vec a t' i) 0%Z = nth k (nth i outs []) 0%Z) /\
    oids t' = oids t /\ sids t' = sids t /\ omd t' = omd t /\ smd t' = smd t /\ ttype t' = ttype t.
Proof.
  intros a inplace lay outs t W HL HF. exists (transform_table a lay outs t).
  split; [unfold transform; rewrite HF; reflexivity|].
  split; [apply transform_table_wf; exact W|].
  split.
  { intros i Hi. split.
    - unfold transform_calls.
      rewrite (nth_map_seq (fun i => (gather 0%Z (nth i lay []) (vec a t i), nth i (ids a t) 0%Z, md_at a t i))
                 (length (ids a t)) i _ Hi). reflexivity.
    - assert (Hv : i < length (axis_vecs a t)) by (rewrite (axis_vecs_length a t W); exact Hi).
      pose proof (Forall2_nth_lay ord_ok _ lay i HL Hv) as Hok. rewrite <- (vec_nth_axis_vecs a t i W Hi) in Hok.
      split; [apply ord_ok_count; exact Hok|].
      unfold gather. apply Forall_forall. intros x Hx. apply in_map_iff in Hx. destruct Hx as [j [<- Hj]].
      destruct Hok as [_ Hnz]. apply Hnz. exact Hj. }
  destruct (transform_cells_spec a lay outs t W HL) as (A & B & C).
  split; [exact A|]. split; [exact B|]. split; [exact C|]. repeat split; reflexivity.
Qed.
Print Assumptions transform_cells.

(* the reason for the repairs that keep explicit zeros out of a table (F8a, F8c): with one stored
   zero, x + 1 turns a zero cell into 1 and the density grows *)
Theorem transform_cells_stored_zero_refuted : exists a lay outs t,
  wf t /\ lay_wf (axis_vecs a t) lay /\ outs_fit a lay outs t = true /\
  cell t 1%Z 20%Z = Some 0%Z /\ cell (transform_table a lay outs t) 1%Z 20%Z = Some 1%Z /\
  nnz (mat t) < nnz (mat (transform_table a lay outs t)).
Proof. exact stored_zero_breaks. Qed.
Print Assumptions transform_cells_stored_zero_refuted.

(* a result of another length is refused (numpy cannot assign it to the slice) *)
Theorem transform_wrong_length_refused : forall a inplace lay outs t,
  outs_fit a lay outs t = false -> snd (transform a inplace lay outs t) = RErr E_VALUE.
Proof. intros a inplace lay outs t H. unfold transform. rewrite H. reflexivity. Qed.
Print Assumptions transform_wrong_length_refused.

(* norm: entry j of every vector is x_j / total (exact rationals), so proportions within the vector
   are preserved and zeros stay zero; a vector with a positive total sums to 1.  For every layout,
   stored zeros included. *)
Theorem norm_spec : forall a lay t,
  wf t -> lay_wf (axis_vecs a t) lay ->
  forall i, i < length (ids a t) ->
    length (nth i (norm_vecs a lay t) []) = length (vec a t i) /\
    (forall j, Qeq (nth j (nth i (norm_vecs a lay t) []) 0%Q)
                   (Qmake (nth j (vec a t i) 0%Z) (Z.to_pos (zsum (vec a t i))))) /\
    ((0 < zsum (vec a t i))%Z -> Qeq (qsum (nth i (norm_vecs a lay t) [])) 1%Q) /\
    (forall j k, Qeq (Qmult (nth j (nth i (norm_vecs a lay t) []) 0%Q) (inject_Z (nth k (vec a t i) 0%Z)))
                     (Qmult (nth k (nth i (norm_vecs a lay t) []) 0%Q) (inject_Z (nth j (vec a t i) 0%Z)))).
Proof. exact norm_vecs_spec. Qed.
Print Assumptions norm_spec.

(* pa: [one] exactly where the table is non-zero, 0 elsewhere, for EVERY layout (the function
   guards zeros itself); nothing else changes *)
Theorem pa_spec : forall one inplace lay t,
  wf t -> lay_wf (axis_vecs Samp t) lay ->
  exists t', pa one inplace lay t = (if inplace then t' else t, ROk t') /\
    mat t' = map (map (fun x => if Z.eqb x 0 then 0%Z else one)) (mat t) /\
    oids t' = oids t /\ sids t' = sids t /\ omd t' = omd t /\ smd t' = smd t /\ ttype t' = ttype t.
Proof. exact pa_table_spec. Qed.
Print Assumptions pa_spec.

(* rankdata: for every length-preserving rank function rk, the function receives exactly the
   non-zero values of each vector (as many as the vector has non-zero cells, none of them zero),
   every non-zero cell receives the rank computed for it, zero cells stay zero *)
Theorem rank_spec : forall (rk : list Z -> list Z), (forall l, length (rk l) = length l) ->
  forall a inplace lay t,
  wf t -> lay_ok (axis_vecs a t) lay ->
  exists t', rankdata rk a inplace lay t = (if inplace then t' else t, ROk t') /\
    forall i, i < length (ids a t) ->
      length (nth i lay []) = count_nz (vec a t i) /\
      Forall (fun x => x <> 0%Z) (gather 0%Z (nth i lay []) (vec a t i)) /\
      (forall k, k < length (nth i lay []) ->
         nth (nth k (nth i lay []) 0) (vec a t i) 0%Z <> 0%Z /\
         nth (nth k (nth i lay []) 0) (vec a t' i) 0%Z = nth k (rk (gather 0%Z (nth i lay []) (vec a t i))) 0%Z) /\
      (forall j, nth j (vec a t i) 0%Z = 0%Z -> nth j (vec a t' i) 0%Z = 0%Z).
Proof. exact rank_table_spec. Qed.
Print Assumptions rank_spec.

(* an element-wise function gives  guard g  of every cell, whichever axis it is applied along and
   whatever the two layouts: the same table both ways *)
Theorem elementwise_axis_indep : forall g lay1 lay2 t,
  wf t -> lay_ok (axis_vecs Obs t) lay1 -> lay_ok (axis_vecs Samp t) lay2 ->
  mat (transform_table Obs lay1 (apply_fn (elementwise g) (transform_calls Obs lay1 t)) t) = map (map (guard g)) (mat t) /\
  mat (transform_table Samp lay2 (apply_fn (elementwise g) (transform_calls Samp lay2 t)) t) = map (map (guard g)) (mat t).
Proof.
  intros g lay1 lay2 t W H1 H2.
  split; apply transform_elementwise; try assumption; try (left; assumption); apply lay_ok_wf; assumption.
Qed.
Print Assumptions elementwise_axis_indep.

(* biom normalize-table: exactly one of the two modes, -r is norm on the chosen axis, -p is pa *)
Theorem normalize_table_spec : forall rel pa_flag a one lay t,
  normalize_table rel pa_flag a one lay t =
  match rel, pa_flag with
  | true, false => ROk (NormRel (norm_mat a lay t))
  | false, true => match snd (pa one true lay t) with ROk r => ROk (NormPA r) | RErr c => RErr c end
  | _, _ => RErr E_VALUE
  end.
Proof. intros [|] [|] a one lay t; reflexivity. Qed.
Print Assumptions normalize_table_spec.

(* non-vacuity: a non-square, asymmetric 2 x 3 table with metadata; sample axis, layout with
   reversed (unsorted) stored order in one vector *)
Definition ex_table : table :=
  mkT [1;2]%Z [10;20;30]%Z [[64;0;128];[192;0;0]]%Z None (Some [I 7; I 8; I 9]%Z) 1%Z.
Example ex_hyps : wf ex_table /\ lay_ok (axis_vecs Samp ex_table) [[1;0];[];[0]] /\
  outs_fit Samp [[1;0];[];[0]] [[5;6];[];[7]]%Z ex_table = true.
Proof.
  split; [apply wfb_wf; vm_compute; reflexivity|]. split; [apply lay_okb_ok; vm_compute; reflexivity|].
  vm_compute. reflexivity.
Qed.
Example ex_transform :
  transform_calls Samp [[1;0];[];[0]] ex_table = [([192;64], 10, Some (I 7)); ([], 20, Some (I 8)); ([128], 30, Some (I 9))]%Z /\
  mat (transform_table Samp [[1;0];[];[0]] [[5;6];[];[7]]%Z ex_table) = [[6;0;7];[5;0;0]]%Z.
Proof. vm_compute. split; reflexivity. Qed.
Example ex_norm : norm_mat Samp [[1;0];[];[0]] ex_table
  = [[Qmake 64 256; 0%Q; Qmake 128 128]; [Qmake 192 256; 0%Q; 0%Q]].
Proof. vm_compute. reflexivity. Qed.
Example ex_kernel : ptr_wf 3 [0;2;2;3] 3 /\ outs_fit_ptr 3 [0;2;2;3] [[5;6];[];[7]]%Z.
Proof.
  split; [repeat split; simpl; auto with arith|].
  intros [|[|[|i]]] Hi; simpl; try reflexivity. exfalso. apply (Nat.lt_irrefl 3). do 3 apply Nat.succ_lt_mono in Hi.
  inversion Hi.
Qed.

(* ---- tie to the source: the kernel the theorems above are about IS the loop of _transform.pyx.
   Gen/TransformGen.v is regenerated from the .pyx by tools/py2v on every check; md_tuple is the
   normalisation the code applies before the loop (metadata None -> a tuple of None). *)
From BiomV Require Import Gen.TransformGen Proofs.GenBridgeProofs.
Theorem transform_kernel_is_source : forall n indptr ids md len outs data,
  kernel n indptr ids md outs data =
  (let '(d, _, c) := transform_loop n indptr ids (md_tuple md len) data outs [] in (d, c)).
Proof. exact transform_kernel_bridge. Qed.
Print Assumptions transform_kernel_is_source.

(* ---- tie to the source, python level: the wrappers the theorems above are about ARE the methods of
   biom/table.py.  Gen/TransformWrapGen.v is regenerated from Table.transform / Table.pa / Table.rankdata
   by tools/py2v_wrap on every check (vocabulary Gen/WrapPrelude.v: a two-slot heap for receiver / copy,
   the compressed matrix per vector of its major axis, the kernel call, eliminate_zeros, the store).
   The function handed to transform is any f; the hand model's [outs] are its results on transform_calls.
   Partial: the bridges hold when no vector stores a position twice (part of lay_wf / lay_ok, which
   every theorem above assumes) and, for inplace=False, when the receiver's metadata is in the
   constructor's normal form (copy() goes through the constructor; every public path leaves it so). *)
From BiomV Require Import Model.Reorder Gen.WrapPrelude Gen.TransformWrapGen Proofs.GenBridgeWrapProofs.
Theorem transform_is_source_partial : forall lay f a inplace t,
  Forall (@NoDup nat) lay -> (inplace = true \/ normal t) ->
  transform_gen lay t f a inplace = transform a inplace lay (outs_of f a lay t) t.
Proof. exact transform_bridge. Qed.
Print Assumptions transform_is_source_partial.

Theorem pa_is_source_partial : forall lay one inplace t,
  Forall (@NoDup nat) lay -> (inplace = true \/ normal t) ->
  pa_gen lay one t inplace = pa one inplace lay t.
Proof. exact pa_bridge. Qed.
Print Assumptions pa_is_source_partial.

Theorem rankdata_is_source_partial : forall lay (rk : Z -> list Z -> list Z) a inplace m t,
  Forall (@NoDup nat) lay -> (inplace = true \/ normal t) ->
  rankdata_gen lay rk t a inplace m = rankdata (rk m) a inplace lay t.
Proof. exact rankdata_bridge. Qed.
Print Assumptions rankdata_is_source_partial.

(* the hypotheses are satisfiable (the table and layout of ex_hyps), and lay_wf gives the first *)
Example ex_is_source_hyps : Forall (@NoDup nat) [[1;0];[];[0]] /\ normal ex_table.
Proof.
  split; [repeat constructor; simpl; intuition discriminate|].
  split; vm_compute; reflexivity.
Qed.
Theorem lay_wf_nodup : forall vs lay, lay_wf vs lay -> Forall (@NoDup nat) lay.
Proof.
  intros vs lay H. induction H as [|v o vs lay Ho _ IH]; constructor; [|exact IH]. exact (proj1 Ho).
Qed.
Print Assumptions lay_wf_nodup.

(* norm: the function Table.norm hands over and the axis it passes on are regenerated too (norm_gen); its
   call of transform goes to the vocabulary's rational-valued counterpart (Gen/WrapPrelude.v tb_transform_q).
   Unconditional. *)
Theorem norm_is_source : forall lay a inplace t, norm_gen lay t a inplace = norm_vecs a lay t.
Proof. exact norm_bridge. Qed.
Print Assumptions norm_is_source.
