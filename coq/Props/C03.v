(* C03: classic tab-separated export / import round trip.
   Model: Model/Tsv.v (to_tsv, extract_tsv, from_tsv, roundtrip); proofs: Proofs/TsvProofs.v.
   fmt / parse_num are the number-text oracle (str of a float64, float()); every theorem
   quantifies over them and states the contract it needs. *)
From Coq Require Import List ZArith Bool.
From BiomV Require Import Base.Tree Base.Matrix Model.Table Model.Tsv Proofs.TsvProofs.
Import ListNotations.
Open Scope Z_scope.

(* Export then import gives back the observation ids, the sample ids (both in order) and the
   matrix, for every shape (single sample, single observation, all-zero included: the proof
   never looks at the width), whether the lines arrive with or without their terminators. *)
Theorem tsv_roundtrip :
  forall (fmt : Z -> text) (parse_num : text -> option Z) (format : Tree -> text) (process : text -> Tree)
         (c : ttab) (keep : bool),
    xwf c -> x_empty c = false -> ids_tsv_safe brk_nl c -> faithful_on fmt parse_num brk_nl c ->
    roundtrip fmt parse_num format process brk_nl keep c no_opts
    = ROk (mkX (x_oids c) (x_sids c) (x_mat c) None).
Proof. exact tsv_roundtrip_nl. Qed.
Print Assumptions tsv_roundtrip.

(* what the two hypotheses say, spelled out *)
Theorem ids_tsv_safe_means :
  forall c, ids_tsv_safe brk_nl c <->
    (forall t, In t (x_oids c) \/ In t (x_sids c) ->
       t <> [] /\ ~ In TAB t /\ ~ In NL t /\ hd 0 t <> HASH
       /\ is_space (hd 0 t) = false /\ is_space (last t 0) = false).
Proof. exact ids_tsv_safe_nl_means. Qed.
Print Assumptions ids_tsv_safe_means.

Theorem faithful_means :
  forall fmt parse_num c, faithful_on fmt parse_num brk_nl c <->
    (forall row v, In row (x_mat c) -> In v row ->
       parse_num (fmt v) = Some v /\ ~ In TAB (fmt v) /\ ~ In NL (fmt v) /\ strip (fmt v) = fmt v).
Proof. exact faithful_on_nl_means. Qed.
Print Assumptions faithful_means.

(* the same through a path or a gzip path (text mode, universal newlines: lines are also cut
   at a carriage return, so ids must not contain one) *)
Theorem tsv_roundtrip_path :
  forall (fmt : Z -> text) (parse_num : text -> option Z) (format : Tree -> text) (process : text -> Tree)
         (c : ttab) (keep : bool),
    xwf c -> x_empty c = false -> ids_tsv_safe brk_univ c -> faithful_on fmt parse_num brk_univ c ->
    roundtrip fmt parse_num format process brk_univ keep c no_opts
    = ROk (mkX (x_oids c) (x_sids c) (x_mat c) None).
Proof. exact tsv_roundtrip_univ. Qed.
Print Assumptions tsv_roundtrip_path.

(* for every way of cutting the text into lines that cuts at '\n', never at a tab and never
   inside the two fixed header texts *)
Theorem tsv_roundtrip_any_splitter :
  forall fmt parse_num format process brk, good_brk brk ->
  forall c keep,
    xwf c -> x_empty c = false -> ids_tsv_safe brk c -> faithful_on fmt parse_num brk c ->
    roundtrip fmt parse_num format process brk keep c no_opts
    = ROk (mkX (x_oids c) (x_sids c) (x_mat c) None).
Proof. exact roundtrip_plain. Qed.
Print Assumptions tsv_roundtrip_any_splitter.

(* ... and for every corner cell of the header line (observation_column_name: the default
   "#OTU ID", an empty or blank cell as R / pandas write it, "Taxon", ...) that holds no tab
   and no line break: when it does not start with '#' the header is found as the first line not
   starting with '#', with the same result *)
Theorem tsv_roundtrip_any_corner_cell :
  forall fmt parse_num format process brk, good_brk brk ->
  forall oc c keep,
    ~ In TAB oc -> avoids brk oc ->
    xwf c -> x_empty c = false -> ids_tsv_safe brk c -> faithful_on fmt parse_num brk c ->
    roundtrip fmt parse_num format process brk keep c (mkO3 None None oc)
    = ROk (mkX (x_oids c) (x_sids c) (x_mat c) None).
Proof. exact roundtrip_plain_oc. Qed.
Print Assumptions tsv_roundtrip_any_corner_cell.

Theorem tsv_md_roundtrip_any_corner_cell :
  forall fmt parse_num format process brk, good_brk brk ->
  forall oc c keep key hv es,
    ~ In TAB oc -> avoids brk oc ->
    xwf c -> x_empty c = false -> ids_tsv_safe brk c -> faithful_on fmt parse_num brk c ->
    key <> [] -> hv <> [] -> txt_ok brk hv -> is_space (last hv 0) = false ->
    x_omd c = Some es ->
    Forall (txt_ok brk) (md_texts format key c) ->
    Exists (fun m => isfloat parse_num (strip m) = false) (md_texts format key c) ->
    roundtrip fmt parse_num format process brk keep c (mkO3 (Some key) (Some hv) oc)
    = ROk (mkX (x_oids c) (x_sids c) (x_mat c)
               (Some (map (fun m => [(hv, process (strip m))]) (md_texts format key c)))).
Proof. exact roundtrip_md_oc. Qed.
Print Assumptions tsv_md_roundtrip_any_corner_cell.

(* One observation-metadata category exported under the column name hv: it comes back, for
   every observation, as  process (strip (formatted text)),  provided the formatted texts hold
   no tab / line break and at least one of them is not accepted by float(). *)
Theorem tsv_md_roundtrip :
  forall fmt parse_num format process brk, good_brk brk ->
  forall c keep key hv es,
    xwf c -> x_empty c = false -> ids_tsv_safe brk c -> faithful_on fmt parse_num brk c ->
    key <> [] -> hv <> [] -> txt_ok brk hv -> is_space (last hv 0) = false ->
    x_omd c = Some es ->
    Forall (txt_ok brk) (md_texts format key c) ->
    Exists (fun m => isfloat parse_num (strip m) = false) (md_texts format key c) ->
    roundtrip fmt parse_num format process brk keep c (mkO (Some key) (Some hv))
    = ROk (mkX (x_oids c) (x_sids c) (x_mat c)
               (Some (map (fun m => [(hv, process (strip m))]) (md_texts format key c)))).
Proof. exact roundtrip_md. Qed.
Print Assumptions tsv_md_roundtrip.

(* ... hence the category itself is preserved when process inverts the formatter *)
Theorem tsv_md_category_preserved :
  forall fmt parse_num format process brk, good_brk brk ->
  forall c keep key hv es,
    xwf c -> x_empty c = false -> ids_tsv_safe brk c -> faithful_on fmt parse_num brk c ->
    key <> [] -> hv <> [] -> txt_ok brk hv -> is_space (last hv 0) = false ->
    x_omd c = Some es ->
    Forall (txt_ok brk) (md_texts format key c) ->
    Exists (fun m => isfloat parse_num (strip m) = false) (md_texts format key c) ->
    Forall (fun e => process (strip (format (md_get key e))) = md_get key e) es ->
    roundtrip fmt parse_num format process brk keep c (mkO (Some key) (Some hv))
    = ROk (mkX (x_oids c) (x_sids c) (x_mat c) (Some (map (fun e => [(hv, md_get key e)]) es))).
Proof. exact roundtrip_md_inverse. Qed.
Print Assumptions tsv_md_category_preserved.

(* the sc_separated pair of `biom convert` ('; '.join / split(';') + strip) is such a pair on
   non-empty lists of non-empty strings without ';' and without leading/trailing blanks *)
Theorem tsv_taxonomy_inverse :
  forall l : list text,
    l <> [] -> Forall (fun e => e <> [] /\ ~ In SEMI e /\ edges_ok e) l ->
    proc_sc (strip (fmt_sc (tList (map tStr l)))) = tList (map tStr l).
Proof. exact sc_inverse. Qed.
Print Assumptions tsv_taxonomy_inverse.

(* header detection: the last '#' line of the leading comment block, data start counted in
   non-blank lines *)
Theorem header_found :
  forall pre h mid d rest,
    Forall (fun l => blank l = true \/ starts_hash l = true) pre ->
    blank h = false -> starts_hash h = true -> cols_of h <> [] ->
    Forall (fun l => blank l = true) mid ->
    blank d = false -> starts_hash d = false ->
    forall hdr0 i0,
    find_header (pre ++ h :: mid ++ d :: rest) hdr0 i0
    = (Some (cols_of h), (i0 + count_nonblank pre + 1)%nat).
Proof. exact TsvProofs.header_found. Qed.
Print Assumptions header_found.

Theorem header_is_first_line_without_comment :
  forall pre d rest,
    Forall (fun l => blank l = true) pre -> blank d = false -> starts_hash d = false ->
    find_header (pre ++ d :: rest) None 0 = (Some (tl (split_on TAB (rstrip d))), 1%nat).
Proof. exact header_first_line. Qed.
Print Assumptions header_is_first_line_without_comment.

(* the last column is numeric iff the stripped last field of every line behind the header is
   accepted by float() *)
Theorem last_col_numeric_iff :
  forall parse_num (rows : list (list text)),
    Forall (fun fs => fs <> [] /\ Forall (fun p => ~ In TAB p) fs) rows ->
    (last_numeric parse_num (map (join TAB) rows) = true
     <-> Forall (fun fs => isfloat parse_num (strip (last fs [])) = true) rows).
Proof. exact TsvProofs.last_col_numeric_iff. Qed.
Print Assumptions last_col_numeric_iff.

(* kept line terminators are invisible to the reader, for every input *)
Theorem reader_ignores_line_terminators :
  forall parse_num process ls,
    from_tsv parse_num process (keepends ls) = from_tsv parse_num process ls.
Proof. exact from_tsv_keepends. Qed.
Print Assumptions reader_ignores_line_terminators.

(* a table without observations or without samples is refused by the writer *)
Theorem tsv_export_refuses_empty :
  forall fmt format c o, x_empty c = true -> to_tsv fmt format c o = RErr E_TABLE.
Proof. exact to_tsv_empty. Qed.
Print Assumptions tsv_export_refuses_empty.

(* outside the domain, not promised: a category whose every formatted text is numeric is read
   back as one more sample *)
Theorem tsv_numeric_metadata_not_promised :
  exists fmt parse_num c key hv,
    xwf c /\ x_empty c = false /\ ids_tsv_safe brk_univ c /\ faithful_on fmt parse_num brk_univ c
    /\ roundtrip fmt parse_num fmt_sc proc_sc brk_univ false c (mkO (Some key) (Some hv))
       = ROk (mkX (x_oids c) (x_sids c ++ [hv]) [[1; 5]] None).
Proof. exact numeric_metadata_not_promised. Qed.
Print Assumptions tsv_numeric_metadata_not_promised.

(* History (finding F23, repaired in /repo by a8aadd7c): the gzip path used to cut lines at
   every str.splitlines boundary; under that splitter the round trip is refuted by a table
   whose ids contain a form feed. The current reader uses brk_univ for both paths. *)
Theorem tsv_old_gzip_splitter_refuted :
  exists fmt parse_num c,
    xwf c /\ x_empty c = false /\ ids_tsv_safe brk_univ c /\ faithful_on fmt parse_num brk_univ c
    /\ roundtrip fmt parse_num fmt_naive proc_naive brk_gz true c no_opts
       <> ROk (mkX (x_oids c) (x_sids c) (x_mat c) None).
Proof. exact old_gzip_refuted. Qed.
Print Assumptions tsv_old_gzip_splitter_refuted.

(* ---- non-vacuity: concrete tables meeting the hypotheses (3 x 2 with an all-zero row, ids
   with an inner blank, a quote, a non-ASCII letter; 2 x 1; 1 x 3; all-zero 1 x 1; values
   1e-07, 17 digits, -2.5, 1e+300) ---- *)
Example tsv_roundtrip_hyps_3x2 :
  xwf TsvExamples.c32 /\ x_empty TsvExamples.c32 = false /\ ids_tsv_safe brk_univ TsvExamples.c32
  /\ faithful_on TsvExamples.fmt TsvExamples.parse brk_univ TsvExamples.c32.
Proof. exact (TsvExamples.hyps_ok _ _ TsvExamples.c32_hyps). Qed.
Example tsv_roundtrip_hyps_single_sample :
  xwf TsvExamples.c21 /\ x_empty TsvExamples.c21 = false /\ ids_tsv_safe brk_univ TsvExamples.c21
  /\ faithful_on TsvExamples.fmt TsvExamples.parse brk_univ TsvExamples.c21.
Proof. exact (TsvExamples.hyps_ok _ _ TsvExamples.c21_hyps). Qed.
Example tsv_roundtrip_hyps_single_observation :
  xwf TsvExamples.c13 /\ x_empty TsvExamples.c13 = false /\ ids_tsv_safe brk_univ TsvExamples.c13
  /\ faithful_on TsvExamples.fmt TsvExamples.parse brk_univ TsvExamples.c13.
Proof. exact (TsvExamples.hyps_ok _ _ TsvExamples.c13_hyps). Qed.
Example tsv_roundtrip_hyps_all_zero :
  xwf TsvExamples.c11z /\ x_empty TsvExamples.c11z = false /\ ids_tsv_safe brk_univ TsvExamples.c11z
  /\ faithful_on TsvExamples.fmt TsvExamples.parse brk_univ TsvExamples.c11z.
Proof. exact (TsvExamples.hyps_ok _ _ TsvExamples.c11z_hyps). Qed.
Example tsv_md_roundtrip_taxonomy_runs :
  roundtrip TsvExamples.fmt TsvExamples.parse_md fmt_sc proc_sc brk_univ true TsvExamples.c22md
            (mkO (Some TsvExamples.k_tax) (Some TsvExamples.k_tax)) = ROk TsvExamples.c22md.
Proof. exact TsvExamples.c22md_runs. Qed.
Example tsv_trailing_blank_line_not_promised :
  from_tsv TsvExamples.parse proc_naive
    ([35;79;84;85;32;73;68;9;115;49;9;115;50]
       :: ([111;49;9] ++ TsvExamples.t1em7 ++ [9] ++ TsvExamples.tm25) :: [[]])
  = ROk (mkX [[111;49]] [[115;49]] [[1]] (Some [[([115;50], tStr TsvExamples.tm25)]])).
Proof. exact TsvExamples.trailing_blank_line. Qed.
Example tsv_corner_cells_run :
  roundtrip TsvExamples.fmt TsvExamples.parse fmt_naive proc_naive brk_univ true TsvExamples.c32 (mkO3 None None []) = ROk TsvExamples.c32
  /\ roundtrip TsvExamples.fmt TsvExamples.parse fmt_naive proc_naive brk_nl false TsvExamples.c32 (mkO3 None None [32]) = ROk TsvExamples.c32
  /\ roundtrip TsvExamples.fmt TsvExamples.parse fmt_naive proc_naive brk_univ false TsvExamples.c21 (mkO3 None None [84;97;120;111;110]) = ROk TsvExamples.c21.
Proof. exact TsvExamples2.corner_cells_run. Qed.
Example tsv_taxonomy_with_empty_levels_runs :
  roundtrip TsvExamples.fmt TsvExamples.parse fmt_sc proc_sc brk_univ true TsvExamples2.c32tax
            (mkO (Some TsvExamples.k_tax) (Some TsvExamples.k_tax)) = ROk TsvExamples2.c32tax.
Proof. exact TsvExamples2.empty_levels_run. Qed.

(* ---- translator tie (DESIGN 3.1 T14): the writer regenerated from biom/table.py by
   tools/py2v_tsv (Gen/TsvGen.v, Table.delimited_self with direct_io=None) is the hand-written
   writer of Model/Tsv.v, for both oracles (number text, metadata formatter), every table and
   every header_key / header_value / observation_column_name.  With a metadata column the code
   reads the metadata through the identifier index, so the class invariant xwf (distinct ids, one
   metadata entry per observation) is needed there; the default call needs nothing. ---- *)
From BiomV Require Import Gen.TsvPrelude Gen.TsvGen Proofs.GenBridgeTsvProofs.
Theorem delimited_self_is_source_partial : forall fmt format c hk hv ocn,
  xwf c ->
  delimited_self fmt format c [TAB] hk hv ocn = to_tsv_text fmt format c (mkO3 hk hv ocn).
Proof. exact delimited_self_gen_is_source_partial. Qed.
Print Assumptions delimited_self_is_source_partial.
Example delimited_self_is_source_partial_hypothesis_holds : xwf TsvExamples.c22md.
Proof. apply xwfb_xwf. vm_compute. reflexivity. Qed.
Theorem delimited_self_default_is_source : forall fmt format c ocn,
  delimited_self fmt format c [TAB] None None ocn = to_tsv_text fmt format c (mkO3 None None ocn).
Proof. exact delimited_self_gen_default_is_source. Qed.
Print Assumptions delimited_self_default_is_source.

(* the header search of the reader (Table._extract_data_from_tsv, first loop: blank lines, comment
   lines, where the header comes from and where the data start), regenerated into
   Gen/TsvReadGen.v, is find_header for every list of lines; the counter of non-blank lines the
   loop leaves behind (i) is not used afterwards *)
From BiomV Require Import Gen.TsvReadGen Proofs.GenBridgeTsvReadProofs.
Theorem extract_header_is_source : forall lines,
  exists i, extract_header lines [TAB]
            = ROk (fst (find_header lines None 0%nat), i, snd (find_header lines None 0%nat)).
Proof. exact extract_header_gen_is_source. Qed.
Print Assumptions extract_header_is_source.

(* the last-column-is-metadata test and the choice of sample ids / metadata name of the reader
   (statements 6-9 of Table._extract_data_from_tsv for a list of lines), regenerated into
   Gen/TsvRead2Gen.v: the same answer and the same TypeError / IndexError as the hand model for
   every header value, data start and list of lines; isfloat is the float() oracle of the model *)
From BiomV Require Import Gen.TsvRead2Gen Proofs.GenBridgeTsvRead2Proofs.
Theorem extract_ids_is_source : forall parse_num lines header ds,
  extract_ids (isfloat parse_num) lines [TAB] header ds =
  let numeric := last_numeric parse_num (skipn ds lines) in
  if numeric || Nat.eqb ds 0 then
    match header with None => RErr E_TYPE | Some h => ROk (numeric, None, None, h) end
  else
    match header with
    | None => RErr E_TYPE
    | Some [] => RErr E_OTHER
    | Some h => ROk (numeric, Some (last h []), Some [], removelast h)
    end.
Proof. exact extract_ids_gen_is_source. Qed.
Print Assumptions extract_ids_is_source.
(* and the hand-written extract_tsv is exactly: header search, the regenerated extract_ids, data_rows *)
Theorem extract_tsv_is_source_around_data_rows : forall parse_num lines,
  extract_tsv parse_num lines =
  let '(header, ds) := find_header lines None 0%nat in
  match extract_ids (isfloat parse_num) lines [TAB] header ds with
  | RErr e => RErr e
  | ROk (numeric, md_name, metadata, samp_ids) =>
      match data_rows parse_num numeric (skipn ds lines) with
      | RErr e => RErr e
      | ROk rows =>
          ROk (mkE samp_ids (map (fun r => fst (fst r)) rows)
                   (all_triples 0 (map (fun r => snd (fst r)) rows))
                   (if numeric then None else Some (map (fun r => snd r) rows))
                   md_name)
      end
  end.
Proof. exact extract_tsv_through_gen. Qed.
Print Assumptions extract_tsv_is_source_around_data_rows.
