(* C05: a table stays internally coherent after every sequence of operations.
   Statements only; proofs in Proofs/OpsProofs.v over the composed operation model Model/Ops.v. *)
From Coq Require Import List Arith ZArith Bool.
From BiomV Require Import Base.Tree Base.ListUtil Base.Matrix Model.Table Model.Ops Proofs.OpsProofs.
Import ListNotations.

(* "coherent" (Model/Table.v wf): matrix shape = (number of observation ids, number of sample ids),
   ids unique on each axis, metadata - when present - one entry per id. *)

(* Every operation of the alphabet, with ANY arguments, maps a coherent table to a coherent table
   (a refused operation leaves it as it was). *)
Theorem step_coherent : forall t o, wf t -> wf (fst (step t o)).
Proof. exact step_wf. Qed.
Print Assumptions step_coherent.

(* Hence the table is coherent after every finite sequence of operations, of any length. *)
Theorem run_coherent : forall ops t, wf t -> wf (run_ops t ops).
Proof. exact run_wf. Qed.
Print Assumptions run_coherent.

(* ... and so is every intermediate state. *)
Theorem every_state_coherent : forall ops t, wf t -> Forall (fun ct => wf (snd ct)) (trace t ops).
Proof. exact trace_wf. Qed.
Print Assumptions every_state_coherent.

(* A refused operation (error code <> 0) leaves the table unchanged. *)
Theorem refused_unchanged : forall t o, snd (step t o) <> 0%Z -> fst (step t o) = t.
Proof. exact step_refused_unchanged. Qed.
Print Assumptions refused_unchanged.

(* In a coherent table, looking up an id returns its current position, and exactly the ids that
   are not on the axis are unknown. *)
Theorem lookup_returns_position : forall a t, wf t ->
  (forall i, i < length (ids a t) -> index_of_id a t (nth i (ids a t) 0%Z) = Some i) /\
  (forall x k, index_of_id a t x = Some k -> nth k (ids a t) 0%Z = x /\ k < length (ids a t)) /\
  (forall x, index_of_id a t x = None <-> ~ In x (ids a t)).
Proof. exact lookup_total. Qed.
Print Assumptions lookup_returns_position.

(* non-vacuity: a coherent 2x3 table, a sequence that filters, transposes, renames and refuses *)
Definition ex_t : table := mkT [10;20]%Z [1;2;3]%Z [[5;0;7];[0;0;2]]%Z (Some [I 1; I 2]%Z) None 1%Z.
Example ex_wf : wf ex_t. Proof. apply wfb_wf. vm_compute. reflexivity. Qed.
Example ex_run :
  let ops := [OFilterIds [3;1]%Z false Samp; OTranspose; OUpdateIds [(1,9);(3,9)]%Z Obs true false;
              ORemoveEmpty 2%Z] in
  map fst (trace ex_t ops) = [0;0;1;0]%Z /\
  run_ops ex_t ops = mkT [1;3]%Z [10;20]%Z [[5;0];[7;2]]%Z None (Some [I 1; I 2]%Z) 0%Z.
Proof. vm_compute. split; reflexivity. Qed.
