(* C05: a table stays internally coherent after every sequence of operations.
   Statements only; proofs in Proofs/OpsProofs.v over the composed operation model Model/Ops.v. *)
From Coq Require Import List Arith ZArith Bool.
From BiomV Require Import Base.Tree Base.ListUtil Base.Matrix Model.Table Model.Ops Proofs.OpsProofs.
From BiomV Require Import Model.Sparse Model.Summary Proofs.SummaryProofs.
Import ListNotations.

(* "coherent" (Model/Table.v wf): matrix shape = (number of observation ids, number of sample ids),
   ids unique on each axis, metadata - when present - one entry per id. *)

(* Every operation of the alphabet, with ANY arguments, maps a coherent table to a coherent table
   (a refused operation leaves it as it was). *)
Theorem step_coherent : forall t o, wf t -> wf (fst (step t o)).
Proof. exact step_wf. Qed.
Print Assumptions step_coherent.

(* Hence the table is coherent after every finite sequence of operations, of any length. *)
Theorem run_coherent : forall ops t, wf t -> wf (run_ops t ops).
Proof. exact run_wf. Qed.
Print Assumptions run_coherent.

(* ... and so is every intermediate state. *)
Theorem every_state_coherent : forall ops t, wf t -> Forall (fun ct => wf (snd ct)) (trace t ops).
Proof. exact trace_wf. Qed.
Print Assumptions every_state_coherent.

(* A refused operation (error code <> 0) leaves the table unchanged. *)
Theorem refused_unchanged : forall t o, snd (step t o) <> 0%Z -> fst (step t o) = t.
Proof. exact step_refused_unchanged. Qed.
Print Assumptions refused_unchanged.

(* In a coherent table, looking up an id returns its current position, and exactly the ids that
   are not on the axis are unknown. *)
Theorem lookup_returns_position : forall a t, wf t ->
  (forall i, i < length (ids a t) -> index_of_id a t (nth i (ids a t) 0%Z) = Some i) /\
  (forall x k, index_of_id a t x = Some k -> nth k (ids a t) 0%Z = x /\ k < length (ids a t)) /\
  (forall x, index_of_id a t x = None <-> ~ In x (ids a t)).
Proof. exact lookup_total. Qed.
Print Assumptions lookup_returns_position.

(* Every accessor reports the same underlying matrix.  [rt] is a table as the code holds it
   (Model/Summary.v: ids, format CSR|CSC, stored entries per vector in stored order - unsorted
   indices and explicitly stored zeros allowed), [dense rt] the matrix it denotes.  Per-id vectors /
   iteration, sums (whole and per axis), the non-zero count and the density are computed by the
   model's code path from the representation and equal the figures of the dense matrix for EVERY
   well-formed representation; the non-zero listing agrees when no zero is explicitly stored
   (which every public route now guarantees, see F8a/F8c).  These are C19's lemmas, bundled. *)
Theorem accessors_report_the_matrix : forall rt, wf_r rt ->
  r_vectors Obs rt = dense rt /\ r_vectors Samp rt = transpose (r_nsamp rt) (dense rt) /\
  r_sum_whole rt = msum (dense rt) /\ r_sum Obs rt = row_sums (dense rt) /\
  r_sum Samp rt = col_sums (r_nsamp rt) (dense rt) /\
  r_nnz rt = count_nonzero (dense rt) /\
  (nz_segs (r_segs rt) ->
     (forall o s, In (o, s) (r_nonzero rt) <-> exists v, cell (content_of rt) o s = Some v /\ v <> 0%Z) /\
     length (r_nonzero rt) = count_nonzero (dense rt)).
Proof.
  intros rt W. destruct (vectors_agree rt W) as [A B]. destruct (sum_agree rt W) as (C & D & E).
  split; [exact A|]. split; [exact B|]. split; [exact C|]. split; [exact D|]. split; [exact E|].
  split; [apply nnz_agree; exact W|]. intros N.
  split; [apply nonzero_members|apply nonzero_length]; assumption.
Qed.
Print Assumptions accessors_report_the_matrix.

(* non-vacuity: a coherent 2x3 table, a sequence that filters, transposes, renames and refuses *)
Definition ex_t : table := mkT [10;20]%Z [1;2;3]%Z [[5;0;7];[0;0;2]]%Z (Some [I 1; I 2]%Z) None 1%Z.
Example ex_wf : wf ex_t. Proof. apply wfb_wf. vm_compute. reflexivity. Qed.
Example ex_run :
  let ops := [OFilterIds [3;1]%Z false Samp; OTranspose; OUpdateIds [(1,9);(3,9)]%Z Obs true false;
              ORemoveEmpty 2%Z] in
  map fst (trace ex_t ops) = [0;0;1;0]%Z /\
  run_ops ex_t ops = mkT [1;3]%Z [10;20]%Z [[5;0];[7;2]]%Z None (Some [I 1; I 2]%Z) 0%Z.
Proof. vm_compute. split; reflexivity. Qed.
