(* C02: the BIOM 1.0 JSON writer emits well-formed JSON that reads back exactly.
   Model: Model/Json.v (Table.to_json, Table.from_json and the constructor they use, what
   json.dumps writes for a string, what the JSON scanner reads).  Proofs: Proofs/JsonProofs.v,
   Proofs/JsonTextProofs.v.  Matrix values are integer codes of doubles (any injective coding
   with 0.0 -> 0); a string is the list of its code points. *)
From Coq Require Import String.
From Coq Require Import List Arith ZArith Bool Permutation.
From BiomV Require Import Base.Tree Base.ListUtil Base.Matrix Model.Table Model.Json.
From BiomV Require Import Proofs.JsonProofs Proofs.JsonTextProofs.
Import ListNotations.
Open Scope Z_scope.

(* --- matrix values: no value is rounded, truncated or dropped --- *)

(* the sparse entries the writer emits (row-major, the cells that are not zero) rebuild the
   matrix exactly when read as COO entries of that shape; every rectangular matrix, all-zero
   rows, columns and matrices included *)
Theorem triples_roundtrip : forall nc m,
  rect nc m -> dense_of_triples (length m) nc (triples m) = m.
Proof. exact JsonProofs.triples_roundtrip. Qed.
Print Assumptions triples_roundtrip.

Example triples_roundtrip_witness :
  rect 3 [[0; 5; 0]; [0; 0; 0]; [-7; 0; 9]]
  /\ triples [[0; 5; 0]; [0; 0; 0]; [-7; 0; 9]] = [(0%nat, 1%nat, 5); (2%nat, 0%nat, -7); (2%nat, 2%nat, 9)].
Proof. split; [repeat constructor|reflexivity]. Qed.

(* nothing but zeros is left out, and no zero is written *)
Theorem triples_nonzero : forall m, Forall (fun t => snd t <> 0) (triples m).
Proof. exact JsonProofs.triples_nonzero. Qed.
Print Assumptions triples_nonzero.

(* --- the document: IDs in order, metadata, type, generated-by, date, matrix --- *)

(* reading back the tree the writer produces gives the table it was written from, for every
   well-formed table, tables with an empty axis included.  canon_jt only identifies "no
   metadata" with "every entry empty", which no reader can tell apart *)
Theorem json_tree_roundtrip : forall c tid,
  wfj c -> from_json (to_json_tree c tid) = ROk (canon_jt c).
Proof. exact JsonProofs.json_tree_roundtrip. Qed.
Print Assumptions json_tree_roundtrip.

Theorem json_tree_roundtrip_normal : forall c tid,
  wfj c -> md_normal (j_omd c) -> md_normal (j_smd c) ->
  from_json (to_json_tree c tid) = ROk c.
Proof. exact JsonProofs.json_tree_roundtrip_normal. Qed.
Print Assumptions json_tree_roundtrip_normal.

Example json_tree_roundtrip_witness :
  wfj witness_table /\ md_normal (j_omd witness_table) /\ md_normal (j_smd witness_table).
Proof. exact JsonProofs.witness_table_ok. Qed.

(* a 0 x 2 and a 2 x 0 table meet the hypothesis too *)
Example json_tree_roundtrip_empty_axis_witness : wfj empty_obs_table /\ wfj empty_samp_table.
Proof. exact JsonProofs.empty_axis_tables_ok. Qed.

(* --- streamed writer = string writer --- *)

(* the two code paths emit their keys in different orders; they emit the same twelve keys,
   each once, with the same value under every key, and read back to the same table *)
Theorem direct_io_same_doc : forall c tid,
  Permutation (to_json_fields_direct c tid) (to_json_fields c tid)
  /\ NoDup (map fst (to_json_fields c tid)) /\ NoDup (map fst (to_json_fields_direct c tid))
  /\ (forall k, jget (to_json_fields_direct c tid) k = jget (to_json_fields c tid) k)
  /\ from_json (to_json_tree_direct c tid) = from_json (to_json_tree c tid).
Proof. exact JsonProofs.direct_io_same_doc. Qed.
Print Assumptions direct_io_same_doc.

Theorem direct_io_key_order_differs : forall c tid,
  map fst (to_json_fields_direct c tid) <> map fst (to_json_fields c tid).
Proof. intros c tid. discriminate. Qed.
Print Assumptions direct_io_key_order_differs.

(* --- text: well-formed whatever characters occur --- *)

(* what dumps writes for a string is a literal the JSON scanner reads back as exactly that
   string: table id, generated_by, type, every ID (metadata goes through the same encoder) *)
Theorem string_literal_roundtrip : forall s rest,
  Forall scalar s -> lex_string (dumps_str s ++ rest) = Some (s, rest).
Proof. exact JsonTextProofs.string_literal_roundtrip. Qed.
Print Assumptions string_literal_roundtrip.

Example string_literal_roundtrip_witness :
  Forall scalar [34; 92; 0; 31; 127; 233; 8232; 55295; 57344; 65535; 65536; 119070; 1114111]
  /\ dumps_str [34; 92; 10; 233; 119070] = K """\""\\\n\u00e9\ud834\udd1e""".
Proof. exact JsonTextProofs.string_literal_witness. Qed.

(* the hypothesis is needed: lone surrogates are not text *)
Theorem string_literal_lone_surrogates_refuted :
  exists s, ~ Forall scalar s /\ lex_string (dumps_str s) <> Some (s, []).
Proof. exact JsonTextProofs.string_literal_lone_surrogates_refuted. Qed.
Print Assumptions string_literal_lone_surrogates_refuted.

(* raw interpolation '"%s"' is safe for exactly the strings without quote, backslash and
   control characters *)
Theorem raw_literal_iff : forall s rest,
  lex_string (raw_literal s ++ rest) = Some (s, rest) <-> Forall clean s.
Proof. exact JsonTextProofs.raw_literal_iff. Qed.
Print Assumptions raw_literal_iff.

Theorem raw_quote_refuted : exists s rest, lex_string (raw_literal s ++ rest) <> Some (s, rest).
Proof. exact JsonTextProofs.raw_quote_refuted. Qed.
Print Assumptions raw_quote_refuted.

(* the interpolations that are still raw are safe: the two format constants ... *)
Theorem format_constants_raw_safe : forall rest,
  lex_string (raw_literal FORMAT_1_0 ++ rest) = Some (FORMAT_1_0, rest)
  /\ lex_string (raw_literal FORMAT_URL ++ rest) = Some (FORMAT_URL, rest).
Proof. exact JsonTextProofs.format_constants_raw_safe. Qed.
Print Assumptions format_constants_raw_safe.

(* ... and the creation date, whose alphabet is that of datetime.isoformat *)
Theorem isoformat_raw_safe : forall s rest,
  Forall (fun c => In c DATE_ALPHABET) s -> lex_string (raw_literal s ++ rest) = Some (s, rest).
Proof. exact JsonTextProofs.isoformat_raw_safe. Qed.
Print Assumptions isoformat_raw_safe.
