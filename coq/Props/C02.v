(* C02: the BIOM 1.0 JSON writer emits well-formed JSON that reads back exactly.
   Model: Model/Json.v (Table.to_json, Table.from_json and the constructor they use, what
   json.dumps writes for a string, what the JSON scanner reads), Model/JsonText.v (the characters
   to_json concatenates, a reader of JSON text).  Proofs: Proofs/JsonProofs.v,
   Proofs/JsonTextProofs.v, Proofs/JsonDocProofs.v.  Matrix values are integer codes of doubles (any injective coding
   with 0.0 -> 0); a string is the list of its code points. *)
From Coq Require Import String.
From Coq Require Import List Arith ZArith Bool Permutation.
From BiomV Require Import Base.Tree Base.ListUtil Base.Matrix Model.Table Model.Json Model.JsonText.
From BiomV Require Import Proofs.JsonProofs Proofs.JsonTextProofs Proofs.JsonDocProofs.
From BiomV Require Import Gen.JsonPrelude Gen.JsonGen Proofs.GenBridgeJsonProofs.
Import ListNotations.
Open Scope Z_scope.

(* --- matrix values: no value is rounded, truncated or dropped --- *)

(* the sparse entries the writer emits (row-major, the cells that are not zero) rebuild the
   matrix exactly when read as COO entries of that shape; every rectangular matrix, all-zero
   rows, columns and matrices included *)
Theorem triples_roundtrip : forall nc m,
  rect nc m -> dense_of_triples (length m) nc (triples m) = m.
Proof. exact JsonProofs.triples_roundtrip. Qed.
Print Assumptions triples_roundtrip.

Example triples_roundtrip_witness :
  rect 3 [[0; 5; 0]; [0; 0; 0]; [-7; 0; 9]]
  /\ triples [[0; 5; 0]; [0; 0; 0]; [-7; 0; 9]] = [(0%nat, 1%nat, 5); (2%nat, 0%nat, -7); (2%nat, 2%nat, 9)].
Proof. split; [repeat constructor|reflexivity]. Qed.

(* nothing but zeros is left out, and no zero is written *)
Theorem triples_nonzero : forall m, Forall (fun t => snd t <> 0) (triples m).
Proof. exact JsonProofs.triples_nonzero. Qed.
Print Assumptions triples_nonzero.

(* --- the document: IDs in order, metadata, type, generated-by, date, matrix --- *)

(* reading back the tree the writer produces gives the table it was written from, for every
   well-formed table, tables with an empty axis included.  canon_jt only identifies "no
   metadata" with "every entry empty", which no reader can tell apart *)
Theorem json_tree_roundtrip : forall c tid,
  wfj c -> from_json (to_json_tree c tid) = ROk (canon_jt c).
Proof. exact JsonProofs.json_tree_roundtrip. Qed.
Print Assumptions json_tree_roundtrip.

Theorem json_tree_roundtrip_normal : forall c tid,
  wfj c -> md_normal (j_omd c) -> md_normal (j_smd c) ->
  from_json (to_json_tree c tid) = ROk c.
Proof. exact JsonProofs.json_tree_roundtrip_normal. Qed.
Print Assumptions json_tree_roundtrip_normal.

Example json_tree_roundtrip_witness :
  wfj witness_table /\ md_normal (j_omd witness_table) /\ md_normal (j_smd witness_table).
Proof. exact JsonProofs.witness_table_ok. Qed.

(* a 0 x 2 and a 2 x 0 table meet the hypothesis too *)
Example json_tree_roundtrip_empty_axis_witness : wfj empty_obs_table /\ wfj empty_samp_table.
Proof. exact JsonProofs.empty_axis_tables_ok. Qed.

(* --- streamed writer = string writer --- *)

(* the two code paths emit their keys in different orders; they emit the same twelve keys,
   each once, with the same value under every key, and read back to the same table *)
Theorem direct_io_same_doc : forall c tid,
  Permutation (to_json_fields_direct c tid) (to_json_fields c tid)
  /\ NoDup (map fst (to_json_fields c tid)) /\ NoDup (map fst (to_json_fields_direct c tid))
  /\ (forall k, jget (to_json_fields_direct c tid) k = jget (to_json_fields c tid) k)
  /\ from_json (to_json_tree_direct c tid) = from_json (to_json_tree c tid).
Proof. exact JsonProofs.direct_io_same_doc. Qed.
Print Assumptions direct_io_same_doc.

Theorem direct_io_key_order_differs : forall c tid,
  map fst (to_json_fields_direct c tid) <> map fst (to_json_fields c tid).
Proof. intros c tid. discriminate. Qed.
Print Assumptions direct_io_key_order_differs.

(* --- text: well-formed whatever characters occur --- *)

(* what dumps writes for a string is a literal the JSON scanner reads back as exactly that
   string: table id, generated_by, type, every ID (metadata goes through the same encoder) *)
Theorem string_literal_roundtrip : forall s rest,
  Forall scalar s -> lex_string (dumps_str s ++ rest) = Some (s, rest).
Proof. exact JsonTextProofs.string_literal_roundtrip. Qed.
Print Assumptions string_literal_roundtrip.

Example string_literal_roundtrip_witness :
  Forall scalar [34; 92; 0; 31; 127; 233; 8232; 55295; 57344; 65535; 65536; 119070; 1114111]
  /\ dumps_str [34; 92; 10; 233; 119070] = K """\""\\\n\u00e9\ud834\udd1e""".
Proof. exact JsonTextProofs.string_literal_witness. Qed.

(* the hypothesis is needed: lone surrogates are not text *)
Theorem string_literal_lone_surrogates_refuted :
  exists s, ~ Forall scalar s /\ lex_string (dumps_str s) <> Some (s, []).
Proof. exact JsonTextProofs.string_literal_lone_surrogates_refuted. Qed.
Print Assumptions string_literal_lone_surrogates_refuted.

(* raw interpolation '"%s"' is safe for exactly the strings without quote, backslash and
   control characters *)
Theorem raw_literal_iff : forall s rest,
  lex_string (raw_literal s ++ rest) = Some (s, rest) <-> Forall clean s.
Proof. exact JsonTextProofs.raw_literal_iff. Qed.
Print Assumptions raw_literal_iff.

Theorem raw_quote_refuted : exists s rest, lex_string (raw_literal s ++ rest) <> Some (s, rest).
Proof. exact JsonTextProofs.raw_quote_refuted. Qed.
Print Assumptions raw_quote_refuted.

(* the interpolations that are still raw are safe: the two format constants ... *)
Theorem format_constants_raw_safe : forall rest,
  lex_string (raw_literal FORMAT_1_0 ++ rest) = Some (FORMAT_1_0, rest)
  /\ lex_string (raw_literal FORMAT_URL ++ rest) = Some (FORMAT_URL, rest).
Proof. exact JsonTextProofs.format_constants_raw_safe. Qed.
Print Assumptions format_constants_raw_safe.

(* ... and the creation date, whose alphabet is that of datetime.isoformat *)
Theorem isoformat_raw_safe : forall s rest,
  Forall (fun c => In c DATE_ALPHABET) s -> lex_string (raw_literal s ++ rest) = Some (s, rest).
Proof. exact JsonTextProofs.isoformat_raw_safe. Qed.
Print Assumptions isoformat_raw_safe.

(* --- the whole document, character level --- *)

(* The characters Table.to_json concatenates (Model/JsonText.v to_json_text: braces, the twelve
   '"key": value' fields, the comma logic of the data loop with its have_written flag, the
   records of both axes, '%d' numbers) read back, with the JSON reader of Model/JsonText.v, as
   exactly to_json_tree; so the text is well-formed JSON whatever the table holds.
   Oracles, as hypotheses (never axioms):
     fmt_contract: for every matrix value v of the table, fmt v (= repr(float)) is non-empty,
       made of the characters 0-9 + - . e E, is not an integer literal, and scan_float (= float())
       of it is v;
     md_contract: for every metadata value j of the table, what dumps writes for j reads back
       as j (given md_fuel j of fuel), whatever delimiter follows.
   text_ok: table id, generated_by, type and IDs are strings of Unicode scalar values, the date
   has no quote, backslash or control character, metadata lists have the length of their axis.
   f is the fuel of the reader; doc_fuel is linear in the size of the table. *)
Theorem json_text_roundtrip : forall fmt scan_float dumps_md md_fuel ovals omds,
  fmt_contract fmt scan_float ovals -> md_contract scan_float dumps_md md_fuel omds ->
  forall c tid f rest, text_ok ovals omds c tid -> (doc_fuel md_fuel c <= f)%nat ->
  parse_value scan_float f (to_json_text fmt dumps_md c tid ++ rest) = Some (to_json_tree c tid, rest).
Proof. exact JsonDocProofs.json_text_roundtrip. Qed.
Print Assumptions json_text_roundtrip.

Theorem json_text_parses : forall fmt scan_float dumps_md md_fuel ovals omds,
  fmt_contract fmt scan_float ovals -> md_contract scan_float dumps_md md_fuel omds ->
  forall c tid f, text_ok ovals omds c tid -> (doc_fuel md_fuel c <= f)%nat ->
  parse_json scan_float f (to_json_text fmt dumps_md c tid) = Some (to_json_tree c tid).
Proof. exact JsonDocProofs.json_text_parses. Qed.
Print Assumptions json_text_parses.

(* all hypotheses at once on a 1 x 2 table whose non-zero value prints as "1.5" *)
Example json_text_roundtrip_witness :
  fmt_contract ex_fmt ex_scan [96] /\ md_contract ex_scan ex_dumps ex_fuel [JNull]
  /\ text_ok [96] [JNull] ex_table (K "None").
Proof. exact JsonDocProofs.ex_contracts. Qed.

(* the comma logic of the observation loop, on its own: whatever rows are empty, the body of
   "data" is the entries separated by single commas *)
Theorem data_rows_commas : forall fmt m,
  data_rows fmt 0 m false = match map (triple_text fmt) (triples m) with
                            | [] => []
                            | x :: t => x ++ cjoin t
                            end.
Proof. intros fmt m. exact (proj2 (JsonDocProofs.data_rows_spec fmt m 0%nat)). Qed.
Print Assumptions data_rows_commas.

(* --- translator tie (DESIGN 3.1 T16): Table.to_json regenerated from biom/table.py --- *)

(* Gen/JsonGen.v gen_to_json is what tools/py2v_json makes of Table.to_json (the returned-string
   path, direct_io falsy) on every run.  It returns exactly the characters of the hand-written
   text model to_json_text, for every table that satisfies what the constructor establishes: one
   matrix row per observation ID and metadata lists as long as their axis.  generated_by and the
   date are the strings the model keeps in j_genby / j_date. *)
Theorem to_json_text_is_source_partial : forall fmt dumps_md c tid now,
  length (j_mat c) = length (j_oids c) ->
  md_len (j_omd c) (length (j_oids c)) -> md_len (j_smd c) (length (j_sids c)) ->
  gen_to_json fmt dumps_md c tid now (str_of_json (j_genby c)) (Some (str_of_json (j_date c)))
  = ROk (to_json_text fmt dumps_md c tid).
Proof. exact GenBridgeJsonProofs.to_json_text_is_source_partial. Qed.
Print Assumptions to_json_text_is_source_partial.

Example to_json_text_is_source_partial_witness :
  length (j_mat ex_table) = length (j_oids ex_table)
  /\ md_len (j_omd ex_table) (length (j_oids ex_table)) /\ md_len (j_smd ex_table) (length (j_sids ex_table)).
Proof. exact GenBridgeJsonProofs.to_json_text_is_source_partial_witness. Qed.

(* without creation_date the date written is the isoformat of datetime.now() *)
Theorem to_json_default_date_is_source : forall fmt dumps_md c tid now g,
  gen_to_json fmt dumps_md c tid now g None = gen_to_json fmt dumps_md c tid now g (Some now).
Proof. exact GenBridgeJsonProofs.to_json_default_date_is_source. Qed.
Print Assumptions to_json_default_date_is_source.

(* the streamed variant gen_to_json_direct is regenerated as well; no bridge for all tables yet.
   On the witness table its text reads back as the hand-written streamed tree, key order included *)
Example to_json_direct_witness :
  match gen_to_json_direct ex_fmt ex_dumps ex_table (K "None") (K "x") (str_of_json (j_genby ex_table))
              (Some (str_of_json (j_date ex_table))) with
  | ROk t => parse_json ex_scan 40 t = Some (to_json_tree_direct ex_table (K "None"))
  | RErr _ => False
  end.
Proof. exact GenBridgeJsonProofs.gen_direct_ex_table. Qed.
