(* C07: non-in-place operations never modify their inputs; in-place is equivalent.   [PARTIAL]
   Part (a): content-level theorems about the `self if inplace else self.copy()` pattern, for all tables.
   Part (b): theorems about hand-written effect signatures (Model/Effects.v), proved by evaluating a
   boolean check over the WHOLE finite domain  21 operations x 2 layout kinds x 3888 flag vectors
   (inplace x axis{obs,samp,whole} x receiver metadata{none,flat,nested}^2 x argument metadata^2 x 3 booleans)
   with vm_compute, lifted to a universally quantified statement with forallb_forall.
   Why partial: the signatures are a hand abstraction of CPython object identity; what ties them to
   biom/table.py is the C07 correspondence run (np.shares_memory / `is` on the real objects), not a proof.
   Statements only; proofs are in Proofs/InplaceProofs.v and Proofs/EffectsProofs.v. *)
From Coq Require Import List Arith ZArith Bool.
From BiomV Require Import Base.Tree Base.ListUtil Base.Matrix Model.Table Model.Orient Model.Filter Model.Reorder
  Model.Inplace Model.Effects Proofs.ReorderProofs Proofs.InplaceProofs Proofs.EffectsProofs.
Import ListNotations.

(* ================= (a) content level, every table, every content operation ================= *)
(* [normal t]: the metadata of t is constructor-normal (Model/Reorder.v; ctor_md md = md). Every table
   the library can produce is (repair 16e406b1 made _cast_metadata and filter normalise like the
   constructor) and the operations keep it ([call_keeps_normal], C06 [*_keeps_normal]): an invariant
   of reachable states. self.copy() goes through the constructor, so on a non-normal table - not
   reachable any more - the two variants would differ in None versus empty dicts
   ([ex_nonnormal_state_differs]). *)
(* The content a caller holds after the in-place variant (the receiver) equals the content the
   non-in-place variant returns; an exception is the same exception. *)
Theorem inplace_equiv : forall (core : table -> result table) t,
  normal t -> result_content (call true core t) = result_content (call false core t).
Proof. exact call_equiv. Qed.
Print Assumptions inplace_equiv.

(* without the invariant: the non-in-place variant is the in-place variant applied to the copy *)
Theorem noninplace_is_inplace_on_copy : forall (core : table -> result table) t,
  result_content (call false core t) = result_content (call true core (copy t)).
Proof. exact call_new_is_inplace_on_copy. Qed.
Print Assumptions noninplace_is_inplace_on_copy.

Theorem call_keeps_normal : forall inplace core t,
  (forall x x', normal x -> core x = ROk x' -> normal x') -> normal t ->
  normal (recv_after (call inplace core t)) /\
  (forall t', result_content (call inplace core t) = ROk t' -> normal t').
Proof. exact call_normal. Qed.
Print Assumptions call_keeps_normal.

(* the in-place variant returns the receiver itself, which then holds the new content *)
Theorem inplace_returns_receiver : forall core t t',
  core t = ROk t' -> call true core t = mkO t' RSelf.
Proof. exact call_inplace_self. Qed.
Print Assumptions inplace_returns_receiver.

(* a refused in-place call leaves the receiver as it was *)
Theorem inplace_refused_keeps_receiver : forall core t c,
  core t = RErr c -> call true core t = mkO t (RRaise c).
Proof. exact call_inplace_refused. Qed.
Print Assumptions inplace_refused_keeps_receiver.

(* the non-in-place variant leaves the receiver's content unchanged and never returns the receiver *)
Theorem noninplace_keeps_receiver : forall core t,
  recv_after (call false core t) = t /\ returned (call false core t) <> RSelf.
Proof. exact call_new_keeps. Qed.
Print Assumptions noninplace_keeps_receiver.

Theorem copy_content : forall t, normal t -> copy t = t.
Proof. exact copy_id. Qed.
Print Assumptions copy_content.

(* the operations with an inplace flag *)
Theorem filter_inplace_equiv : forall keep invert a t, normal t ->
  result_content (filter_call keep invert a true t) = result_content (filter_call keep invert a false t).
Proof. intros. apply call_equiv. assumption. Qed.
Print Assumptions filter_inplace_equiv.

Theorem filter_pred_inplace_equiv : forall verdicts invert a t, normal t ->
  result_content (filter_pred_call verdicts invert a true t) = result_content (filter_pred_call verdicts invert a false t).
Proof. intros. apply call_equiv. assumption. Qed.
Print Assumptions filter_pred_inplace_equiv.

Theorem remove_empty_inplace_equiv : forall axis3 t, normal t ->
  result_content (remove_empty_call axis3 true t) = result_content (remove_empty_call axis3 false t).
Proof. intros. apply call_equiv. assumption. Qed.
Print Assumptions remove_empty_inplace_equiv.

(* transform, norm, pa, rankdata: for EVERY content function g the kernel may compute *)
Theorem transform_inplace_equiv : forall (g : table -> table) t, normal t ->
  result_content (transform_call g true t) = result_content (transform_call g false t).
Proof. intros. apply call_equiv. assumption. Qed.
Print Assumptions transform_inplace_equiv.

(* update_ids: its two branches differ in the code (duplicates refused before touching the receiver /
   by errcheck on the copy); same outcome on every input, and the shape of the outcome *)
Theorem update_ids_inplace_equiv : forall m a strict t, normal t ->
  result_content (update_ids_call m a strict true t) = result_content (update_ids_call m a strict false t).
Proof. exact update_ids_call_equiv. Qed.
Print Assumptions update_ids_inplace_equiv.

Theorem update_ids_outcome : forall m a strict inplace t,
  (forall t', update_ids m a strict inplace t = ROk t' ->
     update_ids_call m a strict inplace t = if inplace then mkO t' RSelf else mkO t (RNew t')) /\
  (forall c, update_ids m a strict inplace t = RErr c -> update_ids_call m a strict inplace t = mkO t (RRaise c)).
Proof. exact update_ids_call_shape. Qed.
Print Assumptions update_ids_outcome.

(* ================= (b) effect signatures, whole finite domain ================= *)
(* No call that does not work in place (inplace=False, or an operation documented to return a new
   table) writes into an object reachable from the receiver or an argument table, nor re-assigns
   one of their attributes. Domain: all 21 x 2 x 3888 calls. *)
Theorem noninplace_pure : forall o lk fl,
  in_place o fl = false ->
  (forall l, In l (written (eff o lk fl)) -> is_input (fst l) = false) /\
  (forall l, In l (assigned (eff o lk fl)) -> is_input (fst l) = false).
Proof. exact noninplace_pure_all. Qed.
Print Assumptions noninplace_pure.

(* "mutable" = the components some operation writes in place: the matrix and the metadata dicts *)
Theorem mutable_components : mutable_comps = [M; DictO; DictS].
Proof. exact mutable_comps_value. Qed.
Print Assumptions mutable_components.

(* No mutable component of the result of such a call is (or views, or holds objects of) a
   component of the receiver or of an argument: later in-place operations on the result cannot
   show through. Domain: all 21 x 2 x 3888 calls. *)
Theorem result_separate : forall o lk fl,
  in_place o fl = false ->
  forall c, In c mutable_comps -> forall r, In r (roots FUEL (eff o lk fl) (Res, c)) -> is_input (fst r) = false.
Proof. exact result_separate_all. Qed.
Print Assumptions result_separate.

(* No operation ever writes into an id array or into a value nested in a metadata dict (they are
   replaced, never modified): this is what makes the id-array views and the shallow metadata copies
   that sort_order, transpose, partition, collapse, align_to, merge and concat hand out harmless for
   every operation of the Table API. Domain: all calls, in place or not. *)
Theorem id_arrays_never_written : forall o lk fl l,
  In l (written (eff o lk fl)) -> never_written (snd l) = false.
Proof. exact ids_never_written_all. Qed.
Print Assumptions id_arrays_never_written.

(* No call, in place or not, writes into or re-assigns anything of an ARGUMENT table. *)
Theorem argument_never_touched : forall o lk fl,
  (forall l, In l (written (eff o lk fl)) -> fst l <> Arg) /\ (forall l, In l (assigned (eff o lk fl)) -> fst l <> Arg).
Proof. exact arg_untouched_all. Qed.
Print Assumptions argument_never_touched.

(* [roots] is exact where it is used: from a result component or a write target every Share chain
   ends within FUEL steps *)
Theorem share_chains_resolved : forall o lk fl l,
  (exists c, l = (Res, c)) \/ In (Write l) (eff o lk fl) ->
  forall r, In r (roots FUEL (eff o lk fl) l) -> sources (eff o lk fl) r = [].
Proof. exact chains_resolved_all. Qed.
Print Assumptions share_chains_resolved.

(* ---- non-vacuity ---- *)
Definition ex_t : table :=
  mkT [10;20;30]%Z [1;2;3;4]%Z [[5;0;0;7];[0;0;0;0];[0;2;0;9]]%Z (Some [I 1; I 2; I 3]%Z) None 1%Z.
Example ex_normal : wf ex_t /\ normal ex_t.
Proof. split; [apply wfb_wf; vm_compute; reflexivity|split; vm_compute; reflexivity]. Qed.
Example ex_filter_call :
  filter_call [30;10]%Z false Obs true ex_t = mkO (filter_table [true;false;true] Obs ex_t) RSelf /\
  filter_call [30;10]%Z false Obs false ex_t = mkO ex_t (RNew (filter_table [true;false;true] Obs ex_t)) /\
  filter_call [99]%Z false Obs true ex_t = mkO ex_t (RRaise E_KEY).
Proof. vm_compute. repeat split. Qed.
(* a state that is not constructor-normal (metadata = all-empty dicts; unreachable since 16e406b1):
   the in-place update_ids keeps the tuple of empty dicts, the copying variant returns None *)
Definition ex_bad : table := mkT [10]%Z [1;2]%Z [[1;2]]%Z None (Some [md_empty; md_empty]) 0%Z.
Example ex_nonnormal_state_differs :
  wf ex_bad /\ ~ normal ex_bad /\
  result_content (update_ids_call [(1, 5)]%Z Samp false true ex_bad) <>
  result_content (update_ids_call [(1, 5)]%Z Samp false false ex_bad).
Proof.
  split; [apply wfb_wf; vm_compute; reflexivity|]. split.
  - intros [_ H]. vm_compute in H. discriminate.
  - vm_compute. discriminate.
Qed.
Example ex_update_ids_call :
  update_ids_call [(10, 20)]%Z Obs false true ex_t = mkO ex_t (RRaise E_TABLE) /\
  returned (update_ids_call [(10, 11)]%Z Obs false true ex_t) = RSelf /\
  oids (recv_after (update_ids_call [(10, 11)]%Z Obs false true ex_t)) = [11;20;30]%Z.
Proof. vm_compute. repeat split. Qed.

Definition ex_fl (inplace : bool) : flags := mkF inplace XSamp MdNested MdFlat MdNone MdNone false false false.
(* a non-in-place transform does write - into the copy's matrix, which here is a converted one *)
Example ex_transform_writes :
  in_place OTransform (ex_fl false) = false /\ written (eff OTransform CSC (ex_fl false)) = [(Work, M)] /\
  in_place OTransform (ex_fl true) = true /\ written (eff OTransform CSC (ex_fl true)) = [(Recv, M)] /\
  written (eff OTransform CSR (ex_fl true)) = [(Work, M)].
Proof. vm_compute. repeat split. Qed.
(* what sort_order shares with its receiver: the other axis' id array and the nested metadata values *)
Example ex_sort_order_aliases :
  aliases (eff OSortOrder CSR (ex_fl false)) = [(IdO, (Recv, IdO)); (ValO, (Recv, ValO))].
Proof. vm_compute. reflexivity. Qed.
(* the checks can fail: a signature of transform that forgets the copy is rejected *)
Example ex_bad_signature_rejected :
  let bad := transform_eff Recv CSC Samp MdNone MdNone in
  forallb (fun l => negb (is_input (fst l))) (written bad) = false.
Proof. vm_compute. reflexivity. Qed.
