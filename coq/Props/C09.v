(* C09: merge is the pointwise sum over the union / intersection of IDs.
   Statements only; proofs are in Proofs/MergeProofs.v.  Vocabulary (Model/Merge.v):
     cell0 t o s          value of a table for an id pair, absent = 0
     cell_sum ts o s      sum of cell0 over a list of operands
     id_set m ax ts x     x is in some (Union) / in every (Inter) operand on axis ax
     md_of ax t i         None when t has no metadata on ax or does not know i, else the stored dict
     md_norm              identifies None and the empty dict ("no metadata for this id")
     md_fold f ax self others i   f applied from left to right to the operands' metadata of i
     total t              sum of all cells *)
From Coq Require Import List Arith ZArith Bool Sorted.
From BiomV Require Import Base.Tree Base.ListUtil Base.Matrix Model.Table Model.Orient Model.Merge Proofs.MergeProofs.
Import ListNotations.

(* ---- the id orders ---- *)
(* union: the receiver's ids in the receiver's order, then the ids only the other has, in its order *)
Theorem union_order_first_appearance : forall a b,
  NoDup a -> NoDup b ->
  union_order a b = a ++ filter (fun x => negb (zmem x a)) b /\
  NoDup (union_order a b) /\ forall x, In x (union_order a b) <-> In x a \/ In x b.
Proof.
  intros a b Ha Hb. split; [apply union_order_char; assumption|].
  split; [apply union_order_NoDup|intros x; apply union_order_In].
Qed.
Print Assumptions union_order_first_appearance.

(* intersection: the common ids in the receiver's order *)
Theorem intersect_order_receiver_order : forall a b,
  intersect_order a b = filter (fun x => zmem x b) a /\
  (NoDup a -> NoDup (intersect_order a b)) /\
  forall x, In x (intersect_order a b) <-> In x a /\ In x b.
Proof.
  intros a b. split; [reflexivity|].
  split; [apply intersect_order_NoDup|intros x; apply intersect_order_In].
Qed.
Print Assumptions intersect_order_receiver_order.

(* ---- one pairwise merge through the general path ---- *)
(* ids per axis are the union order / intersection order; every cell of the result is the sum of the
   operands' values (absent = 0); every id's metadata is f (md self) (md other), where a function that is
   None stands for "no metadata" (f_or_drop); no type; coherent *)
Theorem merge_general_spec : forall a b sm om fs fo r,
  wf a -> wf b -> merge_general a b sm om fs fo = ROk r ->
  order_for sm (sids a) (sids b) = Some (sids r) /\
  order_for om (oids a) (oids b) = Some (oids r) /\
  (forall o s, In o (oids r) -> In s (sids r) -> cell r o s = Some (cell0 a o s + cell0 b o s)%Z) /\
  (forall ax i, In i (ids ax r) ->
     md_norm (md_of ax r i) = md_norm (axis_f ax (f_or_drop fs) (f_or_drop fo) (md_of ax a i) (md_of ax b i))) /\
  ttype r = NOTYPE /\ wf r.
Proof. exact merge_general_spec_proof. Qed.
Print Assumptions merge_general_spec.

(* the refusals of the general path (an axis without ids, an unknown mode), a None function leaves its axis
   without metadata, and nothing else is refused *)
Theorem merge_general_refusals : forall a b sm om fs fo,
  ((sm = Inter /\ (forall x, In x (sids a) -> ~ In x (sids b))) \/
   (om = Inter /\ (forall x, In x (oids a) -> ~ In x (oids b))) \/ sm = BadMode \/ om = BadMode ->
   merge_general a b sm om fs fo = RErr E_TABLE) /\
  (forall r, merge_general a b sm om fs fo = ROk r -> (fs = None -> smd r = None) /\ (fo = None -> omd r = None)) /\
  ((match sm with Union => sids a <> [] \/ sids b <> [] | Inter => exists x, In x (sids a) /\ In x (sids b) | BadMode => False end) ->
   (match om with Union => oids a <> [] \/ oids b <> [] | Inter => exists x, In x (oids a) /\ In x (oids b) | BadMode => False end) ->
     exists r, merge_general a b sm om fs fo = ROk r).
Proof.
  intros a b sm om fs fo. split; [apply merge_general_empty_refused|].
  split; [intros r; apply merge_general_none_md|apply merge_general_succeeds].
Qed.
Print Assumptions merge_general_refusals.

(* union/union: the grand total is the sum of the operands' totals *)
Theorem merge_total : forall a b fs fo r,
  wf a -> wf b -> merge_general a b Union Union fs fo = ROk r -> total r = (total a + total b)%Z.
Proof. exact merge_total_proof. Qed.
Print Assumptions merge_total.

(* ---- the fast path, for any number of operands ---- *)
(* the ids are the sorted union, every cell is the sum over all operands, no metadata, no type *)
Theorem fast_merge_k : forall ts,
  Forall wf ts ->
  let r := fast_merge ts in
  wf r /\ StronglySorted Z.lt (oids r) /\ StronglySorted Z.lt (sids r) /\
  (forall ax x, In x (ids ax r) <-> in_some ax ts x) /\
  (forall o s, In o (oids r) -> In s (sids r) -> cell r o s = Some (cell_sum ts o s)) /\
  omd r = None /\ smd r = None /\ ttype r = NOTYPE.
Proof. exact fast_merge_spec_proof. Qed.
Print Assumptions fast_merge_k.

Theorem fast_merge_total : forall ts, Forall wf ts -> total (fast_merge ts) = zsum (map total ts).
Proof. exact fast_merge_total_proof. Qed.
Print Assumptions fast_merge_total.

(* the two paths agree on id sets, on the cell of every id pair and on the total (for any operands);
   for metadata-free operands and functions that do not create metadata, on the (absent) metadata too *)
Theorem fast_general_agree : forall a b f_s f_o rg,
  wf a -> wf b ->
  merge_general a b Union Union (Some f_s) (Some f_o) = ROk rg ->
  let rf := fast_merge [a; b] in
  (forall ax x, In x (ids ax rf) <-> In x (ids ax rg)) /\
  (forall o s, cell rf o s = cell rg o s) /\
  total rf = total rg /\
  (no_md a = true -> no_md b = true -> f_s None None = None -> f_o None None = None ->
   forall ax x, md_norm (md_of ax rf x) = None /\ md_norm (md_of ax rg x) = None).
Proof. exact fast_general_agree_proof. Qed.
Print Assumptions fast_general_agree.

(* ---- the real entry point: self.merge(others, sample, observation, f_s, f_o) ---- *)
(* whatever path is taken: coherent result, the id sets are the union / intersection over all operands,
   every cell is the sum over all operands, union/union conserves the grand total;
   on the fast path the result has no metadata and either no operand has any or both functions are None;
   otherwise the call is the pairwise fold and, for a single other, the general merge with its order
   and metadata clauses *)
Theorem merge_dispatch_spec : forall self others sm om fs fo r,
  wf self -> Forall wf others -> sm <> BadMode -> om <> BadMode ->
  merge_dispatch self others sm om fs fo = ROk r ->
  let ts := self :: others in
  wf r /\
  (forall x, In x (sids r) <-> id_set sm Samp ts x) /\
  (forall x, In x (oids r) <-> id_set om Obs ts x) /\
  (forall o s, In o (oids r) -> In s (sids r) -> cell r o s = Some (cell_sum ts o s)) /\
  (sm = Union -> om = Union -> total r = zsum (map total ts)) /\
  (fast_ok ts sm om fs fo = true ->
     r = fast_merge ts /\ omd r = None /\ smd r = None /\
     ((forall t, In t ts -> omd t = None /\ smd t = None) \/ (fs = None /\ fo = None))) /\
  (fast_ok ts sm om fs fo = false ->
     fold_left (pair_step sm om fs fo) others (ROk self) = ROk r /\
     forall other, others = [other] ->
         order_for sm (sids self) (sids other) = Some (sids r) /\
         order_for om (oids self) (oids other) = Some (oids r) /\
         forall ax i, In i (ids ax r) ->
           md_norm (md_of ax r i)
           = md_norm (axis_f ax (f_or_drop fs) (f_or_drop fo) (md_of ax self i) (md_of ax other i))).
Proof. exact merge_dispatch_spec_proof. Qed.
Print Assumptions merge_dispatch_spec.

(* metadata through the entry point, list form and every path included: f from left to right over the
   operands' metadata, a function that is None dropping the metadata of its axis.
   Needed of f: it does not tell None from the empty dict and f None None is empty (respects_norm);
   needed of the call: "ignore metadata" (both None) is asked of at least one other table *)
Theorem merge_dispatch_md : forall self others sm om fs fo r,
  wf self -> Forall wf others -> sm <> BadMode -> om <> BadMode ->
  respects_norm (f_or_drop fs) -> respects_norm (f_or_drop fo) ->
  others <> [] \/ ~ (fs = None /\ fo = None) ->
  merge_dispatch self others sm om fs fo = ROk r ->
  forall ax i, In i (ids ax r) ->
    md_norm (md_of ax r i) = md_norm (md_fold (axis_f ax (f_or_drop fs) (f_or_drop fo)) ax self others i).
Proof. exact merge_dispatch_md_proof. Qed.
Print Assumptions merge_dispatch_md.

(* the default policy is the one of the property text: the receiver's metadata if it has any, otherwise
   the other's; it meets the hypotheses of merge_dispatch_md *)
Theorem prefer_self_is_the_text_default :
  (forall x y, prefer_self x y = prefer_self_text x y) /\ respects_norm prefer_self /\ respects_norm drop_md.
Proof. split; [exact prefer_self_text_eq|split; [exact prefer_self_respects|exact drop_md_respects]]. Qed.
Print Assumptions prefer_self_is_the_text_default.

Theorem merge_dispatch_bad_mode_refused : forall self others sm om fs fo,
  sm = BadMode \/ om = BadMode -> others <> [] ->
  merge_dispatch self others sm om fs fo = RErr E_TABLE.
Proof. exact merge_dispatch_bad_mode. Qed.
Print Assumptions merge_dispatch_bad_mode_refused.

(* ---- non-vacuity: concrete operands ---- *)
Definition mdA : Tree := L [I 6; L [L [L [I 103]; L [I 4; L [I 97]]]]]%Z.     (* {'g': 'a'} *)
Definition mdC2 : Tree := L [I 6; L [L [L [I 103]; L [I 4; L [I 99; I 50]]]]]%Z. (* {'g': 'c2'} *)
Definition mdC3 : Tree := L [I 6; L [L [L [I 103]; L [I 4; L [I 99; I 51]]]]]%Z. (* {'g': 'c3'} *)
(* a: o1,o2 x s1,s2, sample metadata for s1 only; b: metadata-free; c: sample metadata for s2,s3 *)
Definition ex_a : table := mkT [10;20]%Z [110;120]%Z [[1;2];[0;-3]]%Z None (Some [mdA; md_empty]) 1%Z.
Definition ex_b : table := mkT [20;30]%Z [130;120]%Z [[5;3];[7;0]]%Z None None 0%Z.
Definition ex_c : table := mkT [10]%Z [120;130]%Z [[4;6]]%Z None (Some [mdC2; mdC3]) 0%Z.

Example ex_wf : wf ex_a /\ wf ex_b /\ wf ex_c.
Proof. repeat split; apply wfb_wf; vm_compute; reflexivity. Qed.

(* union x intersection, 1 + -... : o2/s2 holds -3 + 3 = 0 *)
Example ex_general :
  merge_general ex_a ex_b Inter Union (Some prefer_self) (Some prefer_self)
  = ROk (mkT [10;20;30]%Z [120]%Z [[2];[0];[0]]%Z None None 0%Z)
  /\ merge_general ex_a ex_c Union Union (Some prefer_self) (Some prefer_self)
  = ROk (mkT [10;20]%Z [110;120;130]%Z [[1;6;6];[0;-3;0]]%Z None (Some [mdA; mdC2; mdC3]) 0%Z).
Proof. split; vm_compute; reflexivity. Qed.

Example ex_fast :
  fast_ok [ex_b; ex_b] Union Union (Some prefer_self) (Some prefer_self) = true /\
  fast_ok [ex_a; ex_b] Union Union (Some prefer_self) (Some prefer_self) = false /\
  fast_ok [ex_a; ex_c] Union Union None None = true /\
  fast_merge [ex_a; ex_b; ex_c]
  = mkT [10;20;30]%Z [110;120;130]%Z [[1;6;6];[0;0;5];[0;0;7]]%Z None None 0%Z.
Proof. repeat split; vm_compute; reflexivity. Qed.

(* the list form: a.merge([b, c]); s3 (code 130) is unknown to a, metadata-free in b, described by c *)
Example ex_list :
  merge_dispatch ex_a [ex_b; ex_c] Union Union (Some prefer_self) (Some prefer_self)
  = ROk (mkT [10;20;30]%Z [110;120;130]%Z [[1;6;6];[0;0;5];[0;0;7]]%Z None (Some [mdA; mdC2; mdC3]) 0%Z).
Proof. vm_compute. reflexivity. Qed.

Example ex_refused :
  merge_dispatch ex_a [ex_c] Union Inter (Some prefer_self) (Some prefer_self)
  = ROk (mkT [10]%Z [110;120;130]%Z [[1;6;6]]%Z None (Some [mdA; mdC2; mdC3]) 0%Z) /\
  merge_dispatch ex_b [ex_c] Union Inter (Some prefer_self) (Some prefer_self) = RErr E_TABLE.
Proof. split; vm_compute; reflexivity. Qed.

(* ---- what the statements above exclude, with witnesses ---- *)
(* the default policy before repair c0ec632f (x unless x is None) violated the property text: the receiver
   holds an empty dict for s2, the other table's metadata was not taken *)
Theorem prefer_self_old_refuted :
  exists a b r i,
    wf a /\ wf b /\ merge_general a b Union Union (Some prefer_self_old) (Some prefer_self_old) = ROk r /\
    In i (sids r) /\ md_norm (md_of Samp a i) = None /\ md_norm (md_of Samp b i) <> None /\
    md_norm (md_of Samp r i) = None.
Proof.
  exists ex_a, ex_c. eexists. exists 120%Z.
  split; [apply ex_wf|]. split; [apply ex_wf|]. split; [vm_compute; reflexivity|].
  vm_compute. repeat split; auto; discriminate.
Qed.
Print Assumptions prefer_self_old_refuted.

(* ... and in the list form an id known to the last table only lost its metadata *)
Theorem merge_list_md_old_refuted :
  exists a b c r i,
    wf a /\ wf b /\ wf c /\
    merge_dispatch a [b; c] Union Union (Some prefer_self_old) (Some prefer_self_old) = ROk r /\
    In i (sids r) /\ ~ In i (sids a) /\ md_of Samp b i = None /\ md_norm (md_of Samp c i) <> None /\
    md_norm (md_of Samp r i) = None.
Proof.
  exists ex_a, ex_b, ex_c. eexists. exists 130%Z.
  split; [apply ex_wf|]. split; [apply ex_wf|]. split; [apply ex_wf|]. split; [vm_compute; reflexivity|].
  vm_compute. repeat split; auto; try discriminate. intros [H|[H|[]]]; discriminate.
Qed.
Print Assumptions merge_list_md_old_refuted.

(* merge_dispatch_md needs "f None None is empty": metadata-free operands take the fast path, which never
   calls f, so a function that creates metadata out of nothing is not honoured *)
Theorem fast_path_ignores_creating_f_refuted :
  exists (f : mdf) a b r i,
    wf a /\ wf b /\ merge_dispatch a [b] Union Union (Some f) (Some f) = ROk r /\ In i (sids r) /\
    md_norm (md_of Samp r i) <> md_norm (md_fold f Samp a [b] i).
Proof.
  exists (fun _ _ => Some mdA), ex_b, ex_b. eexists. exists 120%Z.
  split; [apply ex_wf|]. split; [apply ex_wf|]. split; [vm_compute; reflexivity|].
  vm_compute. split; [auto|discriminate].
Qed.
Print Assumptions fast_path_ignores_creating_f_refuted.

(* passing None for the functions ("ignore metadata") works on every path (repair b9a3d3e4; before it the
   general path called None: TypeError) *)
Example ex_none_functions :
  merge_dispatch ex_a [ex_c] Inter Inter None None = ROk (mkT [10]%Z [120]%Z [[6]]%Z None None 0%Z) /\
  merge_dispatch ex_a [ex_c] Union Inter (Some prefer_self) None
  = ROk (mkT [10]%Z [110;120;130]%Z [[1;6;6]]%Z None (Some [mdA; mdC2; mdC3]) 0%Z) /\
  merge_dispatch ex_a [ex_c] Union Inter None (Some prefer_self)
  = ROk (mkT [10]%Z [110;120;130]%Z [[1;6;6]]%Z None None 0%Z).
Proof. repeat split; vm_compute; reflexivity. Qed.

(* ---- tie to the source: the merge orders and the default metadata policy against the definitions
   tools/py2v regenerates from Table._union_id_order / Table._intersect_id_order (biom/table.py,
   Gen/HelpersGen.v) and util.prefer_self (Gen/UtilGen.v) on every check.  The source builds a
   dictionary id -> index; the model lists the ids in index order. *)
From BiomV Require Gen.Prelude.
From BiomV Require Import Gen.HelpersGen Gen.UtilGen Proofs.GenBridgeMergeProofs.
Theorem union_order_is_source : forall a b,
  map fst (union_id_order a b) = union_order a b /\
  map snd (union_id_order a b) = seq 0 (length (union_order a b)).
Proof. exact union_order_bridge. Qed.
Print Assumptions union_order_is_source.

(* partial: an id repeated in `a` is numbered once by the source and listed twice by the filter
   (GenBridgeMergeProofs.intersect_order_dup_differs); ids of a well-formed table are distinct *)
Theorem intersect_order_is_source_partial : forall a b, NoDup a ->
  map fst (intersect_id_order a b) = intersect_order a b /\
  map snd (intersect_id_order a b) = seq 0 (length (intersect_order a b)).
Proof. exact intersect_order_bridge_partial. Qed.
Print Assumptions intersect_order_is_source_partial.

Theorem prefer_self_is_source : forall x y, prefer_self x y = prefer_self_gen x y.
Proof. exact prefer_self_bridge. Qed.
Print Assumptions prefer_self_is_source.

(* ---- tie to the source: Table.merge itself as tools/py2v_merge regenerates it from biom/table.py
   on every check (Gen/MergeGen.v over the vocabulary Gen/MergePrelude.v): normalising `other`, the
   fast-path condition, the pairwise loop through the recursive call, the replacement of None
   metadata functions, the mode validation, the id orders through the regenerated helpers, the
   sort by index, the empty-result refusals, the two metadata loops (guarded look-up, call of the
   metadata function) and the constructor call; the vector loop (merge_vectors) and the
   pre-computed sample orders are regions pinned by AST hash.  The generated method takes the target of its recursive call as a parameter; two
   unfoldings are the method, whatever stands at the third level (merge_recursion_is_source_partial).
   partial: the receiver's ids must be distinct (ids of a well-formed table are, C05) - inherited
   from intersect_order_is_source_partial; the intermediate tables of the pairwise loop are
   proved to keep the property. *)
From BiomV Require Import Gen.MergePrelude Gen.MergeGen Proofs.GenBridgeMergeWrapProofs.
Theorem merge_dispatch_is_source_partial : forall self sm om fs fo,
  NoDup (oids self) -> NoDup (sids self) ->
  (forall others, gen_merge_closed self (AList others) sm om fs fo = merge_dispatch self others sm om fs fo) /\
  (forall other, gen_merge_closed self (ATable other) sm om fs fo = merge_dispatch self [other] sm om fs fo).
Proof. exact merge_dispatch_bridge_partial. Qed.
Print Assumptions merge_dispatch_is_source_partial.

Theorem merge_recursion_is_source_partial : forall (rec : merge_rec) self a sm om fs fo,
  NoDup (oids self) -> NoDup (sids self) ->
  gen_merge (gen_merge rec) self a sm om fs fo = gen_merge_closed self a sm om fs fo.
Proof. exact merge_recursion_closed_partial. Qed.
Print Assumptions merge_recursion_is_source_partial.

Example merge_is_source_hypothesis_satisfiable :
  exists t : table, NoDup (oids t) /\ NoDup (sids t) /\ oids t <> [] /\ sids t <> [].
Proof. exact merge_bridge_hypothesis_satisfiable. Qed.
