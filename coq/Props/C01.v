(* C01  HDF5 (BIOM 2.x) write / read round trip is lossless.
   Model: Model/Hdf5.v (to_hdf5, from_hdf5, UTF-8 coder), Model/Sparse.v (the held matrix in any
   layout); proofs in Proofs/Hdf5Proofs.v, Proofs/Utf8Proofs.v, Proofs/SparseProofs.v. *)
From Coq Require Import List ZArith Bool.
From BiomV Require Import Base.ListUtil Base.Matrix Model.Table Model.Sparse Model.Hdf5
                          Proofs.SparseProofs Proofs.Utf8Proofs Proofs.Hdf5Proofs.
From BiomV Require Gen.Hdf5ReadGen Proofs.GenBridgeHdf5ReadProofs.
Import ListNotations.

(* [core] Every table state (ids, matrix held as CSR or CSC in ANY well-formed layout: unsorted
   indices, explicitly stored zeros; homogeneous metadata; type; id; group metadata) is written
   without error, and reading the file back, from the sample copy or from the observation copy,
   succeeds and yields the same ids in order, the same matrix, the same metadata per id and
   category, type, table id (opt_text: absent or empty -> the placeholder), generated-by, creation date and
   group-metadata payloads. *)
Theorem hdf5_roundtrip : forall st genby date ax,
  wf_state st -> meta_ok st -> text genby -> text date ->
  exists f ld,
    to_hdf5 st genby date = ROk f /\ from_hdf5 f ax = ROk ld
    /\ l_oids ld = st_oids st /\ l_sids ld = st_sids st
    /\ l_mat ld = st_mat st
    /\ md_agree (l_omd ld) (md_norm (st_omd st)) /\ md_agree (l_smd ld) (md_norm (st_smd st))
    /\ l_type ld = st_type st
    /\ l_id ld = opt_text (st_id st) s_no_table_id
    /\ l_genby ld = genby /\ l_date ld = date
    /\ l_ogmd ld = map (fun e => (fst e, snd (snd e))) (st_ogmd st)
    /\ l_sgmd ld = map (fun e => (fst e, snd (snd e))) (st_sgmd st).
Proof. exact Hdf5Proofs.hdf5_roundtrip. Qed.
Print Assumptions hdf5_roundtrip.

(* the hypotheses are satisfiable by the standard witness: 3 x 4, an all-zero row, unsorted
   indices, one stored zero, a non-ASCII id, an id and a category name with a slash, taxonomy
   lists of unequal length, group metadata *)
Example hdf5_roundtrip_nonvacuous :
  wf_state demo_st /\ meta_ok demo_st
  /\ sorted_csb demo_cs = false /\ no_stored_zerob demo_cs = false
  /\ nth 1 (st_mat demo_st) [] = [0; 0; 0; 0]%Z.
Proof. exact (conj demo_wf (conj (proj1 demo_meta) demo_layout)). Qed.
Print Assumptions hdf5_roundtrip_nonvacuous.

(* [core] ids, metadata strings, attributes: the UTF-8 coder pair round-trips on every text
   (Unicode scalar values; NUL excluded because h5py refuses it) *)
Theorem utf8_roundtrip : forall s, text s -> utf8_decode (utf8_encode s) = Some s.
Proof. exact Utf8Proofs.utf8_roundtrip. Qed.
Print Assumptions utf8_roundtrip.

(* [core] category names: the slash escape reads back for every name without an at-sign
   (this discharges the hypothesis cat_ok of hdf5_roundtrip for such names) ... *)
Theorem escape_roundtrip : forall k, ~ In 64%Z k -> unsanitize (sanitize k) = k.
Proof. exact Utf8Proofs.escape_roundtrip. Qed.
Print Assumptions escape_roundtrip.

(* ... and does NOT read back for some names with at-signs: the witness is the name @@SLASH@/
   which is written as a dataset name without a slash and read back as /@SLASH@@ .
   This is the one place where the code leaves the property's literal domain
   ("category names including '/'"); replayed on the implementation by corpus/C01 (escape cases). *)
Theorem slash_escape_refuted :
  exists k, text k /\ ~ In 47%Z (sanitize k) /\ unsanitize (sanitize k) <> k.
Proof. exact Utf8Proofs.slash_escape_refuted. Qed.
Print Assumptions slash_escape_refuted.

(* ... end to end (known finding F38): a coherent 1 x 1 table whose observation category is named
   @@SLASH@/  is written and read without error and the category comes back as  /@SLASH@@ ;
   every hypothesis of hdf5_roundtrip except cat_ok holds for it.  Witness: corpus/C01/f38_slash_escape.json *)
Theorem hdf5_roundtrip_escape_refuted :
  wf_state f38_st
  /\ match bind (to_hdf5 f38_st [] []) (fun f => from_hdf5 f Samp) with
     | ROk ld => l_omd ld = Some [[([47; 64; 83; 76; 65; 83; 72; 64; 64]%Z, MStr [118]%Z)]]
                 /\ ~ md_agree (l_omd ld) (md_norm (st_omd f38_st))
     | RErr _ => False
     end.
Proof. exact Hdf5Proofs.hdf5_roundtrip_escape_refuted. Qed.
Print Assumptions hdf5_roundtrip_escape_refuted.

(* the hypotheses are decidable: the boolean the correspondence run evaluates on every case is sound,
   so every case it flags is an instance of hdf5_roundtrip *)
Theorem in_domainb_sound : forall st genby date, in_domainb st genby date = true ->
  wf_state st /\ meta_ok st /\ text genby /\ text date.
Proof. exact Hdf5Proofs.in_domainb_sound. Qed.
Print Assumptions in_domainb_sound.

(* [history] write, load, write again, load: the table loaded from a written file (`reloaded`), held in
   ANY well-formed layout that denotes the loaded matrix, with the bare-text group metadata a loaded
   table carries, satisfies the hypotheses of the round trip again, and the second generation
   equals the first: ids, matrix, metadata as dictionaries, type, id, generated-by, date, payloads *)
Theorem second_generation : forall st genby date f0 r ax,
  wf_state st -> meta_ok st -> text genby -> text date ->
  wf_cs r -> matrix_of f0 r = st_mat st ->
  length (st_oids st) = (match f0 with CSR => major r | CSC => minor r end) ->
  length (st_sids st) = (match f0 with CSR => minor r | CSC => major r end) ->
  let ld1 := reloaded st genby date in
  let st2 := restate ld1 f0 r in
  wf_state st2 /\ meta_ok st2
  /\ to_hdf5_raw st2 (map (fun kv => (fst kv, GText (snd kv))) (l_ogmd ld1))
                     (map (fun kv => (fst kv, GText (snd kv))) (l_sgmd ld1)) genby date
     = to_hdf5 st2 genby date
  /\ exists f ld2,
       to_hdf5 st2 genby date = ROk f /\ from_hdf5 f ax = ROk ld2
       /\ l_oids ld2 = l_oids ld1 /\ l_sids ld2 = l_sids ld1 /\ l_mat ld2 = l_mat ld1
       /\ md_agree (l_omd ld2) (l_omd ld1) /\ md_agree (l_smd ld2) (l_smd ld1)
       /\ l_type ld2 = l_type ld1 /\ l_id ld2 = l_id ld1
       /\ l_genby ld2 = l_genby ld1 /\ l_date ld2 = l_date ld1
       /\ l_ogmd ld2 = l_ogmd ld1 /\ l_sgmd ld2 = l_sgmd ld1.
Proof. exact Hdf5Proofs.second_generation. Qed.
Print Assumptions second_generation.

(* [more] what the reader returns is determined: it is exactly `reloaded st genby date`,
   whichever matrix copy is read *)
Theorem from_hdf5_written : forall st genby date ax,
  wf_state st -> meta_ok st -> text genby -> text date ->
  from_hdf5 (assemble st genby date (md_written (st_omd st)) (gmd_written (st_ogmd st))
                      (md_written (st_smd st)) (gmd_written (st_sgmd st))) ax
  = ROk (reloaded st genby date).
Proof. exact Hdf5Proofs.from_hdf5_written. Qed.
Print Assumptions from_hdf5_written.

(* ---- translator tie (DESIGN 3.1 T23): the reader regenerated from Table.from_hdf5 by tools/py2v_h5r
   (Gen/Hdf5ReadGen.v, h5py reads = the accessors of Gen/H5ReadPrelude.v) IS the hand-written reader
   used by every theorem above, for every file tree and both axis names *)
Theorem from_hdf5_is_source : forall f ax,
  BiomV.Gen.Hdf5ReadGen.from_hdf5_gen f (axis_name ax) = from_hdf5 f ax.
Proof. exact BiomV.Proofs.GenBridgeHdf5ReadProofs.from_hdf5_is_source. Qed.
Print Assumptions from_hdf5_is_source.

(* any other axis name is refused with the UnknownAxisError code before anything is read *)
Theorem from_hdf5_unknown_axis_is_source : forall f a,
  lz_eqb a b_sample = false -> lz_eqb a b_observation = false ->
  BiomV.Gen.Hdf5ReadGen.from_hdf5_gen f a = RErr E_UNKNOWN.
Proof. exact BiomV.Proofs.GenBridgeHdf5ReadProofs.from_hdf5_unknown_axis_is_source. Qed.
Print Assumptions from_hdf5_unknown_axis_is_source.

(* the nested axis_load of the reader, regenerated too (ids, the parser defaults table, the rows,
   all-empty metadata -> None, group metadata; the category loop is the pinned primitive md_loop),
   is the hand-written axis_load; the empty list is the parse_fs of the three load paths *)
Theorem axis_load_is_source : forall f a,
  BiomV.Gen.Hdf5ReadGen.axis_load_gen f [] [a] = axis_load f a.
Proof. exact BiomV.Proofs.GenBridgeHdf5ReadProofs.axis_load_is_source. Qed.
Print Assumptions axis_load_is_source.
