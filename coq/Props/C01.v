From BiomV Require Import Model.Hdf5.
Theorem placeholder : True. Proof. exact I. Qed.
Print Assumptions placeholder.
