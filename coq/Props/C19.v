(* C19 (stub while the model is validated) *)
From Coq Require Import List ZArith.
From BiomV Require Import Model.Summary.
Theorem stub : True. Proof. exact I. Qed.
Print Assumptions stub.
