(* C19: summaries and exports report the numbers that are in the matrix.
   Statements only; proofs are in Proofs/SummaryProofs.v.

   `rt` is the table as the code holds it: ids, metadata, storage format and the stored entries of
   every row (CSR) or column (CSC) in stored order -- indices may be unsorted, zeros may be stored
   explicitly.  `wf_r rt` says the ids are distinct, the shape fits the ids, indices are in range
   and not repeated inside one row / column.  `content_of rt` is the table's content: ids, metadata and
   the dense matrix `dense rt`.  `r_...` follow the code on the representation, `d_...` compute the
   same figure directly from the dense matrix.  `nz_segs (r_segs rt)` = no explicitly stored zero. *)
From Coq Require Import List Arith ZArith Bool Permutation Sorted.
From BiomV Require Import Base.Tree Base.ListUtil Base.Matrix Model.Table Model.Sparse Model.Summary Proofs.SummaryProofs.
Import ListNotations.

(* A table built around scipy's arrays (indptr / indices / data, Sparse.cs) is such a representation,
   and its dense matrix is Sparse.matrix_of. *)
Theorem repr_of_arrays : forall oids sids f r omd smd,
  wf_table_cs oids sids f r omd smd ->
  wf_r (of_cs oids sids f r omd smd) /\
  dense (of_cs oids sids f r omd smd) = matrix_of f r /\
  (no_stored_zero r -> nz_segs (r_segs (of_cs oids sids f r omd smd))).
Proof.
  intros oids sids f r omd smd H. split; [apply of_cs_wf; exact H|].
  split; [apply of_cs_dense|]. intros N. apply no_stored_zero_segs. exact N.
Qed.
Print Assumptions repr_of_arrays.

(* ---------------------------------------------------------------- summaries that hold for EVERY representation
   (unsorted indices and stored zeros included) *)

(* sum: the whole table, per observation (rows), per sample (columns) -- the RIGHT scipy axis *)
Theorem sums_agree : forall rt, wf_r rt ->
  r_sum_whole rt = msum (dense rt) /\
  r_sum Obs rt = row_sums (dense rt) /\
  r_sum Samp rt = col_sums (r_nsamp rt) (dense rt).
Proof. exact sum_agree. Qed.
Print Assumptions sums_agree.

(* iter_data(dense=True): observation vectors are the rows, sample vectors the columns *)
Theorem dense_vectors_agree : forall rt, wf_r rt ->
  r_vectors Obs rt = dense rt /\ r_vectors Samp rt = transpose (r_nsamp rt) (dense rt).
Proof. exact vectors_agree. Qed.
Print Assumptions dense_vectors_agree.

(* nonzero_counts: binary counts the non-zero cells of each vector, otherwise sums its values;
   'whole' gives the one figure for the whole matrix *)
Theorem nonzero_counts_agree : forall a binary rt, wf_r rt ->
  r_nonzero_counts a binary rt =
  match a with
  | AObs => map (vcount binary) (dense rt)
  | ASamp => map (vcount binary) (transpose (r_nsamp rt) (dense rt))
  | AWhole => [if binary then Z.of_nat (count_nonzero (dense rt)) else msum (dense rt)]
  end.
Proof. exact SummaryProofs.nonzero_counts_agree. Qed.
Print Assumptions nonzero_counts_agree.

(* reduce f axis: functools.reduce over every dense vector of the axis, for ANY binary function f;
   refused on an empty table *)
Theorem reduce_agree : forall (f : Z -> Z -> Z) a rt, wf_r rt ->
  r_reduce f a rt = if r_empty rt then RErr E_TABLE else rmap (reduce1 f) (vectors_of a (content_of rt)).
Proof. exact SummaryProofs.reduce_agree. Qed.
Print Assumptions reduce_agree.

(* ... and with addition it gives the sums of the axis *)
Theorem reduce_add_is_sum : forall a rt, wf_r rt -> r_empty rt = false ->
  r_reduce Z.add a rt = ROk (match a with Obs => row_sums (dense rt) | Samp => col_sums (r_nsamp rt) (dense rt) end).
Proof. exact reduce_add_agree. Qed.
Print Assumptions reduce_add_is_sum.

(* nnz and get_table_density: numerator = number of non-zero CELLS (stored zeros are not counted),
   denominator = samples x observations; 0 (= 0/1) for an empty table *)
Theorem density_agree : forall rt, wf_r rt ->
  r_nnz rt = count_nonzero (dense rt) /\
  r_density rt = if r_empty rt then (0%Z, 1%Z)
                 else (Z.of_nat (count_nonzero (dense rt)), Z.of_nat (r_nsamp rt * r_nobs rt)).
Proof.
  intros rt W. split; [apply nnz_agree; exact W|]. rewrite (SummaryProofs.density_agree rt W). reflexivity.
Qed.
Print Assumptions density_agree.

(* compute_counts_per_sample_stats: computed on the per-sample totals (binary: non-zero counts) of the dense matrix *)
Theorem stats_agree : forall binary rt, wf_r rt ->
  r_stats binary rt =
  (stats (map (vcount binary) (transpose (r_nsamp rt) (dense rt))),
   combine (r_sids rt) (map (vcount binary) (transpose (r_nsamp rt) (dense rt)))).
Proof. exact SummaryProofs.stats_agree. Qed.
Print Assumptions stats_agree.

(* min, max are members and bounds; the median is the middle of the SORTED figures, the mean of the middle
   two when their number is even; the mean is total / number.  (0,0,0,0) when there is no sample. *)
Theorem stats_spec : forall l, l <> [] ->
  let '(mn, mx, med, avg) := stats l in
  (In mn l /\ forall x, In x l -> (mn <= x)%Z) /\
  (In mx l /\ forall x, In x l -> (x <= mx)%Z) /\
  (exists s, Permutation s l /\ StronglySorted Z.le s /\
             med = if Nat.even (length l)
                   then ((nth (length l / 2 - 1) s 0 + nth (length l / 2) s 0)%Z, 2%Z)
                   else (nth (length l / 2) s 0%Z, 1%Z)) /\
  avg = (zsum l, Z.of_nat (length l)).
Proof. exact stats_spec_nonempty. Qed.
Print Assumptions stats_spec.

Theorem stats_empty : stats [] = (0%Z, 0%Z, (0%Z, 1%Z), (0%Z, 1%Z)).
Proof. reflexivity. Qed.
Print Assumptions stats_empty.

(* ---------------------------------------------------------------- summaries that walk the STORED entries *)

(* what min / max of one vector are: for a vector with a non-zero entry the least / greatest of its
   non-zero values; for a vector without one the call is refused (numpy: ValueError) *)
Theorem minmax_spec : forall v,
  ((exists x, In x v /\ x <> 0%Z) ->
     (exists m, lred Z.min (nonzeros v) = ROk m /\ In m v /\ m <> 0%Z /\ forall x, In x v -> x <> 0%Z -> (m <= x)%Z) /\
     (exists m, lred Z.max (nonzeros v) = ROk m /\ In m v /\ m <> 0%Z /\ forall x, In x v -> x <> 0%Z -> (x <= m)%Z)) /\
  ((forall x, In x v -> x = 0%Z) ->
     lred Z.min (nonzeros v) = RErr E_VALUE /\ lred Z.max (nonzeros v) = RErr E_VALUE).
Proof.
  intros v. destruct (vec_min_spec v) as [A1 A2]. destruct (vec_max_spec v) as [B1 B2].
  split; intros H; split; auto.
Qed.
Print Assumptions minmax_spec.

(* without stored zeros min / max per axis and for the whole table are those of the dense vectors, whatever
   the format and the order of the indices (the first vector without a non-zero entry refuses the call) *)
Theorem minmax_repr_indep : forall a rt, wf_r rt -> nz_segs (r_segs rt) ->
  r_min a rt = d_extreme Z.min a (content_of rt) /\
  r_max a rt = d_extreme Z.max a (content_of rt) /\
  r_extreme_whole Z.min rt = d_extreme_whole Z.min (content_of rt) /\
  r_extreme_whole Z.max rt = d_extreme_whole Z.max (content_of rt).
Proof.
  intros a rt W N. repeat split;
    [apply min_agree|apply max_agree|apply min_whole_agree|apply max_whole_agree]; assumption.
Qed.
Print Assumptions minmax_repr_indep.

(* ... and a stored zero does change them (the reason why subsample and the constructor now eliminate zeros) *)
Definition ex_zero : rtable :=
  mkR [10; 20]%Z [1; 2; 3]%Z CSR 3 [[(0, 3%Z); (1, 0%Z)]; [(2, 4%Z)]] None None.
Theorem minmax_stored_zero_differs :
  exists rt, wf_r rt /\ r_min Obs rt = ROk [0; 4]%Z /\ d_extreme Z.min Obs (content_of rt) = ROk [3; 4]%Z.
Proof. exists ex_zero. split; [apply wf_rb_wf; vm_compute; reflexivity|]. split; vm_compute; reflexivity. Qed.
Print Assumptions minmax_stored_zero_differs.

(* nonzero(): without stored zeros exactly the (observation, sample) pairs with a non-zero cell, each once *)
Theorem nonzero_exact : forall rt, wf_r rt -> nz_segs (r_segs rt) ->
  (forall o s, In (o, s) (r_nonzero rt) <-> exists v, cell (content_of rt) o s = Some v /\ v <> 0%Z) /\
  length (r_nonzero rt) = count_nonzero (dense rt).
Proof. intros rt W N. split; [apply nonzero_members|apply nonzero_length]; assumption. Qed.
Print Assumptions nonzero_exact.

(* with sorted indices (always so when the table is held as CSC) the pairs come row by row, columns ascending *)
Theorem nonzero_order : forall rt, wf_r rt -> nz_segs (r_segs rt) ->
  (sorted_segs (row_segs rt) \/ r_fmt rt = CSC) -> r_nonzero rt = d_nonzero (content_of rt).
Proof.
  intros rt W N [S|E]; [apply nonzero_sorted_exact|apply nonzero_csc_exact]; assumption.
Qed.
Print Assumptions nonzero_order.

Theorem nonzero_stored_zero_differs :
  exists rt o s, wf_r rt /\ In (o, s) (r_nonzero rt) /\ cell (content_of rt) o s = Some 0%Z.
Proof.
  exists ex_zero, 10%Z, 2%Z. split; [apply wf_rb_wf; vm_compute; reflexivity|].
  split; [vm_compute; tauto|vm_compute; reflexivity].
Qed.
Print Assumptions nonzero_stored_zero_differs.

(* the core statement in one piece: on a coherent table every summary computed along the code path equals
   the same figure computed directly from the dense matrix -- sums with the right axis, non-zero counts,
   density numerator = number of non-zero cells, reduce with + = sums, and (no stored zero) nonzero() =
   exactly the pairs with a non-zero cell *)
Theorem summaries_agree : forall rt, wf_r rt ->
  r_sum_whole rt = msum (dense rt) /\
  r_sum Obs rt = row_sums (dense rt) /\
  r_sum Samp rt = col_sums (r_nsamp rt) (dense rt) /\
  (forall binary, r_nonzero_counts AObs binary rt = map (vcount binary) (dense rt) /\
                  r_nonzero_counts ASamp binary rt = map (vcount binary) (transpose (r_nsamp rt) (dense rt))) /\
  r_nnz rt = count_nonzero (dense rt) /\
  (r_empty rt = false ->
     r_density rt = (Z.of_nat (count_nonzero (dense rt)), Z.of_nat (r_nsamp rt * r_nobs rt)) /\
     r_reduce Z.add Obs rt = ROk (row_sums (dense rt)) /\
     r_reduce Z.add Samp rt = ROk (col_sums (r_nsamp rt) (dense rt))) /\
  (nz_segs (r_segs rt) ->
     forall o s, In (o, s) (r_nonzero rt) <-> exists v, cell (content_of rt) o s = Some v /\ v <> 0%Z).
Proof.
  intros rt W. destruct (sum_agree rt W) as (A & B & C).
  split; [exact A|]. split; [exact B|]. split; [exact C|].
  split; [intros b; split; [exact (SummaryProofs.nonzero_counts_agree AObs b rt W)|exact (SummaryProofs.nonzero_counts_agree ASamp b rt W)]|].
  split; [apply nnz_agree; exact W|].
  split.
  - intros E. split; [|split; apply reduce_add_agree; assumption].
    rewrite (SummaryProofs.density_agree rt W). unfold d_density, content_of, nsamp, nobs. simpl.
    unfold r_empty, r_nsamp, r_nobs in E. rewrite E. reflexivity.
  - intros N. apply nonzero_members; assumption.
Qed.
Print Assumptions summaries_agree.

(* ---------------------------------------------------------------- transpose, the report *)

(* Table.transpose on the representation gives the transposed content (and a well-formed table) *)
Theorem transpose_repr : forall rt, wf_r rt ->
  wf_r (rt_transpose rt) /\ content_of (rt_transpose rt) = transpose_t (content_of rt).
Proof. intros rt W. split; [apply wf_rt_transpose|apply content_transpose]; exact W. Qed.
Print Assumptions transpose_repr.

(* every figure of the summarize-table report, in each mode, is the figure computed from the dense content *)
Theorem report_agree : forall q o rt, wf_r rt -> r_report q o rt = d_report q o (content_of rt).
Proof. exact SummaryProofs.report_agree. Qed.
Print Assumptions report_agree.

(* the fields of the plain report: per-sample totals (qualitative: numbers of non-zero observations per
   sample) of the matrix, their statistics, total, density, the metadata keys of the first ids, and the
   detail lines *)
Theorem report_fields : forall q t,
  d_report q false t =
  let counts := map (vcount q) (transpose (nsamp t) (mat t)) in
  let '(mn, mx, med, avg) := stats counts in
  ([(1, FZ (Z.of_nat (nsamp t))); (2, FZ (Z.of_nat (nobs t)))]%Z
   ++ (if q then [] else [(3, FZ (zsum counts)); (4, FQ (d_density t))]%Z)
   ++ [(5, FZ mn); (6, FZ mx); (7, FQ med); (8, FQ avg); (9, FQ (variance counts))]%Z
   ++ [(10, FKeys (md_keys (smd t))); (11, FKeys (md_keys (omd t)))]%Z,
   ksort (combine (sids t) counts)).
Proof.
  intros q t. unfold d_report, report_lines, d_sample_counts. simpl.
  destruct (stats (map (vcount q) (transpose (nsamp t) (mat t)))) as [[[mn mx] med] avg]. reflexivity.
Qed.
Print Assumptions report_fields.

(* --observations: the numeric lines and the detail lines are those of the plain report of the TRANSPOSED
   table (the two counts and the two key lists keep describing the table as given) ... *)
Theorem report_transposed : forall q t,
  numeric_lines (d_report q true t) = numeric_lines (d_report q false (transpose_t t)) /\
  snd (d_report q true t) = snd (d_report q false (transpose_t t)).
Proof. exact report_numeric_transposed. Qed.
Print Assumptions report_transposed.

(* ... that is, the per-OBSERVATION figures: totals (non-zero counts) of the ROWS of the matrix, listed under
   the observation ids; "Num samples", "Num observations" and the category lines are those of the table as given *)
Theorem report_observations_fields : forall q t, wf t ->
  d_report q true t =
  (report_lines false q (nsamp t) (nobs t) (map (vcount q) (mat t)) (d_density t) (md_keys (smd t)) (md_keys (omd t)),
   ksort (combine (oids t) (map (vcount q) (mat t)))).
Proof. exact report_transposed_spec. Qed.
Print Assumptions report_observations_fields.

(* the detail lines list every (id, figure) once, in ascending order of the figure *)
Theorem report_detail_sorted : forall l,
  Permutation (ksort l) l /\ StronglySorted (fun a b => (snd a <= snd b)%Z) (ksort l).
Proof. exact ksort_spec. Qed.
Print Assumptions report_detail_sorted.

(* ---------------------------------------------------------------- table-ids, head *)
Theorem table_ids_agree : forall obs rt,
  r_table_ids obs rt = if obs then oids (content_of rt) else sids (content_of rt).
Proof. intros [|] rt; reflexivity. Qed.
Print Assumptions table_ids_agree.

(* head -n n -m m prints the leading n x m block: the first m sample ids, the first n observation ids,
   and under them the cells of the dense matrix; n <= 0 or m <= 0 is refused *)
Theorem head_block : forall n m rt ss rows, wf_r rt -> cli_head n m rt = ROk (ss, rows) ->
  (0 < n)%Z /\ (0 < m)%Z /\
  ss = firstn (Z.to_nat m) (r_sids rt) /\ map fst rows = firstn (Z.to_nat n) (r_oids rt) /\
  forall i j, i < Nat.min (Z.to_nat n) (r_nobs rt) -> j < Z.to_nat m ->
    nth j (snd (nth i rows (0%Z, []))) 0%Z = get (dense rt) i j.
Proof. exact cli_head_spec. Qed.
Print Assumptions head_block.

Theorem head_refuses : forall n m rt, (n <= 0)%Z \/ (m <= 0)%Z -> cli_head n m rt = RErr E_VALUE.
Proof. exact cli_head_refuses. Qed.
Print Assumptions head_refuses.

(* ---------------------------------------------------------------- pandas export *)
Theorem dataframe_dense_agree : forall rt,
  df_dense rt = (oids (content_of rt), sids (content_of rt), mat (content_of rt)).
Proof. intros rt. reflexivity. Qed.
Print Assumptions dataframe_dense_agree.

(* to_dataframe() (sparse): a cell that shows a value shows the matrix value, a missing cell stands on a zero;
   without stored zeros the missing cells are exactly the zero cells ... *)
Theorem dataframe_sparse_cells : forall rt i j, wf_r rt -> i < r_nobs rt -> j < r_nsamp rt ->
  match nth j (nth i (df_sparse rt) []) None with
  | Some v => get (dense rt) i j = v
  | None => get (dense rt) i j = 0%Z
  end /\
  (nz_segs (r_segs rt) -> (nth j (nth i (df_sparse rt) []) None = None <-> get (dense rt) i j = 0%Z)).
Proof.
  intros rt i j W Hi Hj. split; [apply df_sparse_cells; assumption|].
  intros N. apply df_sparse_missing_iff; assumption.
Qed.
Print Assumptions dataframe_sparse_cells.

(* ... so the sparse export does NOT equal the dense matrix: zero cells are shown as missing (NaN), finding F20 *)
Definition ex_f20 : rtable := mkR [10; 20]%Z [1; 2]%Z CSR 2 [[(0, 5%Z)]; [(1, 1%Z)]] None None.
Theorem dataframe_sparse_refuted :
  exists rt i j, wf_r rt /\ nz_segs (r_segs rt) /\ i < r_nobs rt /\ j < r_nsamp rt /\
    nth j (nth i (df_sparse rt) []) None <> Some (get (dense rt) i j).
Proof.
  exists ex_f20, 0, 1. split; [apply wf_rb_wf; vm_compute; reflexivity|].
  split; [apply nz_segsb_nz; vm_compute; reflexivity|]. vm_compute. repeat split; auto. discriminate.
Qed.
Print Assumptions dataframe_sparse_refuted.

(* ---------------------------------------------------------------- metadata export *)
(* metadata whose values are scalars: one column per key (keys in order of first appearance), and every
   cell is the value found under that key for that id (missing key: missing value), whatever the order of
   the keys inside each id's metadata *)
Theorem metadata_export_by_key : forall ids md, no_seq md ->
  md_df ids (Some md) =
  ROk (map (fun k => L [k]) (map fst (widths md)), combine ids (d_md_rows (map fst (widths md)) md)).
Proof. exact md_export_by_key. Qed.
Print Assumptions metadata_export_by_key.

Theorem metadata_columns_complete : forall md e kv,
  In e md -> In kv (tL e) -> In (kv_key kv) (map fst (widths md)).
Proof. exact widths_complete. Qed.
Print Assumptions metadata_columns_complete.

(* whatever the metadata (lists of different lengths, a scalar where other ids hold a list, missing keys): in
   every row every key fills exactly the columns carrying its label -- no value lands under another key's
   label -- and every row has one cell per label *)
Theorem metadata_export_aligned : forall ids md,
  (forall e kn, In e md -> In kn (widths md) -> length (key_cells e kn) = length (key_columns kn)) /\
  (forall cols rows, md_df ids (Some md) = ROk (cols, rows) ->
     Forall (fun r => length (snd r) = length cols) rows).
Proof.
  intros ids md. split; [intros e kn; apply md_df_aligned|intros cols rows; apply md_df_rect].
Qed.
Print Assumptions metadata_export_aligned.

Theorem metadata_export_none : forall ids, md_df ids None = RErr E_KEY.
Proof. reflexivity. Qed.
Print Assumptions metadata_export_none.

(* ---------------------------------------------------------------- non-vacuity
   the standard witness: 3 x 4, an all-zero row, unsorted indices, one stored zero; and its CSC form *)
Definition ex_rt : rtable :=
  mkR [10; 20; 30]%Z [1; 2; 3; 4]%Z CSR 4 [[(3, 7%Z); (0, 5%Z)]; []; [(1, 2%Z); (2, 0%Z)]]
      (Some [L [L [L [I 112]; L [I 2; I 1]]]; L [L [L [I 112]; L [I 2; I 2]]]; L [L [L [I 112]; L [I 2; I 3]]]]%Z) None.
Definition ex_nz : rtable :=
  mkR [10; 20; 30]%Z [1; 2; 3; 4]%Z CSC 3 [[(0, 5%Z)]; [(2, 2%Z)]; []; [(2, (-1)%Z); (0, 7%Z)]] None None.
Example ex_rt_wf : wf_r ex_rt. Proof. apply wf_rb_wf. vm_compute. reflexivity. Qed.
Example ex_nz_wf : wf_r ex_nz /\ nz_segs (r_segs ex_nz).
Proof. split; [apply wf_rb_wf|apply nz_segsb_nz]; vm_compute; reflexivity. Qed.
Example ex_dense : dense ex_rt = [[5; 0; 0; 7]; [0; 0; 0; 0]; [0; 2; 0; 0]]%Z /\
                   dense ex_nz = [[5; 0; 0; 7]; [0; 0; 0; 0]; [0; 2; 0; -1]]%Z.
Proof. vm_compute. split; reflexivity. Qed.
Example ex_sums : r_sum_whole ex_rt = 14%Z /\ r_sum Obs ex_rt = [12; 0; 2]%Z /\ r_sum Samp ex_rt = [5; 2; 0; 7]%Z /\
                  r_sum Samp ex_nz = [5; 2; 0; 6]%Z /\ r_density ex_rt = (3, 12)%Z.
Proof. vm_compute. repeat split; reflexivity. Qed.
Example ex_minmax : r_min Samp ex_nz = RErr E_VALUE /\ r_min Obs ex_nz = RErr E_VALUE /\
                    r_max Samp (mkR [10; 30]%Z [1; 2; 4]%Z CSC 2 [[(0, 5%Z)]; [(1, 2%Z)]; [(1, (-1)%Z); (0, 7%Z)]] None None)
                    = ROk [5; 2; 7]%Z.
Proof. vm_compute. repeat split; reflexivity. Qed.
Example ex_nonzero : r_nonzero ex_nz = [(10, 1); (10, 4); (30, 2); (30, 4)]%Z /\
                     r_nonzero ex_rt = [(10, 4); (10, 1); (30, 2); (30, 3)]%Z.
Proof. vm_compute. split; reflexivity. Qed.
Example ex_report : snd (r_report false true ex_rt) = [(20, 0); (30, 2); (10, 12)]%Z /\
                    snd (r_report true false ex_rt) = [(3, 0); (1, 1); (2, 1); (4, 1)]%Z /\
                    fst (fst (fst (stats [9; 1; 4; 2]%Z))) = 1%Z /\ snd (fst (stats [9; 1; 4; 2]%Z)) = (6, 2)%Z.
Proof. vm_compute. repeat split; reflexivity. Qed.
Example ex_md : md_df [10; 20]%Z (Some [L [L [L [I 112]; L [I 2; I 1]]; L [L [I 113]; L [I 2; I 2]]];
                                        L [L [L [I 113]; L [I 2; I 3]]; L [L [I 112]; L [I 2; I 4]]]]%Z)
              = ROk ([L [L [I 112]]; L [L [I 113]]]%Z,
                     [(10, [L [I 2; I 1]; L [I 2; I 2]]); (20, [L [I 2; I 4]; L [I 2; I 3]])]%Z).
Proof. vm_compute. reflexivity. Qed.
(* taxonomy lists of different depth followed by another key: tax_0 tax_1 tax_2 n *)
Example ex_md_jagged :
  md_df [10; 20]%Z (Some [L [L [L [I 116]; L [I 5; L [L [I 2; I 1]; L [I 2; I 2]; L [I 2; I 3]]]]; L [L [I 110]; L [I 2; I 7]]];
                          L [L [L [I 116]; L [I 5; L [L [I 2; I 1]]]]; L [L [I 110]; L [I 2; I 8]]]]%Z)
  = ROk ([L [L [I 116]; I 0]; L [L [I 116]; I 1]; L [L [I 116]; I 2]; L [L [I 110]]]%Z,
         [(10, [L [I 2; I 1]; L [I 2; I 2]; L [I 2; I 3]; L [I 2; I 7]]);
          (20, [L [I 2; I 1]; L [I 0]; L [I 0]; L [I 2; I 8]])]%Z).
Proof. vm_compute. reflexivity. Qed.
Example ex_head : cli_head 2 3 ex_rt = ROk ([1; 2; 3]%Z, [(10, [5; 0; 0]); (20, [0; 0; 0])]%Z) /\
                  cli_head 0 3 ex_rt = RErr E_VALUE.
Proof. vm_compute. split; reflexivity. Qed.
Example ex_reduce : r_empty ex_rt = false /\ r_reduce Z.add Samp ex_rt = ROk [5; 2; 0; 7]%Z /\
                    r_reduce Z.sub Obs ex_nz = ROk [-2; 0; -1]%Z.
Proof. vm_compute. repeat split; reflexivity. Qed.
Example ex_counts : r_nonzero_counts ASamp true ex_rt = [1; 1; 0; 1]%Z /\ r_nonzero_counts AObs false ex_nz = [12; 0; 1]%Z /\
                    r_nonzero_counts AWhole true ex_rt = [3]%Z /\ r_nnz ex_rt = 3.
Proof. vm_compute. repeat split; reflexivity. Qed.
Example ex_transpose : dense (rt_transpose ex_rt) = [[5; 0; 0]; [0; 0; 2]; [0; 0; 0]; [7; 0; 0]]%Z /\
                       nz_segs (r_segs (rt_transpose ex_rt)).
Proof. split; [vm_compute; reflexivity|apply nz_segsb_nz; vm_compute; reflexivity]. Qed.
Example ex_df_sparse : df_sparse ex_rt = [[Some 5; None; None; Some 7]; [None; None; None; None]; [None; Some 2; Some 0; None]]%Z.
Proof. vm_compute. reflexivity. Qed.

(* ---- tie to the source: the axis conventions the summaries rest on, against the definitions
   tools/py2v regenerates from biom/table.py on every check (Gen/HelpersGen.v): the head of
   Table.sum maps 'whole' / 'sample' / 'observation' to the scipy axis None / 0 / 1 (r_sum3 selects
   by the same three cases), Table._axis_to_num, Table._invert_axis. *)
From BiomV Require Gen.Prelude.
From BiomV Require Import Gen.HelpersGen Proofs.GenBridgeAxisProofs.
Theorem sum_axis_is_source : forall a, sum_axis (axis3_str a) = Gen.Prelude.Ok (scipy_axis a).
Proof. exact sum_axis_bridge. Qed.
Print Assumptions sum_axis_is_source.

Theorem axis_to_num_is_source : forall a,
  axis_to_num (axis_str a) = Gen.Prelude.Ok (match a with Obs => 0%nat | Samp => 1%nat end).
Proof. exact axis_to_num_bridge. Qed.
Print Assumptions axis_to_num_is_source.

Theorem invert_axis_is_source : forall a, invert_axis (axis_str a) = inl (axis_str (other a)).
Proof. exact invert_axis_bridge. Qed.
Print Assumptions invert_axis_is_source.

(* ---- tie to the source: compute_counts_per_sample_stats as tools/py2v_sum regenerates it from
   biom/util.py on every check (Gen/SummaryGen.v over the vocabulary Gen/SumPrelude.v) is the hand
   model r_stats: per sample the number of non-zero cells (qualitative) or the total (quantitative),
   kept in a dict in table order, then min / max / median / mean of its values, zeros when there is
   no sample.  Partial: the source keeps the counts in a dict keyed by sample id, the hand model lists
   one entry per sample; the two agree when the sample ids are distinct and the representation has one
   vector per sample id - both are parts of wf_r, which every theorem above assumes. *)
From BiomV Require Import Gen.SumPrelude Gen.SummaryGen Proofs.GenBridgeSummaryProofs.
Theorem counts_per_sample_stats_is_source_partial : forall binary rt, NoDup (r_sids rt) -> dims_ok rt ->
  compute_counts_per_sample_stats rt binary = r_stats binary rt.
Proof. exact counts_per_sample_stats_bridge_partial. Qed.
Print Assumptions counts_per_sample_stats_is_source_partial.

(* the hypotheses follow from wf_r and are satisfiable *)
Theorem counts_per_sample_stats_wf_is_source_partial : forall binary rt, wf_r rt ->
  compute_counts_per_sample_stats rt binary = r_stats binary rt.
Proof. exact counts_per_sample_stats_bridge_wf. Qed.
Print Assumptions counts_per_sample_stats_wf_is_source_partial.
Example counts_per_sample_stats_hyp_sat : NoDup (r_sids ex_rt) /\ dims_ok ex_rt /\
  compute_counts_per_sample_stats ex_rt false = (0, 7, (7, 2), (14, 4), [(1, 5); (2, 2); (3, 0); (4, 7)])%Z.
Proof. destruct ex_rt_wf as (_ & N & D & _). split; [exact N|]. split; [exact D|]. vm_compute. reflexivity. Qed.

(* Table.is_empty and Table.get_table_density as tools/py2v_sum regenerates them from biom/table.py
   (Gen/SummaryTableGen.v over Gen/SumTablePrelude.v; the property nnz, ids, shape pinned by AST hash)
   are the hand model's r_empty and r_density, for every representation. *)
From BiomV Require Import Gen.SumTablePrelude Gen.SummaryTableGen Proofs.GenBridgeSummaryTableProofs.
Theorem is_empty_is_source : forall rt, is_empty rt = r_empty rt.
Proof. exact is_empty_bridge. Qed.
Print Assumptions is_empty_is_source.

Theorem get_table_density_is_source : forall rt, get_table_density rt = r_density rt.
Proof. exact get_table_density_bridge. Qed.
Print Assumptions get_table_density_is_source.

(* _summarize_table as tools/py2v_sum regenerates it from biom/cli/table_summarizer.py
   (Gen/SummaryReportGen.v over Gen/SumReportPrelude.v: a line = its label and its figure, text not
   modelled; it calls the regenerated compute_counts_per_sample_stats and get_table_density above):
   its labelled figures, in the order listed, are the header lines of the hand model's r_report, its
   detail lines are r_report's detail lines, and its title / blank lines are the four expected ones
   (0 blank, 1 Sample/observations summary, 2 Observations/sample summary, 3 Counts/sample summary,
   4 Observations/sample detail, 5 Counts/sample detail).  For every well-formed representation, in
   each of the four modes. *)
From BiomV Require Import Gen.SumReportPrelude Gen.SummaryReportGen Proofs.GenBridgeSummaryReportProofs.
Theorem summarize_table_is_source_partial : forall q o rt, wf_r rt ->
  figures (summarize_table rt q o) = fst (r_report q o rt) /\
  details (summarize_table rt q o) = snd (r_report q o rt) /\
  titles (summarize_table rt q o) = ([0; if q then (if o then 1 else 2) else 3; 0; if q then 4 else 5])%Z.
Proof. exact summarize_table_bridge. Qed.
Print Assumptions summarize_table_is_source_partial.
(* the hypothesis is satisfiable (ex_rt_wf), and the regenerated report computes *)
Example summarize_table_hyp_sat : wf_r ex_rt /\
  figures (summarize_table ex_rt false false) = fst (r_report false false ex_rt) /\
  map fst (figures (summarize_table ex_rt false true)) = [1; 2; 3; 4; 5; 6; 7; 8; 9; 10; 11]%Z /\
  details (summarize_table ex_rt true false) = [(3, 0); (1, 1); (2, 1); (4, 1)]%Z.
Proof. split; [exact ex_rt_wf|]. vm_compute. repeat split; reflexivity. Qed.
