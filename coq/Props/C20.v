From BiomV Require Import Proofs.ErrProofs.
Theorem placeholder : True. Proof. exact I. Qed.
Print Assumptions placeholder.
