(* C20: the error-handling profile is honoured and scoped.  Statements only; proofs in
   Proofs/ErrProofs.v, over the model of biom/err.py in Model/Err.v. *)
From Coq Require Import List String Bool ZArith.
From BiomV Require Import Base.Tree Base.ListUtil Base.Dict Model.Err Proofs.ErrProofs.
Import ListNotations.
Open Scope string_scope. Open Scope list_scope.

(* For each of the seven registered kinds: if an input triggers exactly that kind, errcheck
   produces exactly the configured reaction (raise / warn / print / call with the registered
   callback / nothing for ignore), whatever the rest of the profile says. *)
Theorem reaction_honoured : forall p v k,
  In k kinds -> only_trigger v k -> errcheck p v [] = Ok (expected_event p k).
Proof. exact reaction_honoured_lemma. Qed.
Print Assumptions reaction_honoured.

(* With several kinds triggered at once: errcheck produces the reaction of the first kind (in
   the sorted order it examines them) that is triggered and whose reaction is not 'ignore', and
   nothing when there is none -- an ignored kind never masks the kinds after it. *)
Theorem ignored_kinds_do_not_mask : forall p v,
  errcheck p v [] = Ok (match first_live p v (ssorted (dkeys registry)) with
                        | Some k => expected_event p k | None => EvNone end).
Proof. exact errcheck_first_live. Qed.
Print Assumptions ignored_kinds_do_not_mask.

Theorem reaction_table : forall p k r,
  dget (st p) k = Some r ->
  expected_event p k =
    if String.eqb r "raise" then EvRaise k else if String.eqb r "warn" then EvWarn k
    else if String.eqb r "print" then EvPrint k
    else if String.eqb r "call" then EvCall k (match dget (calls p) k with Some c => c | None => 0%Z end)
    else EvNone.
Proof. exact expected_event_table. Qed.
Print Assumptions reaction_table.

(* Unknown kinds or reactions are refused without changing the profile. *)
Theorem seterr_atomic : forall s kw s' e, seterr s kw = (s', Raise e) -> s' = s.
Proof. exact seterr_atomic_lemma. Qed.
Print Assumptions seterr_atomic.

Theorem seterr_refuses_unknown : forall s kw,
  dmem kw "all" = false ->
  (exists k v, In (k, v) kw /\ (dmem s k = false \/ smem v valid_states = false)) ->
  exists e, seterr s kw = (s, Raise e).
Proof. exact seterr_refuses. Qed.
Print Assumptions seterr_refuses_unknown.

(* A scoped override is in force within its block ... *)
Theorem errstate_override_in_force : forall s kw s1 old k v,
  wf_state s -> errstate_enter s kw = (s1, Ok old) -> dmem kw "all" = false ->
  NoDup (dkeys kw) -> In (k, v) kw -> dget s1 k = Some v.
Proof. exact errstate_enter_applies. Qed.
Print Assumptions errstate_override_in_force.

(* ... and the previous profile is restored on exit: for EVERY block body (any nesting depth,
   any seterr / seterrcall / errcheck inside), whether the block completes normally (exc =
   false) or raises (exc = true), and also when entering is refused. *)
Theorem errstate_scoped : forall kw body exc p,
  wf_state (st p) -> st (fst (exec p (IBlock kw body exc))) = st p.
Proof. exact errstate_scoped_lemma. Qed.
Print Assumptions errstate_scoped.

(* the hypothesis of errstate_scoped holds in every state a program can reach *)
Theorem reachable_profiles_wf : forall prog, wf_state (st (fst (exec_list default_profile prog))).
Proof. exact reachable_wf. Qed.
Print Assumptions reachable_profiles_wf.

(* distinct ids never count as duplicates, whatever the matrix size (kinds are independent) *)
Theorem duplicate_tests_independent_of_size : forall v,
  (NoDup (v_oids v) -> test_obsdup v = false) /\ (NoDup (v_sids v) -> test_sampdup v = false).
Proof. exact dup_tests_independent. Qed.
Print Assumptions duplicate_tests_independent_of_size.

(* non-vacuity: a view with three distinct ids for two rows triggers obssize and nothing else;
   a nested block left by an exception after inner seterr calls really changes and restores *)
Definition view_obssize : view :=
  {| v_empty := false; v_rows := 2; v_cols := 1; v_oids := [1;2;3]%Z; v_sids := [7]%Z; v_omd := None; v_smd := None |}.
Example only_trigger_obssize : only_trigger view_obssize "obssize".
Proof. vm_compute. reflexivity. Qed.
(* an empty table with one observation id too many: 'empty' is ignored by default, 'obssize' still raises *)
Example ignored_empty_does_not_mask_obssize :
  errcheck default_profile
    {| v_empty := true; v_rows := 0; v_cols := 1; v_oids := [1]%Z; v_sids := [7]%Z; v_omd := None; v_smd := None |} []
  = Ok (EvRaise "obssize").
Proof. vm_compute. reflexivity. Qed.
Example block_changes_then_restores :
  let prog := [IBlock [("obsdup","ignore")] [ISeterr [("empty","raise")]; IBlock [("all","warn")] [] true] true] in
  st (fst (exec_list default_profile prog)) = default_state /\
  exists o, In o (snd (exec_list default_profile prog)) /\
            o = OState [("empty","warn");("obssize","warn");("sampsize","warn");("obsdup","warn");
                        ("sampdup","warn");("obsmdsize","warn");("sampmdsize","warn")] (calls default_profile).
Proof. split; [vm_compute; reflexivity|]. eexists. split; [|reflexivity]. vm_compute. tauto. Qed.
