(* C17: all accepted construction inputs agree; malformed input is always rejected.
   Statements only; proofs are in Proofs/ConstructProofs.v, over Model/Construct.v (and
   Model/Err.v for the error check).  A matrix m is a list of `length m` rows of length c
   (`rect c m`); the constructor passes shape = (number of observation ids, number of sample ids)
   to the converters, which is why the forms that carry no shape of their own are stated with
   that shape. *)
From Coq Require Import List Arith ZArith Bool Sorted.
From BiomV Require Import Base.Tree Base.ListUtil Base.Matrix Base.Dict Model.Table Model.Err Model.Construct
  Proofs.ConstructProofs.
Import ListNotations.

(* ---- every form is faithful: converting the encoding of m gives back exactly m ------------- *)
(* dense ndarray (any dtype): keeps its own shape; an EMPTY array takes the shape it is given *)
Theorem form_faithful_array : forall m c shape, rect c m -> (length m * c = 0 -> shape = (length m, c)) ->
  to_dense (enc_array c m) shape = ROk (length m, c, m).
Proof. exact faithful_array. Qed.
Print Assumptions form_faithful_array.

(* nested dense lists (input_is_dense=True): its own shape; the empty list takes the given one *)
Theorem form_faithful_lists : forall m c shape, rect c m -> (m = [] -> shape = (0, c)) ->
  to_dense (enc_lists m) shape = ROk (length m, c, m).
Proof. exact faithful_lists. Qed.
Print Assumptions form_faithful_lists.

(* coordinate triples: ANY entry list describing m - any order, explicit zeros, a value split
   over repeated (row, col) entries, which are summed - needs the shape known from the ids *)
Theorem form_faithful_triples : forall es m c, rect c m -> represents es (length m) c m ->
  to_dense (InTriples es) (length m, c) = ROk (length m, c, m).
Proof. exact faithful_triples_gen. Qed.
Print Assumptions form_faithful_triples.

(* coordinate dictionary: likewise *)
Theorem form_faithful_dict : forall es m c, rect c m -> represents es (length m) c m ->
  to_dense (InDict es) (length m, c) = ROk (length m, c, m).
Proof. exact faithful_dict_gen. Qed.
Print Assumptions form_faithful_dict.

(* the row-major scan (with or without the zero cells) is such a description *)
Theorem scans_represent : forall m c, rect c m ->
  represents (scan m) (length m) c m /\ represents (flatten (full_rows m)) (length m) c m.
Proof. intros m c R. split; [apply scan_represents|apply full_represents]; exact R. Qed.
Print Assumptions scans_represent.

(* list of row arrays *)
Theorem form_faithful_rowarrays : forall m c shape, rect c m -> (m = [] -> shape = (0, c)) ->
  to_dense (enc_rowarrays m) shape = ROk (length m, c, m).
Proof. exact faithful_rowarrays. Qed.
Print Assumptions form_faithful_rowarrays.

(* list of row dicts keyed (0, column): any dicts whose row sums describe m (explicit zeros allowed,
   dicts without any entry describe zero vectors, also when ALL are empty) - needs the column count
   from the ids *)
Theorem form_faithful_rowdicts : forall rows m c,
  rect c m -> length rows = length m ->
  (forall e, In e (concat rows) -> e_row e = 0 /\ e_col e < c) ->
  (forall i j, i < length m -> j < c -> row_sum (strip (nth i rows [])) j = get m i j) ->
  to_dense (InRowDicts rows) (length m, c) = ROk (length m, c, m).
Proof. exact faithful_rowdicts_gen. Qed.
Print Assumptions form_faithful_rowdicts.

Theorem form_faithful_rowdicts_canonical : forall m c, rect c m ->
  to_dense (enc_rowdicts m) (length m, c) = ROk (length m, c, m).
Proof. exact faithful_rowdicts. Qed.
Print Assumptions form_faithful_rowdicts_canonical.

(* list of sparse rows (stored zeros dropped here; the run feeds stored zeros and unsorted rows) *)
Theorem form_faithful_sparserows : forall m c shape, rect c m -> (m = [] -> shape = (0, c)) ->
  to_dense (enc_sparserows c m) shape = ROk (length m, c, m).
Proof. exact faithful_sparserows. Qed.
Print Assumptions form_faithful_sparserows.

(* list of sparse rows whose first one is a dok_matrix (a dict subclass: it takes the converter of the
   row dicts): the rows state the width themselves, whatever the ids say *)
Theorem form_faithful_dokrows : forall m c shape, rect c m -> 0 < c -> (m = [] -> shape = (0, c)) ->
  to_dense (enc_dokrows c m) shape = ROk (length m, c, m).
Proof. exact faithful_dokrows. Qed.
Print Assumptions form_faithful_dokrows.

(* scipy sparse matrix of any layout = stored entries + its own shape; whatever shape the ids say *)
Theorem form_faithful_sparse : forall es m c shape, rect c m -> represents es (length m) c m ->
  to_dense (InSparse (length m) c es) shape = ROk (length m, c, m).
Proof. exact faithful_sparse_gen. Qed.
Print Assumptions form_faithful_sparse.

(* ---- all forms agree ------------------------------------------------------------------------ *)
(* with as many ids as the matrix has rows / columns, every pair of the nine canonical encodings
   gives the same constructor result (table or error), for every profile, id list, metadata, type *)
Theorem forms_agree : forall c m i1 i2 p oids sids omd smd ty,
  rect c m -> length oids = length m -> length sids = c ->
  In i1 (all_encodings c m) -> In i2 (all_encodings c m) ->
  construct p i1 oids sids omd smd ty = construct p i2 oids sids omd smd ty.
Proof. exact forms_agree_lemma. Qed.
Print Assumptions forms_agree.

(* and that result is the described table: distinct ids, one mapping-or-None per id *)
Theorem wellformed_accepted : forall inp oids sids omd smd ty m,
  to_dense inp (length oids, length sids) = ROk (length oids, length sids, m) ->
  NoDup oids -> NoDup sids -> md_valid omd (length oids) -> md_valid smd (length sids) ->
  exists o s, cast_md (norm_md omd (length oids)) = ROk o /\ cast_md (norm_md smd (length sids)) = ROk s /\
    construct default_profile inp oids sids omd smd ty = ROk (mkT oids sids m o s ty).
Proof. exact wellformed_accepted_lemma. Qed.
Print Assumptions wellformed_accepted.

(* ---- malformed input is rejected ------------------------------------------------------------ *)
(* whatever the input form: once it converts to an nr x nc matrix, duplicated ids on an axis, an
   id count differing from nr / nc, or a metadata list whose length differs from the id count
   make the constructor raise TableException under the default profile.  (No non-emptiness
   hypothesis is needed any more: an ignored 'empty' no longer masks the other checks.) *)
Theorem malformed_rejected : forall inp oids sids omd smd ty nr nc m,
  to_dense inp (length oids, length sids) = ROk (nr, nc, m) ->
  (zdup oids = true \/ zdup sids = true \/ length oids <> nr \/ length sids <> nc
   \/ (exists l, omd = Some l /\ length l <> length oids) \/ (exists l, smd = Some l /\ length l <> length sids)) ->
  construct default_profile inp oids sids omd smd ty = RErr E_TABLE.
Proof. exact malformed_rejected_lemma. Qed.
Print Assumptions malformed_rejected.

(* a metadata entry that is neither a mapping nor None - truthy or falsy ('', 0, []) - : never a
   table (any profile), and TableException under the default profile *)
Theorem nonmapping_rejected : forall p inp oids sids omd smd ty l,
  (omd = Some l \/ smd = Some l) -> existsb is_other l = true ->
  (exists c, construct p inp oids sids omd smd ty = RErr c) /\
  (forall nr nc m, to_dense inp (length oids, length sids) = ROk (nr, nc, m) ->
     construct default_profile inp oids sids omd smd ty = RErr E_TABLE).
Proof. exact nonmapping_rejected_lemma. Qed.
Print Assumptions nonmapping_rejected.

(* the forms that carry no shape (triples, dict): "too few ids" means a coordinate beyond the id
   count; it is the library's table error under every profile *)
Theorem coordinate_beyond_ids_rejected : forall p es oids sids omd smd ty,
  forallb (in_range (length oids) (length sids)) es = false ->
  construct p (InTriples es) oids sids omd smd ty = RErr E_TABLE /\
  construct p (InDict es) oids sids omd smd ty = RErr E_TABLE.
Proof. exact coordinate_beyond_ids_lemma. Qed.
Print Assumptions coordinate_beyond_ids_rejected.

(* an EMPTY ndarray of any shape takes the shape of the ids: the reason why "matrix non-empty"
   is part of the property's hypothesis for the array form *)
Theorem empty_array_takes_ids_shape :
  construct default_profile (InArray 2 0 [[];[]]) [1]%Z [7]%Z None None 0%Z
  = ROk (mkT [1]%Z [7]%Z [[0]]%Z None None 0%Z).
Proof. vm_compute. reflexivity. Qed.
Print Assumptions empty_array_takes_ids_shape.

(* ---- adjacency list ------------------------------------------------------------------------- *)
(* records (observation, sample, value), with or without the header line: the ids are the sorted
   id sets, every cell is the SUM of the values of the records naming that pair, no metadata *)
Theorem adjacency_sum : forall recs header, recs <> [] ->
  exists t, from_adjacency default_profile ((if header : bool then [AHeader] else []) ++ rec_lines recs) = ROk t /\
    oids t = sort_uniq (map (fun r => fst (fst r)) recs) /\
    sids t = sort_uniq (map (fun r => snd (fst r)) recs) /\
    omd t = None /\ smd t = None /\ wf t /\
    forall o s, In o (oids t) -> In s (sids t) -> cell t o s = Some (pair_sum recs o s).
Proof.
  intros recs header H. rewrite (from_adjacency_records default_profile recs header H).
  exact (adj_table_spec recs H).
Qed.
Print Assumptions adjacency_sum.

Theorem sorted_id_sets : forall l,
  StronglySorted Z.lt (sort_uniq l) /\ NoDup (sort_uniq l) /\ forall x, In x (sort_uniq l) <-> In x l.
Proof. intros l. split; [apply sort_uniq_sorted|]. split; [apply sort_uniq_NoDup|]. intros x. apply sort_uniq_In. Qed.
Print Assumptions sorted_id_sets.

(* a comment, blank or malformed line or a second header among the records, and input without
   any record: an error, never a table *)
Theorem adjacency_junk_refused : forall p pre x post,
  (forall l, In l pre -> exists o s v, l = ARec o s v) -> (forall o s v, x <> ARec o s v) ->
  (exists c, from_adjacency p (AHeader :: pre ++ x :: post) = RErr c) /\
  (pre <> [] -> exists c, from_adjacency p (pre ++ x :: post) = RErr c) /\
  (exists c, from_adjacency p [AHeader] = RErr c) /\ (exists c, from_adjacency p [] = RErr c).
Proof.
  intros p pre x post Hp Hx. split; [|split; [|split; eexists; reflexivity]].
  - cbn [from_adjacency]. destruct (adj_records_lr_junk pre x post [] Hp Hx) as [c E]. rewrite E. eexists. reflexivity.
  - intros Hne. destruct pre as [|l pre']; [contradiction|]. destruct (Hp l (or_introl eq_refl)) as (o & s & v & ->).
    change ((ARec o s v :: pre') ++ x :: post) with (ARec o s v :: (pre' ++ x :: post)). cbn [from_adjacency].
    change (ARec o s v :: pre' ++ x :: post) with ((ARec o s v :: pre') ++ x :: post).
    destruct (adj_records_lr_junk (ARec o s v :: pre') x post [] Hp Hx) as [c E]. rewrite E. eexists. reflexivity.
Qed.
Print Assumptions adjacency_junk_refused.

(* ---- uc clusters ---------------------------------------------------------------------------- *)
(* the cell of (seed o, sample s) is the NUMBER of H and S records whose observation is o and whose
   query label has the sample prefix s; the observation ids are exactly the seeds of the H, S and
   L records, the sample ids exactly the prefixes of the H and S queries, each once *)
Theorem uc_count : forall rs t, parse_uc rs = ROk t ->
  (forall o s i j, lpos o (ut_obs t) = Some i -> lpos s (ut_samp t) = Some j ->
     get (ut_mat t) i j = zcount (names_pair o s) rs) /\
  (forall x, In x (ut_obs t) <-> exists r, In r rs /\ is_live r = true /\ observation_of r = x) /\
  (forall x, In x (ut_samp t) <-> exists r, In r rs /\ is_hs r = true /\ rsplit_us (u_query r) = Some x) /\
  length (ut_mat t) = length (ut_obs t) /\ rect (length (ut_samp t)) (ut_mat t).
Proof. exact uc_count_lemma. Qed.
Print Assumptions uc_count.

Theorem uc_ids_once : forall rs t, parse_uc rs = ROk t -> NoDup (ut_obs t) /\ NoDup (ut_samp t).
Proof. exact uc_ids_nodup. Qed.
Print Assumptions uc_ids_once.

(* the sample id is the query label up to its LAST underscore (as coded; the docstring says
   first), and a query without underscore in an H or S record is the only way to fail *)
Theorem uc_sample_prefix : forall pre suf, ~ In UNDERSCORE suf -> rsplit_us (pre ++ UNDERSCORE :: suf) = Some pre.
Proof. exact rsplit_last. Qed.
Print Assumptions uc_sample_prefix.

Theorem uc_total : forall rs,
  (forall r, In r rs -> is_hs r = true -> rsplit_us (u_query r) <> None) -> exists t, parse_uc rs = ROk t.
Proof. exact uc_total_lemma. Qed.
Print Assumptions uc_total.

Theorem uc_error : forall rs c, parse_uc rs = RErr c ->
  c = E_VALUE /\ exists r, In r rs /\ is_hs r = true /\ rsplit_us (u_query r) = None.
Proof. exact uc_error_lemma. Qed.
Print Assumptions uc_error.

(* from-uc with a representative set renames the observations and nothing else *)
Theorem from_uc_renames_only : forall rs m t', from_uc rs (Some m) = ROk t' ->
  exists t, parse_uc rs = ROk t /\ ut_mat t' = ut_mat t /\ ut_samp t' = ut_samp t /\
    rename_all m (ut_obs t) = Some (ut_obs t') /\ ldup (ut_obs t') = false.
Proof. exact from_uc_rename_lemma. Qed.
Print Assumptions from_uc_renames_only.

(* ---- non-vacuity ---------------------------------------------------------------------------- *)
Definition ex_m : matrix := [[5;0;0;7];[0;0;0;0];[0;2;0;0]]%Z.
Example ex_rect : rect 4 ex_m.
Proof. repeat constructor. Qed.
(* a shuffled triple list with an explicit zero and a value split in two describes ex_m *)
Example ex_represents : represents [(2,1,3%Z); (0,3,7%Z); (1,1,0%Z); (0,0,5%Z); (2,1,(-1)%Z)] 3 4 ex_m.
Proof.
  split; [vm_compute; reflexivity|]. intros i j Hi Hj.
  destruct i as [|[|[|i]]]; [| | |exfalso; do 3 apply Nat.succ_lt_mono in Hi; inversion Hi];
    (destruct j as [|[|[|[|j]]]]; [| | | |exfalso; do 4 apply Nat.succ_lt_mono in Hj; inversion Hj]); vm_compute; reflexivity.
Qed.
Example ex_all_forms_one_table :
  forallb (fun inp => match construct default_profile inp [10;20;30]%Z [1;2;3;4]%Z
                              (Some [MdMap [I 1%Z]; MdNone; MdMap []]) None 1%Z with
                      | ROk t => mat_eqb (mat t) ex_m && Nat.eqb (length (oids t)) 3 | RErr _ => false end)
          (all_encodings 4 ex_m) = true /\ length (all_encodings 4 ex_m) = 9.
Proof. vm_compute. split; reflexivity. Qed.
Example ex_malformed :
  construct default_profile (enc_array 4 ex_m) [10;20;10]%Z [1;2;3;4]%Z None None 0%Z = RErr E_TABLE /\
  construct default_profile (enc_dict ex_m) [10;20;30]%Z [1;2;3;4]%Z (Some [MdNone; MdNone]) None 0%Z = RErr E_TABLE /\
  construct default_profile (enc_lists ex_m) [10;20;30;40]%Z [1;2;3;4]%Z None None 0%Z = RErr E_TABLE /\
  construct default_profile (enc_sparse 4 ex_m) [10;20;30]%Z [1;2;3;4]%Z None (Some [MdNone; MdOther true (I 5%Z); MdNone; MdNone]) 0%Z
    = RErr E_TABLE.
Proof. vm_compute. repeat split; reflexivity. Qed.
(* old F43: 1x4 dok rows with five (or three) sample ids are refused, with four accepted *)
Example ex_dokrows :
  let rows := InDokRows [(4, [(0,1%Z);(2,2%Z)]); (4, [(1,3%Z)])] in
  construct default_profile rows [1;2]%Z [5;6;7;8;9]%Z None None 0%Z = RErr E_TABLE /\
  construct default_profile rows [1;2]%Z [5;6;7]%Z None None 0%Z = RErr E_TABLE /\
  construct default_profile rows [1;2]%Z [5;6;7;8]%Z None None 0%Z
    = ROk (mkT [1;2]%Z [5;6;7;8]%Z [[1;0;2;0];[0;3;0;0]]%Z None None 0%Z).
Proof. vm_compute. repeat split; reflexivity. Qed.
(* the old findings F29, F31, F32 as they behave now *)
Example ex_repaired :
  construct default_profile (InTriples [(0,0,1%Z);(2,0,3%Z)]) [1;2]%Z [7]%Z None None 0%Z = RErr E_TABLE /\
  construct default_profile (enc_rowdicts [[0;0];[0;0]]%Z) [1;2]%Z [7;8]%Z None None 0%Z
    = ROk (mkT [1;2]%Z [7;8]%Z [[0;0];[0;0]]%Z None None 0%Z) /\
  construct default_profile (InArray 2 1 [[1];[2]]%Z) [1;2]%Z [7]%Z
            (Some [MdOther false (L []); MdOther false (I 0%Z)]) None 0%Z = RErr E_TABLE.
Proof. vm_compute. repeat split; reflexivity. Qed.
Example ex_adjacency :
  from_adjacency default_profile [AHeader; ARec 20 7 3; ARec 10 7 1; ARec 20 7 (-1); ARec 10 8 0]%Z
  = ROk (mkT [10;20]%Z [7;8]%Z [[1;0];[2;0]]%Z None None 0%Z).
Proof. vm_compute. reflexivity. Qed.
(* "s1_a_1": seed, "s2_7" and "s1_a_9" hit it, a library seed "lib" without hits *)
Definition lb (l : list Z) : label := l.
Example ex_uc :
  let s1a1 := lb [115;49;95;97;95;49]%Z in let s27 := lb [115;50;95;55]%Z in
  let s1a9 := lb [115;49;95;97;95;57]%Z in let lib := lb [108;105;98]%Z in
  parse_uc [mkU US s1a1 STAR; mkU UH s27 s1a1; mkU UOther s27 STAR; mkU UL lib STAR; mkU UH s1a9 s1a1]
  = ROk (mkUT [s1a1; lib] [lb [115;49;95;97]%Z; lb [115;50]%Z] [[2;1];[0;0]]%Z).
Proof. vm_compute. reflexivity. Qed.

(* ---- translator tie (DESIGN 3.1 T13): biom/parse.py parse_uc regenerated by tools/py2v_uc ---- *)
(* Gen/UcGen.v is re-translated from the source on every check; these theorems say the generated
   text computes the hand-written model on every input (Proofs/GenBridgeUcProofs.v).  The model
   at the level of the text is Model/UcText.v: uc_record (a line -> the record uc_step folds). *)
From BiomV Require Import Model.Slicer Model.UcText Gen.StrPrelude Gen.UcPrelude Gen.UcGen Proofs.GenBridgeUcProofs.

(* one turn of the loop: on a state whose two dicts index their id lists (inv_st), the generated
   turn is uc_record followed by uc_step on the state without the dicts (abs_st), errors included,
   and the invariant is kept *)
Theorem parse_uc_line_is_source : forall st line, inv_st st ->
  out_res (obind (parse_uc_line_gen HSL st line) (fun st' => Val (abs_st st')))
    = Some (uc_step_text (ROk (abs_st st)) line)
  /\ forall st', parse_uc_line_gen HSL st line = Val st' -> inv_st st'.
Proof. exact parse_uc_line_is_source_lemma. Qed.
Print Assumptions parse_uc_line_is_source.

(* the function: the arguments handed to the constructor are the data / ids of the hand fold *)
Theorem parse_uc_is_source : forall fh,
  out_res (parse_uc_gen fh) = Some (uc_call_of (uc_fold_text fh)).
Proof. exact parse_uc_is_source_lemma. Qed.
Print Assumptions parse_uc_is_source.

(* ... and with the constructor of Model/Construct.v (uc_matrix) on those arguments it is parse_uc_text *)
Theorem parse_uc_text_is_source : forall fh,
  exists r, out_res (parse_uc_gen fh) = Some r /\
            match r with ROk c => uc_table_of_call c | RErr e => RErr e end = parse_uc_text fh.
Proof. exact parse_uc_text_is_source_lemma. Qed.
Print Assumptions parse_uc_text_is_source.

(* when every line parses to a record, the text-level importer is the record-level parse_uc the
   theorems above (uc_count, uc_ids_once, uc_total, uc_error) are about *)
Theorem parse_uc_text_on_records : forall lines rs,
  all_records lines = Some rs -> parse_uc_text lines = parse_uc rs.
Proof. exact parse_uc_text_records. Qed.
Print Assumptions parse_uc_text_on_records.
