(* C18: metadata updates affect exactly the named ids and keys; a mapping file parses to the
   relation its rows describe.
   Model: Model/Metadata.v (add_metadata, del_metadata, parse_mapping, cli_add, the row grammar
   mfile with its printer render and its meaning relation); proofs: Proofs/MetadataProofs.v.
   md_lookup t a id k is the value of key k for id on axis a (None when id or key is absent);
   mwf / mapping_wf say "a table" (distinct ids, metadata None or one dict per id) and "a Python
   dict of dicts" (distinct ids, distinct keys). conv is the int() / float() oracle. *)
From Coq Require Import String.
From Coq Require Import List ZArith Bool.
From BiomV Require Import Base.Tree Base.Matrix Model.Table Model.Tsv Model.Metadata Proofs.TsvProofs Proofs.MetadataProofs
  Gen.MetaPrelude Gen.MetadataGen Proofs.GenBridgeMetadataProofs Gen.MapPrelude Gen.MapFileGen Proofs.GenBridgeMapFileProofs.
Import ListNotations.
Open Scope Z_scope.

(* Adding a mapping: ids, their order and the matrix are untouched, so is the other axis; for
   every id of the table and every key, the new value is the mapping's value when the mapping
   names that id and that key, and the old value otherwise (ids of the mapping that are not in
   the table appear nowhere); the axis has no metadata afterwards iff it had none and the
   mapping gives none of its ids a non-empty entry (_cast_metadata after repair 16e406b1). *)
Theorem add_md_local :
  forall t m a, mwf t -> mapping_wf m ->
  let t' := add_metadata t m a in
  m_oids t' = m_oids t /\ m_sids t' = m_sids t /\ m_mat t' = m_mat t
  /\ m_mds (other a) t' = m_mds (other a) t
  /\ (forall id k, In id (m_ids a t) ->
        md_lookup t' a id k
        = match mlookup id m with
          | Some e => match aget e k with Some v => Some v | None => md_lookup t a id k end
          | None => md_lookup t a id k
          end)
  /\ (m_mds a t' = None <-> m_mds a t = None /\ forall id, In id (m_ids a t) -> opt_empty (mlookup id m) = true).
Proof. exact add_md_local_proof. Qed.
Print Assumptions add_md_local.

Theorem add_then_lookup :
  forall t m a id e k v, mwf t -> mapping_wf m ->
  In id (m_ids a t) -> mlookup id m = Some e -> aget e k = Some v ->
  md_lookup (add_metadata t m a) a id k = Some v.
Proof. exact add_then_lookup_proof. Qed.
Print Assumptions add_then_lookup.

Theorem add_md_keeps_table : forall t m a, mwf t -> mwf (add_metadata t m a).
Proof. exact add_metadata_wf. Qed.
Print Assumptions add_md_keeps_table.

(* Histories over several tables, where a mapping entry may be the metadata object that some
   table holds for an id (t.add_metadata({'S1': ref.metadata('R1')})): a step changes no table
   but its receiver - not the donor, not a sibling - and on the receiver it is add_metadata /
   del_metadata with the referenced entries taken by value, so add_md_local / del_md_local
   hold step after step (two ids that were given the same object stay independent). *)
Theorem history_step_frame :
  forall ts i j, j <> target i -> nth j (mstep ts i) mt_empty = nth j ts mt_empty.
Proof. exact mstep_frame_proof. Qed.
Print Assumptions history_step_frame.

Theorem history_add_is_add_by_value :
  forall ts ti a m, (ti < length ts)%nat ->
  nth ti (mstep ts (IAdd ti a m)) mt_empty
  = add_metadata (nth ti ts mt_empty) (map (fun p => (fst p, resolve ts (snd p))) m) a.
Proof. exact mstep_add_target_proof. Qed.
Print Assumptions history_add_is_add_by_value.

Theorem history_del_is_del :
  forall ts ti keys s, (ti < length ts)%nat ->
  nth ti (mstep ts (IDel ti keys s)) mt_empty = del_metadata (nth ti ts mt_empty) keys s.
Proof. exact mstep_del_target_proof. Qed.
Print Assumptions history_del_is_del.

(* Deleting keys (None = all keys): ids, order, matrix untouched; an axis that is not chosen is
   untouched; on a chosen axis exactly the named keys disappear, for every id. *)
Theorem del_md_local :
  forall t keys s,
  let t' := del_metadata t keys s in
  m_oids t' = m_oids t /\ m_sids t' = m_sids t /\ m_mat t' = m_mat t
  /\ (forall a, selected s a = false -> m_mds a t' = m_mds a t)
  /\ (forall a id k, selected s a = true ->
        md_lookup t' a id k
        = match keys with None => None | Some ks => if tmem k ks then None else md_lookup t a id k end)
  /\ (forall a, selected s a = true -> keys = None -> m_mds a t' = None).
Proof. exact del_md_local_proof. Qed.
Print Assumptions del_md_local.

(* a key materialised with the value None by an earlier read of a default-None entry is
   deleted like any other key (del_md_local speaks of presence, not of values) *)
Theorem del_after_read :
  forall ids md id k ks i, tmem k ks = true ->
  aget (entry_of (del_axis (Some ks) (read_axis ids md id k)) i) k = None.
Proof. exact del_after_read_proof. Qed.
Print Assumptions del_after_read.

(* metadata collapses to None exactly when every entry is empty after the deletion *)
Theorem del_md_collapse :
  forall ks l, del_axis (Some ks) (Some l) = None <-> l <> [] /\ Forall (fun e => adel_all e ks = []) l.
Proof. exact del_axis_none. Qed.
Print Assumptions del_md_collapse.

Theorem del_md_idempotent :
  forall t keys s, del_metadata (del_metadata t keys s) keys s = del_metadata t keys s.
Proof. exact del_md_idempotent_proof. Qed.
Print Assumptions del_md_idempotent.

(* A file printed from the row grammar (white-space lines, '#' header line, comment lines,
   blank lines, rows with fewer or more cells than columns, quoted / padded cells) parses, for
   each of the four strip_f variants, every header override and every column-conversion option
   set, to the relation its rows describe. *)
Theorem mapping_parse :
  forall (conv : Z -> text -> option Tree) sq ss override o g,
    mfile_wf sq ss override g ->
    parse_mapping conv sq ss override o (render g) = ROk (relation conv sq ss override o g).
Proof. exact mapping_parse_proof. Qed.
Print Assumptions mapping_parse.

(* under the default variant a quoted, space-padded cell stands for its text *)
Theorem quoted_cell_value :
  forall pl pr t,
    ws_only pl -> ws_only pr -> ~ In QUOTE t -> (t = [] \/ edges_ok t) ->
    strip_f true false (pl ++ [QUOTE] ++ t ++ [QUOTE] ++ pr) = t.
Proof. exact quoted_cell_value_proof. Qed.
Print Assumptions quoted_cell_value.

(* the add-metadata command with a sample mapping file of the grammar adds that relation *)
Theorem cli_add_sample_file :
  forall conv t o hs g,
    mfile_wf true false hs g ->
    cli_add conv t (Some (render g)) None o hs []
    = ROk (add_metadata t (relation conv true false hs o g) Samp).
Proof. exact cli_add_sample_proof. Qed.
Print Assumptions cli_add_sample_file.

(* ---- non-vacuity ---- *)
Example add_md_local_hyps : mwf MdExamples.t32 /\ mapping_wf MdExamples.m1.
Proof. split; [exact (mwfb_ok _ MdExamples.t32_wf)|exact (mapping_wfb_ok _ MdExamples.m1_wf)]. Qed.
Example add_md_local_changes_something :
  md_lookup (add_metadata MdExamples.t32 MdExamples.m1 Obs) Obs MdExamples.o1 MdExamples.kA = Some (MdExamples.v 10)
  /\ md_lookup MdExamples.t32 Obs MdExamples.o1 MdExamples.kA = Some (MdExamples.v 1)
  /\ md_lookup (add_metadata MdExamples.t32 MdExamples.m1 Obs) Obs MdExamples.o1 MdExamples.kB = Some (MdExamples.v 2).
Proof. vm_compute. repeat split. Qed.
Example mapping_parse_hyps :
  mfile_wf true false [] MdExamples.gex /\ mfile_wf true false [MdExamples.n_id; MdExamples.n_ph] MdExamples.gex.
Proof. split; [exact (mfile_wfb_ok _ _ _ _ MdExamples.gex_wf)|exact (mfile_wfb_ok _ _ _ _ MdExamples.gex_override_wf)]. Qed.

(* ---- translator tie (DESIGN.md 3.1, T8): Gen/MetadataGen.v is regenerated from biom/table.py by
   tools/py2v_dyn (state mode) at the start of every check; the receiver is an explicit state
   (raw_state t: the two id lists and the two metadata fields as the code stores them), an axis
   is the Python string, an exception is RErr code.  mlen_ok t (an axis with metadata has one
   entry per id: what errcheck guarantees for every Table) is where the source would raise
   IndexError / stop the zip early while the total hand model goes on. ---- *)
(* Table.add_metadata: the loop over md.items() with exists / index / update, the None branch
   building the tuple from the mapping, _cast_metadata on both axes = add_metadata *)
Theorem add_metadata_is_source_partial : forall t m a, mlen_ok t ->
  add_metadata_gen (raw_state t) m (axis_text a) = ROk (raw_state (add_metadata t m a)).
Proof. exact add_metadata_bridge. Qed.
Print Assumptions add_metadata_is_source_partial.
Theorem add_metadata_unknown_axis_is_source : forall st m s,
  text_eqb s (txt "sample") = false -> text_eqb s (txt "observation") = false ->
  add_metadata_gen st m s = RErr E_UNKNOWN.
Proof. exact add_metadata_unknown_axis. Qed.
Print Assumptions add_metadata_unknown_axis_is_source.
(* Table.del_metadata: axis selection, keys=None clearing the chosen fields, the loops over the
   axes / zip(ids, metadata) / keys with `if k in md: del md[k]` on the dict objects, the
   empties == {True} collapse = del_metadata *)
Theorem del_metadata_is_source_partial : forall t keys s, mlen_ok t ->
  del_metadata_gen (raw_state t) keys (sel_text s) = ROk (raw_state (del_metadata t keys s)).
Proof. exact del_metadata_bridge. Qed.
Print Assumptions del_metadata_is_source_partial.
Theorem del_metadata_unknown_axis_is_source : forall st keys s,
  text_eqb s (txt "whole") = false -> tmem s [txt "sample"; txt "observation"] = false ->
  del_metadata_gen st keys s = RErr E_UNKNOWN.
Proof. exact del_metadata_unknown_axis. Qed.
Print Assumptions del_metadata_unknown_axis_is_source.
(* the hypothesis of the two partial bridges is satisfiable by a table with metadata on both axes *)
Example mlen_ok_example :
  mlen_ok (mkM [txt "o1"] [txt "s1"; txt "s2"] [[1; 2]] (Some [[(txt "k", tNone)]]) (Some [[]; [(txt "k", tNone)]])).
Proof. intros [|] l E; inversion E; reflexivity. Qed.
Print Assumptions mlen_ok_example.

(* ---- the mapping-file reader is the source (DESIGN 3.1 T12): Gen/MapFileGen.v is regenerated from
   MetadataMap.from_file (biom/parse.py) by tools/py2v (mapping-file mode) on every check; the lines
   are a list of texts, process_fns is a function from column names to optional conversions
   (pf_of conv o: the column kinds of colopts over the int()/float() oracle conv). ---- *)
(* the four strip_f variants selected by strip_quotes / suppress_stripping *)
Theorem strip_f_is_source : forall sq ss x, strip_f_gen sq ss x = strip_f sq ss x.
Proof. exact strip_f_bridge. Qed.
Print Assumptions strip_f_is_source.
(* one turn of the loop over the lines: blank / comment / header / data line with padding; the
   generated state carries `comments` as well, which nothing reads *)
Theorem from_file_line_is_source : forall sq ss st line,
  proj3 (from_file_line_gen sq ss st line) = map_step sq ss (proj3 st) line.
Proof. exact line_bridge. Qed.
Print Assumptions from_file_line_is_source.
(* current_d[k] = process_fns[k](v) / except KeyError: current_d[k] = v over zip(header[1:], vals[1:]) *)
Theorem from_file_cols_is_source : forall conv o cols vals acc,
  fold_left (from_file_col_gen (pf_of conv o)) (combine cols vals) acc = row_dict conv o cols vals acc.
Proof. exact cols_bridge. Qed.
Print Assumptions from_file_cols_is_source.
(* the whole method: the three refusals (no header, no data, first column not unique) and the dict of
   dicts keyed by the first column, for every list of lines, flags, header override and column options *)
Theorem from_file_is_source : forall conv sq ss header0 o lines,
  from_file_gen lines sq ss header0 (pf_of conv o) = parse_mapping conv sq ss header0 o lines.
Proof. exact from_file_bridge. Qed.
Print Assumptions from_file_is_source.
(* why the vocabulary may read `vals[0]` / `i[0]` without an IndexError arm: every row the generated
   loop stores is non-empty (str.split never returns an empty list), from any header override *)
Theorem from_file_rows_nonempty_is_source : forall sq ss lines header0 h md c,
  fold_left (from_file_line_gen sq ss) lines (header0, [], []) = (h, md, c) -> Forall (fun r => r <> []) md.
Proof. intros sq ss lines header0 h md c. apply from_file_rows_nonempty. constructor. Qed.
Print Assumptions from_file_rows_nonempty_is_source.
