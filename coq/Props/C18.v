From BiomV Require Import Model.Metadata.
Theorem placeholder_c18 : True. Proof. exact Logic.I. Qed.
Print Assumptions placeholder_c18.
