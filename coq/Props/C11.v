(* C11: partition is an exact split; collapse conserves what it aggregates.
   Model: Model/Partition.v.
     partition_t t a lab ignore_none remove_empty = list(t.partition(f, axis, remove_empty, ignore_none))
     collapse_t t a (OneToOne lab min_group_size) norm include_collapsed_metadata mode = t.collapse(f, ...)
     collapse_t t a (OneToMany yields raises strict key) ...                      = t.collapse(f, one_to_many=True, ...)
   The labelling is user code: labels_of lab ids is the list of label codes, one per id, in id order
   (NONE_LABEL = python None).  A collapsed table holds numerators (ctab) and one divisor per collapsed
   vector (cdiv): value = numerator / divisor.
   select mask l keeps the elements of l at the positions where mask is true, so
   select (map (Z.eqb l) labels) ids  are the ids whose label is l, in their original order.
   cellx a t x y = value for (id x on axis a, id y on the other axis); md_view identifies None and {}. *)
From Coq Require Import List ZArith Bool Sorted Permutation.
From BiomV Require Import Base.Tree Base.ListUtil Base.Matrix Model.Table Model.Orient Model.Filter Model.Partition
  Proofs.OrientProofs Proofs.PartitionProofs.
Import ListNotations.

(* ---------------- partition ---------------- *)
(* one part per label that occurs (None excluded when ignored); the ids of part l are exactly the ids
   labelled l, in order; their vectors, their metadata, the complete other axis with its metadata and
   the type are those of the table; every part is a coherent, non-empty table *)
Theorem partition_exact : forall (t : table) (a : axis) (lab : labelling) (ign : bool) (parts : list (Z * table)),
  wf t -> partition_t t a lab ign false = ROk parts ->
  let labels := labels_of lab (ids a t) in
  length labels = length (ids a t) /\
  NoDup (map fst parts) /\
  (forall l, In l (map fst parts) <-> In l labels /\ (ign = true -> l <> NONE_LABEL)) /\
  (forall l p, In (l, p) parts ->
     ids a p = select (map (Z.eqb l) labels) (ids a t) /\ ids a p <> [] /\
     ids (other a) p = ids (other a) t /\
     (forall x y, In x (ids a p) -> cellx a p x y = cellx a t x y) /\
     (forall x, In x (ids a p) -> md_view a p x = md_view a t x) /\
     (forall y, md_view (other a) p y = md_view (other a) t y) /\
     ttype p = ttype t /\ wf p).
Proof. exact PartitionProofs.partition_exact. Qed.
Print Assumptions partition_exact.

(* an id belongs to the part labelled l iff l is its label *)
Theorem partition_membership : forall t a lab ign parts (i : nat) (x l : Z) (p : table),
  wf t -> partition_t t a lab ign false = ROk parts ->
  nth_error (ids a t) i = Some x -> In (l, p) parts ->
  (In x (ids a p) <-> nth_error (labels_of lab (ids a t)) i = Some l).
Proof. exact PartitionProofs.partition_membership. Qed.
Print Assumptions partition_membership.

(* cover: every id whose label is not ignored is in the part of its label *)
Theorem partition_cover : forall t a lab ign parts (i : nat) (x l : Z),
  wf t -> partition_t t a lab ign false = ROk parts ->
  nth_error (ids a t) i = Some x -> nth_error (labels_of lab (ids a t)) i = Some l ->
  (ign = true -> l <> NONE_LABEL) ->
  exists p, In (l, p) parts /\ In x (ids a p).
Proof. exact PartitionProofs.partition_cover. Qed.
Print Assumptions partition_cover.

(* disjoint: an id is in at most one part *)
Theorem partition_disjoint : forall t a lab ign parts (l1 : Z) (p1 : table) (l2 : Z) (p2 : table) (x : Z),
  wf t -> partition_t t a lab ign false = ROk parts ->
  In (l1, p1) parts -> In (l2, p2) parts -> In x (ids a p1) -> In x (ids a p2) -> l1 = l2.
Proof. exact PartitionProofs.partition_disjoint. Qed.
Print Assumptions partition_disjoint.

(* with ignore_none an id labelled None is in no part *)
Theorem partition_ignored : forall t a lab parts (i : nat) (x : Z) (p : table) (l : Z),
  wf t -> partition_t t a lab true false = ROk parts ->
  nth_error (ids a t) i = Some x -> nth_error (labels_of lab (ids a t)) i = Some NONE_LABEL ->
  In (l, p) parts -> ~ In x (ids a p).
Proof. exact PartitionProofs.partition_ignored. Qed.
Print Assumptions partition_ignored.

(* exactly once: the ids of all parts together are a permutation of the ids whose label is not ignored *)
Theorem partition_cover_once : forall t a lab ign parts,
  wf t -> partition_t t a lab ign false = ROk parts ->
  Permutation (concat (map (fun lp => ids a (snd lp)) parts))
              (select (map (fun l => negb (ign && Z.eqb l NONE_LABEL)) (labels_of lab (ids a t))) (ids a t)).
Proof. exact PartitionProofs.partition_cover_once. Qed.
Print Assumptions partition_cover_once.

(* remove_empty=True is remove_empty (axis 'whole', property C08) applied to each part *)
Theorem partition_remove_empty : forall t a lab ign,
  partition_t t a lab ign true =
  match partition_t t a lab ign false with
  | ROk parts => ROk (map (fun lp => (fst lp, remove_empty_whole (snd lp))) parts)
  | RErr c => RErr c
  end.
Proof. exact PartitionProofs.partition_remove_empty. Qed.
Print Assumptions partition_remove_empty.

(* what remove_empty does to a part: values of the remaining id pairs are unchanged; a sample stays iff
   its vector in the part has a non-zero entry, an observation iff it has one among the remaining samples *)
Theorem remove_empty_whole_cell : forall (p : table) (o s : Z),
  wf p -> In o (oids (remove_empty_whole p)) -> In s (sids (remove_empty_whole p)) ->
  cell (remove_empty_whole p) o s = cell p o s.
Proof. exact PartitionProofs.remove_empty_whole_cell. Qed.
Print Assumptions remove_empty_whole_cell.

Theorem remove_empty_whole_ids : forall p : table,
  (forall s, In s (sids (remove_empty_whole p)) <->
     exists j, j < length (sids p) /\ nth j (sids p) 0%Z = s /\ all_zero (vec Samp p j) = false) /\
  (forall o, In o (oids (remove_empty_whole p)) <->
     exists i, i < length (oids p) /\ nth i (oids p) 0%Z = o /\
               all_zero (vec Obs (remove_empty_axis Samp p) i) = false).
Proof. exact PartitionProofs.remove_empty_whole_ids. Qed.
Print Assumptions remove_empty_whole_ids.

(* the only refusals: a dict in neither accepted form (ValueError) and the empty dict (IndexError) *)
Theorem partition_refuses : forall t a lab ign re (c : Z),
  partition_t t a lab ign re = RErr c <-> lab_error lab = Some c.
Proof. exact PartitionProofs.partition_refuses. Qed.
Print Assumptions partition_refuses.

(* ---------------- collapse, one-to-one ---------------- *)
(* one collapsed vector per label whose group has at least min_group_size members; the other axis,
   its metadata and the type are unchanged; the result is coherent *)
Theorem collapse_ids : forall t a lab (min_group : Z) (norm incl : bool) (mode : Z) (c : collapsed),
  wf t -> collapse_t t a (OneToOne lab min_group) norm incl mode = ROk c ->
  NoDup (ids a (ctab c)) /\
  (forall l, In l (ids a (ctab c)) <->
     In l (labels_of lab (ids a t)) /\
     (min_group <= Z.of_nat (length (select (map (Z.eqb l) (labels_of lab (ids a t))) (ids a t))))%Z) /\
  ids (other a) (ctab c) = ids (other a) t /\
  (forall y, md_view (other a) (ctab c) y = md_view (other a) t y) /\
  ttype (ctab c) = ttype t /\ wf (ctab c) /\ length (cdiv c) = length (ids a (ctab c)).
Proof. exact PartitionProofs.collapse_ids. Qed.
Print Assumptions collapse_ids.

(* each collapsed vector is the element-wise sum of its members ... *)
Theorem collapse_sum : forall t a lab (min_group : Z) (norm incl : bool) (mode : Z) (c : collapsed),
  wf t -> collapse_t t a (OneToOne lab min_group) norm incl mode = ROk c ->
  forall l y : Z,
  In l (ids a (ctab c)) -> In y (ids (other a) t) ->
  cellx a (ctab c) l y =
  Some (zsum (map (fun x => cellx0 a t x y) (select (map (Z.eqb l) (labels_of lab (ids a t))) (ids a t)))).
Proof. exact PartitionProofs.collapse_sum. Qed.
Print Assumptions collapse_sum.

(* ... divided by the member count when normalising *)
Theorem collapse_divisor : forall t a lab (min_group : Z) (norm incl : bool) (mode : Z) (c : collapsed),
  wf t -> collapse_t t a (OneToOne lab min_group) norm incl mode = ROk c ->
  forall (k : nat) (l : Z),
  nth_error (ids a (ctab c)) k = Some l ->
  nth_error (cdiv c) k =
  Some (if norm then Z.of_nat (length (select (map (Z.eqb l) (labels_of lab (ids a t))) (ids a t))) else 1%Z).
Proof. exact PartitionProofs.collapse_divisor. Qed.
Print Assumptions collapse_divisor.

(* collapsed_ids lists exactly the members, in order *)
Theorem collapse_members : forall t a lab (min_group : Z) (norm incl : bool) (mode : Z) (c : collapsed),
  wf t -> collapse_t t a (OneToOne lab min_group) norm incl mode = ROk c ->
  forall l : Z,
  incl = true -> In l (ids a (ctab c)) ->
  md_of a (ctab c) l = Some (collapsed_md (select (map (Z.eqb l) (labels_of lab (ids a t))) (ids a t))).
Proof. exact PartitionProofs.collapse_members. Qed.
Print Assumptions collapse_members.

Theorem collapse_no_md : forall t a lab (min_group : Z) (norm incl : bool) (mode : Z) (c : collapsed),
  wf t -> collapse_t t a (OneToOne lab min_group) norm incl mode = ROk c ->
  incl = false -> mds a (ctab c) = None.
Proof. exact PartitionProofs.collapse_no_md. Qed.
Print Assumptions collapse_no_md.

(* without a size threshold every other-axis total is conserved (numerators; with norm = false every
   divisor is 1 by collapse_divisor) *)
Theorem collapse_conserves : forall t a lab (min_group : Z) (norm incl : bool) (mode : Z) (c : collapsed),
  wf t -> collapse_t t a (OneToOne lab min_group) norm incl mode = ROk c ->
  forall y : Z,
  (min_group <= 1)%Z -> In y (ids (other a) t) ->
  zsum (map (fun l => cellx0 a (ctab c) l y) (ids a (ctab c))) =
  zsum (map (fun x => cellx0 a t x y) (ids a t)).
Proof. exact PartitionProofs.collapse_conserves. Qed.
Print Assumptions collapse_conserves.

(* the only refusals: an unknown one_to_many_mode (ValueError) and a rejected dict *)
Theorem collapse_o2o_refuses : forall t a lab (min_group : Z) (norm incl : bool) (mode e : Z),
  collapse_t t a (OneToOne lab min_group) norm incl mode = RErr e <->
  (mode_ok mode = false /\ e = E_VALUE) \/ (mode_ok mode = true /\ lab_error lab = Some e).
Proof. exact PartitionProofs.collapse_o2o_refuses. Qed.
Print Assumptions collapse_o2o_refuses.

(* no label reaches min_group_size: the empty table over the complete other axis *)
Theorem collapse_below_min : forall t a lab (min_group : Z) (norm incl : bool) (mode : Z) (c : collapsed),
  wf t -> collapse_t t a (OneToOne lab min_group) norm incl mode = ROk c ->
  (forall l, In l (labels_of lab (ids a t)) ->
     (Z.of_nat (length (select (map (Z.eqb l) (labels_of lab (ids a t))) (ids a t))) < min_group)%Z) ->
  ids a (ctab c) = [] /\ ids (other a) (ctab c) = ids (other a) t /\ wf (ctab c).
Proof. exact PartitionProofs.collapse_below_min. Qed.
Print Assumptions collapse_below_min.

(* ---------------- collapse, one-to-many ----------------
   yields = per id of the axis (in id order) the (pathway, group) pairs the user generator yields;
   mult g p = how many of the pairs p name group g; the divisor of every collapsed vector is
   K = 1 ('add') or the least common multiple of the non-zero pair counts ('divide'), and a vector
   with d pairs contributes with weight K / d, i.e. counts / d after division by K. *)
Theorem o2m_ids : forall t a (yields : list (list (Tree * Z))) (raises : list bool) (strict : bool) (key : Tree)
                         (norm incl : bool) (mode : Z) (c : collapsed),
  collapse_t t a (OneToMany yields raises strict key) norm incl mode = ROk c ->
  StronglySorted Z.lt (ids a (ctab c)) /\
  (forall g, In g (ids a (ctab c)) <-> exists p pw, In p yields /\ In (pw, g) p) /\
  ids (other a) (ctab c) = ids (other a) t /\
  (forall y, md_view (other a) (ctab c) y = md_view (other a) t y) /\
  ttype (ctab c) = ttype t /\
  cdiv c = repeat (o2m_k (Z.eqb mode 1) yields) (length (ids a (ctab c))) /\
  (0 < o2m_k (Z.eqb mode 1) yields)%Z /\ mds a t <> None /\ norm = false.
Proof. exact PartitionProofs.o2m_ids. Qed.
Print Assumptions o2m_ids.

Theorem o2m_value : forall t a (yields : list (list (Tree * Z))) (raises : list bool) (strict : bool) (key : Tree)
                           (norm incl : bool) (mode : Z) (c : collapsed),
  wf t -> collapse_t t a (OneToMany yields raises strict key) norm incl mode = ROk c ->
  forall g y : Z, In g (ids a (ctab c)) -> In y (ids (other a) t) ->
  cellx a (ctab c) g y =
  Some (zsum (map (fun xp => mult g (snd xp) *
                             (o2m_weight (o2m_k (Z.eqb mode 1) yields) (Z.eqb mode 1) (snd xp) * cellx0 a t (fst xp) y))%Z
                  (combine (ids a t) yields))).
Proof. exact PartitionProofs.o2m_value. Qed.
Print Assumptions o2m_value.

(* 'add': full counts to each group, once per occurrence; divisors are 1 *)
Theorem o2m_add : forall t a (yields : list (list (Tree * Z))) (raises : list bool) (strict : bool) (key : Tree)
                         (norm incl : bool) (mode : Z) (c : collapsed),
  wf t -> collapse_t t a (OneToMany yields raises strict key) norm incl mode = ROk c ->
  forall g y : Z, mode = 0%Z -> In g (ids a (ctab c)) -> In y (ids (other a) t) ->
  cellx a (ctab c) g y =
    Some (zsum (map (fun xp => mult g (snd xp) * cellx0 a t (fst xp) y)%Z (combine (ids a t) yields))) /\
  cdiv c = repeat 1%Z (length (ids a (ctab c))).
Proof. exact PartitionProofs.o2m_add. Qed.
Print Assumptions o2m_add.

(* 'divide': number of pairs * weight = K, i.e. each pair receives counts / number of pairs *)
Theorem o2m_divide_weight : forall (yields : list (list (Tree * Z))) (mode : Z) (p : list (Tree * Z)),
  mode = 1%Z -> In p yields -> p <> [] ->
  (Z.of_nat (length p) * o2m_weight (o2m_k (Z.eqb mode 1) yields) (Z.eqb mode 1) p = o2m_k (Z.eqb mode 1) yields)%Z.
Proof. exact PartitionProofs.o2m_divide_weight. Qed.
Print Assumptions o2m_divide_weight.

(* 'divide' conserves every other-axis total when every vector maps to at least one group
   (numerators sum to K times the original total, every divisor is K) *)
Theorem o2m_divide_conserves : forall t a (yields : list (list (Tree * Z))) (raises : list bool) (strict : bool) (key : Tree)
                                      (norm incl : bool) (mode : Z) (c : collapsed),
  wf t -> collapse_t t a (OneToMany yields raises strict key) norm incl mode = ROk c ->
  forall y : Z, mode = 1%Z -> length yields = length (ids a t) -> (forall p, In p yields -> p <> []) ->
  In y (ids (other a) t) ->
  zsum (map (fun g => cellx0 a (ctab c) g y) (ids a (ctab c))) =
  (o2m_k (Z.eqb mode 1) yields * zsum (map (fun x => cellx0 a t x y) (ids a t)))%Z.
Proof. exact PartitionProofs.o2m_divide_conserves. Qed.
Print Assumptions o2m_divide_conserves.

(* metadata of a group: {key: pathway} for one of the pathways yielded with that group *)
Theorem o2m_md : forall t a (yields : list (list (Tree * Z))) (raises : list bool) (strict : bool) (key : Tree)
                        (norm incl : bool) (mode : Z) (c : collapsed),
  collapse_t t a (OneToMany yields raises strict key) norm incl mode = ROk c ->
  forall g : Z, incl = true -> In g (ids a (ctab c)) ->
  exists pw p, md_of a (ctab c) g = Some (path_md key pw) /\ In p yields /\ In (pw, g) p.
Proof. exact PartitionProofs.o2m_md. Qed.
Print Assumptions o2m_md.

(* refusals of one-to-many: unknown mode (ValueError), norm (AttributeError), an axis without metadata
   (TypeError from zip(ids, None)), strict with an incomplete pathway (IndexError) *)
Theorem o2m_refuses : forall t a (yields : list (list (Tree * Z))) (raises : list bool) (strict : bool) (key : Tree)
                             (norm incl : bool) (mode e : Z),
  collapse_t t a (OneToMany yields raises strict key) norm incl mode = RErr e <->
  (mode_ok mode = false /\ e = E_VALUE) \/
  (mode_ok mode = true /\ norm = true /\ e = E_OTHER) \/
  (mode_ok mode = true /\ norm = false /\ mds a t = None /\ e = E_TYPE) \/
  (mode_ok mode = true /\ norm = false /\ mds a t <> None /\ strict = true /\
   existsb (fun b => b) raises = true /\ e = E_OTHER).
Proof. exact PartitionProofs.o2m_refuses. Qed.
Print Assumptions o2m_refuses.

(* ---------------- coherence is preserved, for any arguments ---------------- *)
Theorem partition_wf : forall t a lab (ignore_none remove_empty : bool) (parts : list (Z * table)),
  wf t -> partition_t t a lab ignore_none remove_empty = ROk parts -> Forall (fun p => wf (snd p)) parts.
Proof. exact PartitionProofs.partition_wf. Qed.
Print Assumptions partition_wf.

Theorem collapse_wf : forall t a (m : collapse_mode) (norm incl : bool) (mode : Z) (c : collapsed),
  wf t -> collapse_t t a m norm incl mode = ROk c -> wf (ctab c).
Proof. exact PartitionProofs.collapse_wf. Qed.
Print Assumptions collapse_wf.

(* ---------------- non-vacuity ---------------- *)
Local Open Scope Z_scope.
Definition mdG (n : Z) : Tree := L [I 6; L [L [L [I 103]; L [I 2; I n]]]].
(* 3 observations x 4 samples, an all-zero sample, negative values, metadata on both axes *)
Definition exT : table :=
  mkT [10; 20; 30] [110; 120; 130; 140] [[1; 0; 2; 0]; [0; 0; 0; 5]; [-1; 0; 1; 7]]
      (Some [mdG 1; md_empty; mdG 2]) (Some [mdG 1; mdG 1; mdG 2; md_empty]) 1.
(* samples labelled 5, None, 5, 6 *)
Definition exLab : labelling := LFun [5; 0; 5; 6].

Example partition_example :
  wf exT /\
  partition_t exT Samp exLab true false =
    ROk [(5, mkT [10; 20; 30] [110; 130] [[1; 2]; [0; 0]; [-1; 1]] (Some [mdG 1; md_empty; mdG 2]) (Some [mdG 1; mdG 2]) 1);
         (6, mkT [10; 20; 30] [140] [[0]; [5]; [7]] (Some [mdG 1; md_empty; mdG 2]) None 1)] /\
  (exists parts, partition_t exT Samp exLab false false = ROk parts /\ length parts = 3%nat).
Proof.
  split; [apply wfb_wf; vm_compute; reflexivity|]. split; [vm_compute; reflexivity|].
  eexists. split; [vm_compute; reflexivity|reflexivity].
Qed.

(* the repaired F6: a vector with non-zero entries whose sum is 0 survives remove_empty *)
Example partition_remove_empty_example :
  partition_t (mkT [10; 20; 30] [110; 120; 130] [[1; 0; 2]; [0; 0; 0]; [-1; 0; 1]] None None 0) Obs (LFun [5; 5; 5]) false true =
    ROk [(5, mkT [10; 30] [110; 130] [[1; 2]; [-1; 1]] None None 0)].
Proof. vm_compute. reflexivity. Qed.

Example collapse_example :
  collapse_t exT Samp (OneToOne (LFun [5; 6; 5; 6]) 1) true true 0 =
    ROk (mkC (mkT [10; 20; 30] [5; 6] [[3; 0]; [0; 5]; [0; 7]] (Some [mdG 1; md_empty; mdG 2])
                  (Some [collapsed_md [110; 130]; collapsed_md [120; 140]]) 1) [2; 2]) /\
  collapse_t exT Samp (OneToOne (LFun [5; 6; 5; 7]) 2) false true 0 =
    ROk (mkC (mkT [10; 20; 30] [5] [[3]; [0]; [0]] (Some [mdG 1; md_empty; mdG 2])
                  (Some [collapsed_md [110; 130]]) 1) [1]).
Proof. split; vm_compute; reflexivity. Qed.

(* no label reaches min_group_size: the empty table over the complete other axis *)
Example collapse_below_min_example :
  wf exT /\
  collapse_t exT Samp (OneToOne (LFun [5; 6; 7; 8]) 2) false true 0 =
    ROk (mkC (mkT [10; 20; 30] [] [[]; []; []] (Some [mdG 1; md_empty; mdG 2]) None 1) []).
Proof. split; [apply wfb_wf; vm_compute; reflexivity|vm_compute; reflexivity]. Qed.

(* one-to-many: sample 110 -> groups 7,7,8 ; 120 -> none ; 130 -> 8 ; 140 -> 7 ; K = lcm(3,1,1) = 3 *)
Definition pwA : Tree := L [I 4; L [I 65]].
Definition exYields : list (list (Tree * Z)) := [[(pwA, 7); (pwA, 7); (pwA, 8)]; []; [(pwA, 8)]; [(pwA, 7)]].
Example o2m_example :
  collapse_t exT Samp (OneToMany exYields [false; false; false; false] false (L [I 80])) false false 0 =
    ROk (mkC (mkT [10; 20; 30] [7; 8] [[2; 3]; [5; 0]; [5; 0]] (Some [mdG 1; md_empty; mdG 2]) None 1) [1; 1]) /\
  collapse_t exT Samp (OneToMany exYields [false; false; false; false] false (L [I 80])) false false 1 =
    ROk (mkC (mkT [10; 20; 30] [7; 8] [[2; 7]; [15; 0]; [19; 2]] (Some [mdG 1; md_empty; mdG 2]) None 1) [3; 3]).
Proof. split; vm_compute; reflexivity. Qed.

(* ---- the tie of the model to the source (DESIGN 3.1 T11): Gen/PartitionGen.v is regenerated from
   biom/table.py Table.partition by tools/py2v_part on every check; it is the hand-written
   partition_t on every table, labelling (user function as an oracle list, both dict forms, the
   rejected dicts), axis and flag pair.  The parameter order is the one of the source. *)
From BiomV Require Import Gen.PartPrelude Gen.PartitionGen Proofs.GenBridgePartitionProofs.

Theorem partition_is_source : forall t lab a remove_empty ignore_none,
  gen_partition t lab a remove_empty ignore_none = partition_t t a lab ignore_none remove_empty.
Proof. exact gen_partition_is_partition_t. Qed.
Print Assumptions partition_is_source.

(* ---- translator tie, Table.collapse one-to-one (DESIGN 3.1 T20): Gen/CollapseGen.v is regenerated from
   biom/table.py by tools/py2v_part (collapse subset) on every check ---- *)
From BiomV Require Import Gen.CollapsePrelude Gen.CollapseGen Proofs.GenBridgeCollapseProofs.

Theorem collapse_one_to_one_is_source : forall t lab norm min_group incl_md mode key strict a,
  gen_collapse_one_to_one t lab norm min_group incl_md mode key strict a
  = collapse_t t a (OneToOne lab min_group) norm incl_md mode.
Proof. exact gen_collapse_is_collapse_t. Qed.
Print Assumptions collapse_one_to_one_is_source.
