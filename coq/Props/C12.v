(* C12: subsampling (rarefaction) draws exactly n counts per vector, never inventing any.
   Statements only; proofs are in Proofs/SubsampleProofs.v.

   Vocabulary (Model/Subsample.v, Model/Stored.v):
     walk n a P            the running-offset walk of _subsample_without_replacement on one segment
                           with counts [a] and the SORTED draw [P]; returns (new segment, in-bounds flag)
     off a i               number of units owned by the entries before entry i
     cnt lo hi P           number of elements of P in [lo, hi)
     incr P                every element of P is smaller than all later ones (sorted, distinct)
     choice_ok total n P   contract of sorted(rng.choice(total, n, replace=False))
     draws_ok n totals ds  the recorded draws fit, in order, the vectors whose total is >= n
     multi_ok n seg d      contract of rng.multinomial(n, seg / sum seg)
     lay_wf vs lay         lay is a possible stored layout of the vectors vs (any order, stored zeros allowed)
     subsample n axis by_id with_replacement lay draws t = (receiver afterwards, result)            *)
From Coq Require Import List Arith ZArith Bool Permutation.
From BiomV Require Import Base.Tree Base.ListUtil Base.Matrix Model.Table Model.Orient Model.Filter Model.Stored
  Model.Subsample Proofs.StoredProofs Proofs.SubsampleProofs.
Import ListNotations.

(* K4.  The walk returns the occupancy vector of the chosen unit positions: entry i gets as many
   counts as there are chosen units among the units it owns.  Hence the segment sums to n and
   every entry stays between 0 and its original count; the code never indexes out of range.
   "Each unit equally likely" is then exactly numpy's contract for choice (trusted). *)
Theorem walk_counts : forall n a P,
  Forall (fun x => (0 <= x)%Z) a -> incr P -> Forall (fun p => (0 <= p < zsum a)%Z) P -> length P = n ->
  length (fst (walk n a P)) = length a /\
  (forall i, i < length a -> nth i (fst (walk n a P)) 0%Z = cnt (off a i) (off a i + nth i a 0)%Z P) /\
  zsum (fst (walk n a P)) = Z.of_nat n /\
  (forall i, (0 <= nth i (fst (walk n a P)) 0 <= nth i a 0)%Z) /\
  (1 <= n -> snd (walk n a P) = true).
Proof. intros n a P Ha Hi Hb Hn. apply walk_spec; [exact Ha|]. repeat split; assumption. Qed.
Print Assumptions walk_counts.

(* the exact counts do not need distinct draws (sortedness suffices) ... *)
Theorem walk_counts_sorted_only : forall n a P,
  Forall (fun x => (0 <= x)%Z) a -> nondecr P -> Forall (fun p => (0 <= p < zsum a)%Z) P -> length P = n ->
  forall i, i < length a -> nth i (fst (walk n a P)) 0%Z = cnt (off a i) (off a i + nth i a 0)%Z P.
Proof. intros n a P Ha Hs Hb Hn. apply (walk_counts_weak n a P Ha Hs Hb Hn). Qed.
Print Assumptions walk_counts_sorted_only.

(* ... but the bound by the original count does: with a repeated draw an entry exceeds its count *)
Theorem walk_bound_needs_distinct_refuted : exists a P,
  nondecr P /\ Forall (fun p => (0 <= p < zsum a)%Z) P /\ (nth 0 a 0 < nth 0 (fst (walk (length P) a P)) 0)%Z.
Proof. exact walk_duplicates_exceed. Qed.
Print Assumptions walk_bound_needs_distinct_refuted.

(* a vector with fewer than n counts is zeroed and consumes no draw *)
Theorem walk_small_total : forall n a draws,
  (zsum a < Z.of_nat n)%Z -> sub_seg n a draws = (repeat 0%Z (length a), draws, true).
Proof. intros n a draws H. unfold sub_seg. apply Z.ltb_lt in H. rewrite H. reflexivity. Qed.
Print Assumptions walk_small_total.

(* the compiled function on the arrays (indptr, data) is that walk applied to every segment
   data[indptr[i]:indptr[i+1]] of the ORIGINAL array, the draws consumed in order; nothing outside
   the segments is written *)
Theorem kernel_is_walk_per_segment : forall n indptr data N draws,
  length indptr = S N -> nth 0 indptr 0 = 0 ->
  (forall i j, i <= j -> j <= N -> nth i indptr 0 <= nth j indptr 0) -> nth N indptr 0 = length data ->
  let segs := map (fun i => slice data (nth i indptr 0) (nth (S i) indptr 0)) (seq 0 N) in
  kernel_wo n indptr data draws =
  (concat (fst (fst (seg_results n segs draws true))), snd (fst (seg_results n segs draws true)),
   snd (seg_results n segs draws true)).
Proof. intros n indptr data N draws HL H0 HM HE. exact (kernel_wo_segments n indptr data N HL H0 HM HE draws). Qed.
Print Assumptions kernel_is_walk_per_segment.

(* Table.subsample(n, axis) without replacement, for every layout the history may have left and
   every sequence of draws meeting numpy's contract:
   the receiver is unchanged; exactly the vectors with total >= n are retained, in order; each
   retained vector sums to exactly n; every cell is between 0 and the original cell; exactly the
   other-axis vectors left all-zero (over the retained vectors) are dropped; metadata travels with
   its id (md_view: as a reader sees it, None and the empty mapping identified, which is all the
   closing _cast_metadata of Table.filter can change) and the type is kept; the result is coherent. *)
Theorem subsample_table_spec : forall n a lay draws t,
  wf t -> nonneg_table t -> 1 <= n -> lay_wf (axis_vecs a t) lay ->
  draws_ok n (map zsum (axis_vecs a t)) draws ->
  fst (subsample (Z.of_nat n) a false false lay draws t) = t /\
  exists t', snd (subsample (Z.of_nat n) a false false lay draws t) = ROk t' /\
  wf t' /\
  ids a t' = select (map (fun v => (Z.of_nat n <=? zsum v)%Z) (axis_vecs a t)) (ids a t) /\
  Forall (fun v => zsum v = Z.of_nat n) (axis_vecs a t') /\
  (forall o s v, cell t' o s = Some v -> exists v0, cell t o s = Some v0 /\ (0 <= v <= v0)%Z) /\
  ids (other a) t' =
    select (map (fun c => negb (all_zero c))
                (axis_vecs (other a) (drop_nonpositive a (kernel_table_wo n a lay draws t))))
           (ids (other a) t) /\
  axis_vecs (other a) t' =
    filter (fun c => negb (all_zero c))
           (axis_vecs (other a) (drop_nonpositive a (kernel_table_wo n a lay draws t))) /\
  (forall x, In x (ids a t') -> md_view a t' x = md_view a t x) /\
  (forall y, In y (ids (other a) t') -> md_view (other a) t' y = md_view (other a) t y) /\
  ttype t' = ttype t.
Proof.
  intros n a lay draws t W NN Hn HL HD. split; [apply subsample_receiver_unchanged|].
  destruct (subsample_dispatch (Z.of_nat n) a lay draws t (Zle_0_nat n)) as (E & _ & _).
  rewrite Nat2Z.id in E. eexists. split; [exact E|].
  exact (subsample_counts_spec n a lay draws t W NN Hn HL HD).
Qed.
Print Assumptions subsample_table_spec.

(* with replacement (the method as repaired: vectors without counts are filtered out before the
   kernel): exactly the vectors with a positive total are kept, each sums to n and is non-zero only
   where the original was (under the contract of multinomial); no premise on the table beyond its
   domain.  [lay] / [draws] are the layout and the draws of the filtered table, which is what the
   kernel is handed. *)
Theorem with_replacement_spec : forall n a lay draws t,
  wf t -> nonneg_table t -> 1 <= n ->
  lay_wf (axis_vecs a (drop_nonpositive a t)) lay ->
  multis_ok n (gather_all (axis_vecs a (drop_nonpositive a t)) lay) draws ->
  fst (subsample (Z.of_nat n) a false true lay draws t) = t /\
  exists t', snd (subsample (Z.of_nat n) a false true lay draws t) = ROk t' /\ wf t' /\
    ids a t' = select (map (fun v => (0 <? zsum v)%Z) (axis_vecs a t)) (ids a t) /\
    Forall (fun v => zsum v = Z.of_nat n) (axis_vecs a t') /\
    (forall o s v, cell t' o s = Some v -> (0 <= v)%Z /\ (v <> 0%Z -> cell t o s <> Some 0%Z)) /\
    Forall (fun c => all_zero c = false) (axis_vecs (other a) t') /\
    (exists m2, ids (other a) t' = select m2 (ids (other a) t)) /\
    (forall x, In x (ids a t') -> md_view a t' x = md_view a t x) /\
    (forall y, In y (ids (other a) t') -> md_view (other a) t' y = md_view (other a) t y) /\
    ttype t' = ttype t.
Proof.
  intros n a lay draws t W NN Hn HL HD. split; [apply subsample_receiver_unchanged|].
  destruct (subsample_dispatch (Z.of_nat n) a lay draws t (Zle_0_nat n)) as (_ & E & _). rewrite E.
  exact (subsample_replace_spec n a lay draws t W NN Hn HL HD).
Qed.
Print Assumptions with_replacement_spec.

(* the machine-checked reason for that pre-filter (finding F21, repaired): handed a table with a
   vector WITHOUT counts, the kernel path raises ValueError (rng.multinomial(n, []) in the .pyx)
   instead of resampling the vectors that do have counts *)
Theorem replace_kernel_needs_prefilter : forall a lay draws t,
  wf t -> lay_wf (axis_vecs a t) lay -> (exists v, In v (axis_vecs a t) /\ zsum v = 0%Z) ->
  subsample_replace_core a lay draws t = RErr E_VALUE.
Proof. exact subsample_replace_core_raises. Qed.
Print Assumptions replace_kernel_needs_prefilter.

Definition ex_table : table :=
  mkT [10;20;30]%Z [1;2;3]%Z [[10;0;0];[1;1;1];[0;0;0]]%Z (Some [I 1; I 2; I 3]%Z) None 1%Z.

Theorem replace_without_prefilter_refuted : exists a lay draws t,
  wf t /\ nonneg_table t /\ lay_ok (axis_vecs a t) lay /\
  (exists v, In v (axis_vecs a t) /\ (0 < zsum v)%Z) /\
  subsample_replace_core a lay draws t = RErr E_VALUE.
Proof.
  exists Obs, (canon_lay (mat ex_table)), [[2;0];[1;1;0]]%Z, ex_table.
  split; [apply wfb_wf; vm_compute; reflexivity|].
  split; [repeat constructor; discriminate|].
  split; [apply lay_okb_ok; vm_compute; reflexivity|].
  split; [exists [10;0;0]%Z; split; [left; reflexivity|reflexivity]|].
  vm_compute. reflexivity.
Qed.
Print Assumptions replace_without_prefilter_refuted.

(* by id: min(n, N) ids are kept, those among the first n of the shuffled ids, in table order;
   every retained cell is unchanged; the closing filter drops the other-axis vectors that are
   all-zero over the kept ids; the receiver is unchanged.  "Each id equally likely" is numpy's
   contract for shuffle (trusted). *)
Theorem by_id_spec : forall n a shuffled t,
  wf t -> nonneg_table t -> Permutation (ids a t) shuffled ->
  fst (subsample (Z.of_nat n) a true false [] [shuffled] t) = t /\
  exists t', snd (subsample (Z.of_nat n) a true false [] [shuffled] t) = ROk t' /\ wf t' /\
    ids a t' = filter (fun i => zmem i (firstn n shuffled)) (ids a t) /\
    length (ids a t') = Nat.min n (length (ids a t)) /\
    (forall o s, In o (oids t') -> In s (sids t') -> cell t' o s = cell t o s) /\
    ids (other a) t' =
      select (map (fun c => negb (all_zero c))
                  (axis_vecs (other a) (filter_mask (map (fun i => zmem i (firstn n shuffled)) (ids a t)) a t)))
             (ids (other a) t) /\
    (forall x, In x (ids a t') -> md_view a t' x = md_view a t x) /\
    (forall y, In y (ids (other a) t') -> md_view (other a) t' y = md_view (other a) t y) /\
    ttype t' = ttype t.
Proof.
  intros n a shuffled t W NN HP. split; [apply subsample_receiver_unchanged|].
  destruct (subsample_dispatch (Z.of_nat n) a [] [shuffled] t (Zle_0_nat n)) as (_ & _ & E).
  rewrite Nat2Z.id in E. simpl nth in E. eexists. split; [exact E|].
  exact (subsample_by_id_spec n a shuffled t W NN HP).
Qed.
Print Assumptions by_id_spec.

(* refusals leave the receiver alone; every returned table is coherent whatever the draws *)
Theorem subsample_refuses : forall n a by_id wr lay draws t,
  ((n < 0)%Z \/ (wr = true /\ by_id = true)) ->
  subsample n a by_id wr lay draws t = (t, RErr E_VALUE).
Proof.
  intros n a by_id wr lay draws t H. rewrite (surjective_pairing (subsample n a by_id wr lay draws t)).
  rewrite subsample_receiver_unchanged, subsample_refusals by exact H. reflexivity.
Qed.
Print Assumptions subsample_refuses.

Theorem subsample_coherent : forall n a by_id wr lay draws t t',
  wf t -> snd (subsample n a by_id wr lay draws t) = ROk t' -> wf t'.
Proof. exact subsample_wf. Qed.
Print Assumptions subsample_coherent.

(* non-vacuity: the old F7 witness extended by an all-zero observation; observation axis, n = 2 *)
Example ex_hyps :
  wf ex_table /\ nonneg_table ex_table /\ lay_wf (axis_vecs Obs ex_table) (canon_lay (mat ex_table)) /\
  draws_ok 2 (map zsum (axis_vecs Obs ex_table)) [[6;8];[0;2]]%Z.
Proof.
  split; [apply wfb_wf; vm_compute; reflexivity|]. split; [repeat constructor; discriminate|].
  split; [apply lay_wfb_wf; vm_compute; reflexivity|].
  simpl. split; [apply choice_okb_ok; vm_compute; reflexivity|]. split; [apply choice_okb_ok; vm_compute; reflexivity|trivial].
Qed.
Example ex_result : exists t', snd (subsample 2 Obs false false (canon_lay (mat ex_table)) [[6;8];[0;2]]%Z ex_table) = ROk t' /\
  oids t' = [10;20]%Z /\ sids t' = [1;3]%Z /\ mat t' = [[2;0];[1;1]]%Z.
Proof. eexists. vm_compute. repeat split; reflexivity. Qed.
Example ex_replace : exists t', snd (subsample 2 Obs false true [[0];[0;1;2]] [[2];[1;1;0]]%Z ex_table) = ROk t' /\
  oids t' = [10;20]%Z /\ sids t' = [1;2]%Z /\ mat t' = [[2;0];[1;1]]%Z /\
  multis_ok 2 (gather_all (axis_vecs Obs (drop_nonpositive Obs ex_table)) [[0];[0;1;2]]) [[2];[1;1;0]]%Z.
Proof.
  eexists. split; [vm_compute; reflexivity|]. split; [reflexivity|]. split; [reflexivity|]. split; [reflexivity|].
  assert (E : gather_all (axis_vecs Obs (drop_nonpositive Obs ex_table)) [[0];[0;1;2]] = [[10];[1;1;1]]%Z)
    by (vm_compute; reflexivity).
  rewrite E. simpl. unfold multi_ok.
  repeat split; try reflexivity; try (repeat constructor; discriminate);
    intros [|[|[|k]]] H; simpl in *; try reflexivity; try discriminate; try exact H.
Qed.
Example ex_walk : fst (walk 3 [0;2;0;3;0]%Z [1;2;4]%Z) = [0;1;0;2;0]%Z /\ choice_ok 5 3 [1;2;4]%Z.
Proof. split; [vm_compute; reflexivity|apply choice_okb_ok; vm_compute; reflexivity]. Qed.
Example ex_by_id : Permutation (ids Samp ex_table) [2;3;1]%Z /\
  exists t', snd (subsample 2 Samp true false [] [[2;3;1]%Z] ex_table) = ROk t' /\ sids t' = [2;3]%Z /\ oids t' = [20]%Z.
Proof.
  split.
  - simpl. apply perm_trans with [2;1;3]%Z; [apply perm_swap|]. apply perm_skip. apply perm_swap.
  - eexists. vm_compute. repeat split; reflexivity.
Qed.

(* ---- tie to the source: the two kernels the theorems above are about against the definitions
   tools/py2v regenerates from _subsample.pyx on every check (Gen/SubsampleGen.v: in place on the
   whole array, the inner while on explicit fuel).  Partial: conditional on the model's own flag
   (true = no index outside the segment, fuel not exhausted, a draw was recorded; proved true under
   the contract of rng.choice by walk_counts) and on the offsets lying inside the array; with
   replacement, on every recorded draw having the length of its segment (what multinomial returns). *)
From BiomV Require Gen.Prelude.
From BiomV Require Import Gen.SubsampleGen Proofs.GenBridgeSubsampleProofs.
Theorem kernel_wo_is_source_partial : forall n indptr data draws d dr,
  (forall i, (i < length indptr - 1)%nat ->
             (nth i indptr 0%nat <= nth (S i) indptr 0%nat)%nat /\ (nth (S i) indptr 0%nat <= length data)%nat) ->
  kernel_wo n indptr data draws = (d, dr, true) ->
  subsample_wo data indptr n tt draws = (d, dr, true).
Proof. exact kernel_wo_bridge_partial. Qed.
Print Assumptions kernel_wo_is_source_partial.

Theorem kernel_rep_is_source_partial : forall n indptr data draws d dr,
  (forall i, (i < length indptr - 1)%nat ->
             (nth i indptr 0%nat <= nth (S i) indptr 0%nat)%nat /\ (nth (S i) indptr 0%nat <= length data)%nat) ->
  (nth 0 indptr 0%nat <= length data)%nat ->
  (forall j, (j < length indptr - 1)%nat -> length (nth j draws []) = (nth (S j) indptr 0 - nth j indptr 0)%nat) ->
  kernel_rep indptr data draws = Some (d, dr) ->
  subsample_rep data indptr n tt draws = Gen.Prelude.Ok (d, dr).
Proof. exact kernel_rep_bridge_partial. Qed.
Print Assumptions kernel_rep_is_source_partial.
