(* C10: concatenation places every operand's block unchanged and pads with zeros.
   Model: Model/Concat.v (concat_t ts a = self.concat(others, axis) with ts = self :: others).
   cellx a t x y = the value stored for (id x on axis a, id y on the other axis);
   md_view = the metadata of an id with None and the empty dict identified. *)
From Coq Require Import List ZArith Bool Sorted.
From BiomV Require Import Base.Tree Base.ListUtil Base.Matrix Model.Table Model.Orient Model.Concat
  Proofs.OrientProofs Proofs.ConcatProofs Gen.CatPrelude Gen.ConcatGen Proofs.GenBridgeConcatProofs.
Import ListNotations.

(* refused with DisjointIDError exactly when two operands share an id on the concatenation axis *)
Theorem concat_refuses_iff : forall (ts : list table) (a : axis),
  concat_t ts a = RErr E_DISJOINT <->
  exists i j ti tj x, i < j /\ nth_error ts i = Some ti /\ nth_error ts j = Some tj /\
                      In x (ids a ti) /\ In x (ids a tj).
Proof. exact ConcatProofs.concat_refuses_iff. Qed.
Print Assumptions concat_refuses_iff.

(* there is no other refusal: pairwise disjoint operands (at least one) are concatenated *)
Theorem concat_accepts : forall (ts : list table) (a : axis),
  ts <> [] ->
  ~ (exists i j ti tj x, i < j /\ nth_error ts i = Some ti /\ nth_error ts j = Some tj /\
                         In x (ids a ti) /\ In x (ids a tj)) ->
  exists r, concat_t ts a = ROk r.
Proof. exact ConcatProofs.concat_accepts. Qed.
Print Assumptions concat_accepts.

(* ids: operands' ids in operand order on the axis; on the other axis the union, strictly sorted *)
Theorem concat_ids : forall (ts : list table) (a : axis) (r : table),
  Forall wf ts -> concat_t ts a = ROk r ->
  ids a r = concat (map (ids a) ts) /\
  StronglySorted Z.lt (ids (other a) r) /\
  (forall y, In y (ids (other a) r) <-> exists t, In t ts /\ In y (ids (other a) t)).
Proof. exact ConcatProofs.concat_ids. Qed.
Print Assumptions concat_ids.

(* values: for the operand t owning x, the value of t, or zero where t lacks y *)
Theorem concat_cell : forall (ts : list table) (a : axis) (r : table) (k : nat) (t : table) (x y : Z),
  Forall wf ts -> concat_t ts a = ROk r -> nth_error ts k = Some t ->
  In x (ids a t) -> In y (ids (other a) r) ->
  cellx a r x y = Some (if zmem y (ids (other a) t) then cellx0 a t x y else 0%Z).
Proof. exact ConcatProofs.concat_cell. Qed.
Print Assumptions concat_cell.

(* metadata on the concatenation axis travels with its id *)
Theorem concat_md : forall (ts : list table) (a : axis) (r : table) (k : nat) (t : table) (x : Z),
  Forall wf ts -> concat_t ts a = ROk r -> nth_error ts k = Some t -> In x (ids a t) ->
  md_view a r x = md_view a t x.
Proof. exact ConcatProofs.concat_md. Qed.
Print Assumptions concat_md.

(* metadata on the other axis comes from the first operand that has the id *)
Theorem concat_other_md : forall (ts : list table) (a : axis) (r : table) (y : Z) (tf : table),
  Forall wf ts -> concat_t ts a = ROk r ->
  find (fun t => zmem y (ids (other a) t)) ts = Some tf ->
  md_view (other a) r y = md_view (other a) tf y.
Proof. exact ConcatProofs.concat_other_md. Qed.
Print Assumptions concat_other_md.

(* the grand total is the sum of the operands' totals *)
Theorem concat_total : forall (ts : list table) (a : axis) (r : table),
  Forall wf ts -> concat_t ts a = ROk r ->
  msum (mat r) = zsum (map (fun t => msum (mat t)) ts).
Proof. exact ConcatProofs.concat_total. Qed.
Print Assumptions concat_total.

(* the result is a coherent table and inherits the receiver's type *)
Theorem concat_wf : forall (ts : list table) (a : axis) (r : table),
  Forall wf ts -> concat_t ts a = ROk r -> wf r.
Proof. exact ConcatProofs.concat_wf. Qed.
Print Assumptions concat_wf.

Theorem concat_type : forall (ts : list table) (a : axis) (r : table),
  concat_t ts a = ROk r -> exists self rest, ts = self :: rest /\ ttype r = ttype self.
Proof. exact ConcatProofs.concat_type. Qed.
Print Assumptions concat_type.

Local Open Scope Z_scope.
(* ---- non-vacuity: three coherent operands, permuted / partially missing other axis, metadata on
   some operands only; and a refused pair ---- *)
Definition mdA : Tree := L [I 6; L [L [L [I 107]; L [I 2; I 1]]]].
Definition exA : table := mkT [20; 10] [110; 120] [[1; 2]; [3; 4]]%Z None (Some [mdA; md_empty]) 1.
Definition exB : table := mkT [30; 10] [130; 140] [[5; 6]; [7; 8]]%Z (Some [mdA; mdA]) None 0.
Definition exC : table := mkT [5] [150] [[9]]%Z None None 0.
Definition exR : table :=
  mkT [5; 10; 20; 30] [110; 120; 130; 140; 150]
      [[0; 0; 0; 0; 9]; [3; 4; 7; 8; 0]; [1; 2; 0; 0; 0]; [0; 0; 5; 6; 0]]%Z
      (Some [md_empty; md_empty; md_empty; mdA]) (Some [mdA; md_empty; md_empty; md_empty; md_empty]) 1.

Example concat_example :
  Forall wf [exA; exB; exC] /\ concat_t [exA; exB; exC] Samp = ROk exR /\
  cellx Samp exR 130 20 = Some 0%Z /\ cellx Samp exR 130 10 = Some 7%Z.
Proof.
  split; [|vm_compute; repeat split].
  repeat (apply Forall_cons; [apply wfb_wf; vm_compute; reflexivity|]). apply Forall_nil.
Qed.

Example concat_refused_example :
  concat_t [exA; exB; exA] Samp = RErr E_DISJOINT /\
  (exists i j ti tj x, (i < j)%nat /\ nth_error [exA; exB; exA] i = Some ti /\ nth_error [exA; exB; exA] j = Some tj /\
                       In x (ids Samp ti) /\ In x (ids Samp tj)).
Proof.
  split; [vm_compute; reflexivity|].
  exists 0%nat, 2%nat, exA, exA, 110. simpl. repeat split; auto.
Qed.

(* ---- translator tie (tools/py2v_cat): Gen/ConcatGen.v is regenerated from Table.concat of biom/table.py on
   every check; the translated front of the method (normalising `others`, the axis test, the accumulating
   disjointness check and its error, the union of the other axis' ids with the metadata remembered per id,
   the common order) is what Model/Concat.v computes there, for operands that do not repeat an id on the
   other axis ---- *)
Theorem gen_concat_scan_is_source_partial : forall (self : table) (others : others_arg) (a : axis),
  Forall (fun t => NoDup (ids (other a) t)) (self :: normalise_others others) ->
  gen_concat_scan self others a = scan_source self others a.
Proof. exact GenBridgeConcatProofs.gen_concat_scan_is_source_partial. Qed.
Print Assumptions gen_concat_scan_is_source_partial.

Theorem concat_t_scan_is_source_partial : forall (self : table) (others : others_arg) (a : axis),
  Forall (fun t => NoDup (ids (other a) t)) (self :: normalise_others others) ->
  concat_t (self :: normalise_others others) a =
  match gen_concat_scan self others a with
  | ROk (all_tables, _, _, _, _, _, mdmap, order) =>
      ROk (orient a (stack_rows order (ttype self) (map (pad_table order mdmap) (map (orient a) all_tables))))
  | RErr c => RErr c
  end.
Proof. exact GenBridgeConcatProofs.concat_t_scan_is_source_partial. Qed.
Print Assumptions concat_t_scan_is_source_partial.

(* the whole method as translated (second and third loop, the stacking, the constructor call) is concat_t,
   on both axes, for coherent operands *)
Theorem gen_concat_is_source_partial : forall (self : table) (others : others_arg) (a : axis),
  Forall wf (self :: normalise_others others) ->
  gen_concat self others a = concat_t (self :: normalise_others others) a.
Proof. exact GenBridgeConcatProofs.gen_concat_is_source_partial. Qed.
Print Assumptions gen_concat_is_source_partial.
