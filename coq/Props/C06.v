(* C06: reordering, transposing, copying and renaming keep every value with its IDs.
   Statements only; proofs are in Proofs/ReorderProofs.v (transpose_cell: Model/Table.v).
   All theorems quantify over every table (any size), every order / renaming / other table. *)
From Coq Require Import List Arith ZArith Bool Permutation.
From BiomV Require Import Base.Tree Base.ListUtil Base.Matrix Model.Table Model.Orient Model.Reorder Proofs.ReorderProofs.
Import ListNotations.

(* Metadata: every new table is built by the constructor, which normalises metadata ([ctor_md],
   Model/Orient.v: all entries None / empty dict -> no metadata; otherwise None entries -> empty dicts).
   [md_view a t x] is the metadata of an id as a user sees it, with None and the empty dict
   identified. [normal t] says the metadata of t is constructor-normal (ctor_md md = md); every table
   the library can produce is (the constructor, and since repair 16e406b1 also _cast_metadata and
   filter, normalise), and the operations below preserve it ([*_keeps_normal]), so it is an
   invariant of reachable states, not an assumption about the caller. *)

(* ---- sort_order ---- *)
(* For a permutation of the axis: the call succeeds, the resulting order is exactly the requested
   one, every (observation id, sample id) pair keeps its value, every id keeps its metadata, the
   other axis (ids, metadata) and the type are untouched, the result is coherent. *)
Theorem sort_order_spec : forall order a t,
  wf t -> Permutation order (ids a t) ->
  exists t', sort_order order a t = ROk t' /\
    ids a t' = order /\
    (forall o s, cell t' o s = cell t o s) /\
    (forall b x, md_view b t' x = md_view b t x) /\
    ids (other a) t' = ids (other a) t /\ mds (other a) t' = ctor_md (mds (other a) t) /\
    ttype t' = ttype t /\ normal t' /\ wf t'.
Proof. exact sort_order_perm. Qed.
Print Assumptions sort_order_spec.

(* Applying a permutation and then the original order gives the original table back: ids, order,
   matrix, metadata, type - equality of the whole content record, for constructor-normal metadata;
   in general the table as the constructor normalises it ([copy t]). *)
Theorem sort_order_inverse : forall order a t t',
  wf t -> normal t -> Permutation order (ids a t) -> sort_order order a t = ROk t' ->
  sort_order (ids a t) a t' = ROk t.
Proof. exact sort_order_back_normal. Qed.
Print Assumptions sort_order_inverse.

Theorem sort_order_inverse_any : forall order a t t',
  wf t -> Permutation order (ids a t) -> sort_order order a t = ROk t' ->
  sort_order (ids a t) a t' = ROk (copy t).
Proof. exact sort_order_back. Qed.
Print Assumptions sort_order_inverse_any.

(* What the code does when [order] is not a permutation: an unknown id is refused
   (UnknownIDError), a repeated id is refused (TableException from the constructor's check),
   a shorter list of distinct known ids selects those ids, each with its values and metadata. *)
Theorem sort_order_unknown_refused : forall order a t,
  (exists x, In x order /\ ~ In x (ids a t)) -> sort_order order a t = RErr E_UNKNOWN.
Proof. exact sort_order_unknown. Qed.
Print Assumptions sort_order_unknown_refused.

Theorem sort_order_repeated_refused : forall order a t,
  (forall x, In x order -> In x (ids a t)) -> ~ NoDup order -> sort_order order a t = RErr E_TABLE.
Proof. exact sort_order_repeated. Qed.
Print Assumptions sort_order_repeated_refused.

(* ... the kept ids keep values and metadata; the axis ends up WITHOUT metadata exactly when the
   metadata of every kept id is empty (the constructor's rule) *)
Theorem sort_order_selects : forall order a t,
  wf t -> NoDup order -> (forall x, In x order -> In x (ids a t)) ->
  exists t', sort_order order a t = ROk t' /\ ids a t' = order /\
    (forall x y, In x order -> cell_ax a t' x y = cell_ax a t x y) /\
    (forall x, In x order -> md_view a t' x = md_view a t x) /\
    (forall x, md_view (other a) t' x = md_view (other a) t x) /\
    (mds a t' = None <-> forall x, In x order -> md_view a t x = md_empty) /\
    normal t' /\ wf t'.
Proof. exact sort_order_select. Qed.
Print Assumptions sort_order_selects.

(* ---- sort: for EVERY sorting function that returns a permutation of its argument ---- *)
Theorem sort_spec : forall sortf : list Z -> list Z,
  (forall l, Permutation (sortf l) l) ->
  forall a t, wf t ->
  exists t', sort sortf a t = ROk t' /\
    ids a t' = sortf (ids a t) /\
    (forall o s, cell t' o s = cell t o s) /\
    (forall b x, md_view b t' x = md_view b t x) /\
    ids (other a) t' = ids (other a) t /\ mds (other a) t' = ctor_md (mds (other a) t) /\
    ttype t' = ttype t /\ normal t' /\ wf t'.
Proof. exact sort_perm. Qed.
Print Assumptions sort_spec.

(* ---- transpose (transpose_c = Model/Table.v transpose_t through the constructor) ---- *)
Theorem transpose_spec : forall t, wf t ->
  oids (transpose_c t) = sids t /\ sids (transpose_c t) = oids t /\
  (forall o s, cell (transpose_c t) s o = cell t o s) /\
  (forall b x, md_view b (transpose_c t) x = md_view (other b) t x) /\
  omd (transpose_c t) = ctor_md (smd t) /\ smd (transpose_c t) = ctor_md (omd t) /\
  normal (transpose_c t) /\ wf (transpose_c t).
Proof. exact transpose_c_spec. Qed.
Print Assumptions transpose_spec.

Theorem transpose_keeps_cells : forall t o s, wf t -> cell (transpose_t t) s o = cell t o s.
Proof. exact transpose_cell. Qed.
Print Assumptions transpose_keeps_cells.

(* transposing twice restores ids, order, values and metadata (as the constructor normalises it: for
   normal metadata, exactly); the type is dropped by the code's transpose and not promised *)
Theorem transpose_involutive : forall t, wf t ->
  let t2 := transpose_c (transpose_c t) in
  oids t2 = oids t /\ sids t2 = sids t /\ mat t2 = mat t /\ omd t2 = ctor_md (omd t) /\ smd t2 = ctor_md (smd t) /\
  (forall o s, cell t2 o s = cell t o s) /\ (forall b x, md_view b t2 x = md_view b t x).
Proof. exact transpose_twice. Qed.
Print Assumptions transpose_involutive.

(* ---- copy ---- *)
Theorem copy_eq : forall t, normal t -> copy t = t.
Proof. exact copy_id. Qed.
Print Assumptions copy_eq.

Theorem copy_keeps_content : forall t,
  oids (copy t) = oids t /\ sids (copy t) = sids t /\ mat (copy t) = mat t /\ ttype (copy t) = ttype t /\
  (forall o s, cell (copy t) o s = cell t o s) /\ (forall b x, md_view b (copy t) x = md_view b t x) /\
  omd (copy t) = ctor_md (omd t) /\ smd (copy t) = ctor_md (smd t).
Proof. exact copy_content_same. Qed.
Print Assumptions copy_keeps_content.

(* ---- constructor-normal metadata is kept by every operation of this model ---- *)
Theorem sort_order_keeps_normal : forall order a t t', sort_order order a t = ROk t' -> normal t'.
Proof. exact sort_order_normal. Qed.
Print Assumptions sort_order_keeps_normal.
Theorem update_ids_keeps_normal : forall m a strict inplace t t',
  normal t -> update_ids m a strict inplace t = ROk t' -> normal t'.
Proof. exact update_ids_normal. Qed.
Print Assumptions update_ids_keeps_normal.
Theorem align_to_keeps_normal : forall other_t m t t', normal t -> align_to other_t m t = ROk t' -> normal t'.
Proof. exact align_to_normal. Qed.
Print Assumptions align_to_keeps_normal.
Theorem copy_is_normal : forall t, normal (copy t).
Proof. exact copy_normal. Qed.
Print Assumptions copy_is_normal.

(* ---- update_ids ---- *)
(* A renaming that is injective on the ids of the axis (and, with strict, total on them):
   accepted in both inplace modes; the ids are the renamed ids in the old order (none gained, lost
   or duplicated); the value of every pair and the metadata of every id travel with the renamed
   id; matrix, metadata lists, other axis and type untouched; the result is coherent. *)
Theorem update_ids_spec : forall m a strict inplace t,
  wf t ->
  (strict = true -> forall x, In x (ids a t) -> mapped m x = true) ->
  (forall x y, In x (ids a t) -> In y (ids a t) -> rename m x = rename m y -> x = y) ->
  exists t', update_ids m a strict inplace t = ROk t' /\
    ids a t' = map (rename m) (ids a t) /\
    (forall x y, In x (ids a t) -> cell_ax a t' (rename m x) y = cell_ax a t x y) /\
    (forall x, In x (ids a t) -> md_view a t' (rename m x) = md_view a t x) /\
    (forall x, md_view (other a) t' x = md_view (other a) t x) /\
    ids (other a) t' = ids (other a) t /\
    (forall b, mds b t' = if inplace then mds b t else ctor_md (mds b t)) /\
    mat t' = mat t /\ ttype t' = ttype t /\ wf t'.
Proof. exact update_ids_injective. Qed.
Print Assumptions update_ids_spec.

(* Two distinct ids renamed to the same id: TableException, in both inplace modes, strict or not. *)
Theorem update_ids_dup : forall m a strict inplace t,
  (exists x y, In x (ids a t) /\ In y (ids a t) /\ x <> y /\ rename m x = rename m y) ->
  update_ids m a strict inplace t = RErr E_TABLE.
Proof. exact update_ids_collision. Qed.
Print Assumptions update_ids_dup.

Theorem update_ids_strict_unmapped : forall m a inplace t,
  (exists x, In x (ids a t) /\ mapped m x = false) -> update_ids m a true inplace t = RErr E_TABLE.
Proof. exact update_ids_strict_missing. Qed.
Print Assumptions update_ids_strict_unmapped.

(* strict=False: an id that has no mapping keeps its name, its values and its metadata *)
Theorem update_ids_partial : forall m a inplace t t',
  wf t -> (forall x y, In x (ids a t) -> In y (ids a t) -> rename m x = rename m y -> x = y) ->
  update_ids m a false inplace t = ROk t' ->
  forall x, In x (ids a t) -> mapped m x = false ->
    In x (ids a t') /\ (forall y, cell_ax a t' x y = cell_ax a t x y) /\ md_view a t' x = md_view a t x.
Proof. exact update_ids_unmapped_kept. Qed.
Print Assumptions update_ids_partial.

(* the partial renaming that renames nothing gives the receiver itself / its copy *)
Theorem update_ids_empty_map : forall a inplace t,
  wf t -> update_ids [] a false inplace t = ROk (if inplace then t else copy t).
Proof. exact update_ids_nothing. Qed.
Print Assumptions update_ids_empty_map.

(* the in-place variant (duplicates refused before the receiver is touched) and the copying
   variant (duplicates refused by errcheck on the copy): same outcome on every table with
   constructor-normal metadata; in general the copying variant returns the copy of what the in-place
   variant leaves, with the same refusals *)
Theorem update_ids_inplace_equiv : forall m a strict t,
  normal t -> update_ids m a strict true t = update_ids m a strict false t.
Proof. exact update_ids_inplace_same. Qed.
Print Assumptions update_ids_inplace_equiv.

Theorem update_ids_noninplace_is_copy : forall m a strict t,
  update_ids m a strict false t = rmap copy (update_ids m a strict true t).
Proof. exact update_ids_new_is_copy. Qed.
Print Assumptions update_ids_noninplace_is_copy.

(* ---- align_to ---- *)
(* When the requested axes are alignable (equal id sets): each aligned axis takes exactly the
   other table's order, each non-aligned axis keeps its own; values, metadata (both axes) and type
   are kept; the result is coherent.  [aligned] / [align_ok] spell out table.py:3498-3523. *)
Theorem align_to_spec : forall other_t m t,
  wf t -> wf other_t -> align_ok m t other_t = true ->
  exists t', align_to other_t m t = ROk t' /\
    (forall a, ids a t' = if aligned m a t other_t then ids a other_t else ids a t) /\
    (forall o s, cell t' o s = cell t o s) /\
    (forall a x, md_view a t' x = md_view a t x) /\
    ttype t' = ttype t /\ normal t' /\ wf t'.
Proof. exact align_to_ok. Qed.
Print Assumptions align_to_spec.

Theorem align_to_refuses : forall other_t m t,
  align_ok m t other_t = false ->
  align_to other_t m t = RErr (match m with AUnknown => E_UNKNOWN | _ => E_DISJOINT end).
Proof. exact align_to_refused. Qed.
Print Assumptions align_to_refuses.

(* ---- non-vacuity: a 3x4 table with an all-zero row, metadata on both axes ---- *)
Definition ex_t : table :=
  mkT [10;20;30]%Z [1;2;3;4]%Z [[5;0;0;7];[0;0;0;0];[0;2;0;9]]%Z
      (Some [I 1; I 2; I 3]%Z) (Some [I 11; I 12; I 13; I 14]%Z) 1%Z.
Example ex_wf : wf ex_t. Proof. apply wfb_wf. vm_compute. reflexivity. Qed.
Example ex_normal : normal ex_t. Proof. split; vm_compute; reflexivity. Qed.
(* partly empty metadata: selecting only the id whose metadata is empty leaves the axis without metadata *)
Definition ex_partly : table :=
  mkT [10;20]%Z [1;2]%Z [[5;6];[7;8]]%Z None (Some [md_empty; L [I 6; L [L [L [I 107]; L [I 4; L [I 118]]]]]]%Z) 0%Z.
Example ex_partly_ok : wf ex_partly /\ normal ex_partly.
Proof. split; [apply wfb_wf; vm_compute; reflexivity|split; vm_compute; reflexivity]. Qed.
Example ex_select_empty_md :
  (exists t', sort_order [1]%Z Samp ex_partly = ROk t' /\ smd t' = None /\ mat t' = [[5];[7]]%Z) /\
  (exists t', sort_order [2;1]%Z Samp ex_partly = ROk t' /\ smd t' = Some [L [I 6; L [L [L [I 107]; L [I 4; L [I 118]]]]]; md_empty]%Z).
Proof. split; eexists; vm_compute; repeat split; reflexivity. Qed.

Example ex_perm : Permutation [30;10;20]%Z (ids Obs ex_t).
Proof. apply perm_by_compute; vm_compute; reflexivity. Qed.
Example ex_sort_order :
  sort_order [30;10;20]%Z Obs ex_t =
  ROk (mkT [30;10;20]%Z [1;2;3;4]%Z [[0;2;0;9];[5;0;0;7];[0;0;0;0]]%Z
           (Some [I 3; I 1; I 2]%Z) (Some [I 11; I 12; I 13; I 14]%Z) 1%Z) /\
  sort_order [4;1;3;2]%Z Samp ex_t =
  ROk (mkT [10;20;30]%Z [4;1;3;2]%Z [[7;5;0;0];[0;0;0;0];[9;0;0;2]]%Z
           (Some [I 1; I 2; I 3]%Z) (Some [I 14; I 11; I 13; I 12]%Z) 1%Z).
Proof. vm_compute. split; reflexivity. Qed.
Example ex_sort_order_not_perm :
  sort_order [30;99]%Z Obs ex_t = RErr E_UNKNOWN /\ sort_order [30;30;10]%Z Obs ex_t = RErr E_TABLE /\
  (exists t', sort_order [30;10]%Z Obs ex_t = ROk t' /\ mat t' = [[0;2;0;9];[5;0;0;7]]%Z).
Proof. vm_compute. repeat split. eexists. split; reflexivity. Qed.
Example ex_sortf_perm : forall l : list Z, Permutation (rev l) l.
Proof. intros l. apply Permutation_sym, Permutation_rev. Qed.
Example ex_sort : exists t', sort (@rev Z) Samp ex_t = ROk t' /\ sids t' = [4;3;2;1]%Z /\
                             mat t' = [[7;0;0;5];[0;0;0;0];[9;0;2;0]]%Z.
Proof. eexists. vm_compute. repeat split; reflexivity. Qed.

(* a renaming that lengthens one id, leaves one unmapped, and has an unused key *)
Definition ex_map : list (Z * Z) := [(10, 1000); (30, 5); (77, 20)]%Z.
Example ex_map_injective : forall x y, In x (ids Obs ex_t) -> In y (ids Obs ex_t) ->
  rename ex_map x = rename ex_map y -> x = y.
Proof.
  simpl. intros x y Hx Hy.
  repeat (destruct Hx as [Hx|Hx]; [subst x|]); try contradiction;
  repeat (destruct Hy as [Hy|Hy]; [subst y|]); try contradiction;
  vm_compute; intros E; try reflexivity; discriminate.
Qed.
Example ex_update_ids : exists t', update_ids ex_map Obs false false ex_t = ROk t' /\
  oids t' = [1000;20;5]%Z /\ cell t' 1000%Z 4%Z = Some 7%Z /\ md_of Obs t' 5%Z = Some (I 3%Z).
Proof. eexists. vm_compute. repeat split; reflexivity. Qed.
Example ex_update_ids_dup :
  update_ids [(10, 20)]%Z Obs false true ex_t = RErr E_TABLE /\
  update_ids [(10, 20)]%Z Obs false false ex_t = RErr E_TABLE /\
  update_ids [(10, 11)]%Z Obs true false ex_t = RErr E_TABLE.
Proof. vm_compute. repeat split. Qed.

Definition ex_other : table :=
  mkT [30;10;20]%Z [9;8]%Z [[0;0];[0;0];[0;0]]%Z None None 0%Z.
Example ex_other_wf : wf ex_other. Proof. apply wfb_wf. vm_compute. reflexivity. Qed.
Example ex_align :
  align_ok ADetect ex_t ex_other = true /\ align_ok ABoth ex_t ex_other = false /\
  (exists t', align_to ex_other ADetect ex_t = ROk t' /\ oids t' = [30;10;20]%Z /\ sids t' = [1;2;3;4]%Z) /\
  align_to ex_other ASample ex_t = RErr E_DISJOINT /\ align_to ex_other AUnknown ex_t = RErr E_UNKNOWN.
Proof. vm_compute. repeat split. eexists. repeat split; reflexivity. Qed.

(* ---- translator tie: Gen/UpdateIdsGen.v is regenerated from Table.update_ids of biom/table.py
   by tools/py2v_eq on every run (over the vocabulary of Gen/UpdPrelude.v).  The generated
   function returns (the table returned, the receiver afterwards) and equals the hand-written
   update_ids above for ALL inputs and for EVERY length function len_of of the ids: in particular
   the fixed-width text array the source allocates is never too narrow for an id it stores
   (the generated model answers E_UNMODELLED where numpy would truncate; the right-hand side
   never does).  In place the receiver is the result; otherwise it is untouched. *)
From BiomV Require Import Gen.UpdPrelude Gen.UpdateIdsGen Proofs.GenBridgeUpdateIdsProofs.

Theorem update_ids_is_source : forall (len_of : Z -> nat) t m a strict inplace,
  gen_update_ids len_of t m a strict inplace =
  match update_ids m a strict inplace t with
  | ROk r => ROk (r, if inplace then r else t)
  | RErr c => RErr c
  end.
Proof. exact update_ids_bridge. Qed.
Print Assumptions update_ids_is_source.

(* ---- translator tie T21: Gen/ReorderGen.v is regenerated from biom/table.py (Table.sort_order, sort, copy,
   transpose, align_to) by tools/py2v_ord on every check; generated = hand model for all inputs *)
From BiomV Require Import Gen.OrdPrelude Gen.ReorderGen Proofs.GenBridgeReorderProofs.

Theorem sort_order_is_source : forall order a t,
  sort_order_gen t order (amode_of a) = Reorder.sort_order order a t.
Proof. exact sort_order_gen_is_source. Qed.
Print Assumptions sort_order_is_source.

Theorem sort_order_unknown_axis_is_source : forall order t m,
  axis_of m = None -> sort_order_gen t order m = RErr E_UNKNOWN.
Proof. exact sort_order_gen_unknown_axis. Qed.
Print Assumptions sort_order_unknown_axis_is_source.

Theorem sort_is_source : forall sortf a t,
  sort_gen t sortf (amode_of a) = Reorder.sort sortf a t.
Proof. exact sort_gen_is_source. Qed.
Print Assumptions sort_is_source.

Theorem copy_is_source : forall t, copy_gen t = errcheck (Reorder.copy t).
Proof. exact copy_gen_is_source. Qed.
Print Assumptions copy_is_source.

Theorem copy_wf_is_source : forall t,
  zdup (oids t) || zdup (sids t) = false -> copy_gen t = ROk (Reorder.copy t).
Proof. exact copy_gen_wf_is_source. Qed.
Print Assumptions copy_wf_is_source.

Theorem transpose_is_source : forall fmt t, transpose_gen fmt t = errcheck (transpose_c t).
Proof. exact transpose_gen_is_source. Qed.
Print Assumptions transpose_is_source.

Theorem align_to_is_source : forall other m t,
  align_to_gen t other m = Reorder.align_to other m t.
Proof. exact align_to_gen_is_source. Qed.
Print Assumptions align_to_is_source.
