(* C04  Written HDF5 files conform to BIOM 2.1; the CSR and CSC copies agree.
   Model: Model/Hdf5.v (to_hdf5, conforms, spec_decode_csr/csc), Model/Sparse.v;
   proofs in Proofs/SparseProofs.v (K5, K6) and Proofs/Hdf5Proofs.v. *)
From Coq Require Import List ZArith Bool.
From BiomV Require Import Base.ListUtil Base.Matrix Model.Table Model.Sparse Model.Hdf5
                          Proofs.SparseProofs Proofs.Utf8Proofs Proofs.Hdf5Proofs.
Import ListNotations.

(* [core] K5: converting a compressed matrix to the other orientation (scipy tocsc / tocsr) of ANY
   well-formed representation gives a well-formed representation with sorted indices that
   denotes the transposed dense matrix *)
Theorem tocsc_ok : forall r, wf_cs r ->
  wf_cs (tocsc r) /\ sorted_cs (tocsc r) /\ dense_of (tocsc r) = transpose (minor r) (dense_of r).
Proof. exact SparseProofs.tocsc_ok. Qed.
Print Assumptions tocsc_ok.

(* [core] K6: eliminate_zeros keeps the matrix, leaves no stored zero and stores exactly the
   non-zero cells *)
Theorem eliminate_zeros_ok : forall r, wf_cs r ->
  wf_cs (eliminate_zeros r)
  /\ major (eliminate_zeros r) = major r /\ minor (eliminate_zeros r) = minor r
  /\ dense_of (eliminate_zeros r) = dense_of r
  /\ no_stored_zero (eliminate_zeros r)
  /\ length (data (eliminate_zeros r)) = count_nonzero (dense_of r).
Proof. exact SparseProofs.eliminate_zeros_ok. Qed.
Print Assumptions eliminate_zeros_ok.

(* [core] every table state (any well-formed layout of the held matrix, any dimensions including
   0 x M, N x 0, and all-zero matrices) is written to a file that satisfies the BIOM 2.1
   conformance predicate; shape = the true dimensions, nnz = the true number of non-zero cells;
   a reader following only the specification decodes the observation (CSR) copy and the
   sample (CSC) copy to the same matrix, the table's; the ids datasets hold the ids in order *)
Theorem hdf5_conforms : forall st genby date,
  wf_state st -> meta_ok st -> type_in_vocab st ->
  exists f,
    to_hdf5 st genby date = ROk f /\ conforms f
    /\ get_attr (attrs f) b_shape = Some (AInts [Z.of_nat (length (st_oids st)); Z.of_nat (length (st_sids st))])
    /\ length (st_mat st) = length (st_oids st) /\ rect (length (st_sids st)) (st_mat st)
    /\ get_attr (attrs f) b_nnz = Some (AInt (Z.of_nat (count_nonzero (st_mat st))))
    /\ spec_decode_csr f = Some (st_mat st) /\ spec_decode_csc f = Some (st_mat st)
    /\ (st_oids st <> [] -> exists d, get_dset (dsets f) [b_observation; b_ids] = Some d /\ d_str d = map utf8_encode (st_oids st))
    /\ (st_sids st <> [] -> exists d, get_dset (dsets f) [b_sample; b_ids] = Some d /\ d_str d = map utf8_encode (st_sids st)).
Proof. exact Hdf5Proofs.hdf5_conforms. Qed.
Print Assumptions hdf5_conforms.

(* what acceptance by the specification decoder means: offsets of the right length starting at
   0, monotone, ending at the number of stored values; indices in range, no index twice in a
   row / column; no stored zero; as many stored values as nnz says *)
Theorem spec_decoder_checks : forall f a mj mn r, spec_arrays f a mj mn = Some r ->
  wf_csb r = true /\ no_stored_zerob r = true /\ major r = mj /\ minor r = mn
  /\ get_attr (attrs f) b_nnz = Some (AInt (Z.of_nat (length (data r)))).
Proof. exact Hdf5Proofs.spec_decoder_checks. Qed.
Print Assumptions spec_decoder_checks.

(* the two stored copies themselves, for any layout of the held matrix *)
Theorem writer_matrices : forall st, wf_cs (st_cs st) ->
  (wf_cs (w_obs st) /\ major (w_obs st) = st_nobs st /\ minor (w_obs st) = st_nsamp st
   /\ dense_of (w_obs st) = st_mat st /\ no_stored_zero (w_obs st) /\ length (data (w_obs st)) = w_nnz st)
  /\ (wf_cs (w_samp st) /\ major (w_samp st) = st_nsamp st /\ minor (w_samp st) = st_nobs st
      /\ dense_of (w_samp st) = transpose (st_nsamp st) (st_mat st) /\ no_stored_zero (w_samp st)
      /\ length (data (w_samp st)) = w_nnz st /\ sorted_cs (w_samp st))
  /\ w_nnz st = count_nonzero (st_mat st).
Proof. exact Hdf5Proofs.writer_matrices. Qed.
Print Assumptions writer_matrices.

(* the hypotheses are satisfiable by the standard witness (3 x 4, all-zero row, unsorted indices,
   one stored zero) and by the boundary shapes *)
Example hdf5_conforms_nonvacuous :
  wf_state demo_st /\ meta_ok demo_st /\ type_in_vocab demo_st
  /\ sorted_csb demo_cs = false /\ no_stored_zerob demo_cs = false.
Proof.
  exact (conj demo_wf (conj (proj1 demo_meta) (conj (proj2 demo_meta)
        (conj (proj1 demo_layout) (proj1 (proj2 demo_layout)))))).
Qed.
Print Assumptions hdf5_conforms_nonvacuous.

Example hdf5_conforms_empty_axes :
  wf_state (mkSt [] [[115]]%Z CSR (mkCS 0 1 [0] [] []) None None None None [] [])
  /\ wf_state (mkSt [[111]]%Z [] CSC (mkCS 0 1 [0] [] []) None None None None [] [])
  /\ wf_state (mkSt [[111]; [112]]%Z [[115]]%Z CSR (mkCS 2 1 [0; 1; 1] [0] [0%Z]) None None None None [] []).
Proof. split; [|split]; apply wf_stateb_sound; reflexivity. Qed.
Print Assumptions hdf5_conforms_empty_axes.

(* the hypotheses are decidable: the boolean the correspondence run evaluates on every case is sound *)
Theorem in_domainb_sound : forall st genby date, in_domainb st genby date && type_in_vocabb st = true ->
  wf_state st /\ meta_ok st /\ type_in_vocab st.
Proof.
  intros st genby date H. apply andb_prop in H. destruct H as [H1 H2].
  destruct (Hdf5Proofs.in_domainb_sound st genby date H1) as (A & B & _).
  exact (conj A (conj B (type_in_vocabb_sound st H2))).
Qed.
Print Assumptions in_domainb_sound.

(* [history] the file written from a table that was loaded from a written file (held in any well-formed
   layout) conforms again: format-version (2, 1), nnz, both copies decode to the original matrix *)
Theorem second_generation_conforms : forall st genby date f0 r,
  wf_state st -> meta_ok st -> type_in_vocab st -> text genby -> text date ->
  wf_cs r -> matrix_of f0 r = st_mat st ->
  length (st_oids st) = (match f0 with CSR => major r | CSC => minor r end) ->
  length (st_sids st) = (match f0 with CSR => minor r | CSC => major r end) ->
  exists f,
    to_hdf5 (restate (reloaded st genby date) f0 r) genby date = ROk f /\ conforms f
    /\ get_attr (attrs f) b_format_version = Some (AInts [2%Z; 1%Z])
    /\ get_attr (attrs f) b_nnz = Some (AInt (Z.of_nat (count_nonzero (st_mat st))))
    /\ spec_decode_csr f = Some (st_mat st) /\ spec_decode_csc f = Some (st_mat st).
Proof. exact Hdf5Proofs.second_generation_conforms. Qed.
Print Assumptions second_generation_conforms.

(* [more] sort_indices keeps the matrix and sorts every segment *)
Theorem sort_indices_ok : forall r, wf_cs r ->
  wf_cs (sort_indices r) /\ sorted_cs (sort_indices r) /\ dense_of (sort_indices r) = dense_of r
  /\ major (sort_indices r) = major r /\ minor (sort_indices r) = minor r.
Proof. exact SparseProofs.sort_indices_ok. Qed.
Print Assumptions sort_indices_ok.

(* [more] the array view and the segment view are the same data: rebuilding the arrays from the
   segments of a well-formed representation gives it back *)
Theorem of_segs_segs : forall r, wf_cs r -> of_segs (minor r) (segs r) = r.
Proof. exact SparseProofs.of_segs_segs. Qed.
Print Assumptions of_segs_segs.

(* [more] any well-formed representation without stored zeros stores exactly the non-zero cells *)
Theorem stored_count : forall r, wf_cs r -> no_stored_zero r -> length (data r) = count_nonzero (dense_of r).
Proof. exact SparseProofs.stored_count. Qed.
Print Assumptions stored_count.

(* [more] dense -> CSR (row-major scan, zeros dropped) is well formed, sorted, without stored zeros and
   denotes the matrix *)
Theorem of_dense_ok : forall c m, rect c m ->
  wf_cs (of_dense c m) /\ sorted_cs (of_dense c m) /\ no_stored_zero (of_dense c m)
  /\ dense_of (of_dense c m) = m /\ major (of_dense c m) = length m /\ minor (of_dense c m) = c.
Proof. exact SparseProofs.of_dense_ok. Qed.
Print Assumptions of_dense_ok.

From BiomV Require Import Gen.H5Prelude Gen.Hdf5Gen Proofs.GenBridgeHdf5Proofs.
(* [translator tie] the writer regenerated from biom/table.py on this run (Gen/Hdf5Gen.v, tools/py2v_h5)
   is the hand-written writer the theorems above speak about: every table state, generator text,
   compress flag; date given by the caller, or taken from the clock *)
Theorem to_hdf5_is_source : forall st genby compress date now,
  Hdf5Gen.to_hdf5_gen st genby compress None (Some date) now = to_hdf5 st genby date.
Proof. exact GenBridgeHdf5Proofs.to_hdf5_is_source. Qed.
Print Assumptions to_hdf5_is_source.

Theorem to_hdf5_clock_is_source : forall st genby compress now,
  Hdf5Gen.to_hdf5_gen st genby compress None None now = to_hdf5 st genby now.
Proof. exact GenBridgeHdf5Proofs.to_hdf5_clock_is_source. Qed.
Print Assumptions to_hdf5_clock_is_source.

(* the formatter table the writer builds (four list-valued categories, general_formatter otherwise) *)
Theorem default_formatters_is_source : forall k col,
  H5Prelude.fm_get GenBridgeHdf5Proofs.default_formatters k k col = format_category k col.
Proof. exact GenBridgeHdf5Proofs.default_formatters_is_source. Qed.
Print Assumptions default_formatters_is_source.
