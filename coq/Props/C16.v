(* C16: equality and serialisation depend only on content, never on representation.
   Statements only; proofs are in Proofs/EqualityProofs.v, over Model/Equality.v.
   A state is a content (ids, matrix, metadata, type) together with the sparse representation
   the object holds (CSR or CSC, any index order inside a vector, any explicitly stored zeros);
   `coherent` says that the representation denotes the content.  Every theorem quantifies over
   ALL coherent states, i.e. over every representation a history can leave behind. *)
From Coq Require Import List Arith ZArith Bool.
From BiomV Require Import Base.Tree Base.ListUtil Base.Matrix Model.Table Model.Sparse Model.Equality
  Proofs.EqualityProofs.
Import ListNotations.

(* == answers True exactly when the contents are equal, for EVERY pair of representations *)
Theorem eq_iff_content : forall a b, coherent a -> coherent b -> (eq_impl a b = true <-> cont a = cont b).
Proof. exact eq_iff_content_lemma. Qed.
Print Assumptions eq_iff_content.

(* != is the negation, descriptive_equality says "appear equal" exactly when == is True *)
Theorem ne_and_descriptive_agree : forall a b, coherent a -> coherent b ->
  ne_impl a b = negb (eq_impl a b) /\ (desc_impl a b = 0%Z <-> eq_impl a b = true).
Proof. exact ne_desc_lemma. Qed.
Print Assumptions ne_and_descriptive_agree.

(* the comparison with the stored-entry count (the code before the repair) is refuted by a CSR
   matrix holding one explicit zero: equal contents compare unequal, and the verdict flips
   after the receiver's nnz has been read; the repaired comparison answers True *)
Theorem eq_old_refuted : exists a b,
  coherent a /\ coherent b /\ cont a = cont b /\
  eq_impl_old a b = false /\ eq_impl_old (access ANnz a) b = true /\ eq_impl a b = true.
Proof. exists old_a, old_b. exact eq_old_refuted_lemma. Qed.
Print Assumptions eq_old_refuted.

Theorem eq_refl : forall a, coherent a -> eq_impl a a = true.
Proof. exact eq_refl_lemma. Qed.
Print Assumptions eq_refl.

Theorem eq_sym : forall a b, coherent a -> coherent b -> eq_impl a b = eq_impl b a.
Proof. exact eq_sym_lemma. Qed.
Print Assumptions eq_sym.

Theorem eq_trans : forall a b c, coherent a -> coherent b -> coherent c ->
  eq_impl a b = true -> eq_impl b c = true -> eq_impl a c = true.
Proof. exact eq_trans_lemma. Qed.
Print Assumptions eq_trans.

(* a copy is coherent and equals its original, in both directions *)
Theorem copy_eq : forall a, coherent a ->
  eq_impl a (copy_state a) = true /\ eq_impl (copy_state a) a = true /\ coherent (copy_state a).
Proof. exact copy_eq_lemma. Qed.
Print Assumptions copy_eq.

(* every read accessor may change the representation but never the content, and leaves a
   coherent state; nnz returns the number of non-zero cells whatever was stored *)
Theorem accessor_preserves_content : forall acc s, coherent s ->
  coherent (access acc s) /\ cont (access acc s) = cont s.
Proof. exact access_coherent. Qed.
Print Assumptions accessor_preserves_content.

Theorem nnz_counts_nonzero_cells : forall s, coherent s -> nnz_value s = count_nonzero (mat (cont s)).
Proof. exact nnz_value_spec. Qed.
Print Assumptions nnz_counts_nonzero_cells.

(* the comparison itself converts / sorts the representation of BOTH operands and nothing else *)
Theorem comparison_preserves_content : forall a b, coherent a -> coherent b ->
  let '(v, a', b') := eq_step a b in
  (v = true <-> cont a = cont b) /\ coherent a' /\ coherent b' /\ cont a' = cont a /\ cont b' = cont b.
Proof. exact eq_step_spec. Qed.
Print Assumptions comparison_preserves_content.

(* interleaving any accessors, comparisons and copies on any tables of a world, in any order,
   never changes any later verdict *)
Theorem eq_history_independent : forall w ops i j,
  (forall k, k < length w -> coherent (wget w k)) -> i < length w -> j < length w ->
  eq_impl (wget (run_ops ops w) i) (wget (run_ops ops w) j) = eq_impl (wget w i) (wget w j).
Proof. exact history_independent_lemma. Qed.
Print Assumptions eq_history_independent.

(* tables differing in a value, an id, the order of the ids, a metadata entry or the type
   compare unequal (in both directions, and by != and descriptive_equality) *)
Theorem one_change_unequal : forall a b, coherent a -> coherent b ->
  ((exists i j, get (mat (cont a)) i j <> get (mat (cont b)) i j)
   \/ oids (cont a) <> oids (cont b) \/ sids (cont a) <> sids (cont b)
   \/ omd (cont a) <> omd (cont b) \/ smd (cont a) <> smd (cont b) \/ ttype (cont a) <> ttype (cont b)) ->
  eq_impl a b = false /\ eq_impl b a = false /\ ne_impl a b = true /\ desc_impl a b <> 0%Z.
Proof. exact one_change_lemma. Qed.
Print Assumptions one_change_unequal.

Theorem reordered_ids_differ : forall (l : list Z) i j,
  NoDup l -> i < length l -> j < length l -> i <> j ->
  upd (upd l i (nth j l 0%Z)) j (nth i l 0%Z) <> l.
Proof. exact swap_differs. Qed.
Print Assumptions reordered_ids_differ.

(* tables that compare equal hold representations of the same matrix and answer every
   content-level query (cell by id pair, vector by id, metadata by id, ids, type, shape,
   matrix) identically; every export is a function of these *)
Theorem export_factors : forall a b, cont a = cont b -> forall q, ask q (cont a) = ask q (cont b).
Proof. exact export_factors_lemma. Qed.
Print Assumptions export_factors.

Theorem equal_tables_answer_alike : forall a b, coherent a -> coherent b -> eq_impl a b = true ->
  rep_matrix (rep a) = rep_matrix (rep b) /\ (forall q, ask q (cont a) = ask q (cont b)).
Proof. exact repr_queries_agree_lemma. Qed.
Print Assumptions equal_tables_answer_alike.

(* ---- non-vacuity: the standard 3x4 table (an all-zero row) held as CSC with unsorted indices
   and one stored zero is coherent, differs in representation from the freshly constructed
   table, compares equal to it, and a program over both really changes representations *)
Definition ex_t : table :=
  mkT [10;20;30]%Z [1;2;3;4]%Z [[5;0;0;7];[0;0;0;0];[0;2;0;0]]%Z (Some [I 1; I 2; I 3]%Z) None 1%Z.
Definition ex_csc : state :=
  mkS ex_t (mkR CSC 3 [[(0,5%Z)]; [(2,2%Z);(0,0%Z)]; []; [(0,7%Z)]]) DT_FLOAT.
Example ex_coherent : coherent ex_csc /\ coherent (fresh ex_t) /\ rep ex_csc <> rep (fresh ex_t).
Proof.
  split; [apply coherentb_coherent; vm_compute; reflexivity|].
  split; [apply coherentb_coherent; vm_compute; reflexivity|]. vm_compute. discriminate.
Qed.
Example ex_equal : eq_impl ex_csc (fresh ex_t) = true /\ eq_impl_old ex_csc (fresh ex_t) = false.
Proof. vm_compute. split; reflexivity. Qed.
Example ex_history :
  let w := [ex_csc; fresh ex_t] in
  let w' := run_ops [OAcc 1 AGetCol; OEq 0 1; OAcc 0 ANnz; OCopy 0] w in
  rfmt (rep (wget w' 0)) = CSR /\ rfmt (rep (wget w' 1)) = CSC /\ length w' = 3 /\
  rep (wget w' 0) <> rep (wget w 0) /\ eq_impl (wget w' 2) (wget w' 1) = true.
Proof. vm_compute. repeat split; try reflexivity. discriminate. Qed.
Example ex_one_change :
  let b := fresh (mkT [10;20;30]%Z [1;2;3;4]%Z [[5;0;0;7];[0;0;0;0];[0;3;0;0]]%Z (Some [I 1; I 2; I 3]%Z) None 1%Z) in
  coherent b /\ eq_impl ex_csc b = false.
Proof. split; [apply coherentb_coherent; vm_compute; reflexivity|vm_compute; reflexivity]. Qed.

(* ---- translator tie: Gen/EqualityGen.v is regenerated from biom/table.py by tools/py2v_eq on
   every run (over the vocabulary of Gen/EqPrelude.v); each generated method returns
   (value, receiver afterwards, argument afterwards) and equals the hand-written model above for
   ALL inputs.  PForeign = an argument that is not a table. *)
From BiomV Require Import Gen.EqPrelude Gen.EqualityGen Proofs.GenBridgeEqualityProofs.

(* _data_equality: shape, dtype, count_nonzero (sorting both operands in place), tocsr, cells *)
Theorem data_equality_is_source : forall a b,
  gen_data_equality a (tb_data b) =
  ROk (let '(v, ra, rb) := data_eq a b in (v, with_rep a ra, mkM rb (dtype b))).
Proof. exact data_equality_bridge. Qed.
Print Assumptions data_equality_is_source.

(* __eq__: the class test, then type, observation ids, sample ids, observation metadata, sample
   metadata, data - verdict and both operands afterwards are those of eq_step *)
Theorem eq_is_source : forall a b,
  gen_eq a (PTable b) = ROk (let '(v, a', b') := eq_step a b in (v, a', PTable b')).
Proof. exact eq_bridge. Qed.
Print Assumptions eq_is_source.
Theorem eq_foreign_is_source : forall a, gen_eq a PForeign = ROk (false, a, PForeign).
Proof. exact eq_foreign_bridge. Qed.
Print Assumptions eq_foreign_is_source.

(* descriptive_equality: the same tests in the same order, each with its own answer
   (0 equal, 1 type, 2 / 3 ids, 4 / 5 metadata, 6 data, 7 class), same effects as == *)
Theorem descriptive_equality_is_source : forall a b,
  gen_descriptive_equality a (PTable b) =
  ROk (desc_impl a b, fst (eq_after a b), PTable (snd (eq_after a b))).
Proof. exact desc_bridge. Qed.
Print Assumptions descriptive_equality_is_source.
Theorem descriptive_equality_foreign_is_source : forall a,
  gen_descriptive_equality a PForeign = ROk (MSG_CLASS, a, PForeign).
Proof. exact desc_foreign_bridge. Qed.
Print Assumptions descriptive_equality_foreign_is_source.

(* __ne__: the negation of ==, same effects *)
Theorem ne_is_source : forall a b,
  gen_ne a (PTable b) = ROk (ne_impl a b, fst (eq_after a b), PTable (snd (eq_after a b))).
Proof. exact ne_bridge. Qed.
Print Assumptions ne_is_source.
Theorem ne_foreign_is_source : forall a, gen_ne a PForeign = ROk (true, a, PForeign).
Proof. exact ne_foreign_bridge. Qed.
Print Assumptions ne_foreign_is_source.
