From BiomV Require Import Model.Subset Model.Slicer.
Theorem placeholder : True. Proof. exact I. Qed.
Print Assumptions placeholder.
