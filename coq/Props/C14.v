(* C14: subsetting while reading equals reading everything and then filtering.
   Statements only; the proofs are in Proofs/SubsetProofs.v, Proofs/SlicerProofs.v and (closed
   witnesses) Proofs/C14Witness.v.  Models: Model/Subset.v (HDF5 readers on the stored arrays,
   parse_table on a loaded table), Model/Slicer.v (the JSON text slicer of `biom subset-table`). *)
From Coq Require Import List Arith ZArith Bool Permutation.
From BiomV Require Import Base.Tree Base.ListUtil Base.Matrix Model.Table Model.Subset Model.Slicer
  Proofs.SubsetProofs Proofs.SlicerProofs Proofs.C14Witness Gen.StrPrelude Gen.SlicerGen Proofs.GenBridgeSlicerProofs.
Import ListNotations.

(* ================================================================== the reference: read-all-then-filter *)
(* `filter_ids` (= Table.filter(ids, axis)) keeps the ids of the requested set in their ORIGINAL
   order, with the matching rows / columns and metadata entries; the other axis and the type are
   untouched; metadata none of whose entries holds anything becomes None (`cast_md`, what
   Table._cast_metadata does at the end of every filter and in the constructor).
   `drop_empty_other a` then removes, in the same way, on the axis that was not subset, the
   vectors holding no non-zero value (Model/Subset.v: flt with nonzero_mask). *)
Theorem filter_ids_spec : forall ids_ a t,
  ids a (filter_ids ids_ a t) = filter (fun i => zmem i ids_) (ids a t) /\
  ids (other a) (filter_ids ids_ a t) = ids (other a) t /\
  mds (other a) (filter_ids ids_ a t) = cast_md (mds (other a) t) /\
  mds a (filter_ids ids_ a t) = cast_md (option_map (select (id_mask ids_ (ids a t))) (mds a t)) /\
  ttype (filter_ids ids_ a t) = ttype t /\
  mat (filter_ids ids_ a t) = match a with Obs => sel_rows (id_mask ids_ (oids t)) (mat t)
                                          | Samp => sel_cols (id_mask ids_ (sids t)) (mat t) end.
Proof. exact filter_ids_spec_proof. Qed.
Print Assumptions filter_ids_spec.

(* ================================================================== HDF5, default variant *)
(* Reading a well-formed file restricted to a set of known ids (any order, no repetition) gives
   exactly: read everything, keep the ids of the set in FILE order with their vectors and
   metadata, then drop the vectors of the OTHER axis that became all-zero. *)
Theorem hdf5_subset_eq : forall ids_ a f,
  wf_file f -> NoDup ids_ -> ids_ <> [] -> (forall i, In i ids_ -> In i (file_ids a f)) ->
  from_hdf5_subset ids_ a f = ROk (drop_empty_other a (filter_ids ids_ a (from_hdf5_all f))).
Proof. exact hdf5_subset_eq_proof. Qed.
Print Assumptions hdf5_subset_eq.

Example hdf5_subset_eq_nonvacuous :
  wf_file f0 /\ NoDup [30; 10]%Z /\ (forall i, In i [30; 10]%Z -> In i (file_ids Obs f0)) /\
  from_hdf5_subset [30; 10]%Z Obs f0
    = ROk (mkT [10; 30]%Z [40; 50; 60]%Z [[0; 1; 2]; [3; 0; 4]]%Z (Some [I 1; I 3]) None 1%Z).
Proof.
  split; [apply wf_fileb_ok; exact wit_f0_wf|]. split; [repeat constructor; simpl; intuition discriminate|].
  split; [intros i [H|[H|[]]]; subst; simpl; tauto|exact wit_f0_obs].
Qed.

(* A request naming an id that is not in the file is refused (ValueError). *)
Theorem hdf5_subset_refuses : forall ids_ a f,
  wf_file f -> (exists i, In i ids_ /\ ~ In i (file_ids a f)) -> from_hdf5_subset ids_ a f = RErr E_VALUE.
Proof. exact hdf5_subset_refuses_proof. Qed.
Print Assumptions hdf5_subset_refuses.

(* The caller's order is irrelevant. *)
Theorem hdf5_subset_order_irrelevant : forall ids1 ids2 a f,
  Permutation ids1 ids2 -> from_hdf5_subset ids1 a f = from_hdf5_subset ids2 a f.
Proof. exact hdf5_subset_order_proof. Qed.
Print Assumptions hdf5_subset_order_irrelevant.

(* Outside the property's domain, recorded: a request repeating an id is refused by this variant
   (the metadata-free variant accepts it, see wit_f0_repeated). *)
Theorem hdf5_subset_repeated_id_refused : forall ids_ a f,
  wf_file f -> ~ NoDup ids_ -> from_hdf5_subset ids_ a f = RErr E_VALUE.
Proof. exact hdf5_subset_dup_refused_proof. Qed.
Print Assumptions hdf5_subset_repeated_id_refused.

(* The request may be any iterable (repaired as F45: a set used to be refused with TypeError);
   only its elements matter, see hdf5_subset_order_irrelevant.
   parse_table / parse_biom_table on an open HDF5 handle = the default variant; an unknown id
   surfaces as TypeError (the reader swallows the ValueError and then tries to read the handle as JSON) *)
Theorem parse_table_h5_eq : forall ids_ a f,
  wf_file f -> NoDup ids_ -> ids_ <> [] -> (forall i, In i ids_ -> In i (file_ids a f)) ->
  parse_table_h5 ids_ a f = ROk (drop_empty_other a (filter_ids ids_ a (from_hdf5_all f))).
Proof. exact parse_table_h5_eq_proof. Qed.
Print Assumptions parse_table_h5_eq.

Theorem parse_table_h5_refuses : forall ids_ a f,
  wf_file f -> (exists i, In i ids_ /\ ~ In i (file_ids a f)) -> parse_table_h5 ids_ a f = RErr E_TYPE.
Proof. exact parse_table_h5_refuses_proof. Qed.
Print Assumptions parse_table_h5_refuses.

(* ================================================================== HDF5, metadata-free variant *)
(* subset_with_metadata=False: the same ids and matrix, no metadata, no type, and the vectors
   emptied by the subset are KEPT. *)
Theorem hdf5_subset_nomd_eq : forall ids_ a f,
  wf_file f -> ids_ <> [] -> (forall i, In i ids_ -> In i (file_ids a f)) ->
  from_hdf5_subset_nomd ids_ a f = ROk (strip_md (filter_ids ids_ a (from_hdf5_all f))).
Proof. exact hdf5_subset_nomd_eq_proof. Qed.
Print Assumptions hdf5_subset_nomd_eq.

Example hdf5_subset_nomd_eq_nonvacuous :
  wf_file f0 /\ (forall i, In i [40]%Z -> In i (file_ids Samp f0)) /\
  from_hdf5_subset_nomd [40]%Z Samp f0 = ROk (mkT [10; 20; 30]%Z [40]%Z [[0]; [0]; [3]]%Z None None 0%Z).
Proof.
  split; [apply wf_fileb_ok; exact wit_f0_wf|]. split; [intros i [H|[]]; subst; simpl; tauto|exact wit_f0_samp_nomd].
Qed.

Theorem hdf5_subset_nomd_refuses : forall ids_ a f,
  (exists i, In i ids_ /\ ~ In i (file_ids a f)) -> from_hdf5_subset_nomd ids_ a f = RErr E_VALUE.
Proof. exact hdf5_subset_nomd_refuses_proof. Qed.
Print Assumptions hdf5_subset_nomd_refuses.

Theorem hdf5_subset_nomd_order_irrelevant : forall ids1 ids2 a f,
  (forall i, In i ids1 <-> In i ids2) -> from_hdf5_subset_nomd ids1 a f = from_hdf5_subset_nomd ids2 a f.
Proof. exact hdf5_subset_nomd_order_proof. Qed.
Print Assumptions hdf5_subset_nomd_order_irrelevant.

(* ================================================================== parse_table(json, ids=, axis=) *)
(* load everything, filter, drop the other-axis vectors that became all-zero; for every table *)
Theorem parse_table_subset_eq : forall ids_ a t,
  parse_table_subset ids_ a t = drop_empty_other a (filter_ids ids_ a t).
Proof. exact parse_table_subset_eq_proof. Qed.
Print Assumptions parse_table_subset_eq.

(* only the SET of requested ids matters ... *)
Theorem filter_ids_set : forall ids1 ids2 a t,
  (forall i, In i ids1 <-> In i ids2) -> filter_ids ids1 a t = filter_ids ids2 a t.
Proof. exact filter_ids_set_proof. Qed.
Print Assumptions filter_ids_set.

(* ... and this reader does not refuse unknown ids, it ignores them (recorded; the property
   requires refusal only from the HDF5 reader and the command) *)
Theorem parse_table_unknown_ignored : forall ids_ a t,
  parse_table_subset ids_ a t = parse_table_subset (filter (fun i => zmem i (ids a t)) ids_) a t.
Proof. exact parse_table_unknown_ignored_proof. Qed.
Print Assumptions parse_table_unknown_ignored.

(* ================================================================== the JSON text slicer *)
(* For EVERY whitespace choice of the printer (any blanks after '[', ',' and before ']': compact,
   json.dumps default, any indent), every list of entries (the empty one included) and every
   set of kept indices, the text the slicer returns reads back as the kept entries with the
   kept indices renumbered 0..k-1 in increasing order. *)
Theorem slice_obs_ws : forall w l keep, ws_ok w -> triples_ok l ->
  exists out, slice_obs (print_inner w l) keep = ROk out /\ parse_triples out = Some (subset_obs keep l).
Proof. exact slice_obs_ws_proof. Qed.
Print Assumptions slice_obs_ws.

Theorem slice_samp_ws : forall w l keep, ws_ok w -> triples_ok l ->
  exists out, slice_samp (print_inner w l) keep = ROk out /\ parse_triples out = Some (subset_samp keep l).
Proof. exact slice_samp_ws_proof. Qed.
Print Assumptions slice_samp_ws.

Example slice_ws_nonvacuous :
  ws_ok ws_compact /\ ws_ok ws_default /\ ws_ok ws_indent2 /\
  triples_ok [(0, 1, [49; 46; 48]%Z); (2, 0, [45; 51; 101; 45; 55]%Z)]%nat.
Proof.
  split; [exact ws_compact_ok|]. split; [exact ws_default_ok|]. split; [exact ws_indent2_ok|].
  repeat constructor; discriminate.
Qed.

(* the same result for every serialisation of the same entries *)
Theorem slice_ws_independent : forall w1 w2 l keep, ws_ok w1 -> ws_ok w2 -> triples_ok l ->
  slice_obs (print_inner w1 l) keep = slice_obs (print_inner w2 l) keep /\
  slice_samp (print_inner w1 l) keep = slice_samp (print_inner w2 l) keep.
Proof. exact slice_ws_indep_proof. Qed.
Print Assumptions slice_ws_independent.

(* the reference reader used above reads back every printing of every entry list *)
Theorem parse_triples_print_ws : forall w l, ws_ok w -> triples_ok l -> parse_triples (print_ws w l) = Some l.
Proof. exact parse_print_ws. Qed.
Print Assumptions parse_triples_print_ws.

(* the renumbering table: the i-th smallest kept index is mapped to i, so order is preserved *)
Theorem remap_sorted : forall keep,
  (forall i, (i < length (sorted_set keep))%nat ->
     lookup_get (print_nat (nth i (sorted_set keep) 0%nat)) (remap_lookup keep) = Some i) /\
  (forall x, lookup_get (print_nat x) (remap_lookup keep) = if nmem x keep then Some (rank keep x) else None) /\
  (forall a b, In a keep -> (a < b)%nat -> (rank keep a < rank keep b)%nat).
Proof.
  intros keep. split; [apply remap_sorted_nth|]. split; [apply lookup_remap|apply rank_monotone].
Qed.
Print Assumptions remap_sorted.

(* direct_parse_key on a pair "key":<blanks><value>: a string value may contain anything
   (commas, quotes, brackets, braces: the printer escapes them); null / true / numbers end at the
   next ',' or '}'.  Hypothesis: the text "key": does not occur earlier in the document. *)
Theorem parse_key_ok : forall pre key w v post,
  no_occ_before (key_pat key) (pre ++ print_pair key w v ++ post) (length pre) ->
  Forall (fun c => is_space c = true) w -> hvalue_ok v -> post_ok v post ->
  direct_parse_key (pre ++ print_pair key w v ++ post) key = ROk (print_pair key w v).
Proof. exact parse_key_ok_proof. Qed.
Print Assumptions parse_key_ok.

(* the "data" array is found by bracket matching and cut out exactly, for every whitespace choice *)
Theorem parse_key_data_ok : forall pre sp w l post,
  no_occ_before (key_pat K_DATA) (pre ++ (key_pat K_DATA ++ sp ++ print_ws w l) ++ post) (length pre) ->
  Forall (fun c => is_space c = true) sp -> ws_ok w -> plain_vals l ->
  direct_parse_key (pre ++ (key_pat K_DATA ++ sp ++ print_ws w l) ++ post) K_DATA
    = ROk (key_pat K_DATA ++ sp ++ print_ws w l)
  /\ data_inner (key_pat K_DATA ++ sp ++ print_ws w l) = print_inner w l.
Proof. exact parse_key_data_ok_proof. Qed.
Print Assumptions parse_key_data_ok.

(* the whole command on library-written documents: the model returns, character for character,
   what the implementation wrote (compact input; indent=2 input; a subset keeping no stored
   entry and an all-zero table, both repaired as F33; an unknown id is refused with KeyError) *)
Theorem subset_json_examples :
  subset_json doc_ok Obs [id_o3; id_o1] = ROk out_obs /\
  subset_json doc_indent Samp [id_s3] = ROk out_samp_indent /\
  subset_json doc_ok Obs [id_o2] = ROk out_gap /\
  subset_json doc_zero Samp [id_s2; id_s1] = ROk out_zero /\
  subset_json doc_ok Obs [id_o1; id_s1] = RErr E_KEY.
Proof.
  split; [exact wit_subset_obs|]. split; [exact wit_subset_samp_indent|]. split; [exact wit_no_entry_kept|].
  split; [exact wit_zero_table|exact wit_unknown_id].
Qed.
Print Assumptions subset_json_examples.

(* direct_parse_key on "key":<blanks><array or object> (the repaired scanner, F34): the value is
   returned exactly whenever the text between its outer brackets is made of plain characters,
   JSON strings and nested bracket pairs (`bal`), a string body being ANY sequence of characters
   other than quote / backslash and of two-character escapes (`str_body`): brackets, braces,
   escaped quotes and backslashes inside ids and metadata strings are text. *)
Theorem parse_key_value_ok : forall pre key sp o b cl post,
  no_occ_before (key_pat key) (pre ++ (key_pat key ++ sp ++ o :: b ++ [cl]) ++ post) (length pre) ->
  Forall (fun c => is_space c = true) sp -> is_open o = true -> is_close cl = true -> bal b ->
  direct_parse_key (pre ++ (key_pat key ++ sp ++ o :: b ++ [cl]) ++ post) key
    = ROk (key_pat key ++ sp ++ o :: b ++ [cl]).
Proof. exact parse_key_value_ok_proof. Qed.
Print Assumptions parse_key_value_ok.

(* every string the printers emit has such a body, whatever code points it holds ... *)
Theorem json_escape_is_str_body : forall s, code_points s -> str_body (json_escape s).
Proof. exact json_escape_body. Qed.
Print Assumptions json_escape_is_str_body.

(* ... hence for the "rows" / "columns" arrays (any array or object) as json.dumps prints them,
   with ids, metadata keys and metadata strings of ARBITRARY content: *)
Theorem parse_key_dumps_ok : forall pre key sp v post,
  (exists l, v = JArr l) \/ (exists l, v = JObj l) -> jv_ok v ->
  no_occ_before (key_pat key) (pre ++ (key_pat key ++ sp ++ dumps v) ++ post) (length pre) ->
  Forall (fun c => is_space c = true) sp ->
  direct_parse_key (pre ++ (key_pat key ++ sp ++ dumps v) ++ post) key = ROk (key_pat key ++ sp ++ dumps v).
Proof. exact parse_key_dumps_ok_proof. Qed.
Print Assumptions parse_key_dumps_ok.

Example parse_key_dumps_nonvacuous :
  jv_ok (JArr [JObj [(K_ID, JStr [111; 93; 34; 92; 123]%Z); (K_ROWS, JNull)]; JObj [(K_ID, JStr [91]%Z)]]).
Proof. simpl. repeat split; repeat constructor; discriminate. Qed.

(* the documents that witnessed F34 (a row id `o]1`, a row id with one quote, ids and metadata
   with [ } { , quotes and backslashes, compact and indent=2): the model returns the implementation's
   text, and that text is JSON *)
Theorem subset_json_bracket_examples :
  (subset_json doc_bracket Obs [id_o2; id_ob] = ROk out_bracket_obs /\ json_loads out_bracket_obs <> None) /\
  (subset_json doc_bracket Samp [id_s2] = ROk out_bracket_samp /\ json_loads out_bracket_samp <> None) /\
  (subset_json doc_quote Obs [id_oq] = ROk out_quote_obs /\ json_loads out_quote_obs <> None) /\
  (subset_json doc_wild Obs [id_w3; id_w1] = ROk out_wild_obs /\ json_loads out_wild_obs <> None) /\
  (subset_json doc_wild_indent Samp [id_ws2] = ROk out_wild_samp_indent /\ json_loads out_wild_samp_indent <> None).
Proof.
  split; [exact wit_bracket_obs|]. split; [exact wit_bracket_samp|]. split; [exact wit_quote_obs|].
  split; [exact wit_wild_obs|exact wit_wild_samp_indent].
Qed.
Print Assumptions subset_json_bracket_examples.

(* the command itself (`biom subset-table -s ids.txt`): the ids file is read line by line, `#`
   lines skipped, each line stripped and cut at its first TAB.  Every id the format can carry
   (not empty, no blank at either end, no tab or newline, no leading `#` -- blanks INSIDE an id are
   fine) is read back exactly, with or without further tab-separated columns after it. *)
Theorem read_ids_file_ok : forall ls, Forall ids_line_ok ls -> read_ids_file (print_ids_file ls) = map fst ls.
Proof. exact read_ids_file_ok_proof. Qed.
Print Assumptions read_ids_file_ok.

Example read_ids_file_nonvacuous :
  ids_line_ok ([103; 117; 116; 32; 50]%Z, None) /\ ids_line_ok ([103; 117; 116]%Z, Some [35; 32; 120]%Z).
Proof. unfold ids_line_ok, id_ok, extra_ok; simpl. repeat split; try discriminate; intuition discriminate. Qed.

(* ---- refuted: key lookup by raw text search (known finding F35).  Observation metadata with a
   key named "columns": that occurrence is found first and `"columns": 1` is stitched in. *)
Theorem parse_key_first_occurrence_refuted :
  exists doc, json_loads doc <> None /\ direct_parse_key doc K_COLUMNS = ROk columns_is_1.
Proof. exists doc_mdkey. split; [exact (proj2 (proj2 (proj2 wit_docs_valid)))|exact wit_mdkey]. Qed.
Print Assumptions parse_key_first_occurrence_refuted.

(* ================================================================== tie to the source (tools/py2v, string mode) *)
(* Gen/SlicerGen.v is regenerated from biom/parse.py at the start of every check.  The generated
   `direct_parse_key_gen` follows the source statement by statement (index arithmetic in Z, every
   s[i] with its IndexError, the three scanning loops and the whitespace loop as recursion on fuel
   len(s) + 1, the bracket stack as a Python list).  For EVERY string and key it never runs out of
   fuel (`out_res` is None only for OutOfFuel) and gives exactly what the hand-written
   `direct_parse_key` of Model/Slicer.v gives, the IndexError outcome included. *)
Theorem direct_parse_key_is_source : forall s key,
  out_res (direct_parse_key_gen s key) = Some (direct_parse_key s key).
Proof. exact direct_parse_key_bridge. Qed.
Print Assumptions direct_parse_key_is_source.

(* the character set of strip_f, the two record remappers and the two record loops of the sparse
   slicers, regenerated from parse.py:178-234 (str.split / strip / join are the primitives of
   Model/Slicer.v; `{str(v): i for i, v in enumerate(sorted(to_keep))}` is the primitive
   `remap_lookup`): equal to the hand-written model for every input, ValueError (a record without
   exactly three fields) and KeyError included; the loops have no fuel (recursion on the records) *)
Theorem strip_f_is_source : forall x, strip_f_gen x = strip_f x.
Proof. exact strip_f_bridge. Qed.
Print Assumptions strip_f_is_source.

Theorem remap_axis_obs_is_source : forall rcv lk, out_res (remap_axis_obs_gen rcv lk) = Some (remap_axis_obs rcv lk).
Proof. exact remap_axis_obs_bridge. Qed.
Print Assumptions remap_axis_obs_is_source.

Theorem remap_axis_samp_is_source : forall rcv lk, out_res (remap_axis_samp_gen rcv lk) = Some (remap_axis_samp rcv lk).
Proof. exact remap_axis_samp_bridge. Qed.
Print Assumptions remap_axis_samp_is_source.

Theorem slice_obs_is_source : forall data keep, out_res (slice_obs_gen data keep) = Some (slice_obs data keep).
Proof. exact slice_obs_bridge. Qed.
Print Assumptions slice_obs_is_source.

Theorem slice_samp_is_source : forall data keep, out_res (slice_samp_gen data keep) = Some (slice_samp data keep).
Proof. exact slice_samp_bridge. Qed.
Print Assumptions slice_samp_is_source.

(* direct_slice_data (parse.py:116-175) regenerated whole: the axis test, the three key lookups with
   their ValueError, the shape parsed with split / replace / int (ValueError), the data text cut out
   with find and a slice, min / max bounds checks (ValueError on an empty request, IndexError out of
   bounds), the "[%d, %d]" shape, the dispatch to the obs / samp slicer and the final f-string.  The
   source takes the axis as a str, the model as `axis`: `axis_text Obs` = "observation",
   `axis_text Samp` = "sample" (Proofs/GenBridgeSlicerProofs.v); requested indices are naturals on
   both sides. *)
Theorem direct_slice_data_is_source : forall s keep a,
  out_res (direct_slice_data_gen s keep (axis_text a)) = Some (direct_slice_data s keep a).
Proof. exact direct_slice_data_bridge. Qed.
Print Assumptions direct_slice_data_is_source.
