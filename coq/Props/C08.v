(* C08: filtering keeps exactly the selected IDs, intact and in order.
   Statements only; proofs are in Proofs/FilterProofs.v. *)
From Coq Require Import List Arith ZArith Bool Lia.
From BiomV Require Import Base.Tree Base.ListUtil Base.Matrix Model.Table Model.Orient Model.Filter Proofs.FilterProofs.
From BiomV Require Import Proofs.FilterKernelProofs.
Import ListNotations.

(* Filtering by an ID collection: exactly the selected ids (the others with invert), in their
   original order; every kept id pair keeps its value, every kept id its metadata (as a reader
   sees it: filter ends with the metadata normalisation of _cast_metadata, which turns metadata
   whose entries are all empty into None - md_view identifies None with the empty mapping);
   the other axis keeps its ids, its metadata (normalised) and the type; the result is coherent. *)
Theorem filter_keeps_selected : forall keep invert a t t',
  wf t -> filter_ids keep invert a t = ROk t' ->
  ids a t' = filter (fun i => xorb (zmem i keep) invert) (ids a t) /\
  ids (other a) t' = ids (other a) t /\ mds (other a) t' = ctor_md (mds (other a) t) /\ ttype t' = ttype t /\
  (forall o s, In o (oids t') -> In s (sids t') -> cell t' o s = cell t o s) /\
  (forall b x, In x (ids b t') -> md_view b t' x = md_view b t x) /\ wf t'.
Proof.
  intros keep invert a t t' W H. pose proof (filter_ids_kept keep invert a t t' H) as [K _].
  unfold filter_ids in H. destruct (forallb _ keep); [|discriminate].
  assert (E : t' = filter_table (map (fun i => xorb (zmem i keep) invert) (ids a t)) a t) by congruence.
  clear H. subst t'.
  destruct (filter_table_other (map (fun i => xorb (zmem i keep) invert) (ids a t)) a t) as (A & B & C).
  split; [exact K|]. split; [exact A|]. split; [exact B|]. split; [exact C|].
  split; [intros o s Ho Hs; apply filter_table_cell; assumption|].
  split; [intros b x Hx; apply filter_table_md_any; assumption|].
  apply wf_filter_table. exact W.
Qed.
Print Assumptions filter_keeps_selected.

(* Naming an unknown ID is an error (and the model returns no table: nothing was changed);
   naming only known ids always succeeds. *)
Theorem filter_unknown_refused : forall keep invert a t,
  (exists x, In x keep /\ ~ In x (ids a t)) -> filter_ids keep invert a t = RErr E_KEY.
Proof. exact filter_ids_unknown. Qed.
Print Assumptions filter_unknown_refused.

Theorem filter_known_succeeds : forall keep invert a t,
  (forall x, In x keep -> In x (ids a t)) -> exists t', filter_ids keep invert a t = ROk t'.
Proof. exact filter_ids_total. Qed.
Print Assumptions filter_known_succeeds.

(* Filtering by a predicate and by the list of ids that predicate accepts give equal tables. *)
Theorem filter_pred_equals_ids : forall verdicts a t,
  wf t -> length verdicts = length (ids a t) ->
  filter_ids (accepted verdicts a t) false a t = ROk (filter_pred verdicts false a t).
Proof. exact filter_pred_eq_ids. Qed.
Print Assumptions filter_pred_equals_ids.

(* The predicate is called once per id, in order, with that id's vector, id and metadata. *)
Theorem predicate_calls : forall a t,
  length (pred_calls a t) = length (ids a t) /\
  forall i, i < length (ids a t) ->
    nth i (pred_calls a t) ([], 0%Z, None) = (vec a t i, nth i (ids a t) 0%Z, md_at a t i).
Proof. exact pred_calls_spec. Qed.
Print Assumptions predicate_calls.

(* K2: on a segment with strictly increasing indices the compiled loop hands the predicate the
   true dense vector, whatever the reused buffer held before. *)
Theorem kernel_rebuild_correct : forall data indices n s e row0,
  length row0 = n -> s <= e -> e <= length indices -> seg_sorted indices s e ->
  forall k, k < n -> nth k (snd (rebuild data indices n s e row0)) 0%Z = seg_lookup data indices k s (e - s).
Proof. exact rebuild_correct. Qed.
Print Assumptions kernel_rebuild_correct.

(* ... and it does need sorted indices (this is why Table.filter canonicalises the layout first) *)
Theorem kernel_rebuild_unsorted_refuted :
  exists data indices n s e row0 k,
    length row0 = n /\ s <= e /\ e <= length indices /\ k < n /\
    nth k (snd (rebuild data indices n s e row0)) 0%Z <> seg_lookup data indices k s (e - s).
Proof.
  exists [3;1;2]%Z, [2;0;1], 3, 0, 3, [0;0;0]%Z, 0.
  vm_compute. repeat split; auto with arith; discriminate.
Qed.
Print Assumptions kernel_rebuild_unsorted_refuted.

(* remove_empty removes exactly the all-zero vectors. *)
Theorem remove_empty_exact : forall a t x,
  In x (ids a (remove_empty_axis a t)) <->
  exists i, i < length (ids a t) /\ nth i (ids a t) 0%Z = x /\ all_zero (vec a t i) = false.
Proof. exact remove_empty_ids. Qed.
Print Assumptions remove_empty_exact.

(* head(n, m) returns exactly the leading n x m block (ids, values, metadata of every kept id). *)
Theorem head_block : forall n m t t',
  wf t -> head n m t = ROk t' ->
  (0 < n)%Z /\ (0 < m)%Z /\
  oids t' = firstn (Z.to_nat n) (oids t) /\ sids t' = firstn (Z.to_nat m) (sids t) /\
  mat t' = map (firstn (Z.to_nat m)) (firstn (Z.to_nat n) (mat t)) /\
  (forall a x, In x (ids a t') -> md_view a t' x = md_view a t x) /\
  ttype t' = ttype t /\ wf t'.
Proof. exact head_spec. Qed.
Print Assumptions head_block.

(* non-vacuity: a 3x4 table with an all-zero row and metadata meets the hypotheses *)
Definition ex_table : table :=
  mkT [10;20;30]%Z [1;2;3;4]%Z [[5;0;0;7];[0;0;0;0];[0;2;0;0]]%Z
      (Some [I 1; I 2; I 3]%Z) None 1%Z.
Example ex_wf : wf ex_table. Proof. apply wfb_wf. vm_compute. reflexivity. Qed.
Example ex_filter : exists t', filter_ids [30;10]%Z false Obs ex_table = ROk t' /\ oids t' = [10;30]%Z /\
                                mat t' = [[5;0;0;7];[0;2;0;0]]%Z.
Proof. eexists. vm_compute. repeat split; reflexivity. Qed.
Example ex_remove_empty : oids (remove_empty_axis Obs ex_table) = [10;30]%Z /\
                          sids (remove_empty_whole ex_table) = [1;2;4]%Z.
Proof. vm_compute. split; reflexivity. Qed.

(* K1, the compiled row compaction _remove_rows_csr (_filter.pyx), over the definition
   remove_rows that tools/py2v regenerates from the source on every check (Gen/FilterGen.v).
   For EVERY well-formed CSR triple (indptr of length m+1 starting at 0, non-decreasing, ending
   at the number of stored entries; as many indices as data) and EVERY boolean mask (a short
   mask reads as false), the arrays the kernel leaves behind, truncated as the code truncates
   them, are exactly the concatenation of the kept rows' segments of indices and of data,
   indptr is the list of prefix sums of the kept rows' lengths, and the shape is
   (number of kept rows, n). *)
Theorem remove_rows_ok : forall m n indptr indices data mask,
  wf_csr m indptr indices data ->
  remove_rows indptr indices data (m, n) mask =
    (psums 0 (map (rlen indptr) (kept_rows mask m)),
     concat (map (rseg indptr indices) (kept_rows mask m)),
     concat (map (rseg indptr data) (kept_rows mask m)),
     (length (kept_rows mask m), n)).
Proof. exact remove_rows_ok_lemma. Qed.
Print Assumptions remove_rows_ok.

(* non-vacuity: a 4 x 3 matrix with an empty row; rows 0 and 3 are dropped *)
Example ex_csr_wf : wf_csr 4 [0;2;2;3;5] [0;2;1;0;1] [5;7;2;4;9]%Z.
Proof.
  unfold wf_csr. split; [reflexivity|]. split; [reflexivity|]. split; [|split; reflexivity].
  intros i Hi. destruct i as [|[|[|[|i]]]]; simpl; lia.
Qed.
Example ex_remove_rows :
  remove_rows [0;2;2;3;5] [0;2;1;0;1] [5;7;2;4;9]%Z (4, 3) [false;true;true;false] =
  ([0;0;1], [1], [2]%Z, (2, 3)).
Proof. vm_compute. reflexivity. Qed.

(* From the arrays to the content: for EVERY well-formed compressed matrix r (Model/Sparse.v wf_cs:
   unsorted indices and explicitly stored zeros allowed) and EVERY mask (read with default false, cut
   at the number of rows), the arrays the generated kernel leaves behind form a well-formed compressed
   matrix whose dense denotation is exactly the row selection of r's -- the selection that the
   content-level filter_mask performs on the matrix of a table. *)
From BiomV Require Import Model.Sparse Proofs.SparseProofs.
Theorem remove_rows_denotes : forall r mask, wf_cs r ->
  let '(ip, ind, dat, (m', n)) := remove_rows (indptr r) (indices r) (data r) (major r, minor r) mask in
  wf_cs (mkCS m' n ip ind dat) /\ dense_of (mkCS m' n ip ind dat) = sel_rows mask (dense_of r).
Proof. exact remove_rows_denotes_lemma. Qed.
Print Assumptions remove_rows_denotes.

(* the compiled compaction refines the content-level filter: if r denotes the matrix of t, the
   kernel's result denotes the matrix of filter_mask mask Obs t *)
Theorem remove_rows_refines_filter_mask : forall r mask t, wf_cs r -> dense_of r = mat t ->
  let '(ip, ind, dat, (m', n)) := remove_rows (indptr r) (indices r) (data r) (major r, minor r) mask in
  dense_of (mkCS m' n ip ind dat) = mat (filter_mask mask Obs t).
Proof.
  intros r mask t W E. pose proof (remove_rows_denotes_lemma r mask W) as H.
  destruct (remove_rows (indptr r) (indices r) (data r) (major r, minor r) mask) as [[[ip ind] dat] [m' n]].
  destruct H as [_ H]. rewrite H, E. reflexivity.
Qed.
Print Assumptions remove_rows_refines_filter_mask.

(* non-vacuity: unsorted indices and a stored zero; rows 0 and 2 are kept *)
Example ex_cs : cs := mkCS 3 3 [0;2;3;5] [2;0;1;1;0] [7;5;0;4;9]%Z.
Example ex_cs_wf : wf_cs ex_cs. Proof. apply wf_csb_wf_cs. vm_compute. reflexivity. Qed.
Example ex_cs_denotes :
  dense_of ex_cs = [[5;0;7];[0;0;0];[9;4;0]]%Z /\
  (let '(ip, ind, dat, (m', n)) := remove_rows (indptr ex_cs) (indices ex_cs) (data ex_cs) (3, 3) [true;false;true] in
   dense_of (mkCS m' n ip ind dat)) = [[5;0;7];[9;4;0]]%Z.
Proof. vm_compute. split; reflexivity. Qed.

(* ---- "all prior histories": a filter applied to the result of an earlier filter is a filter of the
   ORIGINAL table, so a history of filters cannot change what a later filter means.  [mask_then m1 m2]
   keeps, among the positions m1 keeps, those m2 keeps (m2 runs over the survivors).  Table.filter =
   filter_table = selection + the constructor's metadata normalisation; both compose. *)
From BiomV Require Import Proofs.FilterComposeProofs.

Theorem filter_after_filter : forall m1 m2 a t,
  filter_table m2 a (filter_table m1 a t) = filter_table (mask_then m1 m2) a t.
Proof. exact filter_table_twice. Qed.
Print Assumptions filter_after_filter.

(* filters on different axes commute *)
Theorem filters_on_different_axes_commute : forall mo ms t,
  filter_table mo Obs (filter_table ms Samp t) = filter_table ms Samp (filter_table mo Obs t).
Proof. exact filter_table_axes_commute. Qed.
Print Assumptions filters_on_different_axes_commute.

(* by id lists: filtering by A (or its complement) and then by B (or its complement) keeps exactly
   the ids of the ORIGINAL table that pass both tests, in their original order, with everything
   filter_keeps_selected says about a single filter by that combined test *)
Theorem filter_by_ids_twice : forall keepA keepB invA invB a t t1 t2,
  filter_ids keepA invA a t = ROk t1 -> filter_ids keepB invB a t1 = ROk t2 ->
  t2 = filter_table (map (fun x => xorb (zmem x keepA) invA && xorb (zmem x keepB) invB) (ids a t)) a t.
Proof. exact filter_ids_twice. Qed.
Print Assumptions filter_by_ids_twice.

(* ---- tie to the source of the metadata normalisation (filter_table = norm_md . filter_mask is where the
   cast enters C08; Reorder, Concat, Partition, Merge, Ops and Indexed rest on the same ctor_md).
   cast_metadata_gen is the inner function of Table._cast_metadata, ctor_init_*_gen the two metadata
   blocks of Table.__init__, regenerated from biom/table.py by tools/py2v on every check
   (Gen/HelpersGen.v).  For metadata in the models' vocabulary (every entry None or a mapping) the cast
   IS ctor_md; any other entry makes the cast raise. *)
From BiomV Require Gen.Prelude.
From BiomV Require Import Gen.MdPrelude Gen.HelpersGen Proofs.GenBridgeCastProofs.
Theorem cast_metadata_is_source : forall md,
  md_entries_ok md = true -> cast_metadata_gen md = Gen.Prelude.Ok (ctor_md md).
Proof. exact cast_metadata_bridge. Qed.
Print Assumptions cast_metadata_is_source.

Theorem cast_metadata_refuses_non_mapping : forall l,
  md_entries_ok (Some l) = false -> exists e, cast_metadata_gen (Some l) = Gen.Prelude.Raise e.
Proof. exact cast_metadata_refuses. Qed.
Print Assumptions cast_metadata_refuses_non_mapping.

(* the constructor: its block keeps the metadata as given unless every entry is falsy AND the size
   matches (a wrong size is left for errcheck to see); followed by the cast it is ctor_md *)
Theorem ctor_metadata_is_source : forall ids md,
  (md_entries_ok md = true ->
   cast_metadata_gen (ctor_init_samp_gen ids md) = Gen.Prelude.Ok (ctor_md md) /\
   cast_metadata_gen (ctor_init_obs_gen ids md) = Gen.Prelude.Ok (ctor_md md)) /\
  (forall l, length l <> length ids ->
   ctor_init_samp_gen ids (Some l) = Some l /\ ctor_init_obs_gen ids (Some l) = Some l).
Proof. intros ids md. split; [apply ctor_metadata_bridge|apply ctor_init_keeps_wrong_size]. Qed.
Print Assumptions ctor_metadata_is_source.

(* ---- translator tie T17: the Python-level wrappers (_filter.pyx _filter, Table.filter / remove_empty / head) are
   REGENERATED from the source on every check (tools/py2v_filt -> Gen/FilterWrapGen.v over Gen/FiltPrelude.v);
   bridges in Proofs/GenBridgeFilterWrapProofs.v *)
From BiomV Require Import Gen.FiltPrelude Gen.FilterWrapGen Proofs.GenBridgeFilterWrapProofs.
Theorem filter_ids_is_source_partial : forall keep invert a t inplace, NoDup (oids t) -> NoDup (sids t) ->
  gen_filter (lift t) (KIter keep) (name_of a) invert inplace =
  match filter_ids keep invert a t with
  | ROk t' => ROk (if inplace then lift t' else lift t, lift t')
  | RErr c => RErr c
  end.
Proof. exact gen_filter_ids_is_source_partial. Qed.
Print Assumptions filter_ids_is_source_partial.
Theorem filter_pred_is_source_partial : forall verdicts invert a t inplace, NoDup (oids t) -> NoDup (sids t) ->
  gen_filter (lift t) (KFun verdicts) (name_of a) invert inplace =
  ROk (if inplace then lift (filter_pred verdicts invert a t) else lift t, lift (filter_pred verdicts invert a t)).
Proof. exact gen_filter_pred_is_source_partial. Qed.
Print Assumptions filter_pred_is_source_partial.
Theorem filter_other_refused_is_source : forall a t invert inplace,
  gen_filter (lift t) KOther (name_of a) invert inplace = RErr E_TYPE.
Proof. exact gen_filter_other_refused. Qed.
Print Assumptions filter_other_refused_is_source.
Theorem filter_bad_axis_refused_is_source : forall n o k invert inplace, n = N_whole \/ n = N_other ->
  gen_filter o k n invert inplace = RErr E_UNKNOWN.
Proof. exact gen_filter_bad_axis_refused. Qed.
Print Assumptions filter_bad_axis_refused_is_source.
Theorem remove_empty_axis_is_source_partial : forall a t inplace, wf t ->
  gen_remove_empty (lift t) (name_of a) inplace =
  ROk (if inplace then lift (remove_empty_axis a t) else lift t, lift (remove_empty_axis a t)).
Proof. exact gen_remove_empty_axis_is_source_partial. Qed.
Print Assumptions remove_empty_axis_is_source_partial.
Theorem remove_empty_whole_is_source_partial : forall t inplace, wf t ->
  gen_remove_empty (lift t) N_whole inplace =
  ROk (if inplace then lift (remove_empty_whole t) else lift t, lift (remove_empty_whole t)).
Proof. exact gen_remove_empty_whole_is_source_partial. Qed.
Print Assumptions remove_empty_whole_is_source_partial.
Theorem remove_empty_bad_axis_refused_is_source : forall o inplace, gen_remove_empty o N_other inplace = RErr E_UNKNOWN.
Proof. exact gen_remove_empty_bad_axis_refused. Qed.
Print Assumptions remove_empty_bad_axis_refused_is_source.
Theorem head_is_source_partial : forall n m t, wf t ->
  gen_head (lift t) n m = match head n m t with ROk t' => ROk (lift t, lift t') | RErr c => RErr c end.
Proof. exact gen_head_is_source_partial. Qed.
Print Assumptions head_is_source_partial.
(* the hypothesis wf of the partial bridges is satisfiable, and the regenerated text computes *)
Example partial_bridges_satisfiable : wf bridge_ex.
Proof. exact bridge_ex_wf. Qed.
Print Assumptions partial_bridges_satisfiable.
