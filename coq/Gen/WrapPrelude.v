(* Hand-written vocabulary of the translator tools/py2v_wrap (NOT generated).
   Gen/TransformWrapGen.v is regenerated from biom/table.py (Table.transform, Table.pa,
   Table.rankdata, the function Table.norm hands over) over the names below; each stands for one
   Python / numpy / scipy operation of the source.  Together with the translator and
   tools/py2v_wrap/sigs/*.json these definitions are the trusted part.

   Objects.  The methods distinguish the receiver from a copy of it, so table objects live in a
   two-slot heap: the receiver and (once allocated) the one new object.  A name of the source that
   holds a table holds a reference.

   The matrix.  The compressed matrix handed to the kernel is seen per vector of its major axis:
   the positions stored for vector i ([lay], an input: it is decided by the table's history), and the
   values stored there.  The dense length of each vector comes from the table. *)
From Coq Require Import List Arith ZArith QArith Bool.
From BiomV Require Import Base.Tree Base.ListUtil Base.Matrix.
From BiomV Require Export Model.Table Model.Stored Model.Reorder.
Import ListNotations.
Close Scope Q_scope.

Definition E_UNMODELLED : Z := 99%Z.

(* ---- objects *)
Inductive ref := RSelf | RNew.
Record heap := mkH { h_self : table; h_new : table }.
Definition heap0 (self : table) : heap := mkH self self.
Definition deref (h : heap) (r : ref) : table := match r with RSelf => h_self h | RNew => h_new h end.
Definition store (h : heap) (r : ref) (t : table) : heap :=
  match r with RSelf => mkH t (h_new h) | RNew => mkH (h_self h) t end.
Definition obj_keep (h : heap) (r : ref) : ref * heap := (r, h).                              (* the same object *)
Definition tb_copy (h : heap) (r : ref) : ref * heap := (RNew, mkH (h_self h) (copy (deref h r))).   (* .copy() *)

(* what a method leaves behind: (receiver afterwards, returned table or error) *)
Definition outcome := (table * result table)%type.
Definition py_return (h : heap) (r : ref) : outcome := (h_self h, ROk (deref h r)).
Definition rbind2 {A} (h : heap) (r : result A) (k : A -> outcome) : outcome :=
  match r with ROk a => k a | RErr c => (h_self h, RErr c) end.

(* ---- the table object *)
Definition tb_metadata (h : heap) (r : ref) (a : axis) : option (list Tree) := mds a (deref h r).   (* .metadata(axis=a) *)
Definition tb_ids (h : heap) (r : ref) (a : axis) : list Z := ids a (deref h r).                     (* .ids(axis=a) *)
Definition tb_axis_to_num (h : heap) (r : ref) (a : axis) : nat := match a with Obs => 0 | Samp => 1 end.

(* ---- the compressed matrix, per vector of the major axis *)
Record sparr := mkSp { sp_axis : axis; sp_lens : list nat; sp_lay : list (list nat); sp_vals : list (list Z) }.

(* ._get_sparse_data(axis=a): CSC for 'sample', CSR for 'observation' - the vectors of [a] are the
   major axis; vector i stores the positions lay_i with the values the table has there *)
Definition tb_get_sparse_data (lay : list (list nat)) (h : heap) (r : ref) (a : axis) : sparr :=
  let t := deref h r in
  mkSp a (map (@length Z) (axis_vecs a t)) lay
       (map (fun i => gather 0%Z (nth i lay []) (vec a t i)) (seq 0 (length (ids a t)))).

(* the user function: (stored values, id, metadata entry) -> new values *)
Definition userfn := list Z -> Z -> option Tree -> list Z.
Definition md_entry (md : option (list Tree)) (i : nat) : option Tree :=
  match md with Some l => nth_error l i | None => None end.

(* _transform(arr, ids, metadata, f, axis_number) (the kernel, regenerated separately: Gen/TransformGen.v,
   row T3): one call per id, in order, each result assigned to the slice it was computed from - numpy
   refuses another length (ValueError); the axis number must be the major axis of the matrix *)
Definition py_transform (arr : sparr) (ids : list Z) (md : option (list Tree)) (f : userfn) (axnum : nat)
  : result sparr :=
  if negb (Nat.eqb axnum (match sp_axis arr with Obs => 0 | Samp => 1 end)) then RErr E_UNMODELLED else
  let outs := map (fun i => f (nth i (sp_vals arr) []) (nth i ids 0%Z) (md_entry md i)) (seq 0 (length ids)) in
  if forallb (fun i => Nat.eqb (length (nth i outs [])) (length (nth i (sp_vals arr) []))) (seq 0 (length ids))
  then ROk (mkSp (sp_axis arr) (sp_lens arr) (sp_lay arr) outs) else RErr E_VALUE.

(* .eliminate_zeros(): stored entries whose value is 0 are dropped, the others keep their order *)
Definition nz_pairs (l : list nat) (v : list Z) : list (nat * Z) :=
  filter (fun p => negb (Z.eqb (snd p) 0)) (combine l v).
Definition sp_eliminate_zeros (arr : sparr) : sparr :=
  let n := length (sp_lay arr) in
  mkSp (sp_axis arr) (sp_lens arr)
       (map (fun i => map fst (nz_pairs (nth i (sp_lay arr) []) (nth i (sp_vals arr) []))) (seq 0 n))
       (map (fun i => map snd (nz_pairs (nth i (sp_lay arr) []) (nth i (sp_vals arr) []))) (seq 0 n)).

(* ._data = arr: the table now holds the dense content the matrix stands for *)
Definition sp_dense (arr : sparr) : list (list Z) :=
  map (fun i => scatter 0%Z (nth i (sp_lens arr) 0) (nth i (sp_lay arr) []) (nth i (sp_vals arr) []))
      (seq 0 (length (sp_lens arr))).
Definition tb_set_data (h : heap) (r : ref) (arr : sparr) : heap :=
  store h r (with_axis_vecs (sp_axis arr) (deref h r) (sp_dense arr)).

(* ---- numpy on the value arrays *)
Definition np_ne (l : list Z) (k : Z) : list bool := map (fun x => negb (Z.eqb x k)) l.      (* l != k *)
Definition np_eq (l : list Z) (k : Z) : list bool := map (fun x => Z.eqb x k) l.             (* l == k *)
Definition np_where (m : list bool) (a b : Z) : list Z := map (fun c : bool => if c then a else b) m.

(* ---- norm: its values are exact rationals, the tables of the model hold (scaled) integers.  The function
   norm hands over is generated; its call of transform goes to this rational-valued counterpart of the
   generated transform_gen (same calls, results scattered to the stored positions; no object is updated):
   the dense vectors of the normalised table along the axis *)
Definition userfnq := list Z -> Z -> option Tree -> list Q.
Definition np_sum (l : list Z) : Z := zsum l.                                  (* .sum() *)
Definition py_float (z : Z) : Z := z.                                          (* float(): exact on the domain *)
Definition np_div_q (l : list Z) (d : Z) : list Q := map (fun x => Qmake x (Z.to_pos d)) l.   (* l / d, d > 0 *)
Definition tb_transform_q (lay : list (list nat)) (t : table) (f : userfnq) (a : axis) (inplace : bool) : list (list Q) :=
  scatter_all 0%Q (axis_vecs a t) lay
    (map (fun i => f (gather 0%Z (nth i lay []) (vec a t i)) (nth i (ids a t) 0%Z) (md_at a t i)) (seq 0 (length (ids a t)))).
