(* Hand-written vocabulary for biom/cli/table_summarizer.py as tools/py2v_sum translates it
   (coq/Gen/SummaryReportGen.v is generated against it, with Gen/SumPrelude.v and Gen/SumTablePrelude.v);
   typed by tools/py2v_sum/sigs/report.json.  Text is not modelled: a line of the report is its label
   (the text constants are numbered by the signature file, as in Model/Summary.v) and its figure. *)
From Coq Require Import List Arith ZArith Bool.
From BiomV Require Import Base.Tree Base.ListUtil Base.Matrix Model.Table Model.Sparse Model.Summary Gen.SumPrelude.
Import ListNotations.

(* the two format strings handed to locale.format_string; formatting keeps the figure *)
Inductive fmt := fmt_d | fmt_f3.
Definition fmt_num (f : fmt) (x : figure) : figure := x.
(* float(x).is_integer() only chooses between the two formats; the model's numbers carry no scale *)
Definition num_is_integer (z : Z) : bool := true.

(* a line: labelled figure (labels 1..11 of Model/Summary.v), title / blank line (numbered by the
   signature file), detail line  id: count *)
Inductive rline := LFig (label : Z) (f : figure) | LText (t : Z) | LDetail (id : Z) (f : figure).
Definition no_lines : list rline := [].
Definition join_lines (l : list rline) : list rline := l.

Definition py_sum (l : list Z) : Z := zsum l.
(* numpy.std: the model keeps its square (Summary.variance); the square root belongs to the text *)
Definition np_std_sq (l : list Z) : Z * Z := variance l.

Definition tb_transpose (rt : rtable) : rtable := rt_transpose rt.
Definition tb_metadata (rt : rtable) (a : axis) : option (list Tree) := match a with Samp => r_smd rt | Obs => r_omd rt end.
Definition omd_is_none (m : option (list Tree)) : bool := match m with None => true | Some _ => false end.
(* metadata(...)[0]; the constructor turns an empty metadata list into None, so [0] finds an entry *)
Definition md_first (m : option (list Tree)) : option Tree := match m with Some (e :: _) => Some e | _ => None end.
Definition entry_keys_of (e : option Tree) : option (list Tree) := option_map entry_keys e.
Definition keys_none : option (list Tree) := None.

Definition dict_items (d : sdict) : list (Z * Z) := d.
(* sorted(items, key=itemgetter(1)): stable, by value *)
Definition sorted_by_value (l : list (Z * Z)) : list (Z * Z) := ksort l.

(* reading a report: its labelled figures, its detail lines, its title lines, each in order *)
Definition figures (l : list rline) : list (Z * figure) :=
  flat_map (fun x => match x with LFig n f => [(n, f)] | _ => [] end) l.
Definition details (l : list rline) : list (Z * Z) :=
  flat_map (fun x => match x with LDetail k (FZ v) => [(k, v)] | _ => [] end) l.
Definition titles (l : list rline) : list Z :=
  flat_map (fun x => match x with LText t => [t] | _ => [] end) l.
