(* HAND-WRITTEN (not generated): the vocabulary the JSON-writer translator tools/py2v_json
   (sigs/to_json.json -> Gen/JsonGen.v) is written over.  Nothing here transcribes source code:
   these are the meanings given to Python's own operations on str / int / float / list values and to
   the Table accessors the translated method calls (pinned by AST hash in the signature file).
   A str is `text` = list of code points (the `str` of Model/Json.v); a matrix value is the integer
   code of its double (0.0 -> 0); an operation that can raise returns a `result`.
   json.dumps of a str is Json.dumps_str; json.dumps of a metadata value and repr(float) are the
   Section variables dumps_md / fmt of the generated file (oracles, as in Model/JsonText.v). *)
From Coq Require Import List Arith ZArith Bool.
From BiomV Require Import Base.Tree Base.ListUtil Base.Matrix Model.Table Model.Json Model.JsonText.
Import ListNotations.
Open Scope Z_scope.

Notation text := str (only parsing).

Definition rbind {A B} (r : result A) (f : A -> result B) : result B :=
  match r with ROk a => f a | RErr e => RErr e end.

(* the table id is handed over as the text str() makes of it; a datetime as its isoformat() *)
Definition tidobj := text.
Definition str_of_tid (t : tidobj) : text := t.
Definition datetime := text.
Definition dt_isoformat (d : datetime) : text := d.

(* isinstance(x, str) for a str *)
Definition text_isstr (t : text) : bool := true.

(* a value that is an int, a float (a matrix cell: numpy.float64 is a float) or a str *)
Inductive pyval := PInt (z : Z) | PFloat (code : Z) | PStr (t : text).
Definition py_isint (v : pyval) : bool := match v with PInt _ => true | _ => false end.
Definition py_isfloat (v : pyval) : bool := match v with PFloat _ => true | _ => false end.
Definition py_isstr (v : pyval) : bool := match v with PStr _ => true | _ => false end.

(* floats by their codes: float(v) of a float, the literal 0.0, == *)
Definition float_of_float (v : Z) : Z := v.
Definition float_zero : Z := 0.
Definition float_eqb (a b : Z) : bool := a =? b.

(* '%d' % n *)
Definition show_int (z : Z) : text :=
  if z <? 0 then 45 :: show_nat (Z.to_nat (- z)) else show_nat (Z.to_nat z).

(* d.join(pieces) *)
Definition str_join (d : text) (ps : list text) : text := join d ps.

Definition list_empty {A} (l : list A) : bool := match l with [] => true | _ :: _ => false end.

(* enumerate(l) *)
Fixpoint enumerate_from {A} (k : Z) (l : list A) : list (Z * A) :=
  match l with [] => [] | x :: t => (k, x) :: enumerate_from (k + 1) t end.
Definition enumerate_z {A} (l : list A) : list (Z * A) := enumerate_from 0 l.

(* Table accessors: shape, type, self[i, j], ids(), ids(axis='observation') *)
Definition tbl_shape (c : jtable) : Z * Z := (Z.of_nat (jnobs c), Z.of_nat (jnsamp c)).
Definition tbl_type (c : jtable) : option text :=
  match j_type c with JNull => None | ty => Some (str_of_json ty) end.
Definition tbl_get (c : jtable) (i j : Z) : Z := nth (Z.to_nat j) (nth (Z.to_nat i) (j_mat c) []) 0.
Definition ids_obs (c : jtable) : list text := j_oids c.
Definition ids_samp (c : jtable) : list text := j_sids c.

(* iter(axis=..): (values, id, metadata entry or None) per identifier of the axis, in order *)
Definition item := (list Z * text * json)%type.
Definition it_vals (x : item) : list Z := fst (fst x).
Definition it_id (x : item) : text := snd (fst x).
Definition it_md (x : item) : json := snd x.
Definition mk_items (vals : list (list Z)) (recs : list (text * json)) : list item :=
  map (fun p => (fst p, fst (snd p), snd (snd p))) (combine vals recs).
Definition iter_obs (c : jtable) : list item :=
  mk_items (j_mat c) (combine (j_oids c) (md_list (length (j_oids c)) (j_omd c))).
Definition iter_samp (c : jtable) : list item :=
  mk_items (map (fun j => map (fun r => nth j r 0) (j_mat c)) (seq 0 (length (j_sids c))))
           (combine (j_sids c) (md_list (length (j_sids c)) (j_smd c))).
