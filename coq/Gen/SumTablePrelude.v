(* Hand-written vocabulary for the Table methods tools/py2v_sum translates (coq/Gen/SummaryTableGen.v is
   generated against it, together with Gen/SumPrelude.v); typed by tools/py2v_sum/sigs/density.json. *)
From Coq Require Import List Arith ZArith Bool.
From BiomV Require Import Base.Tree Base.ListUtil Base.Matrix Model.Table Model.Sparse Model.Summary.
Import ListNotations.

(* Table.ids(axis=...) and the number of ids (len(...) and numpy's .size) *)
Definition tb_ids (rt : rtable) (a : axis) : list Z := match a with Samp => r_sids rt | Obs => r_oids rt end.
Definition ids_size (l : list Z) : Z := Z.of_nat (length l).
(* truth value of a Python int *)
Definition z_truth (z : Z) : bool := negb (Z.eqb z 0).
(* the property Table.nnz: eliminate_zeros(), then the number of stored entries *)
Definition tb_nnz (rt : rtable) : Z := Z.of_nat (r_nnz rt).
(* true division of two integers, kept as the exact rational (numerator, denominator) *)
Definition q_div (a b : Z) : Z * Z := (a, b).
