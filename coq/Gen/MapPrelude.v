(* HAND-WRITTEN (not generated): the vocabulary the mapping-file target of tools/py2v
   (tools/py2v/mapmode.py, sigs/mapfile.json -> Gen/MapFileGen.v) is written over.  Nothing here
   transcribes source code: these are the meanings given to Python's own operations on str / list /
   dict values.  A str is `text` = list of code points, an int is a `Z`, a dict is an
   insertion-ordered association list.  All operations used by the target are total: `l[n]` is
   only generated for rows produced by `str.split`, which never returns an empty list (the
   IndexError arm is documented as unreachable in docs/C18.md, not modelled). *)
From Coq Require Import List Arith ZArith Bool.
From BiomV Require Import Base.Tree Base.ListUtil Model.Table Model.Tsv.
Import ListNotations.
Open Scope Z_scope.

(* not s / not l *)
Definition py_empty {A} (l : list A) : bool := match l with [] => true | _ :: _ => false end.
(* a or b on lists *)
Definition py_or_list {A} (a b : list A) : list A := if py_empty a then b else a.
Definition py_len {A} (l : list A) : Z := Z.of_nat (length l).
(* s.strip() / s.lstrip() / s.rstrip() without argument *)
Definition py_strip (s : text) : text := strip s.
Definition py_lstrip (s : text) : text := lstrip s.
Definition py_rstrip (s : text) : text := rstrip s.
(* s.replace(c, r) for a one-character c; the r = "" case has its own name *)
Definition py_delete (c : Z) (s : text) : text := filter (fun x => negb (x =? c)) s.
Definition py_replace1 (c : Z) (r : text) (s : text) : text :=
  flat_map (fun x => if x =? c then r else [x]) s.
(* s.split(c) for a one-character c *)
Definition py_split (c : Z) (s : text) : list text := split_on c s.
(* s.startswith(p) *)
Fixpoint py_startswith (p s : text) : bool :=
  match p, s with
  | [], _ => true
  | a :: p', b :: s' => (a =? b) && py_startswith p' s'
  | _ :: _, [] => false
  end.
(* l[n:] for a constant n >= 0; l[n] for a constant n >= 0 on a list of strs *)
Definition py_from {A} (n : nat) (l : list A) : list A := skipn n l.
Definition py_item (n : nat) (l : list text) : text := nth n l [].
(* l * n *)
Definition py_times {A} (l : list A) (n : Z) : list A := concat (repeat l (Z.to_nat n)).
(* len(l) != len(set(l)) on a list of strs *)
Definition py_has_dup (l : list text) : bool := tdup l.

(* d[k] = v : the position of an existing key is kept, a new key goes last *)
Fixpoint dict_set {V} (d : list (text * V)) (k : text) (v : V) : list (text * V) :=
  match d with
  | [] => [(k, v)]
  | (k', v') :: r => if text_eqb k k' then (k, v) :: r else (k', v') :: dict_set r k v
  end.

(* process_fns: a dict from column names to functions str -> value; d[k] raising KeyError is
   `None` here.  (A KeyError raised INSIDE such a function would be caught by the same handler:
   the functions are oracles of the model and those built by the CLI never raise it.) *)
Definition pfns := text -> option (text -> Tree).
Definition py_getfn (d : pfns) (k : text) : option (text -> Tree) := d k.
