(* Hand-written vocabulary of the HDF5-writer translator tools/py2v_h5 (generated file:
   Gen/Hdf5Gen.v).  An h5py handle is a path of the model tree of Model/Hdf5.v (a group) or the
   position of a dataset in the file (a dataset handle); `create_group`, `create_dataset` and
   `attrs[...] = ...` append to the tree with the meaning Model/Hdf5.v gives them.  The writer runs
   in a state monad over (file written so far, layout and arrays the table holds now), because
   `self.nnz` and `self._data = self._data.asformat(order)` change the table while it is written.

   Trusted here (argued, not proved): h5py's refusal of a name that exists is modelled only inside
   the pinned metadata block (where Model/Hdf5.v has it); the statically named groups and datasets
   (`matrix/...`, `ids`, `metadata`, `group-metadata`) have pairwise distinct literal paths.
   The gzip filter is not modelled: `compression` is carried and ignored. *)
From Coq Require Import String.
From Coq Require Import List Arith ZArith Lia Bool.
From BiomV Require Import Base.Tree Base.TreeStr Base.ListUtil Base.Matrix Model.Table Model.Sparse Model.Hdf5.
Import ListNotations.
Open Scope list_scope.

(* w_ds: the datasets written so far, one chunk per call, latest first *)
Record wst := mkW { w_file : h5; w_ds : list (list (path * dset)); w_fmt : fmt; w_cs : cs }.
Definition M (A : Type) := wst -> result (A * wst).
Definition mret {A} (a : A) : M A := fun s => ROk (a, s).
Definition mbind {A B} (m : M A) (k : A -> M B) : M B :=
  fun s => match m s with ROk (a, s') => k a s' | RErr e => RErr e end.
Definition mfail {A} (e : Z) : M A := fun _ => RErr e.
Fixpoint h5_for {A} (l : list A) (body : A -> M unit) : M unit :=
  match l with [] => mret tt | x :: t => mbind (body x) (fun _ => h5_for t body) end.
Definition h5_run (self : state) (m : M unit) : result h5 :=
  match m (mkW (mkH [] [] []) [] (st_fmt self) (st_cs self)) with
  | ROk (_, s) => ROk (mkH (attrs (w_file s)) (groups (w_file s)) (concat (rev (w_ds s))))
  | RErr e => RErr e
  end.

(* ---------------------------------------------------------------- python values *)
Definition opt_default {A} (o : option A) (d : A) : A := match o with Some a => a | None => d end.
Definition opt_is_none {A} (o : option A) : bool := match o with None => true | Some _ => false end.
Definition bool_is_true (b : bool) : bool := b.
Definition ostr_truthy (o : option str) : bool := match o with Some (_ :: _) => true | _ => false end.
Definition ostr_val (o : option str) : str := match o with Some s => s | None => [] end.
(* a datetime is its ISO text (Model/Hdf5.v); the clock is an input of the writer *)
Definition dt_now (now : str) : str := now.
Definition dt_isoformat (d : str) : str := d.
Definition py_zip {A B} (a : list A) (b : list B) : list (A * B) := combine a b.

(* ---------------------------------------------------------------- the table *)
Definition tbl_table_id (self : state) : option str := st_id self.
Definition tbl_type (self : state) : option str := st_type self.
Definition tbl_format_version (self : state) : list Z := [2%Z; 1%Z].
Definition tbl_shape (self : state) : list Z := [Z.of_nat (st_nobs self); Z.of_nat (st_nsamp self)].
(* Table.nnz: stored zeros are eliminated in place, what is left is counted *)
Definition tbl_nnz (self : state) : M nat :=
  fun s => let r0 := eliminate_zeros (w_cs s) in ROk (length (data r0), mkW (w_file s) (w_ds s) (w_fmt s) r0).
Definition tbl_data (self : state) : M cs := fun s => ROk (w_cs s, s).
Definition order_fmt (o : str) : option fmt :=
  if lz_eqb o (lit "csr") then Some CSR else if lz_eqb o (lit "csc") then Some CSC else None.
Definition tbl_asformat (self : state) (order : str) : M unit :=
  fun s => match order_fmt order with
           | Some f => ROk (tt, mkW (w_file s) (w_ds s) f (asformat (w_fmt s) f (w_cs s)))
           | None => RErr E_UNMODELLED
           end.
Definition axis_of (a : str) : option axis :=
  if lz_eqb a (lit "observation") then Some Obs else if lz_eqb a (lit "sample") then Some Samp else None.
Definition tbl_ids (self : state) (a : str) : M (list str) :=
  match axis_of a with Some x => mret (st_ids x self) | None => mfail E_UNMODELLED end.
Definition tbl_metadata (self : state) (a : str) : M (option (list mdrow)) :=
  match axis_of a with Some x => mret (st_md x self) | None => mfail E_UNMODELLED end.
Definition tbl_group_metadata (self : state) (a : str) : M (list (str * (str * str))) :=
  match axis_of a with Some x => mret (st_gmd x self) | None => mfail E_UNMODELLED end.

(* ---------------------------------------------------------------- formatter table *)
Definition fmt_fn := str -> list mdval -> result (bytes * dset).
Record fmap := mkFm { fm_default : fmt_fn; fm_items : list (str * fmt_fn) }.
Definition fm_new (d : fmt_fn) : fmap := mkFm d [].
Definition fm_set (m : fmap) (k : str) (f : fmt_fn) : fmap := mkFm (fm_default m) ((k, f) :: fm_items m).
Definition fm_update (m : fmap) (l : list (str * fmt_fn)) : fmap :=
  fold_left (fun acc kv => fm_set acc (fst kv) (snd kv)) l m.
Fixpoint fm_find (l : list (str * fmt_fn)) (k : str) : option fmt_fn :=
  match l with [] => None | (k', f) :: t => if lz_eqb k k' then Some f else fm_find t k end.
Definition fm_get (m : fmap) (k : str) : fmt_fn :=
  match fm_find (fm_items m) k with Some f => f | None => fm_default m end.
Definition general_formatter : fmt_fn := fmt_general.
Definition vlen_list_of_str_formatter : fmt_fn := fmt_vlen_list.

(* Model/Hdf5.v format_md with the formatter looked up in a table *)
Definition format_md_with (fm : fmap) (md : option (list mdrow)) : result (list (bytes * dset)) :=
  match md with
  | None => ROk []
  | Some [] => ROk []
  | Some (r0 :: rest) =>
    if forallb (fun r => same_keys r r0) rest then
      ds <- mapM (fun k => fm_get fm k k (column (r0 :: rest) k)) (mdkeys r0) ;;
      if bdup (map fst ds) then RErr E_VALUE else ROk ds
    else RErr E_VALUE
  end.

(* ---------------------------------------------------------------- h5py *)
Definition h5_root : path := [].
Fixpoint split_go (cur l : bytes) : list bytes :=
  match l with
  | [] => [rev cur]
  | c :: t => if Z.eqb c 47 then rev cur :: split_go [] t else split_go (c :: cur) t
  end.
(* names of groups, datasets and attributes: UTF-8 (a second name for Model/Hdf5.v utf8_encode, so
   that proofs can compute names and keep payloads folded) *)
Definition enc_name (s : str) : bytes := flat_map enc_cp s.
Definition h5_path (name : str) : path := split_go [] (enc_name name).

Definition add_group (s : wst) (p : path) : wst :=
  mkW (mkH (attrs (w_file s)) (groups (w_file s) ++ [p]) (dsets (w_file s))) (w_ds s) (w_fmt s) (w_cs s).
Definition add_dsets (s : wst) (l : list (path * dset)) : wst :=
  mkW (w_file s) (l :: w_ds s) (w_fmt s) (w_cs s).
Definition add_attr (s : wst) (k : bytes) (v : aval) : wst :=
  mkW (mkH (attrs (w_file s) ++ [(k, v)]) (groups (w_file s)) (dsets (w_file s))) (w_ds s) (w_fmt s) (w_cs s).

Definition h5_create_group (g : path) (name : str) : M path :=
  fun s => let p := g ++ h5_path name in ROk (p, add_group s p).
(* attributes of the root group only (the model tree has no others on groups) *)
Definition h5_set_attr (g : path) (k : str) (v : aval) : M unit :=
  fun s => match g with [] => ROk (tt, add_attr s (enc_name k) v) | _ => RErr E_UNMODELLED end.

Inductive pay := PNum (l : list Z) | PStr (l : list bytes).
(* dtype None: numpy's default for an empty list, float64 *)
Definition h5_create_dataset (g : path) (name : str) (shape : list nat) (k : option dkind) (p : pay)
           (compression : option str) : M nat :=
  fun s => let d := match p with
                    | PNum l => mkD (opt_default k KF64) shape l [] []
                    | PStr l => mkD (opt_default k KVStr) shape [] l []
                    end in
           ROk (length (concat (w_ds s)), add_dsets s [(g ++ h5_path name, d)]).

(* the two blocks of the axis loop that are pinned by AST hash, not translated: metadata categories
   (consistency check, formatter calls) and group metadata *)
Definition h5_md_block (grp : path) (ids : list str) (md : option (list mdrow)) (formatter : fmap)
           (compression : option str) : M unit :=
  fun s => match format_md_with formatter md with
           | ROk ds => ROk (tt, add_dsets s (under (grp ++ [b_metadata]) ds))
           | RErr e => RErr e
           end.
Definition h5_gmd_block (grp : path) (group_md : list (str * (str * str))) (compression : option str) : M unit :=
  fun s => match format_gmd group_md with
           | ROk ds => ROk (tt, add_dsets s (under (grp ++ [b_group_metadata]) ds))
           | RErr e => RErr e
           end.
