(* Hand-written vocabulary of the translator tools/py2v_part for Table.partition (NOT generated).
   Gen/PartitionGen.v is regenerated from biom/table.py over the names below; each stands for one
   Python / numpy / scipy operation of the source, with the meaning the hand-written model
   Model/Partition.v gives it.  Together with the translator and tools/py2v_part/sigs/partition.json
   these definitions are the trusted part.

   Labels are the model's integer codes of the dictionary key a label becomes (equal codes = equal
   keys, NONE_LABEL = None): every code stands for a hashable key, so the tuple() conversion of an
   unhashable label (done by the harness before coding) is outside the model here: label_tuple
   gives a code no label has.  The labelling function is an oracle: a list of results by position
   (user function) or a lookup by id (dict forms). *)
From Coq Require Import List Arith ZArith Bool.
From BiomV Require Export Base.Tree Base.ListUtil Base.Matrix.
From BiomV Require Export Model.Table Model.Orient Model.Filter Model.Partition.
Import ListNotations.

Definition rbind {A B} (r : result A) (f : A -> result B) : result B :=
  match r with ROk a => f a | RErr c => RErr c end.
Notation "x <- e ;; f" := (rbind e (fun x => f)) (at level 61, e at next level, right associativity).

(* ---- the labelling function part_f *)
Inductive pfun := PFList (labels : list Z) | PFMap (m : list (Z * Z)).
(* the first statement of partition (pinned by AST hash): a dict f becomes mapping.get, a mapping
   group -> ids is inverted first, a dict of anything else is a ValueError, an empty one an IndexError *)
Definition partition_label_fn (f : labelling) : result pfun :=
  match f with
  | LFun labels => ROk (PFList labels)
  | LIdMap m => ROk (PFMap m)
  | LGrpMap m => ROk (PFMap (rev (grp_pairs m)))
  | LBadMap => RErr E_VALUE
  | LEmptyMap => RErr E_OTHER
  end.
(* part_f(id_, md) for the vector at position idx *)
Definition part_f_call (pf : pfun) (idx : nat) (id_ : Z) (md : Tree) : Z :=
  match pf with PFList labels => nth idx labels NONE_LABEL | PFMap m => assoc m id_ end.
Definition label_is_none (l : Z) : bool := Z.eqb l NONE_LABEL.          (* part is None *)
Definition label_hashable (l : Z) : bool := true.                       (* isinstance(part, Hashable) *)
Definition LABEL_UNMODELLED : Z := (-1)%Z.
Definition label_tuple (l : Z) : Z := LABEL_UNMODELLED.                 (* tuple(part) *)

(* ---- the dictionary partitions: label -> [[ids], [vectors], [metadata]], in insertion order *)
Definition bucket := (list Z * list (list Z) * list Tree)%type.
Definition pdict := list (Z * bucket).
Definition pd_empty : pdict := [].                                       (* {} *)
Definition bucket_empty : bucket := ([], [], []).                        (* [[], [], []] *)
Definition pd_mem (d : pdict) (k : Z) : bool := existsb (fun e => Z.eqb k (fst e)) d.    (* k in d *)
Fixpoint pd_set (d : pdict) (k : Z) (b : bucket) : pdict :=              (* d[k] = b *)
  match d with
  | [] => [(k, b)]
  | (k', b') :: r => if Z.eqb k k' then (k', b) :: r else (k', b') :: pd_set r k b
  end.
(* d[k][slot].append(x); a missing key is a KeyError in the source: the dictionary is left as it is
   (the generated code only appends under a key it has just ensured) *)
Fixpoint pd_upd (d : pdict) (k : Z) (g : bucket -> bucket) : pdict :=
  match d with
  | [] => []
  | (k', b') :: r => if Z.eqb k k' then (k', g b') :: r else (k', b') :: pd_upd r k g
  end.
Definition pd_append_ids (d : pdict) (k : Z) (x : Z) : pdict :=
  pd_upd d k (fun b => (fst (fst b) ++ [x], snd (fst b), snd b)).
Definition pd_append_vals (d : pdict) (k : Z) (x : list Z) : pdict :=
  pd_upd d k (fun b => (fst (fst b), snd (fst b) ++ [x], snd b)).
Definition pd_append_md (d : pdict) (k : Z) (x : Tree) : pdict :=
  pd_upd d k (fun b => (fst (fst b), snd (fst b), snd b ++ [x])).
Definition pd_items (d : pdict) : list (Z * bucket) := d.                (* .items() *)

(* ---- the table object (content level, Model/Table.v) *)
Definition axis_is_sample (a : axis) : bool := match a with Samp => true | Obs => false end.
(* .iter(dense=False, axis=a): (values, id, metadata) of every vector of the axis, in order *)
Definition tb_iter_sparse (t : table) (a : axis) : list (Z * list Z * Tree) := vrecs (orient a t).
Definition tb_metadata (t : table) (a : axis) : option (list Tree) := mds a t.        (* .metadata(axis=a) *)
Definition tb_invert_axis (t : table) (a : axis) : axis := other a.                   (* ._invert_axis(a) *)
Definition tb_ids (t : table) (a : axis) : list Z := ids a t.                          (* .ids(axis=a) *)
Definition ids_copy (l : list Z) : list Z := l.                                        (* l[:] *)
Definition omd_copy (m : option (list Tree)) : option (list Tree) := m.                (* m[:] if m is not None else None *)
(* ._conv_to_self_type(vectors, transpose=b): the vectors stacked as rows; transposed they become
   the columns of a matrix with one row per observation of self *)
Definition tb_conv_to_self_type (t : table) (vs : list (list Z)) (tr : bool) : matrix :=
  if tr then transpose (nobs t) vs else vs.
Definition tb_table_id (t : table) : unit := tt.                                       (* not part of the content *)
Definition tb_type (t : table) : Z := ttype t.
(* the index keyword handed to the constructor; the content-level model derives the lookups from the ids *)
Inductive index_kw := IdxObs (l : list Z) | IdxSamp (l : list Z).
Definition idx_observation (t : table) : index_kw := IdxObs (oids t).
Definition idx_sample (t : table) : index_kw := IdxSamp (sids t).
(* Table(data, obs_ids, samp_ids, obs_md, samp_md, table_id, type=ty, validate=False, **index) *)
Definition tb_ctor (data : matrix) (obs_ids samp_ids : list Z) (obs_md samp_md : option (list Tree))
           (tid : unit) (ty : Z) (ix : index_kw) : table :=
  mkT obs_ids samp_ids data (ctor_md obs_md) (ctor_md samp_md) ty.
Definition tb_remove_empty_inplace (t : table) : table := remove_empty_whole t.       (* .remove_empty(inplace=True) *)
