(* HAND-WRITTEN (not generated): the small vocabulary the generated files in this directory are
   written over, i.e. what tools/py2v's signature files map Python values and library calls to.
   Nothing here transcribes source code. *)
From Coq Require Import List String Bool Arith ZArith.
From BiomV Require Import Base.ListUtil.
Import ListNotations.

(* a Python dict with integer keys (ids are integers in the models), insertion-ordered *)
Definition zdict (V : Type) := list (Z * V).
Fixpoint zdget {V} (d : zdict V) (k : Z) : option V :=
  match d with [] => None | (k', v) :: t => if Z.eqb k k' then Some v else zdget t k end.
Definition zdmem {V} (d : zdict V) (k : Z) : bool :=
  match zdget d k with Some _ => true | None => false end.
Fixpoint zdset {V} (d : zdict V) (k : Z) (v : V) : zdict V :=
  match d with
  | [] => [(k, v)]
  | (k', v') :: t => if Z.eqb k k' then (k, v) :: t else (k', v') :: zdset t k v
  end.

(* truth value of a sequence, negated: `not l` *)
Definition lnull {A} (l : list A) : bool := match l with [] => true | _ :: _ => false end.

(* set(ids): the distinct elements *)
Fixpoint distinct (l : list Z) : list Z :=
  match l with [] => [] | x :: t => if zmem x t then distinct t else x :: distinct t end.

(* exceptions of table.py's small helpers; a state-free exception monad *)
Inductive exn := UnknownAxisError (axis : string) | ValueError | TableException (msg : string).
Inductive res (A : Type) := Ok (a : A) | Raise (e : exn).
Arguments Ok {A}. Arguments Raise {A}.

(* `counts / counts.sum()`: the probability vector handed to rng.multinomial, kept symbolic as
   (counts, total); numpy refuses it (ValueError) when the total is 0 (NaN entries) -- an empty
   vector has total 0 *)
Definition pvals := (list Z * Z)%type.
Definition pvals_of (counts : list Z) (total : Z) : pvals := (counts, total).
Definition pvals_ok (p : pvals) : bool := negb (Z.eqb (snd p) 0).
