(* Hand-written vocabulary of the translator tools/py2v_eq (NOT generated).
   The decision logic of Table.__eq__ / __ne__ / descriptive_equality / _data_equality is
   regenerated from biom/table.py into Gen/EqualityGen.v over the names below.  Each name stands
   for one numpy / scipy / attribute operation of the source and is given the meaning the
   hand-written model Model/Equality.v already gives it; together with the translator and its
   signature file tools/py2v_eq/sigs/equality.json these definitions are the trusted part.

   Python objects:
     a Table object            = state (content + sparse representation + dtype), mutable field _data
     a scipy matrix object     = spm   (representation + dtype), mutated in place by count_nonzero
     any other Python object   = PForeign (has none of the Table attributes, is not an instance
                                 of the receiver's class)
   A generated method returns  result (value * receiver afterwards * argument afterwards). *)
From Coq Require Import List Arith ZArith Bool.
From BiomV Require Import Base.Tree Base.ListUtil Base.Matrix Model.Table Model.Sparse.
From BiomV Require Export Model.Equality.
Import ListNotations.

Definition rbind {A B} (r : result A) (f : A -> result B) : result B :=
  match r with ROk a => f a | RErr c => RErr c end.
Notation "x <- e ;; f" := (rbind e (fun x => f)) (at level 61, e at next level, right associativity).

Definition E_ATTR : Z := 7%Z.    (* AttributeError *)

Inductive pyval := PTable (s : state) | PForeign.

(* isinstance(v, self.__class__) with self a Table: Some = the object seen as a table *)
Definition py_isinstance_table (v : pyval) : option state :=
  match v with PTable s => Some s | PForeign => None end.
(* first attribute access v.type / v.ids / v.metadata / v._data on an unchecked object *)
Definition py_as_table (v : pyval) : result state :=
  match v with PTable s => ROk s | PForeign => RErr E_ATTR end.

(* ---- attributes and accessors of a Table object *)
Definition tb_type (s : state) : Z := ttype (cont s).                      (* .type *)
Definition tb_ids_obs (s : state) : list Z := oids (cont s).               (* .ids(axis='observation') *)
Definition tb_ids_samp (s : state) : list Z := sids (cont s).              (* .ids() *)
Definition tb_md_obs (s : state) : option (list Tree) := omd (cont s).     (* .metadata(axis='observation') *)
Definition tb_md_samp (s : state) : option (list Tree) := smd (cont s).    (* .metadata() *)

(* ---- the matrix object held in _data *)
Record spm := mkM { mrep : repr; mdt : Z }.
Definition tb_data (s : state) : spm := mkM (rep s) (dtype s).             (* ._data *)
Definition tb_set_data (s : state) (m : spm) : state := mkS (cont s) (mrep m) (mdt m).   (* ._data = m *)

(* ---- comparisons *)
Definition type_eqb : Z -> Z -> bool := Z.eqb.                              (* == on .type *)
Definition np_array_equal_ids : list Z -> list Z -> bool := list_eqb Z.eqb. (* np.array_equal on two id arrays *)
Definition np_array_equal_md : option (list Tree) -> option (list Tree) -> bool := md_eqb.  (* ... on two metadata tuples / None *)
Definition md_is_none (m : option (list Tree)) : bool := match m with None => true | Some _ => false end.

(* ---- scipy *)
Definition sp_shape (m : spm) : nat * nat := (rep_rows (mrep m), rep_cols (mrep m)).     (* .shape *)
Definition shape_eqb (a b : nat * nat) : bool := Nat.eqb (fst a) (fst b) && Nat.eqb (snd a) (snd b).
Definition sp_dtype (m : spm) : Z := mdt m.                                              (* .dtype *)
Definition dtype_eqb : Z -> Z -> bool := Z.eqb.
Definition sp_nnz (m : spm) : nat := r_nnz (mrep m).                                   (* .nnz: the stored-entry count *)
(* .count_nonzero(): sum_duplicates() IN PLACE (sort_indices), then the count of non-zero stored
   values; returns the count and the object afterwards *)
Definition sp_count_nonzero (m : spm) : nat * spm :=
  let r := r_sort (mrep m) in (r_count_nonzero r, mkM r (mdt m)).
Definition sp_tocsr (m : spm) : spm := mkM (r_tocsr (mrep m)) (mdt m).                   (* .tocsr(): no in-place effect *)
(* (a != b).nnz > 0 on two matrices of one shape: some cell differs *)
Definition sp_differ (a b : spm) : bool := negb (mat_eqb (rep_matrix (mrep a)) (rep_matrix (mrep b))).

(* ---- the answers of descriptive_equality as codes (Model/Equality.v, head_code / desc_impl) *)
Definition MSG_EQUAL : Z := 0%Z.
Definition MSG_TYPE : Z := 1%Z.
Definition MSG_OBS_IDS : Z := 2%Z.
Definition MSG_SAMP_IDS : Z := 3%Z.
Definition MSG_OBS_MD : Z := 4%Z.
Definition MSG_SAMP_MD : Z := 5%Z.
Definition MSG_DATA : Z := 6%Z.
Definition MSG_CLASS : Z := 7%Z.
