(* HAND-WRITTEN (not generated): the vocabulary the TSV-mode translator tools/py2v_tsv
   (sigs/tsv.json -> Gen/TsvGen.v) is written over.  Nothing here transcribes source code: these are
   the meanings given to Python's own operations on str / list / dict values and to the Table
   accessors the translated method calls (pinned by AST hash in the signature file).  A str is
   `text` = list of code points; an operation that can raise returns a `result`. *)
From Coq Require Import List Arith ZArith Bool.
From BiomV Require Import Base.Tree Base.ListUtil Base.Matrix Model.Table Model.Tsv.
Import ListNotations.
Open Scope Z_scope.

Definition rbind {A B} (r : result A) (f : A -> result B) : result B :=
  match r with ROk a => f a | RErr e => RErr e end.

(* d.join(pieces) for a str d *)
Definition str_join (d : text) (ps : list text) : text :=
  match ps with [] => [] | p :: r => p ++ flat_map (fun q => d ++ q) r end.

(* identifiers are str: isinstance(i, bytes) is False, str(i) is i *)
Definition py_isbytes (i : text) : bool := false.
Definition bytes_decode (i : text) : text := i.
Definition str_of_str (i : text) : text := i.
(* an Optional[str] inside an f-string *)
Definition str_of_opt (o : option text) : text :=
  match o with Some t => t | None => [78;111;110;101] end.
Definition opt_is_none {A} (o : option A) : bool := match o with None => true | Some _ => false end.
(* truth value of an Optional[str] *)
Definition opt_true (o : option text) : bool := match o with Some (_ :: _) => true | _ => false end.

(* Table accessors: is_empty(), ids(), ids(axis='observation'), metadata(axis='observation'),
   _iter_obs(), _to_dense(row) *)
Definition table_is_empty (c : ttab) : bool :=
  match x_sids c with [] => true | _ :: _ => match x_oids c with [] => true | _ :: _ => false end end.
Definition ids_samp (c : ttab) : list text := x_sids c.
Definition ids_obs (c : ttab) : list text := x_oids c.
Definition metadata_obs (c : ttab) : option (list mdentry) := x_omd c.
Definition iter_obs (c : ttab) : list (list Z) := x_mat c.
Definition to_dense (c : ttab) (v : list Z) : list Z := v.

(* self._obs_index[id]: the position of the identifier, KeyError when absent *)
Fixpoint index_from (n : nat) (id : text) (l : list text) : result nat :=
  match l with
  | [] => RErr E_KEY
  | x :: r => if text_eqb id x then ROk n else index_from (S n) id r
  end.
Definition obs_index (c : ttab) (id : text) : result nat := index_from 0%nat id (x_oids c).

(* l[n] on the optional metadata tuple: TypeError on None, IndexError outside *)
Definition omd_at (o : option (list mdentry)) (n : nat) : result mdentry :=
  match o with
  | None => RErr E_TYPE
  | Some l => match nth_error l n with Some e => ROk e | None => RErr E_OTHER end
  end.
(* md.get(key, None) *)
Definition md_lookup (e : mdentry) (k : option text) : Tree :=
  match k with Some k' => md_get k' e | None => tNone end.

(* ---- the reader (Table._extract_data_from_tsv, target tsvread) ---- *)
(* truth value of a str; of the header variable (False or a list) *)
Definition text_true (t : text) : bool := match t with [] => false | _ :: _ => true end.
Definition hdr_true (h : option (list text)) : bool := match h with Some (_ :: _) => true | _ => false end.
(* s.split(d): only one-character separators are given a meaning (the library passes a tab) *)
Definition str_split (s d : text) : list text := match d with [c] => split_on c s | _ => [s] end.

(* ---- second region of the reader (target tsvread2) ---- *)
(* [f(x) for x in l] when f can raise: the first failure is the result *)
Fixpoint rmap {A B} (f : A -> result B) (l : list A) : result (list B) :=
  match l with
  | [] => ROk []
  | x :: t => rbind (f x) (fun y => rbind (rmap f t) (fun r => ROk (y :: r)))
  end.
(* l[n:] *)
Definition list_from {A} (l : list A) (n : nat) : list A := skipn n l.
(* s.rsplit(d, 1): cut at the last separator only; a string without separator stays whole *)
Definition str_rsplit1 (s d : text) : list text :=
  match d with
  | [c] => let ps := split_on c s in
           match ps with
           | _ :: _ :: _ => [join c (removelast ps); last ps []]
           | _ => ps
           end
  | _ => [s]
  end.
(* l[-1]: IndexError on the empty list *)
Definition list_last (l : list text) : result text :=
  match l with [] => RErr E_OTHER | _ :: _ => ROk (last l []) end.
(* header[:], header[-1], header[:-1] on the header variable: TypeError while it is still False *)
Definition hdr_copy (h : option (list text)) : result (list text) :=
  match h with None => RErr E_TYPE | Some l => ROk l end.
Definition hdr_last (h : option (list text)) : result text :=
  match h with None => RErr E_TYPE | Some l => list_last l end.
Definition hdr_init (h : option (list text)) : result (list text) :=
  match h with None => RErr E_TYPE | Some l => ROk (removelast l) end.
