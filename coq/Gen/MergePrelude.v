(* Hand-written vocabulary of the translator tools/py2v_merge for Table.merge (NOT generated).
   Gen/MergeGen.v is regenerated from biom/table.py over the names below; each stands for one
   Python / numpy / scipy / table operation of the source, with the meaning the hand-written model
   Model/Merge.v gives it.  Together with the translator and tools/py2v_merge/sigs/merge.json
   these definitions are the trusted part. *)
From Coq Require Import List Arith ZArith Bool.
From BiomV Require Export Base.Tree Base.ListUtil Base.Matrix.
From BiomV Require Export Model.Table Model.Orient Model.Merge.
From BiomV Require Export Gen.Prelude Gen.HelpersGen.
Import ListNotations.

Definition rbind {A B} (r : result A) (f : A -> result B) : result B :=
  match r with ROk a => f a | RErr c => RErr c end.

(* ---- the argument `other` of merge: one table or a list / set / tuple of tables.
   (a set is iterated in an order the model does not know: the harness passes lists and tuples) *)
Inductive marg := ATable (t : table) | AList (l : list table).
Definition arg_is_seq (a : marg) : bool := match a with AList _ => true | ATable _ => false end.
Definition arg_list (a : marg) : list table := match a with AList l => l | ATable t => [t] end.
(* `other` used as one table; only met where arg_is_seq is false (the other case is a list put in
   a list, which the model has no value for) *)
Definition no_table : table := mkT [] [] [] None None NOTYPE.
Definition arg_table (a : marg) : table := match a with ATable t => t | AList l => hd no_table l end.

(* the axis arguments are python strings; the model keeps 'union' / 'intersection' / anything else *)
Definition mode_eqb (a b : mode) : bool :=
  match a, b with Union, Union | Inter, Inter | BadMode, BadMode => true | _, _ => false end.

(* l[0]: IndexError on the empty list *)
Definition list_item {A} (l : list A) (n : nat) : result A :=
  match nth_error l n with Some x => ROk x | None => RErr E_OTHER end.

(* t.metadata(axis=ax): the metadata of the axis or None *)
Definition tb_metadata (t : table) (ax : axis) : option (list Tree) :=
  match ax with Samp => smd t | Obs => omd t end.

(* self.copy(): same content *)
Definition tb_copy (t : table) : table := t.
(* self._fast_merge(others) (pinned by AST hash): Merge.fast_merge of [self] + others *)
Definition tb_fast_merge (self : table) (others : list table) : table := fast_merge (self :: others).

(* ---- the general path ---- *)
(* self._union_id_order(a, b) / self._intersect_id_order(a, b): the definitions tools/py2v
   regenerates from the same file (Gen/HelpersGen.v, DESIGN 3.1 row T5); the receiver is not used *)
Definition tb_union_id_order (self : table) (a b : list Z) : zdict nat := union_id_order a b.
Definition tb_intersect_id_order (self : table) (a b : list Z) : zdict nat := intersect_id_order a b.

(* sorted(d.items(), key=itemgetter(1)): stable sort of the (id, index) pairs by index *)
Fixpoint ins_by_value (p : Z * nat) (l : list (Z * nat)) : list (Z * nat) :=
  match l with
  | [] => [p]
  | q :: r => if Nat.leb (snd p) (snd q) then p :: l else q :: ins_by_value p r
  end.
Definition items_by_value (d : zdict nat) : zdict nat := fold_right ins_by_value [] d.
Definition is_empty {A} (l : list A) : bool := match l with [] => true | _ => false end.

(* t._obs_index / t._sample_index: the dictionary id -> position; the model keeps the id list and
   looks positions up in it (Table.pos) *)
Definition tb_obs_index (t : table) : list Z := oids t.
Definition tb_sample_index (t : table) : list Z := sids t.
(* t.exists(id, axis) *)
Definition tb_exists (t : table) (id : Z) (ax : axis) : bool := zmem id (ids ax t).
(* md[index[id]] behind the guard "md is not None and the id exists" (no KeyError there): the
   stored entry, as Table.md_of reads it *)
Definition md_subscript (md : option (list Tree)) (index : list Z) (id : Z) : option Tree :=
  match md, pos id index with Some l, Some i => nth_error l i | _, _ => None end.
(* f(x, y) for a metadata function; calling None is a TypeError *)
Definition mdf_call (f : option mdf) (x y : option Tree) : result (option Tree) :=
  match f with Some g => ROk (g x y) | None => RErr E_TYPE end.

(* pinned region (AST hash): vec_length and the loop over the new observation order that fills
   vals, with the meaning Model/Merge.v gives it (merged_row).  The (id, index) pairs are numbered
   0, 1, 2, ... in list order (proved for the pairs the translated code hands over), so "place at
   index" is "place at position".  The pre-computed sample orders and the placeholder list of the
   other pinned region are consumed only here. *)
Definition merge_vectors (self other : table) (sord oord : zdict nat) : list (list Z) :=
  map (merged_row self other (map fst sord)) (map fst oord).
(* self.__class__(self._conv_to_self_type(vals), obs_ids[:], sample_ids[:], obs_md, sample_md):
   the plain constructor (Orient.ctor_md on the metadata lists, None entries included), no type *)
Definition tb_construct (vals : list (list Z)) (obs_ids sample_ids : list Z)
                        (obs_md sample_md : list (option Tree)) : table :=
  mkT obs_ids sample_ids vals (ctor_md (Some (map entry_of obs_md))) (ctor_md (Some (map entry_of sample_md))) NOTYPE.
