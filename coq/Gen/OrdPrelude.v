(* Hand-written vocabulary of the translator tools/py2v_ord (NOT generated).
   Gen/ReorderGen.v is regenerated from biom/table.py (Table.sort_order, sort, copy, transpose,
   align_to) over the names below; each stands for one Python / numpy / scipy operation of the
   source with the meaning the hand-written model Model/Reorder.v gives it.  Together with the
   translator and tools/py2v_ord/sigs/reorder.json these definitions are the trusted part.

   An axis argument is a Python string: the model's [amode] has one value per string the source
   compares against and [AUnknown] for every other string.  The matrix travels with its shape
   (a table without observations still knows how many samples it has). *)
From Coq Require Import List Arith ZArith Bool.
From BiomV Require Import Base.Tree Base.ListUtil Base.Matrix.
From BiomV Require Export Model.Table Model.Orient Model.Reorder.
Import ListNotations.

Notation "x <- e ;; f" := (rbind e (fun x => f)) (at level 61, e at next level, right associativity).

(* ---- strings used as axis names: s == 'literal' *)
Definition ax_eqb (a b : amode) : bool :=
  match a, b with
  | ASample, ASample | AObservation, AObservation | ABoth, ABoth | ADetect, ADetect => true
  | _, _ => false
  end.
Definition axis_of (a : amode) : option axis :=
  match a with ASample => Some Samp | AObservation => Some Obs | _ => None end.

(* ---- generic Python: x[:], x.copy(), deepcopy(x) give an equal value; l.append(x); x is not None *)
Definition py_slice_all {A} (x : A) : A := x.
Definition py_copy {A} (x : A) : A := x.
Definition py_deepcopy {A} (x : A) : A := x.
Definition py_append {A} (l : list A) (x : A) : list A := l ++ [x].
Definition py_is_not_none {A} (x : option A) : bool := match x with Some _ => true | None => false end.

Fixpoint mapM {A B} (f : A -> result B) (l : list A) : result (list B) :=
  match l with
  | [] => ROk []
  | x :: r => y <- f x ;; ys <- mapM f r ;; ROk (y :: ys)
  end.
Fixpoint foldM {A S} (f : S -> A -> result S) (l : list A) (s : S) : result S :=
  match l with
  | [] => ROk s
  | x :: r => s' <- f s x ;; foldM f r s'
  end.

(* ---- sets of ids: set(ids), s1 == s2 *)
Definition py_set (l : list Z) : list Z := l.
Definition set_eqb (a b : list Z) : bool := same_set a b.

(* ---- numpy: np.array(list, dtype=int); np.array(metadata)[fancy] *)
Definition pymd := option (list Tree).
Definition np_int_array (l : list nat) : list nat := l.
Definition np_array (md : pymd) : pymd := md.
Definition np_take (md : pymd) (fancy : list nat) : pymd := take_md fancy md.

(* ---- the sparse matrix with its shape: m[:, fancy], m[fancy, :], .transpose(copy=True), .copy(),
        .getformat(), .tocsr() (the content-level model has no storage format: the format is a
        parameter of the generated section, any function) *)
Definition spmat := (nat * matrix)%type.
Inductive spfmt := F_CSR | F_CSC | F_LIL | F_OTHER.
Definition fmt_eqb (a b : spfmt) : bool :=
  match a, b with F_CSR, F_CSR | F_CSC, F_CSC | F_LIL, F_LIL => true | _, _ => false end.
Definition mx_take_cols (d : spmat) (fancy : list nat) : spmat := (length fancy, perm_cols fancy (snd d)).
Definition mx_take_rows (d : spmat) (fancy : list nat) : spmat := (fst d, perm_rows fancy (snd d)).
Definition sp_transpose (d : spmat) : spmat := (length (snd d), transpose (fst d) (snd d)).
Definition sp_tocsr (d : spmat) : spmat := d.

(* ---- the table object (content level, Model/Table.v) *)
Definition md_of (a : axis) (t : table) : pymd := match a with Obs => omd t | Samp => smd t end.
(* .index(id, axis): UnknownAxisError for an unknown axis, UnknownIDError for an unknown id *)
Definition tb_index (t : table) (i : Z) (a : amode) : result nat :=
  match axis_of a with
  | None => RErr E_UNKNOWN
  | Some ax => match pos i (ids ax t) with Some k => ROk k | None => RErr E_UNKNOWN end
  end.
Definition tb_ids (t : table) (a : amode) : result (list Z) :=
  match axis_of a with Some ax => ROk (ids ax t) | None => RErr E_UNKNOWN end.
Definition tb_metadata (t : table) (a : amode) : result pymd :=
  match axis_of a with Some ax => ROk (md_of ax t) | None => RErr E_UNKNOWN end.
Definition tb_matrix_data (t : table) : spmat := (nsamp t, mat t).     (* .matrix_data / ._data *)
Definition tb_set_data (t : table) (d : spmat) : table :=               (* ._data = d *)
  mkT (oids t) (sids t) (snd d) (omd t) (smd t) (ttype t).
Definition tb_table_id (t : table) : unit := tt.                         (* .table_id: not modelled *)
Definition tb_type (t : table) : Z := ttype t.                           (* .type *)
(* self.__class__(data, observation_ids, sample_ids, observation_metadata, sample_metadata, table_id, type):
   the constructor normalises both metadata lists (Model/Orient.v ctor_md) and runs errcheck
   (Model/Reorder.v errcheck) *)
Definition tb_new (d : spmat) (o s : list Z) (om sm : pymd) (_ : unit) (ty : Z) : result table :=
  errcheck (mkT o s (snd d) (ctor_md om) (ctor_md sm) ty).
Definition PY_NONE_TYPE : Z := NOTYPE.                                   (* type=None *)
