(* HAND-WRITTEN (not generated): the vocabulary the string-mode target of tools/py2v
   (tools/py2v/strmode.py, sigs/slicer.json -> Gen/SlicerGen.v) is written over.  Nothing here
   transcribes source code: these are the meanings given to Python's own operations on str / list /
   int values.  A str is `text` = list of code points, a str of length one obtained by indexing is
   its code point (`Z`), an int is a `Z`; an operation that can raise returns an `outcome`. *)
From Coq Require Import List Arith ZArith Bool.
From BiomV Require Import Base.ListUtil Model.Table Model.Slicer.
Import ListNotations.
Open Scope Z_scope.

Inductive pyexn := IndexError | ValueError | KeyError.
(* OutOfFuel: a `while` ran longer than the fuel of the signature file allows (the bridge theorems
   prove it cannot happen) *)
Inductive outcome (A : Type) := Val (a : A) | Exn (e : pyexn) | OutOfFuel.
Arguments Val {A}. Arguments Exn {A}. Arguments OutOfFuel {A}.
Definition obind {A B} (o : outcome A) (f : A -> outcome B) : outcome B :=
  match o with Val a => f a | Exn e => Exn e | OutOfFuel => OutOfFuel end.

Definition lempty {A} (l : list A) : bool := match l with [] => true | _ :: _ => false end.
Definition str_len {A} (s : list A) : Z := Z.of_nat (length s).

(* s[i] / l[i]: a negative index counts from the end, outside -len .. len-1 raises IndexError *)
Definition seq_at {A} (l : list A) (i : Z) : outcome A :=
  let n := str_len l in
  let j := if i <? 0 then i + n else i in
  if (j <? 0) || (n <=? j) then Exn IndexError
  else match nth_error l (Z.to_nat j) with Some x => Val x | None => Exn IndexError end.

(* s.find(p): -1 when absent *)
Definition str_find (p s : text) : Z := match find_sub p s with Some i => Z.of_nat i | None => -1 end.

(* s[a:b]: negative bounds count from the end, both are clamped to 0 .. len *)
Definition norm_idx (n i : Z) : Z := if i <? 0 then Z.max 0 (i + n) else Z.min i n.
Definition str_slice {A} (s : list A) (a b : Z) : list A :=
  let n := str_len s in
  let a' := norm_idx n a in
  let b' := norm_idx n b in
  firstn (Z.to_nat (b' - a')) (skipn (Z.to_nat a') s).

(* c in {..} / c in [..] for one-character strings *)
Definition char_in (c : Z) (l : list Z) : bool := existsb (Z.eqb c) l.

(* l.pop(): IndexError on an empty list; l.append(x) is l ++ [x]; l[-1] is seq_at l (-1) *)
Definition list_pop {A} (l : list A) : outcome (list A) :=
  match l with [] => Exn IndexError | _ :: _ => Val (removelast l) end.

(* s.strip(chars) *)
Definition str_strip (chars : list Z) (s : text) : text := strip (fun c => char_in c chars) s.

(* d[k] / k in d on the str -> int dictionary of the slicers *)
Definition lookup_at (d : lookup) (k : text) : outcome nat :=
  match lookup_get k d with Some v => Val v | None => Exn KeyError end.
Definition lookup_mem (k : text) (d : lookup) : bool :=
  match lookup_get k d with Some _ => true | None => false end.

(* what a result of the hand-written models is as an outcome (E_* of Model/Table.v) *)
Definition out_res {A} (o : outcome A) : option (result A) :=
  match o with
  | Val a => Some (ROk a)
  | Exn IndexError => Some (RErr E_OTHER)
  | Exn ValueError => Some (RErr E_VALUE)
  | Exn KeyError => Some (RErr E_KEY)
  | OutOfFuel => None
  end.

(* x in ["..", ".."] for strs; s.replace(c, "") for a one-character c *)
Definition str_in (x : text) (l : list text) : bool := existsb (teqb x) l.
Definition str_remove (c : Z) (s : text) : text := filter (fun x => negb (x =? c)) s.

(* list(map(int, l)): the first piece int() refuses raises ValueError *)
Fixpoint str_ints (l : list text) : outcome (list Z) :=
  match l with
  | [] => Val []
  | x :: t => match py_int x with
              | None => Exn ValueError
              | Some z => obind (str_ints t) (fun r => Val (z :: r))
              end
  end.

(* min(l) / max(l) of a list or set of non-negative ints: ValueError when empty *)
Definition list_max (l : list nat) : outcome nat :=
  match l with [] => Exn ValueError | _ :: _ => Val (fold_right Nat.max 0%nat l) end.
Definition list_min (l : list nat) : outcome nat :=
  match l with [] => Exn ValueError | x :: t => Val (fold_right Nat.min x t) end.
