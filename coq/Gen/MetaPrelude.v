(* HAND-WRITTEN (not generated): the vocabulary of the state mode of tools/py2v_dyn
   (tools/py2v_dyn/statemode.py, signature file sigs/metadata.json), over the types of
   Model/Metadata.v.  The receiver of Table.add_metadata / Table.del_metadata is passed in and
   returned explicitly as a tstate: the two id lists and the two metadata fields AS THE CODE
   STORES THEM (None, or a tuple whose entries are None or dicts - add_metadata stores such a raw
   tuple before it calls _cast_metadata).  An axis is the Python string; a Python exception is
   RErr code.  The tb_* definitions are the trusted meaning of self.metadata / self.ids /
   self.exists / self.index (all four pinned by the hash of their AST in the signature file) and of
   the in-place operations on the dict objects the metadata tuple holds. *)
From Coq Require Import String.
From Coq Require Import List Arith ZArith Lia Bool.
From BiomV Require Import Base.Tree Base.ListUtil Base.Matrix Base.TreeStr.
From BiomV Require Export Model.Table Model.Tsv Model.Json Model.Metadata.
Import ListNotations.
Open Scope Z_scope.

Notation entry := (option assoc) (only parsing).            (* None or a dict *)
Notation mdraw := (option (list (option assoc))) (only parsing).     (* None or a tuple of entries *)
Record tstate := mkS { s_oids : list text; s_sids : list text; s_omd : mdraw; s_smd : mdraw }.

Definition txt (s : string) : text := codes_of_string s.

(* axis strings: 'sample' / 'observation'; anything else is UnknownAxisError *)
Definition ax_of (a : text) : result axis :=
  if text_eqb a (txt "sample") then ROk Samp
  else if text_eqb a (txt "observation") then ROk Obs else RErr E_UNKNOWN.
Definition s_ids (a : axis) (st : tstate) : list text := match a with Obs => s_oids st | Samp => s_sids st end.
Definition s_md (a : axis) (st : tstate) : mdraw := match a with Obs => s_omd st | Samp => s_smd st end.
Definition set_omd (st : tstate) (v : mdraw) : tstate := mkS (s_oids st) (s_sids st) v (s_smd st).
Definition set_smd (st : tstate) (v : mdraw) : tstate := mkS (s_oids st) (s_sids st) (s_omd st) v.
Definition set_md (a : axis) (st : tstate) (v : mdraw) : tstate :=
  match a with Obs => set_omd st v | Samp => set_smd st v end.

(* self.metadata(axis=a) without an id: the field itself (table.py Table.metadata) *)
Definition tb_metadata (st : tstate) (a : text) : result mdraw := x <- ax_of a ;; ROk (s_md x st).
(* self.ids(axis=a) *)
Definition tb_ids (st : tstate) (a : text) : result (list text) := x <- ax_of a ;; ROk (s_ids x st).
(* self.exists(id, axis=a): membership in the id -> index lookup *)
Definition tb_exists (st : tstate) (id : text) (a : text) : result bool :=
  x <- ax_of a ;; ROk (match tpos id (s_ids x st) with Some _ => true | None => false end).
(* self.index(id, axis=a): UnknownIDError for an id the axis does not have.  The lookup is built
   from distinct ids (errcheck refuses duplicates), so the position is the first one. *)
Definition tb_index (st : tstate) (id : text) (a : text) : result nat :=
  x <- ax_of a ;; match tpos id (s_ids x st) with Some i => ROk i | None => RErr E_UNKNOWN end.

(* metadata[idx] for the tuple object the axis holds: None is not subscriptable (TypeError), a
   position outside the tuple is IndexError *)
Definition tb_entry (st : tstate) (a : text) (i : nat) : result entry :=
  x <- ax_of a ;;
  match s_md x st with
  | None => RErr E_TYPE
  | Some l => match nth_error l i with Some e => ROk e | None => RErr E_OTHER end
  end.
Definition tb_entry_put (st : tstate) (a : text) (i : nat) (d : assoc) : result tstate :=
  x <- ax_of a ;;
  match s_md x st with
  | None => RErr E_TYPE
  | Some l => ROk (set_md x st (Some (upd l i (Some d))))
  end.
(* metadata[idx].update(e): the dict object at that position is changed in place; None has no
   update (AttributeError) *)
Definition tb_entry_update (st : tstate) (a : text) (i : nat) (e : assoc) : result tstate :=
  c <- tb_entry st a i ;;
  match c with None => RErr E_OTHER | Some d => tb_entry_put st a i (aupdate d e) end.
(* k in md for the entry at that position (None is not iterable: TypeError) *)
Definition tb_entry_has (st : tstate) (a : text) (i : nat) (k : text) : result bool :=
  c <- tb_entry st a i ;;
  match c with None => RErr E_TYPE
             | Some d => ROk (match aget d k with Some _ => true | None => false end) end.
(* del md[k] for the entry at that position: KeyError when the key is absent *)
Definition tb_entry_del (st : tstate) (a : text) (i : nat) (k : text) : result tstate :=
  c <- tb_entry st a i ;;
  match c with
  | None => RErr E_TYPE
  | Some d => match aget d k with Some _ => tb_entry_put st a i (adel d k) | None => RErr E_KEY end
  end.
(* zip(self.ids(axis=a), self.metadata(axis=a)): the ids with the POSITIONS of the entries (the
   loop variable is the dict object at that position); stops at the shorter; None is not
   iterable *)
Definition tb_zip_ids_md (st : tstate) (a : text) : result (list (text * nat)) :=
  x <- ax_of a ;;
  match s_md x st with
  | None => RErr E_TYPE
  | Some l => ROk (combine (s_ids x st) (seq 0 (length l)))
  end.
(* iterating a metadata field *)
Definition py_iter_md (m : mdraw) : result (list entry) :=
  match m with None => RErr E_TYPE | Some l => ROk l end.

(* truth value of an entry: None and the empty dict are false *)
Definition entry_truthy (e : entry) : bool := match e with None => false | Some d => negb (is_nil d) end.
Definition mdraw_is_none (m : mdraw) : bool := match m with None => true | Some _ => false end.

(* a set of booleans: (holds True, holds False) *)
Definition bset := (bool * bool)%type.
Definition bset_of (l : list bool) : bset := (existsb (fun b => b) l, existsb negb l).
Definition bset_eqb (a b : bset) : bool := Bool.eqb (fst a) (fst b) && Bool.eqb (snd a) (snd b).

(* id in md / md[id] on the mapping {id: {key: value}} *)
Definition md_in (id : text) (m : mapping) : bool := match mlookup id m with Some _ => true | None => false end.

(* self._cast_metadata() (table.py Table._cast_metadata, pinned; its inner function is tied to
   Orient.ctor_md by cast_metadata_is_source of C08 in the vocabulary of tools/py2v): a field in
   which no entry holds anything becomes None, otherwise None entries become empty dicts; both
   fields.  Entries are None or dicts here, so it never raises. *)
Definition cast_raw (m : mdraw) : mdraw :=
  match m with
  | None => None
  | Some l => if forallb (fun e => negb (entry_truthy e)) l then None
              else Some (map (fun e => Some (match e with Some d => d | None => [] end)) l)
  end.
Definition tb_cast_metadata (st : tstate) : tstate :=
  mkS (s_oids st) (s_sids st) (cast_raw (s_omd st)) (cast_raw (s_smd st)).
