(* Hand-written vocabulary of the translator tools/py2v_filt (NOT generated).
   Gen/FilterWrapGen.v is regenerated from biom/_filter.pyx (_filter) and biom/table.py
   (Table.filter / remove_empty / head) over the names below; each stands for one Python / numpy /
   scipy / Table operation of the source, with the meaning the hand-written model Model/Filter.v
   gives it.  Together with the translator and tools/py2v_filt/sigs/filterwrap.json these
   definitions are the trusted part.

   A Table OBJECT is the model's content plus the two id -> position lookups it stores (kept as the
   id list each was built from), so that a stale lookup is visible.  A scipy matrix is its dense
   content, its shape and a flag "viewed transposed"; the storage format (CSR / CSC, order of the
   indices) is not content. *)
From Coq Require Import List Arith ZArith Bool.
From BiomV Require Import Base.Tree Base.ListUtil Base.Matrix.
From BiomV Require Export Model.Table Model.Orient Model.Reorder Model.Filter.
Import ListNotations.

Definition rbind {A B} (r : result A) (f : A -> result B) : result B :=
  match r with ROk a => f a | RErr c => RErr c end.
Notation "x <- e ;; f" := (rbind e (fun x => f)) (at level 61, e at next level, right associativity).
Definition E_INDEX : Z := E_OTHER.     (* IndexError, as Model/Filter.v head *)

(* rfold: a for loop whose body may raise *)
Fixpoint rfold {S A} (f : S -> A -> result S) (l : list A) (s : S) : result S :=
  match l with [] => ROk s | x :: r => s' <- f s x ;; rfold f r s' end.
Fixpoint rmap {A B} (f : A -> result B) (l : list A) : result (list B) :=
  match l with [] => ROk [] | x :: r => y <- f x ;; ys <- rmap f r ;; ROk (y :: ys) end.

(* ---- axis names as the caller writes them *)
Inductive axname := N_sample | N_observation | N_whole | N_other.
Definition axname_eqb (a b : axname) : bool :=
  match a, b with N_sample, N_sample | N_observation, N_observation | N_whole, N_whole | N_other, N_other => true
  | _, _ => false end.
Definition axname_in (a : axname) (l : list axname) : bool := existsb (axname_eqb a) l.
Definition name_of (a : axis) : axname := match a with Obs => N_observation | Samp => N_sample end.
Definition on_axis {A} (n : axname) (f : axis -> A) : result A :=
  match n with N_sample => ROk (f Samp) | N_observation => ROk (f Obs) | _ => RErr E_UNKNOWN end.

(* ---- scipy matrices *)
Record sparr := mkS { sp_T : bool; sp_rows : nat; sp_cols : nat; sp_m : matrix }.
Definition sp_tocsr (a : sparr) : sparr := a.
Definition sp_tocsc (a : sparr) : sparr := a.
Definition sp_sort_indices (a : sparr) : sparr := a.
Definition sp_getformat (a : sparr) : unit := tt.
Definition sp_transpose (a : sparr) : sparr := mkS (negb (sp_T a)) (sp_rows a) (sp_cols a) (sp_m a).
Definition count_true (l : list bool) : nat := length (filter (fun b => b) l).
(* _remove_rows_csr (K1 remove_rows_ok / remove_rows_refines_filter_mask): keeps the major vectors of the view *)
Definition sp_remove_rows (a : sparr) (bools : list bool) : sparr :=
  if sp_T a then mkS true (sp_rows a) (count_true (firstn (sp_cols a) bools)) (sel_cols bools (sp_m a))
  else mkS false (count_true (firstn (sp_rows a) bools)) (sp_cols a) (sel_rows bools (sp_m a)).
(* (m != 0) and .sum(axis=k) of the boolean matrix: axis 0 sums down the columns *)
Definition sp_ne0 (a : sparr) : sparr := a.
Definition sp_count_along (a : sparr) (k : Z) : list nat :=
  if Z.eqb k 0 then map (fun j => count_nz (mcol (sp_m a) j)) (seq 0 (sp_cols a))
  else map (fun i => count_nz (mrow (sp_m a) i)) (seq 0 (sp_rows a)).
Definition np_asarray_ravel (l : list nat) : list nat := l.
Definition np_gt0 (l : list nat) : list bool := map (fun c => Nat.ltb 0 c) l.

(* ---- boolean / id arrays *)
Definition np_zeros_bool (n : nat) : list bool := repeat false n.
Definition np_put (l : list bool) (idx : list nat) (v : bool) : list bool := fold_left (fun acc i => upd acc i v) idx l.
Definition np_xor (l : list bool) (b : bool) : list bool := map (fun x => xorb x b) l.
Definition np_view_u8 (l : list bool) : list bool := l.
Definition py_compress {A} (l : list A) (bools : list bool) : list A := select bools l.
Definition ids_dtype (l : list Z) : unit := tt.
Definition np_asarray_ids (l : list Z) (dt : unit) : list Z := l.
Definition np_mask_index (l : list Z) (m : list bool) : list Z := select m l.    (* ids[boolean array] *)
Definition np_slice_to (l : list Z) (n : Z) : list Z := firstn (Z.to_nat n) l.   (* ids[:n], n > 0 *)

(* metadata of one axis as Python holds it: None or a tuple *)
Definition pymd := option (list Tree).
Definition md_is_none (m : pymd) : bool := match m with None => true | Some _ => false end.
Definition md_nones (n : nat) : pymd := Some (repeat md_none n).                 (* (None,) * n *)
Definition md_compress (m : pymd) (bools : list bool) : pymd := option_map (select bools) m.

(* ---- the ids_to_keep argument: an iterable of ids, a function (its verdicts, in call order, are an
   input of the model as in Model/Filter.v filter_pred), or anything else *)
Inductive pykeep := KIter (l : list Z) | KFun (verdicts : list bool) | KOther.
Definition is_iterable (k : pykeep) : bool := match k with KIter _ => true | _ => false end.
Definition is_function (k : pykeep) : bool := match k with KFun _ => true | _ => false end.
Definition keep_items (k : pykeep) : list Z := match k with KIter l => l | _ => [] end.
(* the dict id -> position, kept as the id list it was built from; index[id] *)
Definition pyindex := list Z.
Definition index_get (ix : pyindex) (x : Z) : result nat :=
  match pos x ix with Some i => ROk i | None => RErr E_KEY end.
Definition index_copy (ix : pyindex) : pyindex := ix.
(* _make_filter_array_general (NOT translated here: its loops are Gen/FilterGen.v rebuild_body, tied by
   kernel_rebuild_correct + predicate_calls): one verdict per id, xor invert *)
Definition make_filter_array_general (a : sparr) (ids : list Z) (md : pymd) (k : pykeep) (axis : Z) (invert : bool)
  : list bool := match k with KFun v => map (fun b => xorb b invert) v | _ => [] end.

(* ---- the Table object *)
Record tobj := mkO { o_t : table; o_oix : pyindex; o_six : pyindex }.
Definition lift (t : table) : tobj := mkO t (oids t) (sids t).
Definition tb_copy (o : tobj) : tobj := o.                                      (* a new object, same content *)
Definition tb_metadata (o : tobj) (n : axname) : result pymd := on_axis n (fun a => mds a (o_t o)).
Definition tb_ids (o : tobj) (n : axname) : result (list Z) := on_axis n (fun a => ids a (o_t o)).
Definition tb_index (o : tobj) (n : axname) : result pyindex :=
  on_axis n (fun a => match a with Obs => o_oix o | Samp => o_six o end).
Definition tb_sparse (o : tobj) (n : axname) : result sparr :=
  on_axis n (fun _ => mkS false (nobs (o_t o)) (nsamp (o_t o)) (mat (o_t o))).
Definition tb_axis_to_num (o : tobj) (n : axname) : result Z :=
  on_axis n (fun a => match a with Obs => 0%Z | Samp => 1%Z end).
Definition tb_get_data (o : tobj) : sparr := mkS false (nobs (o_t o)) (nsamp (o_t o)) (mat (o_t o)).
Definition tb_get_obs_index (o : tobj) : pyindex := o_oix o.
Definition tb_get_sample_index (o : tobj) : pyindex := o_six o.
Definition with_t (o : tobj) (t : table) : tobj := mkO t (o_oix o) (o_six o).
Definition sp_content (a : sparr) : matrix := if sp_T a then transpose (sp_rows a) (sp_m a) else sp_m a.
Definition tb_set_data (o : tobj) (a : sparr) : tobj :=
  let t := o_t o in with_t o (mkT (oids t) (sids t) (sp_content a) (omd t) (smd t) (ttype t)).
Definition tb_set_sample_ids (o : tobj) (l : list Z) : tobj :=
  let t := o_t o in with_t o (mkT (oids t) l (mat t) (omd t) (smd t) (ttype t)).
Definition tb_set_observation_ids (o : tobj) (l : list Z) : tobj :=
  let t := o_t o in with_t o (mkT l (sids t) (mat t) (omd t) (smd t) (ttype t)).
Definition tb_set_sample_metadata (o : tobj) (m : pymd) : tobj :=
  let t := o_t o in with_t o (mkT (oids t) (sids t) (mat t) (omd t) m (ttype t)).
Definition tb_set_observation_metadata (o : tobj) (m : pymd) : tobj :=
  let t := o_t o in with_t o (mkT (oids t) (sids t) (mat t) m (smd t) (ttype t)).
(* _index_ids(observation_index, sample_index): None = rebuild from the ids *)
Definition tb_index_ids (o : tobj) (oi si : option pyindex) : tobj :=
  mkO (o_t o) (match oi with Some x => x | None => oids (o_t o) end)
      (match si with Some x => x | None => sids (o_t o) end).
Definition tb_cast_metadata (o : tobj) : tobj := with_t o (norm_md (o_t o)).
Definition py_errcheck (o : tobj) : result unit :=
  match errcheck (o_t o) with ROk _ => ROk tt | RErr c => RErr c end.
