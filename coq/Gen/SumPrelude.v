(* Hand-written vocabulary of the summary-mode translator tools/py2v_sum (coq/Gen/SummaryGen.v is
   generated against it).  Every numpy / builtin / Table operation the translated functions call is a
   named primitive here, typed by tools/py2v_sum/sigs/*.json.  Numbers are the exact integers /
   rationals (numerator, denominator) of Model/Summary.v; float() of an integer is the identity. *)
From Coq Require Import List Arith ZArith Bool.
From BiomV Require Import Base.Tree Base.ListUtil Base.Matrix Model.Table Model.Sparse Model.Summary.
Import ListNotations.

(* a Python dict with id keys and number values, in insertion order *)
Definition sdict := list (Z * Z).
Definition dict_empty : sdict := [].
(* d[k] = v : an existing key keeps its place and takes the new value, a new key goes last *)
Fixpoint dict_set (d : sdict) (k v : Z) : sdict :=
  match d with
  | [] => [(k, v)]
  | (k', v') :: t => if Z.eqb k k' then (k', v) :: t else (k', v') :: dict_set t k v
  end.
Definition dict_values (d : sdict) : list Z := map snd d.
Definition py_list (l : list Z) : list Z := l.
Definition py_len (l : list Z) : Z := Z.of_nat (length l).
Definition py_float (z : Z) : Z := z.
Definition q_of_Z (z : Z) : Z * Z := (z, 1%Z).

(* Table.iter() with its defaults (dense=True, axis='sample'): zip of the dense sample vectors, the
   sample ids and the metadata entries (not looked at by the translated code: unit) *)
Definition table_iter (rt : rtable) : list (list Z * Z * unit) :=
  map (fun p => (fst p, snd p, tt)) (combine (r_vectors Samp rt) (r_sids rt)).

(* numpy: vector != scalar (elementwise), sum of a boolean vector (number of True), sum of a vector *)
Definition vec_ne (v : list Z) (c : Z) : list bool := map (fun x => negb (Z.eqb x c)) v.
Definition bvec_sum (b : list bool) : Z := Z.of_nat (length (filter (fun x => x) b)).
Definition vec_sum (v : list Z) : Z := zsum v.

(* numpy.min / max / median / mean of a non-empty list *)
Definition np_min (l : list Z) : Z := fold1 Z.min l.
Definition np_max (l : list Z) : Z := fold1 Z.max l.
Definition np_median (l : list Z) : Z * Z := median l.
Definition np_mean (l : list Z) : Z * Z := mean l.
