(* Hand-written vocabulary of the reader translator tools/py2v_h5r (Table.from_hdf5, DESIGN 3.1 T23).
   Every h5py read of the method is an accessor of the file tree of Model/Hdf5.v, with the meaning
   that model already gives it; nothing here looks at the hand-written reader `from_hdf5`.

   h5grp.attrs[k]            the attribute, decoded text (KeyError = E_KEY when absent)
   h5grp.attrs['shape']      the two-element integer attribute
   h5grp[axis]['matrix']     a group handle = its path (h5py raises KeyError for a missing group;
                             the model raises the same E_KEY at the first dataset read below it)
   grp[name]                 the dataset at path ++ [name]  (KeyError = E_KEY when absent)
   csc_matrix / csr_matrix   the dense meaning of the three arrays under the stored shape
   Table(...)                the constructor's refusals that a file can trigger (id counts against
                             the shape, duplicate ids: TableException) and the loaded record *)
From Coq Require Import List Arith ZArith Bool.
From BiomV Require Import Base.Tree Base.ListUtil Base.Matrix Model.Table Model.Sparse Model.Hdf5.
Import ListNotations.
Open Scope list_scope.

Definition raise {A} (e : Z) : result A := RErr e.
Definition ret {A} (a : A) : result A := ROk a.

(* `axis not in [...]` on names *)
Definition name_in (a : bytes) (l : list bytes) : bool := existsb (lz_eqb a) l.
Definition str_eq (a b : list Z) : bool := lz_eqb a b.

Definition h5_attr (f : h5) (k : bytes) : result str := attr_text f k.
Definition h5_attr_shape (f : h5) : result (nat * nat) :=
  match get_attr (attrs f) b_shape with
  | Some (AInts [n; m]) => ROk (Z.to_nat n, Z.to_nat m)
  | Some _ => RErr E_UNMODELLED
  | None => RErr E_KEY
  end.
Definition h5_group (p : path) (name : bytes) : path := p ++ [name].
Definition h5_dset (f : h5) (grp : path) (name : bytes) : result dset := need_dset f (grp ++ [name]).

(* a scipy compressed matrix built from three datasets: the shape it was given and what it denotes *)
Definition smatrix := ((nat * nat) * matrix)%type.
Definition csc_matrix (cs : dset * dset * dset) (shape : nat * nat) : smatrix :=
  let '(d, i, p) := cs in
  (shape, transpose (fst shape) (dense_of (mkCS (snd shape) (fst shape) (ns (d_num p)) (ns (d_num i)) (d_num d)))).
Definition csr_matrix (cs : dset * dset * dset) (shape : nat * nat) : smatrix :=
  let '(d, i, p) := cs in
  (shape, dense_of (mkCS (fst shape) (snd shape) (ns (d_num p)) (ns (d_num i)) (d_num d))).

(* `md or None` *)
Definition or_none {A} (o : option (list A)) : option (list A) :=
  match o with Some [] => None | _ => o end.

(* Table.__init__ as far as a file can reach it *)
Definition table_ctor (m : smatrix) (oids sids : list str) (omd smd : option (list mdrow))
           (ty : option str) (date genby id_ : str) (ogmd sgmd : list (str * str)) : result loaded :=
  let '((n, k), mat) := m in
  if negb (Nat.eqb (length oids) n) || negb (Nat.eqb (length sids) k) || sdup oids || sdup sids
  then RErr E_TABLE
  else ROk (mkLd oids sids mat omd smd ty id_ genby date ogmd sgmd).

(* the nested helper axis_load of the method (pinned by AST hash in the signature file) *)
Definition axis_load_prim (f : h5) (grp : path) : result (list str * option (list mdrow) * list (str * str)) :=
  match grp with
  | [a] => axis_load f a
  | _ => RErr E_UNMODELLED
  end.
