(* Hand-written vocabulary of the reader translator tools/py2v_h5r (Table.from_hdf5, DESIGN 3.1 T23).
   Every h5py read of the method is an accessor of the file tree of Model/Hdf5.v, with the meaning
   that model already gives it; nothing here looks at the hand-written reader `from_hdf5`.

   h5grp.attrs[k]            the attribute, decoded text (KeyError = E_KEY when absent)
   h5grp.attrs['shape']      the two-element integer attribute
   h5grp[axis]['matrix']     a group handle = its path (h5py raises KeyError for a missing group;
                             the model raises the same E_KEY at the first dataset read below it)
   grp[name]                 the dataset at path ++ [name]  (KeyError = E_KEY when absent)
   csc_matrix / csr_matrix   the dense meaning of the three arrays under the stored shape
   Table(...)                the constructor's refusals that a file can trigger (id counts against
                             the shape, duplicate ids: TableException) and the loaded record *)
From Coq Require Import List Arith ZArith Bool.
From BiomV Require Import Base.Tree Base.ListUtil Base.Matrix Model.Table Model.Sparse Model.Hdf5.
Import ListNotations.
Open Scope list_scope.

Definition raise {A} (e : Z) : result A := RErr e.
Definition ret {A} (a : A) : result A := ROk a.

(* `axis not in [...]` on names *)
Definition name_in (a : bytes) (l : list bytes) : bool := existsb (lz_eqb a) l.
Definition str_eq (a b : list Z) : bool := lz_eqb a b.

Definition h5_attr (f : h5) (k : bytes) : result str := attr_text f k.
Definition h5_attr_shape (f : h5) : result (nat * nat) :=
  match get_attr (attrs f) b_shape with
  | Some (AInts [n; m]) => ROk (Z.to_nat n, Z.to_nat m)
  | Some _ => RErr E_UNMODELLED
  | None => RErr E_KEY
  end.
Definition h5_group (p : path) (name : bytes) : path := p ++ [name].
Definition h5_dset (f : h5) (grp : path) (name : bytes) : result dset := need_dset f (grp ++ [name]).

(* a scipy compressed matrix built from three datasets: the shape it was given and what it denotes *)
Definition smatrix := ((nat * nat) * matrix)%type.
Definition csc_matrix (cs : dset * dset * dset) (shape : nat * nat) : smatrix :=
  let '(d, i, p) := cs in
  (shape, transpose (fst shape) (dense_of (mkCS (snd shape) (fst shape) (ns (d_num p)) (ns (d_num i)) (d_num d)))).
Definition csr_matrix (cs : dset * dset * dset) (shape : nat * nat) : smatrix :=
  let '(d, i, p) := cs in
  (shape, dense_of (mkCS (fst shape) (snd shape) (ns (d_num p)) (ns (d_num i)) (d_num d))).

(* `md or None` *)
Definition or_none {A} (o : option (list A)) : option (list A) :=
  match o with Some [] => None | _ => o end.

(* Table.__init__ as far as a file can reach it *)
Definition table_ctor (m : smatrix) (oids sids : list str) (omd smd : option (list mdrow))
           (ty : option str) (date genby id_ : str) (ogmd sgmd : list (str * str)) : result loaded :=
  let '((n, k), mat) := m in
  if negb (Nat.eqb (length oids) n) || negb (Nat.eqb (length sids) k) || sdup oids || sdup sids
  then RErr E_TABLE
  else ROk (mkLd oids sids mat omd smd ty id_ genby date ogmd sgmd).

(* ------------------------------------------------------------------ inside axis_load *)
(* the two parsers of the defaults table; a parser table is a defaultdict: name -> parser *)
Inductive pkind := P_general | P_vlen_list.
Definition ptable := str -> pkind.
Definition pdefault (d : pkind) : ptable := fun _ => d.
Definition pset (t : ptable) (k : str) (v : pkind) : ptable := fun x => if lz_eqb x k then v else t x.
Fixpoint pupdate (t : ptable) (l : list (str * pkind)) : ptable :=
  match l with [] => t | (k, v) :: r => pupdate (pset t k v) r end.

(* decode_ids(grp['ids'][:])  (decode_ids is pinned by AST hash) *)
Definition h5_ids (f : h5) (grp : path) : result (list str) :=
  bind (need_dset f (grp ++ [b_ids])) load_ids.

(* [{} for i in range(len(ids))] *)
Definition empty_rows (ids : list str) : list mdrow := map (fun _ => []) ids.

(* a dataset parsed row by row with the chosen parser *)
Definition parse_with (p : pkind) (d : dset) : result (list mdval) :=
  match p with
  | P_vlen_list =>
    match d_kind d, d_shape d with
    | KVStr, [n; w] => mapM parse_list_row (chunks w n (d_str d))
    | _, _ => RErr E_UNMODELLED
    end
  | P_general =>
    match d_kind d, d_shape d with
    | KVStr, [_] => mapM (fun b => bind (dec b) (fun s => ROk (MStr s))) (d_str d)
    | KI64, [_] | KI32, [_] => ROk (map MInt (d_num d))
    | KF64, [_] => ROk (map MFloat (d_num d))
    | KBool, [_] => ROk (map (fun z => MBool (negb (Z.eqb z 0))) (d_num d))
    | _, _ => RErr E_UNMODELLED
    end
  end.

(* the category loop of axis_load (pinned by AST hash): every dataset of grp['metadata'], in the
   order the file lists them, its name unescaped, parsed with parser[category], the values zipped
   onto the rows.  A row is a dict of which only membership and lookup are observed. *)
Definition md_loop (f : h5) (grp : path) (parser : ptable) (md : list mdrow) : result (list mdrow) :=
  bind (match grp with [a] => if has_group f [a; b_metadata] then ROk tt else RErr E_KEY | _ => RErr E_UNMODELLED end) (fun _ =>
  bind (mapM (fun nd => bind (dec (fst nd)) (fun name =>
                        let cat := unsanitize name in
                        bind (parse_with (parser cat) (snd nd)) (fun vals => ROk (cat, vals))))
             (children f (grp ++ [b_metadata]))) (fun cols =>
  ROk (map (fun i => flat_map (fun cv => match nth_error (snd cv) i with
                                         | Some v => [(fst cv, v)]
                                         | None => []
                                         end) cols) (seq 0 (length md))))).

(* md if any(md) else None *)
Definition any_row (md : list mdrow) : bool := existsb (fun r => match r with [] => false | _ => true end) md.

(* {cat: ensure_utf8(val[0]) for cat, val in grp['group-metadata'].items()}  (ensure_utf8 pinned) *)
Definition gmd_read (f : h5) (grp : path) : result (list (str * str)) :=
  bind (match grp with [a] => if has_group f [a; b_group_metadata] then ROk tt else RErr E_KEY | _ => RErr E_UNMODELLED end) (fun _ =>
  mapM (fun nd => bind (dec (fst nd)) (fun name =>
                  bind (match d_str (snd nd) with b :: _ => dec b | [] => RErr E_OTHER end) (fun v =>
                  ROk (name, v)))) (children f (grp ++ [b_group_metadata]))).
