(* Hand-written vocabulary of the translator tools/py2v_eq for Table.update_ids (NOT generated).
   Gen/UpdateIdsGen.v is regenerated from biom/table.py over the names below; each stands for one
   Python / numpy operation of the source, with the meaning the hand-written model
   Model/Reorder.v gives it.  Together with the translator and tools/py2v_eq/sigs/update_ids.json
   these definitions are the trusted part.

   ids are the model's integer codes; the model does not know their text, so the LENGTH of an id
   is a parameter [len_of] of the generated section (any function), and the fixed-width numpy
   string array the source writes into refuses (E_UNMODELLED) a value wider than its dtype -
   numpy would silently truncate it.  The bridge shows this never happens. *)
From Coq Require Import List Arith ZArith Bool.
From BiomV Require Import Base.Tree Base.ListUtil Base.Matrix.
From BiomV Require Export Model.Table Model.Orient Model.Reorder.
Import ListNotations.

Definition rbind {A B} (r : result A) (f : A -> result B) : result B :=
  match r with ROk a => f a | RErr c => RErr c end.
Notation "x <- e ;; f" := (rbind e (fun x => f)) (at level 61, e at next level, right associativity).

Definition E_INDEX : Z := 8%Z.         (* IndexError *)
Definition E_UNMODELLED : Z := 99%Z.   (* numpy would truncate: outside the model *)

(* ---- the dict id_map *)
Definition idmap := list (Z * Z).
Definition dict_values (m : idmap) : list Z := map snd m.                  (* .values() *)
Definition dict_mem (m : idmap) (k : Z) : bool := mapped m k.              (* k in m *)
Definition dict_get (m : idmap) (k d : Z) : Z :=                           (* m.get(k, d) *)
  match lookup_map m k with Some y => y | None => d end.

(* max(l, default=d) / max(a, b) *)
Definition list_maxd (l : list nat) (d : nat) : nat :=
  match l with [] => d | _ => fold_right Nat.max 0 l end.

(* ---- numpy arrays of fixed-width text: zeros(n, dtype='U<w>'), a[i] = v, len(a), set(a) *)
Record strarr := mkA { awidth : nat; aitems : list Z }.
Definition EMPTY_ID : Z := 0%Z.        (* '': every slot is overwritten before it is read *)
Definition np_zeros_str (n w : nat) : strarr := mkA w (repeat EMPTY_ID n).
Definition np_store (len_of : Z -> nat) (a : strarr) (i : nat) (v : Z) : result strarr :=
  if Nat.ltb i (length (aitems a)) then
    if Nat.leb (len_of v) (awidth a) then ROk (mkA (awidth a) (upd (aitems a) i v))
    else RErr E_UNMODELLED
  else RErr E_INDEX.
Definition arr_len (a : strarr) : nat := length (aitems a).
Definition np_set (a : strarr) : list Z := nodup Z.eq_dec (aitems a).
Definition set_len (s : list Z) : nat := length s.

(* ---- the table object (content level, Model/Table.v) *)
Definition tb_ids (a : axis) (t : table) : list Z := ids a t.              (* .ids(axis=a), a one of the two axis names *)
Definition ids_size (l : list Z) : nat := length l.                         (* .size *)
Definition axis_is_sample (a : axis) : bool := match a with Samp => true | Obs => false end.   (* a == 'sample' *)
Definition tb_copy (t : table) : table := copy t.                           (* .copy(): a new object *)
Definition tb_set_sample_ids (t : table) (a : strarr) : table := set_ids Samp (aitems a) t.       (* ._sample_ids = a *)
Definition tb_set_observation_ids (t : table) (a : strarr) : table := set_ids Obs (aitems a) t.   (* ._observation_ids = a *)
(* ._index_ids(None, None): rebuilds the id -> position lookups, which the content-level model derives *)
Definition tb_index_ids (t : table) : unit * table := (tt, t).
(* errcheck(t) of biom.err with the default profile = Model/Reorder.v errcheck *)
Definition py_errcheck (t : table) : result unit :=
  match errcheck t with ROk _ => ROk tt | RErr c => RErr c end.
