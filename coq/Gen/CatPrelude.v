(* Hand-written vocabulary of the translator tools/py2v_cat for Table.concat (NOT generated).
   Gen/ConcatGen.v is regenerated from biom/table.py over the names below; each stands for one
   Python / numpy / scipy operation of the source, with the meaning the hand-written model
   Model/Concat.v gives it.  Together with the translator and tools/py2v_cat/sigs/concat.json
   these definitions are the trusted part.

   Python sets of ids are lists without repetition, in the order the ids were first added; where
   Python leaves the order of a set open (iteration, list(s)) this order is taken, as the hand
   model does.  A dict is an association list with one entry per key. *)
From Coq Require Import List Arith ZArith Bool.
From BiomV Require Import Base.Tree Base.ListUtil Base.Matrix.
From BiomV Require Export Model.Table Model.Orient Model.Concat.
Import ListNotations.

Definition rbind {A B} (r : result A) (f : A -> result B) : result B :=
  match r with ROk a => f a | RErr c => RErr c end.
Notation "x <- e ;; f" := (rbind e (fun x => f)) (at level 61, e at next level, right associativity).

(* ---- the argument `others`: one table or a list of tables *)
Inductive others_arg := OneTable (t : table) | ManyTables (l : list table).
(* if isinstance(others, self.__class__): others = [others, ] *)
Definition normalise_others (o : others_arg) : list table :=
  match o with OneTable t => [t] | ManyTables l => l end.

(* ---- axes *)
Definition invert_axis (a : axis) : axis := other a.                       (* self._invert_axis(a) *)
Definition axis_is_sample (a : axis) : bool := match a with Samp => true | Obs => false end.   (* a == 'sample' *)

(* ---- function values held in locals *)
Inductive stackfn := HStack | VStack.                                       (* scipy.sparse.hstack / vstack *)
Inductive getter := Getter (i : nat).                                       (* operator.itemgetter(i) *)
Definition py_itemgetter (i : nat) : getter := Getter i.

(* ---- sets of ids *)
Definition idset := list Z.
Definition set_empty : idset := [].                                         (* set() *)
Definition py_set (l : list Z) : idset := nodup Z.eq_dec l.                 (* set(<array or list>) *)
Definition set_copy (s : idset) : idset := s.                               (* set(<set>) *)
Definition set_isdisjoint (s : idset) (l : list Z) : bool :=                (* s.isdisjoint(l) *)
  negb (existsb (fun x => zmem x s) l).
Definition set_update (s s2 : idset) : idset :=                             (* s.update(<set>) *)
  s ++ filter (fun y => negb (zmem y s)) s2.
Definition set_update_list (s : idset) (l : list Z) : idset :=              (* s.update(<array>) *)
  set_update s (nodup Z.eq_dec l).
Definition set_diff (a b : idset) : idset := filter (fun y => negb (zmem y b)) a.   (* a - b *)
Definition set_nonempty (s : idset) : bool := match s with [] => false | _ => true end.   (* truth value *)
Definition set_iter (s : idset) : list Z := s.                              (* for i in s *)
Definition py_sorted (s : idset) : list Z := isort s.                       (* sorted(s), on order preserving codes *)
(* list(s): Python leaves the order open; the sorted one is taken (Model/Concat.v does the same, and
   the sort_order that follows makes the choice unobservable) *)
Definition set_to_list (s : idset) : list Z := isort s.

(* ---- the dict id -> metadata entry *)
Definition mddict := list (Z * Tree).
Definition dict_empty : mddict := [].
Definition dict_set (m : mddict) (k : Z) (v : Tree) : mddict :=             (* m[k] = v *)
  if existsb (fun p => Z.eqb k (fst p)) m
  then map (fun p => if Z.eqb k (fst p) then (k, v) else p) m
  else m ++ [(k, v)].
(* m[k]; the KeyError of an absent key is not modelled (None is returned, as Model/Concat.v md_get does):
   every id asked for was entered by the first loop *)
Definition dict_getitem (m : mddict) (k : Z) : Tree := md_get m k.

(* ---- lists *)
Definition list_copy {A} (l : list A) : list A := l.                        (* l[:] / list(l) *)
Definition list_insert {A} (l : list A) (i : nat) (x : A) : list A :=       (* l.insert(i, x) *)
  firstn i l ++ x :: skipn i l.

(* ---- the table object (content level, Model/Table.v) *)
Definition tb_ids (a : axis) (t : table) : list Z := ids a t.               (* .ids(axis=a) *)
(* .metadata(i, axis=a) for an id of the table: None when the axis has no metadata *)
Definition tb_metadata_of (a : axis) (t : table) (i : Z) : Tree :=
  match md_of a t i with Some m => m | None => md_none end.
Definition list_append {A} (l : list A) (x : A) : list A := l ++ [x].        (* l.append(x) *)
Definition list_extend {A} (l l2 : list A) : list A := l ++ l2.              (* l.extend(l2) *)
Definition list_nonempty {A} (l : list A) : bool := match l with [] => false | _ => true end.   (* truth value *)
Definition list_getitem {A} (l : list A) (i : nat) : result A :=            (* l[i]: IndexError *)
  match nth_error l i with Some x => ROk x | None => RErr E_OTHER end.
Definition np_concatenate (ls : list (list Z)) : list Z := concat ls.       (* np.concatenate *)
Definition ids_all_eq (a b : list Z) : bool := list_eqb Z.eqb a b.          (* (a == b).all(), a and b of one length *)

(* ---- metadata of an axis: None or one entry per id *)
Definition optmd_is_none (o : option (list Tree)) : bool := match o with None => true | Some _ => false end.
Definition list_of_optmd (o : option (list Tree)) : result (list Tree) :=   (* list(md): TypeError on None *)
  match o with Some l => ROk l | None => RErr E_TYPE end.
Definition list_extend_opt (l : list Tree) (o : option (list Tree)) : result (list Tree) :=   (* l.extend(md) *)
  match o with Some l2 => ROk (l ++ l2) | None => RErr E_TYPE end.
Definition none_list (n : nat) : list Tree := repeat md_none n.             (* [None] * n *)

(* ---- matrices (dense rows, Base/Matrix.v) *)
Definition zero_matrix (s : nat * nat) : matrix := repeat (zero_row (snd s)) (fst s).   (* csr_matrix((r, c)) *)
Fixpoint zip_app (a b : matrix) : matrix :=
  match a, b with r :: a', s :: b' => (r ++ s) :: zip_app a' b' | _, _ => [] end.
(* vstack / hstack of a list of blocks (of one width / one height); ValueError on the empty list *)
Definition apply_stack (f : stackfn) (ms : list matrix) : result matrix :=
  match ms with
  | [] => RErr E_VALUE
  | m :: r => ROk (match f with VStack => concat ms | HStack => fold_left zip_app r m end)
  end.
Definition apply_getter (g : getter) (s : nat * nat) : result nat :=        (* itemgetter(i)(shape) *)
  match g with Getter 0 => ROk (fst s) | Getter 1 => ROk (snd s) | _ => RErr E_OTHER end.

(* ---- the table object, continued *)
Definition tb_matrix_data (t : table) : matrix := mat t.                    (* .matrix_data *)
Definition tb_shape (t : table) : nat * nat := (length (mat t), nsamp t).   (* .shape of a coherent table *)
Definition tb_type (t : table) : Z := ttype t.                              (* .type *)
Definition tb_metadata (a : axis) (t : table) : option (list Tree) := mds a t.   (* .metadata(axis=a) *)
(* Table(data, observation_ids, sample_ids, observation_metadata, sample_metadata, type=ty): the
   constructor normalises the metadata (Model/Orient.v ctor_md) *)
Definition tb_new (m : matrix) (oi si : list Z) (om sm : option (list Tree)) (ty : Z) : table :=
  mkT oi si m (ctor_md om) (ctor_md sm) ty.
(* .sort_order(order, axis=a): Model/Orient.v sort_order_cols on the sample axis, through the
   transposed table on the other *)
Definition tb_sort_order (a : axis) (order : list Z) (t : table) : table :=
  match a with Samp => sort_order_cols order t | Obs => flip (sort_order_cols order (flip t)) end.
