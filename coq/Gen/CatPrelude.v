(* Hand-written vocabulary of the translator tools/py2v_cat for Table.concat (NOT generated).
   Gen/ConcatGen.v is regenerated from biom/table.py over the names below; each stands for one
   Python / numpy / scipy operation of the source, with the meaning the hand-written model
   Model/Concat.v gives it.  Together with the translator and tools/py2v_cat/sigs/concat.json
   these definitions are the trusted part.

   Python sets of ids are lists without repetition, in the order the ids were first added; where
   Python leaves the order of a set open (iteration, list(s)) this order is taken, as the hand
   model does.  A dict is an association list with one entry per key. *)
From Coq Require Import List Arith ZArith Bool.
From BiomV Require Import Base.Tree Base.ListUtil Base.Matrix.
From BiomV Require Export Model.Table Model.Orient.
Import ListNotations.

Definition rbind {A B} (r : result A) (f : A -> result B) : result B :=
  match r with ROk a => f a | RErr c => RErr c end.
Notation "x <- e ;; f" := (rbind e (fun x => f)) (at level 61, e at next level, right associativity).

(* ---- the argument `others`: one table or a list of tables *)
Inductive others_arg := OneTable (t : table) | ManyTables (l : list table).
(* if isinstance(others, self.__class__): others = [others, ] *)
Definition normalise_others (o : others_arg) : list table :=
  match o with OneTable t => [t] | ManyTables l => l end.

(* ---- axes *)
Definition invert_axis (a : axis) : axis := other a.                       (* self._invert_axis(a) *)
Definition axis_is_sample (a : axis) : bool := match a with Samp => true | Obs => false end.   (* a == 'sample' *)

(* ---- function values held in locals *)
Inductive stackfn := HStack | VStack.                                       (* scipy.sparse.hstack / vstack *)
Inductive getter := Getter (i : nat).                                       (* operator.itemgetter(i) *)
Definition py_itemgetter (i : nat) : getter := Getter i.

(* ---- sets of ids *)
Definition idset := list Z.
Definition set_empty : idset := [].                                         (* set() *)
Definition py_set (l : list Z) : idset := nodup Z.eq_dec l.                 (* set(<array or list>) *)
Definition set_copy (s : idset) : idset := s.                               (* set(<set>) *)
Definition set_isdisjoint (s : idset) (l : list Z) : bool :=                (* s.isdisjoint(l) *)
  negb (existsb (fun x => zmem x s) l).
Definition set_update (s s2 : idset) : idset :=                             (* s.update(<set>) *)
  s ++ filter (fun y => negb (zmem y s)) s2.
Definition set_update_list (s : idset) (l : list Z) : idset :=              (* s.update(<array>) *)
  set_update s (nodup Z.eq_dec l).
Definition set_diff (a b : idset) : idset := filter (fun y => negb (zmem y b)) a.   (* a - b *)
Definition set_nonempty (s : idset) : bool := match s with [] => false | _ => true end.   (* truth value *)
Definition set_iter (s : idset) : list Z := s.                              (* for i in s *)
Definition py_sorted (s : idset) : list Z := isort s.                       (* sorted(s), on order preserving codes *)

(* ---- the dict id -> metadata entry *)
Definition mddict := list (Z * Tree).
Definition dict_empty : mddict := [].
Definition dict_set (m : mddict) (k : Z) (v : Tree) : mddict :=             (* m[k] = v *)
  if existsb (fun p => Z.eqb k (fst p)) m
  then map (fun p => if Z.eqb k (fst p) then (k, v) else p) m
  else m ++ [(k, v)].

(* ---- lists *)
Definition list_copy {A} (l : list A) : list A := l.                        (* l[:] / list(l) *)
Definition list_insert {A} (l : list A) (i : nat) (x : A) : list A :=       (* l.insert(i, x) *)
  firstn i l ++ x :: skipn i l.

(* ---- the table object (content level, Model/Table.v) *)
Definition tb_ids (a : axis) (t : table) : list Z := ids a t.               (* .ids(axis=a) *)
(* .metadata(i, axis=a) for an id of the table: None when the axis has no metadata *)
Definition tb_metadata_of (a : axis) (t : table) (i : Z) : Tree :=
  match md_of a t i with Some m => m | None => md_none end.
