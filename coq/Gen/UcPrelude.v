(* HAND-WRITTEN (not generated): the vocabulary the uc-importer target of tools/py2v_uc
   (sigs/uc.json -> Gen/UcGen.v) is written over, on top of Gen/StrPrelude.v (outcome, seq_at,
   str_in, lempty).  Nothing here transcribes source code: these are the meanings given to
   Python's own operations.  A str is `text`, the length of a list and every int derived from it
   a `nat`, a str -> int dict an insertion-ordered association list, a defaultdict(int) keyed by
   pairs of ints an insertion-ordered association list whose missing keys read 0. *)
From Coq Require Import List Arith ZArith Bool.
From BiomV Require Import Base.ListUtil Model.Table Model.Slicer Gen.StrPrelude.
Import ListNotations.
Open Scope Z_scope.

(* s.strip() without argument *)
Definition py_strip (s : text) : text := strip is_space s.

(* s.split() without argument: the maximal runs of non-whitespace, no empty pieces *)
Fixpoint py_split_ws (s : text) : list text :=
  match s with
  | [] => []
  | c :: t =>
      if is_space c then py_split_ws t
      else match t with
           | [] => [[c]]
           | d :: _ => if is_space d then [c] :: py_split_ws t
                       else match py_split_ws t with w :: r => (c :: w) :: r | [] => [[c]] end
           end
  end.

(* s.rindex(c) for a one-character c: the last position, ValueError when absent *)
Fixpoint rindex_opt (c : Z) (s : text) : option nat :=
  match s with
  | [] => None
  | x :: t => match rindex_opt c t with
              | Some i => Some (S i)
              | None => if x =? c then Some O else None
              end
  end.
Definition str_rindex (c : Z) (s : text) : outcome nat :=
  match rindex_opt c s with Some i => Val i | None => Exn ValueError end.

(* s[:n] for a non-negative n *)
Definition str_prefix {A} (s : list A) (n : nat) : list A := firstn n s.

(* {} used as str -> int: k in d, d[k] (KeyError), d[k] = v (a new key goes last) *)
Definition idict := list (text * nat).
Definition idict_empty : idict := [].
Fixpoint idict_get (d : idict) (k : text) : option nat :=
  match d with [] => None | (k', v) :: t => if teqb k k' then Some v else idict_get t k end.
Definition idict_mem (k : text) (d : idict) : bool :=
  match idict_get d k with Some _ => true | None => false end.
Definition idict_at (d : idict) (k : text) : outcome nat :=
  match idict_get d k with Some v => Val v | None => Exn KeyError end.
Fixpoint idict_set (d : idict) (k : text) (v : nat) : idict :=
  match d with
  | [] => [(k, v)]
  | (k', v') :: t => if teqb k k' then (k', v) :: t else (k', v') :: idict_set t k v
  end.

(* defaultdict(int) keyed by (int, int): d[k] += n *)
Definition ddict := list ((nat * nat) * Z).
Definition dd_empty : ddict := [].
Definition pair_eqb (a b : nat * nat) : bool := Nat.eqb (fst a) (fst b) && Nat.eqb (snd a) (snd b).
Fixpoint dd_incr (d : ddict) (k : nat * nat) (n : Z) : ddict :=
  match d with
  | [] => [(k, 0 + n)]
  | (k', v) :: t => if pair_eqb k k' then (k', v + n) :: t else (k', v) :: dd_incr t k n
  end.

(* try: .. except E: h *)
Definition pyexn_eqb (a b : pyexn) : bool :=
  match a, b with
  | IndexError, IndexError | ValueError, ValueError | KeyError, KeyError => true
  | _, _ => false
  end.
Definition ocatch {A} (o : outcome A) (e : pyexn) (h : outcome A) : outcome A :=
  match o with Exn e' => if pyexn_eqb e' e then h else Exn e' | _ => o end.

(* for x in l: body, where body can raise *)
Fixpoint ofor {S A} (f : S -> A -> outcome S) (l : list A) (s : S) : outcome S :=
  match l with [] => Val s | x :: t => obind (f s x) (ofor f t) end.

(* Table(data, observation_ids=.., sample_ids=..): what is handed to the constructor *)
Record uc_call := mkUcCall { uc_data : ddict; uc_obs_ids : list text; uc_samp_ids : list text }.
