(* Hand-written vocabulary of the translator tools/py2v_part (collapse subset, tools/py2v_part/collapse.py)
   for Table.collapse (NOT generated).  Gen/CollapseGen.v is regenerated from biom/table.py over the
   names below and those of Gen/PartPrelude.v; the loop runs over the regenerated partition
   (Gen/PartitionGen.v gen_partition).  Each name stands for one Python / numpy / scipy operation of the
   source with the meaning Model/Partition.v gives it.  Trusted: these definitions, the translator and
   tools/py2v_part/sigs/collapse.json.

   Values: a collapsed vector is a vector of integer numerators with one divisor (Model/Partition.v
   record collapsed): the sum of integer vectors has divisor 1, `v /= n` multiplies the divisor.
   A matrix of collapsed vectors carries the divisors of its vectors. *)
From Coq Require Import List Arith ZArith Bool.
From BiomV Require Export Gen.PartPrelude Gen.PartitionGen.
Import ListNotations.

Definition qvec := (list Z * Z)%type.
Definition qmat := (matrix * list Z)%type.

(* one_to_many_mode in ['add', 'divide']: the codes of the two texts are 0 and 1 *)
Definition mode_known (m : Z) : bool := Z.eqb m 0 || Z.eqb m 1.
Definition len_ids (l : list Z) : Z := Z.of_nat (length l).                    (* len(ids) *)
(* t.sum(ax): one sum per id of axis ax, over the other axis *)
Definition tb_sum (t : table) (ax : axis) : qvec :=
  (match ax with Samp => col_sums (nsamp t) (mat t) | Obs => map zsum (mat t) end, 1%Z).
Definition qv_idiv (v : qvec) (n : Z) : qvec := (fst v, (snd v * n)%Z).        (* v /= n *)
Definition conv_vec (t : table) (v : qvec) : qvec := v.                        (* _conv_to_self_type(vector) *)
Definition qvecs_nonempty (l : list qvec) : bool := match l with [] => false | _ => true end.
(* _conv_to_self_type(list of vectors, transpose=b) *)
Definition conv_vecs (t : table) (vs : list qvec) (tr : bool) : qmat :=
  (tb_conv_to_self_type t (map fst vs) tr, map snd vs).
(* csr_matrix((n, 0)) for the sample axis, csr_matrix((0, n)) otherwise *)
Definition qm_empty (n : Z) (a : axis) : qmat :=
  (if axis_is_sample a then repeat [] (Z.to_nat n) else [], []).
Definition is_nil (l : list Z) : bool := match l with [] => true | _ => false end.
(* if 0 in (len(a), len(b)): data = csr_matrix((len(a), len(b))): an all-zero numerator matrix; the
   divisors are kept (zero over any divisor is zero) *)
Definition qm_blank_if_empty (d : qmat) (a b : list Z) : qmat :=
  if is_nil a || is_nil b then (repeat (repeat 0%Z (length b)) (length a), snd d) else d.
Definition md_collapsed_ids (l : list Z) : Tree := collapsed_md l.             (* {'collapsed_ids': ids.tolist()} *)
Definition omd_append (m : option (list Tree)) (x : Tree) : option (list Tree) :=
  option_map (fun l => l ++ [x]) m.
Definition omd_keep (m : option (list Tree)) : option (list Tree) := m.        (* m if m is not None else None *)
(* errcheck(self, 'empty'): the error state of biom.err for 'empty' is 'ignore' unless the caller changed it *)
Definition tb_errcheck_empty (t : table) : result unit := ROk tt.
(* Table(data, obs_ids, samp_ids, obs_md, samp_md, table_id, type=ty) *)
Definition tb_ctor_q (data : qmat) (obs_ids samp_ids : list Z) (obs_md samp_md : option (list Tree))
           (tid : unit) (ty : Z) : collapsed :=
  mkC (mkT obs_ids samp_ids (fst data) (ctor_md obs_md) (ctor_md samp_md) ty) (snd data).
