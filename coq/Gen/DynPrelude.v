(* Hand-written vocabulary of the dynamic-mode translator tools/py2v_dyn (NOT generated).
   Every Python value is a json; a Python exception is RErr code.  The primitives of
   Model/Json.v (py_getitem, py_get, py_in, py_eq, py_truthy, py_is_int, py_unpack2, py_iter,
   py_len, py_index, py_ne_nat, py_lower, py_hashable) and the message codes, etype, status,
   unpack3 and date_ok of Model/Validator.v are re-exported unchanged; the definitions below add
   the operations the source of table_validator.py uses beyond them.  Together they are the
   trusted semantics of Python's dynamic operations on JSON values. *)
From Coq Require Import String.
From Coq Require Import List Arith ZArith Lia Bool.
From BiomV Require Import Base.Tree Base.ListUtil Base.Matrix Base.TreeStr.
From BiomV Require Export Model.Table Model.Json Model.Validator.
Import ListNotations.
Open Scope Z_scope.

(* isinstance(x, list) / isinstance(x, bool) *)
Definition is_arr (j : json) : bool := match j with JArr _ => true | _ => false end.
Definition is_bool (j : json) : bool := match j with JBool _ => true | _ => false end.

(* isinstance(v, dtype) for dtype one of int / float / str: a bool IS an int here *)
Definition py_isinstance_t (v : json) (t : etype) : bool :=
  match t, v with
  | TInt, JInt _ => true
  | TInt, JBool _ => true
  | TFloat, JFlt _ => true
  | TStr, JStr _ => true
  | _, _ => false
  end.

(* short-circuit or / and of two conditions that may raise: the second is not evaluated (its
   exception does not happen) when the first decides *)
Definition r_or (a b : result bool) : result bool := x <- a ;; if x then ROk true else b.
Definition r_and (a b : result bool) : result bool := x <- a ;; if x then b else ROk false.

(* a < b : numbers (bools included) by value; text by code points; None, or a number against
   text, raises TypeError; containers are not followed *)
Fixpoint str_ltb (a b : str) : bool :=
  match a, b with
  | _, [] => false
  | [], _ :: _ => true
  | x :: a', y :: b' => (x <? y) || ((x =? y) && str_ltb a' b')
  end.
Definition py_lt (a b : json) : result bool :=
  match numval a, numval b with
  | Some x, Some y => ROk (x <? y)
  | None, None =>
      match a, b with
      | JStr s, JStr t => ROk (str_ltb s t)
      | JArr _, JArr _ => RErr E_UNMODELLED
      | _, _ => RErr E_TYPE
      end
  | _, _ => RErr E_TYPE
  end.

(* a <= b *)
Definition py_le (a b : json) : result bool :=
  match numval a, numval b with
  | Some x, Some y => ROk (x <=? y)
  | None, None =>
      match a, b with
      | JStr s, JStr t => ROk (negb (str_ltb t s))
      | JArr _, JArr _ => RErr E_UNMODELLED
      | _, _ => RErr E_TYPE
      end
  | _, _ => RErr E_TYPE
  end.

(* n -= c  for an int literal c *)
Definition py_sub_int (a : json) (c : Z) : result json :=
  match a with
  | JInt z => ROk (JInt (z - c))
  | JBool b => ROk (JInt (b2z b - c))
  | JFlt k => ROk (JFlt (k - SCALE * c))
  | _ => RErr E_TYPE
  end.

(* x in s / s.add(x) for a set s of values met so far: both hash x *)
Definition py_in_set (x : json) (s : list json) : result bool :=
  if py_hashable x then ROk (existsb (py_eq x) s) else RErr E_TYPE.
Definition py_set_add (x : json) (s : list json) : result (list json) :=
  if py_hashable x then ROk (x :: s) else RErr E_TYPE.

(* x in C for a class constant C that is a set of texts (or a dict with text keys) *)
Definition py_in_strset (x : json) (s : list str) : result bool :=
  if py_hashable x then ROk (existsb (fun t => py_eq x (JStr t)) s) else RErr E_TYPE.
(* C[x] for a class constant dict with text keys *)
Definition py_const_dict_get {A} (d : list (str * A)) (x : json) : result A :=
  if py_hashable x then
    match find (fun p => py_eq x (JStr (fst p))) d with
    | Some p => ROk (snd p)
    | None => RErr E_KEY
    end
  else RErr E_TYPE.

(* reduce(and_, l) for a list of bools: TypeError on an empty list *)
Definition py_reduce_and (l : list bool) : result bool :=
  match l with [] => RErr E_TYPE | _ => ROk (forallb (fun b => b) l) end.

(* a status message is a text: '' is None; len(s) > 0; the line appended to the report *)
Definition status_nonempty (s : status) : bool := match s with Some _ => true | None => false end.
Definition status_line (s : status) : msg := match s with Some m => m | None => [] end.

(* a list of (key, bound method) pairs *)
Definition methods := list (str * (json -> result status)).

(* message parameters: the position of a required key (harness/c15.py KEYS), id / metadata *)
Definition DYN_KEYS : list str :=
  [K "format"; K "format_url"; K "type"; K "rows"; K "columns"; K "shape"; K "data"; K "matrix_type";
   K "matrix_element_type"; K "generated_by"; K "id"; K "date"].
Fixpoint str_index (k : str) (l : list str) (i : Z) : Z :=
  match l with
  | [] => -1
  | x :: t => if str_eqb k x then i else str_index k t (i + 1)
  end.
Definition key_index (k : str) : Z := str_index k DYN_KEYS 0.
Definition rec_key_code (k : str) : Z := if str_eqb k (K "id") then 0 else 1.

(* TableValidator._valid_date (pinned by AST hash in the signature file): the six strptime
   formats are date_ok of Model/Validator.v; anything but a text makes strptime raise inside the
   bare try/except *)
Definition py_valid_date (v : json) : status :=
  match v with
  | JStr s => if date_ok s then None else Some [MSG_DATE]
  | _ => Some [MSG_DATE]
  end.
