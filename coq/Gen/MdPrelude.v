(* HAND-WRITTEN (not generated): the metadata-entry vocabulary tools/py2v's signature file
   helpers.json maps Python values to, over the encoding of Model/Orient.v (an entry is a Tree:
   md_none = None, md_empty = {}, tag 6 = a mapping, any other tag = not a mapping). *)
From Coq Require Import List ZArith Bool.
From BiomV Require Import Base.Tree Model.Orient.
Import ListNotations.

(* isinstance(m, dict) *)
Definition md_is_map (m : Tree) : bool :=
  match m with L (I 6%Z :: _) => true | _ => false end.

(* truth value of an entry, as far as it is modelled: None and the empty mapping are false.  The
   source takes it only of mappings (`isinstance(m, dict) and not m`). *)
Definition md_truth (m : Tree) : bool := negb (md_falsy m).

(* d.update(item) on mappings.  A defaultdict compares equal to the dict with the same items and the
   models treat entries as values, so updating the EMPTY mapping gives the argument; updating a
   non-empty mapping (which the source never does: d is always fresh) is kept symbolic, tag 7. *)
Definition md_update (d item : Tree) : Tree :=
  if tree_eqb d md_empty then item else L [I 7%Z; d; item].
