(* Shared by C12 (subsample) and C13 (transform): what the two value kernels see of a table.

   Both kernels are handed a compressed matrix whose MAJOR axis is the axis the caller named
   (table.py _get_sparse_data: CSC for 'sample', CSR for 'observation') and work on
   data[indptr[i]:indptr[i+1]], the STORED entries of vector i in stored order.  Which cells are
   stored, and in which order, is decided by the history of the table (sort_order leaves
   unsorted indices; a conversion sorts them).  At the content level this is an input:

     lay : list (list nat)      for every vector of the axis, the minor positions of its stored
                                entries, in stored order (= indices[indptr[i]:indptr[i+1]])

   gather  = the values the kernel reads for one vector,
   scatter = the dense vector denoted by the values it writes back (absent = zero).
   Theorems quantify over every layout that can denote the table (`lay_wf`, `lay_ok`), which is
   how "all prior histories/layouts" is covered. *)
From Coq Require Import List Arith ZArith Lia Bool.
From BiomV Require Import Base.Tree Base.ListUtil Base.Matrix Model.Table.
Import ListNotations.

(* numpy slice  l[s:e]  and slice assignment  l[s:e] = v  (len v = e - s) *)
Definition slice {A} (l : list A) (s e : nat) : list A := firstn (e - s) (skipn s l).
Definition splice {A} (l : list A) (s e : nat) (v : list A) : list A := firstn s l ++ v ++ skipn e l.

Definition nfind (j : nat) (ord : list nat) : option nat := index_of Nat.eqb j ord.

Section Poly.
  Context {V : Type} (zero : V).

  (* values stored for the positions [ord] of the dense vector [v] *)
  Definition gather (ord : list nat) (v : list V) : list V := map (fun j => nth j v zero) ord.

  (* dense vector of length [len] holding vals[k] at position ord[k], zero elsewhere *)
  Definition scatter (len : nat) (ord : list nat) (vals : list V) : list V :=
    map (fun j => match nfind j ord with Some k => nth k vals zero | None => zero end) (seq 0 len).

  (* transposition of a list of vectors (c = length of each vector) *)
  Definition ptranspose (c : nat) (m : list (list V)) : list (list V) :=
    map (fun j => map (fun r => nth j r zero) m) (seq 0 c).

  (* the observations x samples matrix whose vectors along [a] are [vs] *)
  Definition mat_of_vecs (a : axis) (n_other : nat) (vs : list (list V)) : list (list V) :=
    match a with Obs => vs | Samp => ptranspose n_other vs end.

  (* one dense vector per (dense vector, stored positions, values written back) *)
  Fixpoint scatter_all (vs : list (list Z)) (lay : list (list nat)) (outs : list (list V)) : list (list V) :=
    match vs with
    | [] => []
    | v :: vs' => scatter (length v) (hd [] lay) (hd [] outs) :: scatter_all vs' (tl lay) (tl outs)
    end.
End Poly.

(* the vectors of a table along an axis, in id order *)
Definition axis_vecs (a : axis) (t : table) : list (list Z) :=
  match a with Obs => mat t | Samp => transpose (nsamp t) (mat t) end.
Definition n_other (a : axis) (t : table) : nat := length (ids (other a) t).

(* the table with the same ids / metadata / type whose vectors along [a] are [vs] *)
Definition with_axis_vecs (a : axis) (t : table) (vs : list (list Z)) : table :=
  mkT (oids t) (sids t) (mat_of_vecs 0%Z a (n_other a t) vs) (omd t) (smd t) (ttype t).

(* what each call reads *)
Definition gather_all (vs : list (list Z)) (lay : list (list nat)) : list (list Z) :=
  map (fun p => gather 0%Z (snd p) (fst p)) (combine vs lay).

(* ---- layouts that can denote a vector ---- *)
(* every non-zero cell is stored, nothing is stored twice, nothing outside the vector *)
Definition ord_wf (v : list Z) (ord : list nat) : Prop :=
  NoDup ord /\ (forall j, In j ord -> j < length v) /\ (forall j, j < length v -> nth j v 0%Z <> 0%Z -> In j ord).
(* ... and no explicitly stored zero *)
Definition ord_ok (v : list Z) (ord : list nat) : Prop :=
  ord_wf v ord /\ (forall j, In j ord -> nth j v 0%Z <> 0%Z).

Definition lay_wf (vs : list (list Z)) (lay : list (list nat)) : Prop := Forall2 ord_wf vs lay.
Definition lay_ok (vs : list (list Z)) (lay : list (list nat)) : Prop := Forall2 ord_ok vs lay.

(* executable versions (used by the Examples and by the run wrappers to report the layout class) *)
Definition nmemb (j : nat) (l : list nat) : bool := existsb (Nat.eqb j) l.
Fixpoint nodupb (l : list nat) : bool := match l with [] => true | x :: r => negb (nmemb x r) && nodupb r end.
Definition ord_wfb (v : list Z) (ord : list nat) : bool :=
  nodupb ord && forallb (fun j => j <? length v) ord
  && forallb (fun j => Z.eqb (nth j v 0%Z) 0 || nmemb j ord) (seq 0 (length v)).
Definition ord_okb (v : list Z) (ord : list nat) : bool :=
  ord_wfb v ord && forallb (fun j => negb (Z.eqb (nth j v 0%Z) 0)) ord.

Fixpoint lay_wfb (vs : list (list Z)) (lay : list (list nat)) : bool :=
  match vs, lay with
  | [], [] => true
  | v :: vs', o :: lay' => ord_wfb v o && lay_wfb vs' lay'
  | _, _ => false
  end.
Fixpoint lay_okb (vs : list (list Z)) (lay : list (list nat)) : bool :=
  match vs, lay with
  | [], [] => true
  | v :: vs', o :: lay' => ord_okb v o && lay_okb vs' lay'
  | _, _ => false
  end.

(* the canonical layout: the non-zero positions in increasing order (what a conversion produces) *)
Definition canon_ord (v : list Z) : list nat := filter (fun j => negb (Z.eqb (nth j v 0%Z) 0)) (seq 0 (length v)).
Definition canon_lay (vs : list (list Z)) : list (list nat) := map canon_ord vs.

(* wire *)
Definition tLLN (t : Tree) : list (list nat) := map tLN (tL t).
