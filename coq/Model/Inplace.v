(* C07 (a): the `table = self if inplace else self.copy()` pattern at the content level (L1).
   A call has two observable outcomes: the content the receiver holds afterwards, and what is
   returned (the receiver itself, a new table, or an exception).
   table.py: filter (`table = self if inplace else self.copy()`), transform (same line; norm, pa, rankdata
   delegate to it), remove_empty (`if inplace: table = self else: table = self.copy()`),
   update_ids (`result = self if inplace else self.copy()`, with a duplicate check placed BEFORE for inplace). *)
From Coq Require Import List Arith ZArith Bool.
From BiomV Require Import Base.Tree Base.ListUtil Base.Matrix Model.Table Model.Filter Model.Reorder.
Import ListNotations.

Inductive ret := RSelf | RNew (t : table) | RRaise (code : Z).
Record outcome := mkO { recv_after : table; returned : ret }.

(* [core] is what the operation does to the content of the table it works on; an exception
   raised by [core] comes before any assignment to the table (filter: KeyError from the id lookup,
   _filter.pyx; update_ids: both TableExceptions precede the assignment when inplace) *)
Definition call (inplace : bool) (core : table -> result table) (t : table) : outcome :=
  if inplace
  then match core t with ROk t' => mkO t' RSelf | RErr c => mkO t (RRaise c) end
  else match core (copy t) with ROk t' => mkO t (RNew t') | RErr c => mkO t (RRaise c) end.

(* the content a caller holds after `r = t.op(..., inplace=...)` *)
Definition result_content (o : outcome) : result table :=
  match returned o with RSelf => ROk (recv_after o) | RNew t' => ROk t' | RRaise c => RErr c end.

(* ---- the operations that have an inplace flag ---- *)
Definition filter_call (keep : list Z) (invert : bool) (a : axis) (inplace : bool) : table -> outcome :=
  call inplace (filter_ids keep invert a).
Definition filter_pred_call (verdicts : list bool) (invert : bool) (a : axis) (inplace : bool) : table -> outcome :=
  call inplace (fun t => ROk (filter_pred verdicts invert a t)).
(* axis3: 0 observation, 1 sample, otherwise whole *)
Definition remove_empty_core (axis3 : Z) (t : table) : table :=
  match axis3 with 0%Z => remove_empty_axis Obs t | 1%Z => remove_empty_axis Samp t | _ => remove_empty_whole t end.
Definition remove_empty_call (axis3 : Z) (inplace : bool) : table -> outcome :=
  call inplace (fun t => ROk (remove_empty_core axis3 t)).
(* transform / norm / pa / rankdata: the kernel rewrites the stored values of every vector with a
   user function; whatever that does to the content is a function [g] of the content (C13 says which) *)
Definition transform_call (g : table -> table) (inplace : bool) : table -> outcome :=
  call inplace (fun t => ROk (g t)).
(* update_ids is not an instance of [call]: its two branches differ in the code (Model/Reorder.v) *)
Definition update_ids_call (m : list (Z * Z)) (a : axis) (strict inplace : bool) (t : table) : outcome :=
  match update_ids m a strict inplace t with
  | ROk t' => if inplace then mkO t' RSelf else mkO t (RNew t')
  | RErr c => mkO t (RRaise c)
  end.

(* wire *)
Definition eOutcome (o : outcome) : Tree :=
  match returned o with
  | RSelf => L [I 0; eTable (recv_after o)]
  | RNew t' => L [I 1; eTable (recv_after o); eTable t']
  | RRaise c => L [I 2; eTable (recv_after o); I c]
  end.
