(* L4: biom/cli/table_validator.py, TableValidator._validate_json and _validate_hdf5, statement
   by statement: Python truthiness, is_int (bools are not ints), isinstance (bools are ints),
   the order of the checks, the early returns, and the places where the code raises instead of
   reporting (an exception aborts the whole validation: nothing is reported valid).

   A report line is a small list of integers [kind; parameters] (see MSG_* below); the text of
   a line is not modelled. *)
From Coq Require Import String.
From Coq Require Import List Arith ZArith Lia Bool.
From BiomV Require Import Base.Tree Base.ListUtil Base.Matrix Base.TreeStr Model.Table Model.Json.
Import ListNotations.
Open Scope Z_scope.

Definition msg := list Z.
Definition status := option msg.           (* None is the empty status string *)

Definition MSG_MISSING := 1.               (* Missing field: key index *)
Definition MSG_FORMAT := 2.
Definition MSG_FORMAT_URL := 3.
Definition MSG_TYPE_EMPTY := 4.            (* "Unknown table type, however that is likely okay." *)
Definition MSG_TYPE_UNKNOWN := 5.
Definition MSG_ID_EMPTY := 6.
Definition MSG_MD := 7.
Definition MSG_REC_MISSING := 8.           (* axis, idx, 0 = id / 1 = metadata *)
Definition MSG_DUP := 9.                   (* axis, idx *)
Definition MSG_SHAPE_INT := 10.
Definition MSG_ENTRY := 11.                (* idx *)
Definition MSG_XY_TYPE := 12.
Definition MSG_VALUE := 13.
Definition MSG_X_RANGE := 14.
Definition MSG_Y_RANGE := 15.
Definition MSG_DENSE_COLS := 16.
Definition MSG_DENSE_TYPE := 17.
Definition MSG_DENSE_ROWS := 18.
Definition MSG_MATRIX_TYPE_DATA := 19.     (* "Unknown matrix type" from _valid_data *)
Definition MSG_MATRIX_TYPE := 20.
Definition MSG_ELEMENT_TYPE := 21.
Definition MSG_GENERATED_BY := 22.
Definition MSG_DATE := 23.
Definition MSG_NROWS := 24.
Definition MSG_NCOLS := 25.
Definition MSG_NOT_LIST := 26.            (* 'rows' / 'columns' is not a list: axis *)
Definition MSG_DATA_NOT_LIST := 27.

(* class attributes, table_validator.py:65-77 *)
Definition TABLE_TYPES : list str :=
  [K "otu table"; K "pathway table"; K "function table"; K "ortholog table"; K "gene table";
   K "metabolite table"; K "taxon table"].
Definition MATRIX_TYPES : list str := [K "sparse"; K "dense"].
Inductive etype := TInt | TStr | TFloat.
Definition ELEMENT_TYPES : list (str * etype) :=
  [(K "int", TInt); (K "str", TStr); (K "float", TFloat); (K "unicode", TStr)].
Definition FORMAT_VERSION : str := K "1.0.0".

(* "type in the controlled vocabulary" as the validator understands it *)
Definition vocabulary (ty : json) : Prop :=
  exists s, ty = JStr s /\ s <> [] /\ str_mem (map lower_char s) TABLE_TYPES = true.

(* ------------------------------------------------------------------ dates *)
(* _valid_date: datetime.strptime with six formats (the last two with a UTC offset, F47).  Fields are
   the digit groups of _strptime's regular expressions, then datetime's range checks.  ASCII
   digits only (see docs/C15.md). *)
Definition is_digit (c : Z) : bool := (48 <=? c) && (c <=? 57).
Definition digits_val (s : str) : Z := fold_left (fun a c => a * 10 + (c - 48)) s 0.
Definition all_digits (s : str) : bool := forallb is_digit s.

Fixpoint split_on (seps : list Z) (s : str) : option (str * str) :=
  match s with
  | [] => None
  | c :: t => if existsb (Z.eqb c) seps then Some ([], t)
              else match split_on seps t with Some (a, b) => Some (c :: a, b) | None => None end
  end.

Definition fld_year (s : str) : option Z :=
  if all_digits s && (length s =? 4)%nat && (1 <=? digits_val s) then Some (digits_val s) else None.
(* one or two digits with a value between lo and hi (a leading zero is fine in two digits) *)
Definition fld_2 (lo hi : Z) (s : str) : option Z :=
  if all_digits s && ((length s =? 1)%nat || (length s =? 2)%nat)
     && (lo <=? digits_val s) && (digits_val s <=? hi) then Some (digits_val s) else None.
Definition fld_month (s : str) : option Z := fld_2 1 12 s.
Definition fld_day (s : str) : option Z :=
  match s with
  | [32; c] => if (49 <=? c) && (c <=? 57) then Some (c - 48) else None
  | _ => fld_2 1 31 s
  end.
Definition fld_hour (s : str) : option Z := fld_2 0 23 s.
Definition fld_minute (s : str) : option Z := fld_2 0 59 s.
Definition fld_second (s : str) : option Z := fld_2 0 59 s.
Definition fld_micro (s : str) : bool := all_digits s && (1 <=? length s)%nat && (length s <=? 6)%nat.

Definition leap (y : Z) : bool := ((y mod 4 =? 0) && negb (y mod 100 =? 0)) || (y mod 400 =? 0).
Definition days_in_month (y m : Z) : Z :=
  if m =? 2 then (if leap y then 29 else 28)
  else if (m =? 4) || (m =? 6) || (m =? 9) || (m =? 11) then 30 else 31.
Definition ymd_ok (y m d : str) : bool :=
  match fld_year y, fld_month m, fld_day d with
  | Some yy, Some mm, Some dd => dd <=? days_in_month yy mm
  | _, _, _ => false
  end.
Definition is_some {A} (o : option A) : bool := match o with Some _ => true | None => false end.

(* the text a %z directive accepts (CPython 3.12 _strptime): Z, or a sign, two digits of hours,
   an optional colon, minutes 00-59, and optionally seconds 00-59 (after a colon iff the minutes
   came after one) with an optional fraction of 1-6 digits; the offset has to stay below 24 h *)
Definition two_digits (a b : Z) (hi : Z) : bool :=
  is_digit a && is_digit b && ((a - 48) * 10 + (b - 48) <=? hi).
Definition tz_frac (r : str) : bool :=
  match r with
  | [] => true
  | c :: f => (c =? 46) && fld_micro f
  end.
Definition tz_ok (z : str) : bool :=
  match z with
  | [c] => c =? 90
  | sg :: h1 :: h2 :: rest =>
      ((sg =? 43) || (sg =? 45)) && two_digits h1 h2 23 &&
      match rest with
      | c :: m1 :: m2 :: rest2 =>
          if c =? 58 then
            two_digits m1 m2 59 &&
            match rest2 with
            | [] => true
            | c2 :: s1 :: s2 :: rest3 => (c2 =? 58) && two_digits s1 s2 59 && tz_frac rest3
            | _ => false
            end
          else
            two_digits c m1 59 &&
            match m2 :: rest2 with
            | s1 :: s2 :: rest3 => two_digits s1 s2 59 && tz_frac rest3
            | _ => false
            end
      | [m1; m2] => two_digits m1 m2 59
      | _ => false
      end
  | _ => false
  end.

(* cut before the first sign or Z: the seconds (or the fraction) and the offset *)
Fixpoint break_at_tz (s : str) : option (str * str) :=
  match s with
  | [] => None
  | c :: t => if (c =? 43) || (c =? 45) || (c =? 90) then Some ([], s)
              else match break_at_tz t with Some (a, b) => Some (c :: a, b) | None => None end
  end.

(* the text after the minutes' colon: %S, %S.%f, %S%z, %S.%f%z *)
Definition seconds_ok (r5 : str) : bool :=
  is_some (fld_second r5)
  || match split_on [46] r5 with
     | None => false
     | Some (sec, f) => is_some (fld_second sec) && fld_micro f
     end
  || match break_at_tz r5 with
     | None => false
     | Some (sec, z) => is_some (fld_second sec) && tz_ok z
     end
  || match split_on [46] r5 with
     | None => false
     | Some (sec, fz) =>
         is_some (fld_second sec) &&
         match break_at_tz fz with
         | None => false
         | Some (f, z) => fld_micro f && tz_ok z
         end
     end.

Definition date_ok (s : str) : bool :=
  match split_on [45] s with
  | None => false
  | Some (y, r1) =>
      match split_on [45] r1 with
      | None => false
      | Some (m, r2) =>
          (* %Y-%m-%d *)
          ymd_ok y m r2 ||
          match split_on [84; 116] r2 with
          | None => false
          | Some (d, r3) =>
              ymd_ok y m d &&
              match split_on [58] r3 with
              | None => false
              | Some (h, r4) =>
                  is_some (fld_hour h) &&
                  ((* %Y-%m-%dT%H:%M *)
                   is_some (fld_minute r4) ||
                   match split_on [58] r4 with
                   | None => false
                   | Some (mi, r5) => is_some (fld_minute mi) && seconds_ok r5
                   end)
              end
          end
      end
  end.

(* ------------------------------------------------------------------ per-key validators *)
Definition is_null (j : json) : bool := match j with JNull => true | _ => false end.

(* _valid_format, 524-531 *)
Definition valid_format (j : json) : result status :=
  v <- py_getitem j (K "format") ;;
  if py_eq v (JStr FORMAT_1_0) || py_eq v (JStr FORMAT_VERSION) then ROk None else ROk (Some [MSG_FORMAT]).

(* _valid_format_url, 399-407 *)
Definition valid_format_url (j : json) : result status :=
  v <- py_get j (K "format_url") ;;
  if py_eq v (JStr FORMAT_URL) then ROk None else ROk (Some [MSG_FORMAT_URL]).

(* _valid_type, 533-542 *)
Definition valid_type (j : json) : result status :=
  v <- py_get j (K "type") ;;
  if is_null v || py_eq v (JStr []) then ROk (Some [MSG_TYPE_EMPTY])
  else
    l <- py_lower v ;;
    if str_mem l TABLE_TYPES then ROk None else ROk (Some [MSG_TYPE_UNKNOWN]).

(* the loop of _valid_rows / _valid_columns, 586-599 and 612-625; seen is the set of IDs met *)
Fixpoint axis_loop (axis idx : Z) (recs seen : list json) : result status :=
  match recs with
  | [] => ROk None
  | r :: t =>
      b1 <- py_in (K "id") r ;;
      if negb b1 then ROk (Some [MSG_REC_MISSING; axis; idx; 0]) else
      idv <- py_getitem r (K "id") ;;
      if negb (py_truthy idv) then ROk (Some [MSG_ID_EMPTY]) else
      b2 <- py_in (K "metadata") r ;;
      if negb b2 then ROk (Some [MSG_REC_MISSING; axis; idx; 1]) else
      md <- py_getitem r (K "metadata") ;;
      if negb (is_null md || is_obj md) then ROk (Some [MSG_MD]) else
      if negb (py_hashable idv) then RErr E_TYPE else
      if existsb (py_eq idv) seen then ROk (Some [MSG_DUP; axis; idx]) else
      axis_loop axis (idx + 1) t (idv :: seen)
  end.

(* _valid_rows 575-599, _valid_columns 601-625 *)
Definition valid_axis (axis : Z) (key : str) (j : json) : result status :=
  ty <- py_get j (K "type") ;;
  _ <- py_lower (if is_null ty then JStr [] else ty) ;;
  rs <- py_getitem j key ;;
  match rs with
  | JArr recs => axis_loop axis 0 recs []
  | _ => ROk (Some [MSG_NOT_LIST; axis])
  end.
Definition valid_rows := valid_axis 0 (K "rows").
Definition valid_columns := valid_axis 1 (K "columns").

(* _valid_shape, 409-416 *)
Definition valid_shape (j : json) : result status :=
  sh <- py_get j (K "shape") ;;
  ab <- py_unpack2 sh ;;
  if py_is_int (fst ab) && py_is_int (snd ab) then ROk None else ROk (Some [MSG_SHAPE_INT]).

(* self.ElementTypes[table_json['matrix_element_type']] *)
Definition element_dtype (j : json) : result etype :=
  met <- py_getitem j (K "matrix_element_type") ;;
  if negb (py_hashable met) then RErr E_TYPE else
  match find (fun p => py_eq met (JStr (fst p))) ELEMENT_TYPES with
  | Some p => ROk (snd p)
  | None => RErr E_KEY
  end.

(* not isinstance(val, bool) and isinstance(val, dtype) *)
Definition py_isinstance (v : json) (t : etype) : bool :=
  match t, v with
  | TInt, JInt _ => true
  | TFloat, JFlt _ => true
  | TStr, JStr _ => true
  | _, _ => false
  end.

(* n -= 1 : the result times SCALE *)
Definition py_sub1 (j : json) : result Z :=
  match numval j with Some v => ROk (v - SCALE) | None => RErr E_TYPE end.

(* x, y, val = coord  inside try/except *)
Definition unpack3 (cd : json) : option (json * json * json) :=
  match py_iter cd with
  | ROk [x; y; v] => Some (x, y, v)
  | _ => None
  end.

(* the loop of _valid_sparse_data, 479-497; nr1, nc1 are n_rows - 1, n_cols - 1 times SCALE *)
Fixpoint sparse_loop (dt : etype) (nr1 nc1 : Z) (idx : Z) (data : list json) : status :=
  match data with
  | [] => None
  | cd :: t =>
      match unpack3 cd with
      | None => Some [MSG_ENTRY; idx]
      | Some (x, y, v) =>
          match x, y with
          | JInt a, JInt b =>
              if negb (py_isinstance v dt) then Some [MSG_VALUE; idx]
              else if (a <? 0) || (nr1 <? SCALE * a) then Some [MSG_X_RANGE; idx]
              else if (b <? 0) || (nc1 <? SCALE * b) then Some [MSG_Y_RANGE; idx]
              else sparse_loop dt nr1 nc1 (idx + 1) t
          | _, _ => Some [MSG_XY_TYPE; idx]
          end
      end
  end.

(* _valid_sparse_data, 472-497 *)
Definition valid_sparse_data (j : json) : result status :=
  dt <- element_dtype j ;;
  sh <- py_getitem j (K "shape") ;;
  ab <- py_unpack2 sh ;;
  nr1 <- py_sub1 (fst ab) ;;
  nc1 <- py_sub1 (snd ab) ;;
  d <- py_getitem j (K "data") ;;
  entries <- py_iter d ;;
  ROk (sparse_loop dt nr1 nc1 0 entries).

(* the loop of _valid_dense_data, 504-509 *)
Fixpoint dense_loop (dt : etype) (nc : json) (rows : list json) : result status :=
  match rows with
  | [] => ROk None
  | r :: t =>
      n <- py_len r ;;
      if py_ne_nat n nc then ROk (Some [MSG_DENSE_COLS]) else
      items <- py_iter r ;;
      match items with
      | [] => RErr E_TYPE                     (* reduce() of an empty sequence *)
      | _ => if forallb (fun v => py_isinstance v dt) items then dense_loop dt nc t
             else ROk (Some [MSG_DENSE_TYPE])
      end
  end.

(* _valid_dense_data, 499-514 *)
Definition valid_dense_data (j : json) : result status :=
  dt <- element_dtype j ;;
  sh <- py_getitem j (K "shape") ;;
  ab <- py_unpack2 sh ;;
  d <- py_getitem j (K "data") ;;
  rows <- py_iter d ;;
  s <- dense_loop dt (snd ab) rows ;;
  match s with
  | Some m => ROk (Some m)
  | None => n <- py_len d ;; if py_ne_nat n (fst ab) then ROk (Some [MSG_DENSE_ROWS]) else ROk None
  end.

(* _valid_data, 627-634 *)
Definition valid_data (j : json) : result status :=
  d <- py_getitem j (K "data") ;;
  if negb (match d with JArr _ => true | _ => false end) then ROk (Some [MSG_DATA_NOT_LIST]) else
  mt <- py_getitem j (K "matrix_type") ;;
  l <- py_lower mt ;;
  if str_eqb l (K "sparse") then valid_sparse_data j
  else if str_eqb l (K "dense") then valid_dense_data j
  else ROk (Some [MSG_MATRIX_TYPE_DATA]).

(* _valid_matrix_type, 418-423: membership in a set hashes the value *)
Definition valid_matrix_type (j : json) : result status :=
  mt <- py_getitem j (K "matrix_type") ;;
  if negb (py_hashable mt) then RErr E_TYPE else
  if existsb (fun t => py_eq mt (JStr t)) MATRIX_TYPES then ROk None else ROk (Some [MSG_MATRIX_TYPE]).

(* _valid_matrix_element_type, 425-430 *)
Definition valid_matrix_element_type (j : json) : result status :=
  met <- py_getitem j (K "matrix_element_type") ;;
  if negb (py_hashable met) then RErr E_TYPE else
  if existsb (fun p => py_eq met (JStr (fst p))) ELEMENT_TYPES then ROk None else ROk (Some [MSG_ELEMENT_TYPE]).

(* _valid_generated_by, 544-551 *)
Definition valid_generated_by (j : json) : result status :=
  v <- py_get j (K "generated_by") ;;
  if py_truthy v then ROk None else ROk (Some [MSG_GENERATED_BY]).

(* _valid_nullable_id, 553-556 *)
Definition valid_nullable_id (j : json) : result status := ROk None.

(* _valid_datetime, 463-470 *)
Definition valid_datetime (j : json) : result status :=
  v <- py_getitem j (K "date") ;;
  match v with
  | JStr s => if date_ok s then ROk None else ROk (Some [MSG_DATE])
  | _ => ROk (Some [MSG_DATE])
  end.

(* required_keys of _validate_json, 330-343, in order *)
Definition REQUIRED : list (str * (json -> result status)) :=
  [(K "format", valid_format); (K "format_url", valid_format_url); (K "type", valid_type);
   (K "rows", valid_rows); (K "columns", valid_columns); (K "shape", valid_shape);
   (K "data", valid_data); (K "matrix_type", valid_matrix_type);
   (K "matrix_element_type", valid_matrix_element_type); (K "generated_by", valid_generated_by);
   (K "id", valid_nullable_id); (K "date", valid_datetime)].

(* the loop over required_keys, 345-355 *)
Fixpoint run_required (j : json) (l : list (str * (json -> result status))) (idx : Z) : result (list msg) :=
  match l with
  | [] => ROk []
  | (k, m) :: t =>
      b <- py_in k j ;;
      if negb b then rest <- run_required j t (idx + 1) ;; ROk ([MSG_MISSING; idx] :: rest)
      else
        s <- m j ;;
        rest <- run_required j t (idx + 1) ;;
        ROk (match s with Some x => x :: rest | None => rest end)
  end.

(* the cross-check of 'shape' with 'rows' and 'columns', 357-368 *)
Definition count_check (j : json) (key : str) (pos : nat) (m : msg) : result (list msg) :=
  has <- py_in key j ;;
  if has then
    rs <- py_getitem j key ;;
    n <- py_len rs ;;
    sh <- py_getitem j (K "shape") ;;
    s <- py_index sh pos ;;
    ROk (if py_ne_nat n s then [m] else [])
  else ROk [].

Definition shape_checks (j : json) : result (list msg) :=
  has <- py_in (K "shape") j ;;
  if has then
    a <- count_check j (K "rows") 0 [MSG_NROWS] ;;
    b <- count_check j (K "columns") 1 [MSG_NCOLS] ;;
    ROk (a ++ b)
  else ROk [].

(* _validate_json, 320-370: the report lines; the table is valid iff there is none *)
Definition validate_json_report (j : json) : result (list msg) :=
  a <- run_required j REQUIRED 0 ;;
  b <- shape_checks j ;;
  ROk (a ++ b).

Definition validate_json (j : json) : bool :=
  match validate_json_report j with ROk [] => true | _ => false end.

(* ================================================================== HDF5 *)
(* A BIOM 2.x file as far as the validator looks at it. *)
Inductive h5attr :=
| AStr (s : str)
| AInt (z : Z)
| AFlt (k : Z)
| AInts (l : list Z)
| AFlts (l : list Z).

Inductive h5node :=
| HGroup (ch : list (str * h5node))
| HStrs (l : list str)          (* variable-length text dataset *)
| HInts (l : list Z)
| HFlts (l : list Z)            (* float dataset, values as codes *)
| HEmpty                        (* the empty float dataset written for the IDs of an empty axis *)
| HOther (n : nat).             (* a dataset of n booleans, complex numbers, ... (numpy kind not in f, i, u, O, S, U) *)

Record h5file := mkH5 { h_attrs : list (str * h5attr); h_root : list (str * h5node) }.

Fixpoint hget (ch : list (str * h5node)) (k : str) : option h5node :=
  match ch with
  | [] => None
  | (k', v) :: t => if str_eqb k k' then Some v else hget t k
  end.
Fixpoint hfind (ch : list (str * h5node)) (path : list str) : option h5node :=
  match path with
  | [] => None
  | [k] => hget ch k
  | k :: rest => match hget ch k with Some (HGroup sub) => hfind sub rest | _ => None end
  end.
Fixpoint aget (l : list (str * h5attr)) (k : str) : option h5attr :=
  match l with
  | [] => None
  | (k', v) :: t => if str_eqb k k' then Some v else aget t k
  end.

Definition HMSG_ATTR := 101.        (* Missing attribute: index *)
Definition HMSG_GROUP := 102.       (* Missing required group: index *)
Definition HMSG_DATASET := 103.     (* Missing required dataset: index *)
Definition HMSG_DUP := 104.         (* Duplicate ID: axis *)
Definition HMSG_NO_OIDS := 105.
Definition HMSG_NO_SIDS := 106.
Definition HMSG_NOBS := 107.
Definition HMSG_NSAMP := 108.
Definition HMSG_MATRIX := 109.      (* axis, which check *)
Definition HMSG_NO_SHAPE := 110.
Definition HMSG_VERSION := 111.     (* "Table indicates it is version ..." *)
Definition HMSG_MD := 112.          (* metadata complaint of _valid_hdf5_metadata_v210: which *)
Definition HMSG_FORMAT_VERSION := 113.
Definition HMSG_NNZ := 114.         (* 0 not an integer, 1 negative *)
Definition HMSG_EMPTY_ID := 115.    (* axis *)

(* attribute validators on the attribute kinds h5py returns for files written by to_hdf5 and
   for the mutants of the harness; other kinds are E_UNMODELLED *)
Definition hv_format_url (a : h5attr) : result status :=
  match a with
  | AStr s => ROk (if str_eqb s FORMAT_URL then None else Some [MSG_FORMAT_URL])
  | _ => RErr E_UNMODELLED
  end.
Definition HDF5_VERSIONS : list (list Z) := [[2; 0]; [2; 0; 0]; [2; 1]; [2; 1; 0]].
Definition hv_format_version (a : h5attr) : result status :=
  match a with
  | AInts l => ROk (if existsb (list_eqb Z.eqb l) HDF5_VERSIONS then None else Some [HMSG_FORMAT_VERSION])
  | AInt _ | AFlt _ => RErr E_TYPE            (* tuple() of a scalar *)
  | _ => RErr E_UNMODELLED
  end.
Definition hv_type (a : h5attr) : result status :=
  match a with
  | AStr s => ROk (if match s with [] => true | _ => false end then Some [MSG_TYPE_EMPTY]
                   else if str_mem (map lower_char s) TABLE_TYPES then None else Some [MSG_TYPE_UNKNOWN])
  | AInt _ | AFlt _ => RErr E_ATTR
  | _ => RErr E_UNMODELLED
  end.
Definition hv_shape (a : h5attr) : result status :=
  match a with
  | AInts [_; _] => ROk None
  | AFlts [_; _] => ROk (Some [MSG_SHAPE_INT])
  | AInts _ | AFlts _ => RErr E_VALUE
  | AInt _ | AFlt _ => RErr E_TYPE
  | AStr _ => RErr E_UNMODELLED
  end.
Definition hv_nnz (a : h5attr) : result status :=
  match a with
  | AInt z => ROk (if z <? 0 then Some [HMSG_NNZ; 1] else None)
  | AFlt _ => ROk (Some [HMSG_NNZ; 0])
  | _ => RErr E_UNMODELLED
  end.
Definition hv_generated_by (a : h5attr) : result status :=
  match a with
  | AStr s => ROk (match s with [] => Some [MSG_GENERATED_BY] | _ => None end)
  | AInt z => ROk (if z =? 0 then Some [MSG_GENERATED_BY] else None)
  | _ => RErr E_UNMODELLED
  end.
Definition hv_id (a : h5attr) : result status := ROk None.
Definition hv_creation_date (a : h5attr) : result status :=
  match a with
  | AStr s => ROk (if date_ok s then None else Some [MSG_DATE])
  | _ => ROk (Some [MSG_DATE])
  end.

Definition H_REQUIRED_ATTRS : list (str * (h5attr -> result status)) :=
  [(K "format-url", hv_format_url); (K "format-version", hv_format_version); (K "type", hv_type);
   (K "shape", hv_shape); (K "nnz", hv_nnz); (K "generated-by", hv_generated_by); (K "id", hv_id);
   (K "creation-date", hv_creation_date)].
Definition P2 (a b : string) : list str := [K a; K b].
Definition P3 (a b c : string) : list str := [K a; K b; K c].
Definition H_REQUIRED_GROUPS : list (list str) :=
  [[K "observation"]; [K "sample"]; P2 "observation" "matrix"; P2 "sample" "matrix"].
Definition H_REQUIRED_DATASETS : list (list str) :=
  [P2 "observation" "ids"; P3 "observation" "matrix" "data"; P3 "observation" "matrix" "indices";
   P3 "observation" "matrix" "indptr"; P2 "sample" "ids"; P3 "sample" "matrix" "data";
   P3 "sample" "matrix" "indices"; P3 "sample" "matrix" "indptr"].

Fixpoint run_attrs (f : h5file) (l : list (str * (h5attr -> result status))) (idx : Z) : result (list msg) :=
  match l with
  | [] => ROk []
  | (k, v) :: t =>
      match aget (h_attrs f) k with
      | None => rest <- run_attrs f t (idx + 1) ;; ROk ([HMSG_ATTR; idx] :: rest)
      | Some a =>
          s <- v a ;;
          rest <- run_attrs f t (idx + 1) ;;
          ROk (match s with Some x => x :: rest | None => rest end)
      end
  end.

Fixpoint missing_paths (f : h5file) (code : Z) (l : list (list str)) (idx : Z) : list msg :=
  match l with
  | [] => []
  | p :: t => match hfind (h_root f) p with
              | Some _ => missing_paths f code t (idx + 1)
              | None => [code; idx] :: missing_paths f code t (idx + 1)
              end
  end.

Definition axis_name (ax : Z) : string := if ax =? 0 then "observation"%string else "sample"%string.

(* elements of a dataset as comparable values; len() of a node *)
Definition node_len (n : h5node) : nat :=
  match n with
  | HGroup ch => length ch
  | HStrs l => length l
  | HInts l => length l
  | HFlts l => length l
  | HEmpty => 0
  | HOther n => n
  end.

(* _valid_hdf5_ids: the first ID that is empty or was met before *)
Fixpoint ids_loop (ax : Z) (l seen : list str) : list msg :=
  match l with
  | [] => []
  | s :: t => match s with
              | [] => [[HMSG_EMPTY_ID; ax]]
              | _ => if str_mem s seen then [[HMSG_DUP; ax]] else ids_loop ax t (s :: seen)
              end
  end.
Definition hv_ids (f : h5file) (ax : Z) : result (list msg) :=
  match hfind (h_root f) (P2 (axis_name ax) "ids") with
  | None => ROk []
  | Some (HGroup _) => RErr E_TYPE
  | Some (HStrs l) => ROk (ids_loop ax l [])
  | Some (HInts l) | Some (HFlts l) =>
      match l with [] => ROk [] | _ => RErr E_TYPE end          (* len() of a number *)
  | Some HEmpty => ROk []
  | Some (HOther n) => match n with O => ROk [] | _ => RErr E_TYPE end
  end.

Fixpoint decreasing (l : list Z) : bool :=
  match l with
  | a :: ((b :: _) as t) => (b <? a) || decreasing t
  | _ => false
  end.

(* _valid_hdf5_matrix, 250-283; n_vectors, n_positions from the shape, times SCALE (h5py
   hands back the shape as the array it was stored as, possibly of floats) *)
Definition int_kind (n : h5node) : result bool :=
  match n with HInts _ => ROk true | HGroup _ => RErr E_ATTR | _ => ROk false end.
Definition hv_matrix (f : h5file) (ax : Z) (n_vec n_pos : Z) : result (list msg) :=
  let name := axis_name ax in
  match hfind (h_root f) (P3 name "matrix" "data"), hfind (h_root f) (P3 name "matrix" "indices"),
        hfind (h_root f) (P3 name "matrix" "indptr") with
  | Some d, Some ni, Some np =>
      match d with
      | HGroup _ => RErr E_ATTR                       (* a group has no dtype *)
      | HStrs _ | HOther _ => ROk [[HMSG_MATRIX; ax; 5]]
      | _ =>
          ki <- int_kind ni ;;
          if negb ki then ROk [[HMSG_MATRIX; ax; 6]] else
          kp <- int_kind np ;;
          if negb kp then ROk [[HMSG_MATRIX; ax; 7]] else
          match ni, np with
          | HInts indices, HInts indptr =>
              let n_data := Z.of_nat (node_len d) in
              if negb (Z.of_nat (length indices) =? n_data) then ROk [[HMSG_MATRIX; ax; 0]]
              else if negb (SCALE * Z.of_nat (length indptr) =? n_vec + SCALE) then ROk [[HMSG_MATRIX; ax; 1]]
              else
                match indptr with
                | [] => RErr E_INDEX
                | p0 :: _ =>
                    if negb (p0 =? 0) || negb (last indptr 0 =? n_data) then ROk [[HMSG_MATRIX; ax; 2]]
                    else if decreasing indptr then ROk [[HMSG_MATRIX; ax; 3]]
                    else if (0 <? n_data) && existsb (fun i => (i <? 0) || (n_pos <=? SCALE * i)) indices
                         then ROk [[HMSG_MATRIX; ax; 4]]
                         else ROk []
                end
          | _, _ => ROk []
          end
      end
  | _, _, _ => ROk []                      (* not all three datasets present: the check is skipped *)
  end.

(* _valid_hdf5_metadata_v210, 299-318: the first complaint *)
Definition hv_metadata_v210 (f : h5file) : result (list msg) :=
  let has q := match hfind (h_root f) q with Some _ => true | None => false end in
  if negb (has (P2 "observation" "metadata")) then ROk [[HMSG_MD; 0]]
  else if negb (has (P2 "observation" "group-metadata")) then ROk [[HMSG_MD; 1]]
  else if negb (has (P2 "sample" "metadata")) then ROk [[HMSG_MD; 2]]
  else if negb (has (P2 "sample" "group-metadata")) then ROk [[HMSG_MD; 3]]
  else
    match hfind (h_root f) (P2 "observation" "ids"), hfind (h_root f) (P2 "sample" "ids") with
    | Some oi, Some si =>
        let bad n g := match g with
                       | Some (HGroup ch) => existsb (fun p => negb (node_len (snd p) =? n)%nat) ch
                       | _ => false
                       end in
        match hfind (h_root f) (P2 "observation" "metadata") with
        | Some (HGroup _) =>
            if bad (node_len oi) (hfind (h_root f) (P2 "observation" "metadata")) then ROk [[HMSG_MD; 4]]
            else match hfind (h_root f) (P2 "sample" "metadata") with
                 | Some (HGroup _) =>
                     if bad (node_len si) (hfind (h_root f) (P2 "sample" "metadata")) then ROk [[HMSG_MD; 4]]
                     else ROk []
                 | _ => RErr E_ATTR            (* a dataset has no items() *)
                 end
        | _ => RErr E_ATTR
        end
    | _, _ => RErr E_KEY
    end.

(* 178-211: shape against the ID datasets and the two matrices; n_obs, n_samp times SCALE *)
Definition shape_part (f : h5file) (n_obs n_samp : Z) : result (list msg) :=
  let oi := hfind (h_root f) (P2 "observation" "ids") in
  let si := hfind (h_root f) (P2 "sample" "ids") in
  match oi, si with
  | Some o, Some s' =>
      let m3 := if negb (n_obs =? SCALE * Z.of_nat (node_len o)) then [[HMSG_NOBS]] else [] in
      let m4 := if negb (n_samp =? SCALE * Z.of_nat (node_len s')) then [[HMSG_NSAMP]] else [] in
      x0 <- hv_matrix f 0 n_obs n_samp ;;
      x1 <- hv_matrix f 1 n_samp n_obs ;;
      ROk (m3 ++ m4 ++ x0 ++ x1)
  | _, _ => RErr E_TYPE              (* a message is appended, then len(None) raises *)
  end.

Definition HMSG_WARN20 := 116.      (* "WARNING: 2.0 is not actively supported!": a line that does not clear valid_table *)

(* _valid_hdf5_metadata_v200, 295-309: json.loads of the first element of the "metadata"
   dataset of each axis, when there is one.  A text dataset is E_UNMODELLED (its content would
   have to be parsed); everything else raises or passes. *)
Definition v200_axis (f : h5file) (ax : string) : result (list msg) :=
  match hget (h_root f) (K ax) with
  | None => RErr E_KEY
  | Some (HGroup ch) =>
      match hget ch (K "metadata") with
      | None => ROk []
      | Some (HGroup _) => RErr E_TYPE                  (* group[0] *)
      | Some (HInts (_ :: _)) | Some (HFlts (_ :: _)) => RErr E_TYPE   (* json.loads of a number *)
      | Some _ => RErr E_UNMODELLED
      end
  | Some _ => RErr E_ATTR
  end.
Definition hv_metadata_v200 (f : h5file) : result (list msg) :=
  o <- v200_axis f "observation" ;;
  match o with [] => v200_axis f "sample" | _ => ROk o end.

(* the version the caller asked for, as _validate_hdf5 distinguishes it: '2.0' / '2.0.0', or anything else *)
Inductive hver := HV20 | HV21.

(* 216-239: (lines that do not clear valid_table, lines that do) *)
Definition version_part (ver : hver) (f : h5file) : result (list msg * list msg) :=
  match aget (h_attrs f) (K "format-version") with
  | None => ROk ([], [])
  | Some (AInts l) =>
      match ver with
      | HV21 => if list_eqb Z.eqb l [2; 1] then e <- hv_metadata_v210 f ;; ROk ([], e)
                else ROk ([], [[HMSG_VERSION]])
      | HV20 => if list_eqb Z.eqb l [2; 0] then e <- hv_metadata_v200 f ;; ROk ([[HMSG_WARN20]], e)
                else ROk ([], [[HMSG_VERSION]])
      end
  | Some _ => RErr E_UNMODELLED
  end.

(* _validate_hdf5, 119-241.  Result: (valid_table, report lines). *)
Definition validate_hdf5_report_as (ver : hver) (f : h5file) : result (bool * list msg) :=
  a <- run_attrs f H_REQUIRED_ATTRS 0 ;;
  let g := missing_paths f HMSG_GROUP H_REQUIRED_GROUPS 0 in
  let d := missing_paths f HMSG_DATASET H_REQUIRED_DATASETS 0 in
  i0 <- hv_ids f 0 ;;
  i1 <- hv_ids f 1 ;;
  s <- match aget (h_attrs f) (K "shape") with
       | None => ROk [[HMSG_NO_SHAPE]]
       | Some (AInts [a0; b0]) => shape_part f (SCALE * a0) (SCALE * b0)
       | Some (AFlts [a0; b0]) => shape_part f a0 b0
       | Some (AInts _) | Some (AFlts _) => RErr E_VALUE
       | Some (AInt _) | Some (AFlt _) => RErr E_TYPE
       | Some (AStr _) => RErr E_UNMODELLED
       end ;;
  v <- version_part ver f ;;
  let decisive := a ++ g ++ d ++ i0 ++ i1 ++ s ++ snd v in
  ROk (match decisive with [] => true | _ => false end, a ++ g ++ d ++ i0 ++ i1 ++ s ++ fst v ++ snd v).

Definition validate_hdf5_as (ver : hver) (f : h5file) : bool :=
  match validate_hdf5_report_as ver f with ROk (true, _) => true | _ => false end.
(* the default of run(): format_version None -> '2.1' *)
Definition validate_hdf5_report := validate_hdf5_report_as HV21.
Definition validate_hdf5 := validate_hdf5_as HV21.

(* ------------------------------------------------------------------ run(): the requested version *)
(* table_validator.py:79-94.  int() is modelled for ASCII digit strings (Python also accepts
   surrounding blanks, a sign, underscores). *)
Fixpoint split_dot (s cur : str) : list str :=
  match s with
  | [] => [rev cur]
  | c :: t => if c =? 46 then rev cur :: split_dot t [] else split_dot t (c :: cur)
  end.
Definition py_int (s : str) : result Z :=
  match s with
  | [] => RErr E_VALUE
  | _ => if all_digits s then ROk (digits_val s) else RErr E_VALUE
  end.
Definition is_none_text (fv : option str) : bool :=
  match fv with None => true | Some s => str_eqb s (K "None") end.

Definition run_version_hdf5 (fv : option str) : result hver :=
  if is_none_text fv then ROk HV21 else
  match fv with
  | None => ROk HV21
  | Some s =>
      comps <- mapM py_int (split_dot s []) ;;
      if existsb (list_eqb Z.eqb comps) HDF5_VERSIONS
      then ROk (if str_mem s [K "2.0"; K "2.0.0"] then HV20 else HV21)
      else RErr E_VALUE
  end.
Definition run_version_json (fv : option str) : result unit :=
  if is_none_text fv then ROk tt else
  match fv with
  | Some s => if str_eqb s (K "1.0.0") then ROk tt else RErr E_VALUE
  | None => ROk tt
  end.

(* run() on an HDF5 file / on a JSON document *)
Definition run_hdf5 (fv : option str) (f : h5file) : result (bool * list msg) :=
  ver <- run_version_hdf5 fv ;; validate_hdf5_report_as ver f.
Definition run_json (fv : option str) (j : json) : result (list msg) :=
  _ <- run_version_json fv ;; validate_json_report j.
