(* Shared by the concat (C10) and partition/collapse (C11) models:
   - the metadata normalisation every Table constructor call performs,
   - orientation (operate on rows whatever the requested axis is),
   - sorted(...) over id codes (the harness gives order preserving codes),
   - sort_order on the column axis.
   Line numbers cite biom/table.py of the pinned tree (32a1913a, as in properties.jsonl); later
   repairs shift them by a few dozen lines, the statement order inside each method is unchanged. *)
From Coq Require Import List Arith ZArith Lia Bool.
From BiomV Require Import Base.Tree Base.ListUtil Base.Matrix Model.Table.
Import ListNotations.

(* ---- metadata entries as the harness encodes them (tables.md_tree) ---- *)
Definition md_none : Tree := L [I 0].            (* None *)
Definition md_empty : Tree := L [I 6; L []].     (* the empty dict *)
(* python truth value "not m" for an entry that is None or a dict *)
Definition md_falsy (m : Tree) : bool := tree_eqb m md_none || tree_eqb m md_empty.

(* Table.__init__ table.py:495-513 followed by _cast_metadata table.py:660-688:
   a list whose entries are all falsy becomes None (the empty list too),
   otherwise every None entry becomes an empty dict. *)
Definition cast_entry (m : Tree) : Tree := if tree_eqb m md_none then md_empty else m.
Definition ctor_md (md : option (list Tree)) : option (list Tree) :=
  match md with
  | None => None
  | Some l => if forallb md_falsy l then None else Some (map cast_entry l)
  end.

(* what iter / concat use when an axis has no metadata: one None per id *)
Definition md_list (md : option (list Tree)) (n : nat) : list Tree :=
  match md with Some l => l | None => repeat md_none n end.

(* the metadata of an id as a user sees it, None and the empty dict identified *)
Definition md_view (a : axis) (t : table) (x : Z) : Tree :=
  match md_of a t x with Some m => cast_entry m | None => md_empty end.

(* ---- orientation ---- *)
Definition flip (t : table) : table :=
  mkT (sids t) (oids t) (transpose (nsamp t) (mat t)) (smd t) (omd t) (ttype t).
(* after orient a, the vectors of axis a are the rows *)
Definition orient (a : axis) (t : table) : table := match a with Obs => t | Samp => flip t end.

(* cell addressed by (id on axis a, id on the other axis) *)
Definition cellx (a : axis) (t : table) (x y : Z) : option Z :=
  match a with Obs => cell t x y | Samp => cell t y x end.
Definition cellx0 (a : axis) (t : table) (x y : Z) : Z :=
  match cellx a t x y with Some v => v | None => 0%Z end.

(* ---- sorted() over codes ---- *)
Fixpoint insert (x : Z) (l : list Z) : list Z :=
  match l with
  | [] => [x]
  | y :: r => if Z.leb x y then x :: l else y :: insert x r
  end.
Definition isort (l : list Z) : list Z := fold_right insert [] l.

(* ---- sort_order on the sample (column) axis, table.py:2203-2218 ---- *)
Definition pos0 (y : Z) (l : list Z) : nat := match pos y l with Some j => j | None => 0 end.
Definition sort_order_cols (order : list Z) (t : table) : table :=
  let fancy := map (fun y => pos0 y (sids t)) order in
  mkT (oids t) order (perm_cols fancy (mat t)) (ctor_md (omd t))
      (ctor_md (option_map (fun l => map (fun j => nth j l md_none) fancy) (smd t)))
      (ttype t).
