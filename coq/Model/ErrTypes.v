(* Hand-written prelude of the generated model of biom/err.py (coq/Gen/ErrGen.v): the types
   the translator's signature file (tools/py2v/sigs/err.json) maps Python values to.  Nothing
   in this file transcribes source code. *)
From Coq Require Import List String Bool Arith ZArith.
From BiomV Require Import Base.ListUtil Base.Dict.
Import ListNotations.
Open Scope string_scope. Open Scope list_scope.

Inductive exn := KeyError (msg : string) | TableException (msg : string) | TypeError.
Inductive res (A : Type) := Ok (a : A) | Raise (e : exn).
Arguments Ok {A}. Arguments Raise {A}.

(* what the seven test predicates look at: `t.is_empty()`, `t.shape`, `t.ids(axis=..)` (ids as
   integers) and `t.metadata(axis=..)` (None, or a sequence of which only the length is used) *)
Record view := { v_empty : bool; v_rows : nat; v_cols : nat;
                 v_oids : list Z; v_sids : list Z;
                 v_omd : option nat; v_smd : option nat }.

(* `set(ids)`: the distinct elements (only its length is observed) *)
Fixpoint distinct (l : list Z) : list Z :=
  match l with [] => [] | x :: t => if zmem x t then distinct t else x :: distinct t end.

(* truth value of a sequence, negated: `not args` *)
Definition lnull {A} (l : list A) : bool := match l with [] => true | _ :: _ => false end.

(* mutable part of the ErrorProfile object: `_state` and the 'call' slot of each `_profile[k]`
   (callbacks are identified by integers) *)
Record profile := { st : dict string; calls : dict Z }.

(* observable reaction of a handler: what `warn`, `stdout.write`, a callback or the returned
   exception instance (which errcheck raises) amount to; the message is identified with the
   kind it was registered for (the registrations rule checks that messages are distinct) *)
Inductive event := EvNone | EvWarn (k : string) | EvPrint (k : string)
                 | EvCall (k : string) (cb : Z) | EvRaise (k : string).

(* `isinstance(ret, Exception)` *)
Definition ev_is_exn (e : event) : bool := match e with EvRaise _ => true | _ => false end.
