(* L4, text layer of C02: the characters Table.to_json concatenates (table.py:4836-4992, the
   returned-string path) and a reader of JSON text (recursive descent over code points, string
   literals by Json.lex_string).

   Oracles (Section variables, never axioms): the text of a matrix value  fmt v  = repr(float)
   and its reader  scan_float  = float(); the text of a metadata value  dumps_md  = json.dumps
   with NpEncoder.  Their contracts are hypotheses of the theorems in Proofs/JsonDocProofs.v
   and are validated by the harness as tests. *)
From Coq Require Import String.
From Coq Require Import List Arith ZArith Lia Bool.
From BiomV Require Import Base.Tree Base.ListUtil Base.Matrix Base.TreeStr Model.Table Model.Json.
Import ListNotations.
Open Scope Z_scope.

(* ------------------------------------------------------------------ decimal integers *)
Definition digit_char (d : nat) : Z := 48 + Z.of_nat d.
(* '%d' % n for n >= 0, most significant digit first; fuel bounds the number of digits *)
Fixpoint digits_of (fuel n : nat) : str :=
  match fuel with
  | O => []
  | S f => if (n <? 10)%nat then [digit_char n] else digits_of f (n / 10) ++ [digit_char (n mod 10)]
  end.
Definition show_nat (n : nat) : str := digits_of (S n) n.

Definition is_dec (c : Z) : bool := (48 <=? c) && (c <=? 57).
Definition dec_val (s : str) : Z := fold_left (fun a c => a * 10 + (c - 48)) s 0.

(* ------------------------------------------------------------------ reader *)
Definition is_ws (c : Z) : bool := (c =? 32) || (c =? 9) || (c =? 10) || (c =? 13).
Fixpoint skip_ws (t : str) : str :=
  match t with
  | c :: r => if is_ws c then skip_ws r else t
  | [] => []
  end.

Definition is_numchar (c : Z) : bool :=
  is_dec c || (c =? 45) || (c =? 43) || (c =? 46) || (c =? 101) || (c =? 69).
Fixpoint span_num (t : str) : str * str :=
  match t with
  | c :: r => if is_numchar c then let p := span_num r in (c :: fst p, snd p) else ([], t)
  | [] => ([], [])
  end.

(* a JSON number without fraction and exponent is read as int *)
Definition int_of_text (s : str) : option Z :=
  match s with
  | [] => None
  | c :: d =>
      if c =? 45 then
        (match d with [] => None | _ => if forallb is_dec d then Some (- dec_val d) else None end)
      else if forallb is_dec s then Some (dec_val s) else None
  end.

Section Reader.
  Variable scan_float : str -> option Z.        (* float(text), as the code of the double *)

  Definition parse_number (t : str) : option (json * str) :=
    let p := span_num t in
    match fst p with
    | [] => None
    | n => match int_of_text n with
           | Some z => Some (JInt z, snd p)
           | None => match scan_float n with
                     | Some k => Some (JFlt k, snd p)
                     | None => None
                     end
           end
    end.

  (* elements of an array; t stands at the start of an element *)
  Fixpoint parse_items (pv : str -> option (json * str)) (n : nat) (t : str) (acc : list json)
    : option (list json * str) :=
    match n with
    | O => None
    | S n' =>
        match pv t with
        | None => None
        | Some (v, r) =>
            match skip_ws r with
            | c :: r' => if c =? 44 then parse_items pv n' r' (v :: acc)
                         else if c =? 93 then Some (rev (v :: acc), r')
                         else None
            | [] => None
            end
        end
    end.

  (* members of an object; t stands before the key *)
  Fixpoint parse_members (pv : str -> option (json * str)) (n : nat) (t : str) (acc : list (str * json))
    : option (list (str * json) * str) :=
    match n with
    | O => None
    | S n' =>
        match lex_string (skip_ws t) with
        | None => None
        | Some (k, r) =>
            match skip_ws r with
            | c :: r1 =>
                if c =? 58 then
                  match pv r1 with
                  | None => None
                  | Some (v, r2) =>
                      match skip_ws r2 with
                      | d :: r3 => if d =? 44 then parse_members pv n' r3 ((k, v) :: acc)
                                   else if d =? 125 then Some (rev ((k, v) :: acc), r3)
                                   else None
                      | [] => None
                      end
                  end
                else None
            | [] => None
            end
        end
    end.

  Definition LIT_NULL : str := K "null".
  Definition LIT_TRUE : str := K "true".
  Definition LIT_FALSE : str := K "false".

  Fixpoint parse_value (fuel : nat) (t : str) : option (json * str) :=
    match fuel with
    | O => None
    | S f =>
        match skip_ws t with
        | [] => None
        | c :: r =>
            if c =? 34 then
              match lex_string (c :: r) with Some (s, r') => Some (JStr s, r') | None => None end
            else if c =? 91 then
              match skip_ws r with
              | [] => None
              | d :: r' =>
                  if d =? 93 then Some (JArr [], r')
                  else match parse_items (parse_value f) f (d :: r') [] with
                       | Some (l, r'') => Some (JArr l, r'')
                       | None => None
                       end
              end
            else if c =? 123 then
              match skip_ws r with
              | [] => None
              | d :: r' =>
                  if d =? 125 then Some (JObj [], r')
                  else match parse_members (parse_value f) f (d :: r') [] with
                       | Some (l, r'') => Some (JObj l, r'')
                       | None => None
                       end
              end
            else if is_prefix LIT_NULL (c :: r) then Some (JNull, skipn 4 (c :: r))
            else if is_prefix LIT_TRUE (c :: r) then Some (JBool true, skipn 4 (c :: r))
            else if is_prefix LIT_FALSE (c :: r) then Some (JBool false, skipn 5 (c :: r))
            else parse_number (c :: r)
        end
    end.

  (* a whole document: one value, then nothing but blanks *)
  Definition parse_json (fuel : nat) (t : str) : option json :=
    match parse_value fuel t with
    | Some (j, r) => match skip_ws r with [] => Some j | _ => None end
    | None => None
    end.
End Reader.

(* ------------------------------------------------------------------ writer *)
Fixpoint join (sep : str) (l : list str) : str :=
  match l with
  | [] => []
  | [x] => x
  | x :: t => x ++ sep ++ join sep t
  end.

Section Writer.
  Variable fmt : Z -> str.                 (* repr(float(val)) *)
  Variable dumps_md : json -> str.         (* dumps(metadata entry or None) *)

  (* "[%d,%d,%s]" % (obs_index, col_index, repr(float(val))), table.py:4999-5002 *)
  Definition triple_text (t : nat * nat * Z) : str :=
    let '(i, j, v) := t in K "[" ++ show_nat i ++ K "," ++ show_nat j ++ K "," ++ fmt v ++ K "]".

  (* the loop over observations with its have_written flag, table.py:4978-5015 *)
  Fixpoint data_rows (i : nat) (m : matrix) (have_written : bool) : str :=
    match m with
    | [] => []
    | r :: t =>
        match map triple_text (row_triples i 0 r) with
        | [] => data_rows (S i) t have_written
        | built => (if have_written then K "," else []) ++ join (K ",") built ++ data_rows (S i) t true
        end
    end.
  Definition data_value (m : matrix) : str := K "[" ++ data_rows 0 m false ++ K "]".

  (* {"id": ..., "metadata": ...} *)
  (* '"key": value' *)
  Definition field (k : str) (v : str) : str := raw_literal k ++ K ": " ++ v.
  Definition record_text (id : str) (md : json) : str :=
    K "{" ++ field (K "id") (dumps_str id) ++ K ", " ++ field (K "metadata") (dumps_md md) ++ K "}".
  (* table.py:4981-4988 and 5025-5031: every record but the last is followed by ",", the last
     by the closing bracket *)
  Fixpoint records_text (l : list (str * json)) : str :=
    match l with
    | [] => []
    | [x] => record_text (fst x) (snd x) ++ K "]"
    | x :: t => record_text (fst x) (snd x) ++ K "," ++ records_text t
    end.
  Definition axis_recs (ids : list str) (md : option (list json)) : list (str * json) :=
    combine ids (md_list (length ids) md).

  (* table.py:5043-5047: an axis without IDs is written as [] *)
  Definition axis_value (ids : list str) (md : option (list json)) : str :=
    match ids with
    | [] => K "[]"
    | _ => K "[" ++ records_text (axis_recs ids md)
    end.
  Definition rows_value (c : jtable) : str := axis_value (j_oids c) (j_omd c).
  Definition columns_value (c : jtable) : str := axis_value (j_sids c) (j_smd c).

  Definition str_of_json (j : json) : str := match j with JStr s => s | _ => [] end.
  Definition type_value (c : jtable) : str :=
    match j_type c with
    | JNull => K "null"
    | ty => dumps_str (str_of_json ty)
    end.

  (* the twelve fields are joined by "," between the braces *)
  (* the returned string, table.py:5046-5059 *)
  Definition to_json_text (c : jtable) (tid : str) : str :=
    K "{" ++
    join (K ",")
      [field (K "id") (dumps_str tid);
       field (K "format") (raw_literal FORMAT_1_0);
       field (K "format_url") (raw_literal FORMAT_URL);
       field (K "matrix_type") (raw_literal (K "sparse"));
       field (K "generated_by") (dumps_str (str_of_json (j_genby c)));
       field (K "date") (raw_literal (str_of_json (j_date c)));
       field (K "type") (type_value c);
       field (K "matrix_element_type") (raw_literal (element_type c));
       field (K "shape") (K "[" ++ show_nat (jnobs c) ++ K ", " ++ show_nat (jnsamp c) ++ K "]");
       field (K "data") (data_value (j_mat c));
       field (K "rows") (rows_value c);
       field (K "columns") (columns_value c)]
    ++ K "}".
End Writer.
