(* C19: summaries and exports of a biom Table, as the code computes them.

   Two layers.
   (1) The code path, on the REPRESENTATION the table holds at the time of the call
       (`rtable`: ids, metadata, storage format and the stored entries of every row (CSR) or
       column (CSC), in stored order, possibly with unsorted indices and explicitly stored zeros).
       Functions `r_...`.  Which ones walk stored entries and which ones densify:
         stored entries : sum (scipy .sum), min / max (.data.min()), nonzero (indptr/indices walk),
                          nnz / density (eliminate_zeros then count), to_dataframe(dense=False)
         densify        : nonzero_counts, reduce, compute_counts_per_sample_stats, the
                          summarize-table report (except its density line), head, to_dataframe(dense=True)
   (2) The same figures computed directly from the dense matrix, ids and metadata (`table`):
       functions `d_...`; these are the right-hand sides of the theorems in Props/C19.v.

   Matrix values are integers (the harness scales k/64 values by 64); means, medians, variance and
   density are exact rationals, given as (numerator, denominator) pairs.

   A format conversion (`_data.tocsr()` / `.tocsc()`) is `Sparse.swap_segs` on the segment view, which
   is by definition the segment view of `Sparse.tocsc` / `Sparse.tocsr`. *)
From Coq Require Import List Arith ZArith Lia Bool.
From BiomV Require Import Base.Tree Base.ListUtil Base.Matrix Model.Table Model.Sparse.
Import ListNotations.

Inductive axis3 := AObs | ASamp | AWhole.

Record rtable := mkR { r_oids : list Z; r_sids : list Z;
                       r_fmt : fmt; r_mn : nat; r_segs : list segment;   (* minor dimension, one segment per major position *)
                       r_omd : option (list Tree); r_smd : option (list Tree) }.

Definition of_cs (oids sids : list Z) (f : fmt) (r : cs) (omd smd : option (list Tree)) : rtable :=
  mkR oids sids f (minor r) (segs r) omd smd.

Definition r_nobs (rt : rtable) : nat := length (r_oids rt).
Definition r_nsamp (rt : rtable) : nat := length (r_sids rt).
(* is_empty, table.py:1789-1800 *)
Definition r_empty (rt : rtable) : bool := Nat.eqb (r_nsamp rt) 0 || Nat.eqb (r_nobs rt) 0.

(* _data.tocsr() / _data.tocsc(): identity when the format matches, the stable bucketing otherwise *)
Definition row_segs (rt : rtable) : list segment :=
  match r_fmt rt with CSR => r_segs rt | CSC => swap_segs (r_mn rt) (r_segs rt) end.
Definition row_mn (rt : rtable) : nat :=
  match r_fmt rt with CSR => r_mn rt | CSC => length (r_segs rt) end.
Definition col_segs (rt : rtable) : list segment :=
  match r_fmt rt with CSC => r_segs rt | CSR => swap_segs (r_mn rt) (r_segs rt) end.
Definition col_mn (rt : rtable) : nat :=
  match r_fmt rt with CSC => r_mn rt | CSR => length (r_segs rt) end.

(* the observations x samples matrix the representation stands for (= Sparse.matrix_of) *)
Definition dense (rt : rtable) : matrix :=
  match r_fmt rt with
  | CSR => dense_of_segs (r_mn rt) (r_segs rt)
  | CSC => transpose (r_mn rt) (dense_of_segs (r_mn rt) (r_segs rt))
  end.
Definition content_of (rt : rtable) : table :=
  mkT (r_oids rt) (r_sids rt) (dense rt) (r_omd rt) (r_smd rt) NOTYPE.

(* coherence of a representation with its ids *)
Definition dims_ok (rt : rtable) : Prop :=
  match r_fmt rt with
  | CSR => length (r_segs rt) = r_nobs rt /\ r_mn rt = r_nsamp rt
  | CSC => length (r_segs rt) = r_nsamp rt /\ r_mn rt = r_nobs rt
  end.
Definition wf_r (rt : rtable) : Prop :=
  NoDup (r_oids rt) /\ NoDup (r_sids rt) /\ dims_ok rt /\ Forall (seg_ok (r_mn rt)) (r_segs rt)
  /\ md_ok (r_omd rt) (r_nobs rt) /\ md_ok (r_smd rt) (r_nsamp rt).
Definition nz_segs (ss : list segment) : Prop := Forall (fun s => Forall (fun e => snd e <> 0%Z) s) ss.
Definition sorted_segs (ss : list segment) : Prop := Forall (fun s => increasing (map fst s)) ss.

Definition seg_okb (mn : nat) (s : segment) : bool :=
  negb (ndup (map fst s)) && forallb (fun e => Nat.ltb (fst e) mn) s.
Definition wf_rb (rt : rtable) : bool :=
  negb (zdup (r_oids rt)) && negb (zdup (r_sids rt))
  && match r_fmt rt with
     | CSR => Nat.eqb (length (r_segs rt)) (r_nobs rt) && Nat.eqb (r_mn rt) (r_nsamp rt)
     | CSC => Nat.eqb (length (r_segs rt)) (r_nsamp rt) && Nat.eqb (r_mn rt) (r_nobs rt)
     end
  && forallb (seg_okb (r_mn rt)) (r_segs rt)
  && md_okb (r_omd rt) (r_nobs rt) && md_okb (r_smd rt) (r_nsamp rt).
Definition nz_segsb (ss : list segment) : bool := forallb (fun s => forallb (fun e => nzb (snd e)) s) ss.

(* results: the first error wins (a Python loop stops at the first exception) *)
Fixpoint rmap {A B} (f : A -> result B) (l : list A) : result (list B) :=
  match l with
  | [] => ROk []
  | x :: t => match f x with
              | RErr c => RErr c
              | ROk y => match rmap f t with RErr c => RErr c | ROk r => ROk (y :: r) end
              end
  end.

(* ================================================================== sum, table.py:1144-1200
   axis 'whole' -> scipy axis None, 'sample' -> 0 (one figure per column), 'observation' -> 1.
   scipy adds up stored entries: all of them (None), per major position, or per minor index. *)
Definition seg_sum (s : segment) : Z := zsum (map snd s).
Definition major_sums (ss : list segment) : list Z := map seg_sum ss.
Definition minor_sums (mn : nat) (ss : list segment) : list Z :=
  map (fun j => zsum (map snd (filter (fun e => Nat.eqb (fst e) j) (concat ss)))) (seq 0 mn).

Definition r_sum_whole (rt : rtable) : Z := zsum (map snd (concat (r_segs rt))).
Definition r_sum (a : axis) (rt : rtable) : list Z :=
  match a, r_fmt rt with
  | Obs, CSR | Samp, CSC => major_sums (r_segs rt)
  | Obs, CSC | Samp, CSR => minor_sums (r_mn rt) (r_segs rt)
  end.
Definition r_sum3 (a : axis3) (rt : rtable) : list Z :=
  match a with AWhole => [r_sum_whole rt] | AObs => r_sum Obs rt | ASamp => r_sum Samp rt end.

Definition d_sum_whole (t : table) : Z := msum (mat t).
Definition d_sum (a : axis) (t : table) : list Z :=
  match a with Obs => row_sums (mat t) | Samp => col_sums (nsamp t) (mat t) end.

(* ================================================================== min / max, table.py:2877-2955
   iter_data(dense=False, axis): the table converts itself to CSC (samples) or CSR (observations),
   takes each column / row as a sparse vector and asks numpy for the min / max of its STORED values.
   numpy refuses an empty array: ValueError.  'whole' walks the samples, starting from +inf / -inf. *)
Definition fold1 (op : Z -> Z -> Z) (l : list Z) : Z :=
  match l with [] => 0%Z | x :: t => fold_left op t x end.
Definition lred (op : Z -> Z -> Z) (l : list Z) : result Z :=
  match l with [] => RErr E_VALUE | _ => ROk (fold1 op l) end.
Definition axis_segs (a : axis) (rt : rtable) : list segment :=
  match a with Obs => row_segs rt | Samp => col_segs rt end.
Definition r_extreme (op : Z -> Z -> Z) (a : axis) (rt : rtable) : result (list Z) :=
  rmap (fun s => lred op (map snd s)) (axis_segs a rt).
(* None = the table has no sample: the initial +inf / -inf is returned *)
Definition r_extreme_whole (op : Z -> Z -> Z) (rt : rtable) : result (option Z) :=
  match r_extreme op Samp rt with
  | RErr c => RErr c
  | ROk [] => ROk None
  | ROk l => ROk (Some (fold1 op l))
  end.
Definition r_min := r_extreme Z.min.
Definition r_max := r_extreme Z.max.

(* the dense figure: min / max of the non-zero values of a vector *)
Definition nonzeros (v : list Z) : list Z := filter nzb v.
Definition vectors_of (a : axis) (t : table) : list (list Z) :=
  match a with Obs => mat t | Samp => transpose (nsamp t) (mat t) end.
Definition d_extreme (op : Z -> Z -> Z) (a : axis) (t : table) : result (list Z) :=
  rmap (fun v => lred op (nonzeros v)) (vectors_of a t).
Definition d_extreme_whole (op : Z -> Z -> Z) (t : table) : result (option Z) :=
  match d_extreme op Samp t with
  | RErr c => RErr c
  | ROk [] => ROk None
  | ROk l => ROk (Some (fold1 op l))
  end.

(* ================================================================== nonzero, table.py:3330-3350
   csr = _data.tocsr(); for every row, for every stored column index in stored order: (obs id, sample id) *)
Definition r_nonzero (rt : rtable) : list (Z * Z) :=
  concat (map (fun os => map (fun e => (fst os, nth (fst e) (r_sids rt) 0%Z)) (snd os))
              (combine (r_oids rt) (row_segs rt))).
(* the (o, s) with a non-zero cell, row by row, columns ascending *)
Definition d_nonzero (t : table) : list (Z * Z) :=
  concat (map (fun orow => map (fun sv => (fst orow, fst sv))
                               (filter (fun sv => nzb (snd sv)) (combine (sids t) (snd orow))))
              (combine (oids t) (mat t))).

(* ================================================================== dense vectors: iter_data(dense=True, axis)
   _get_row / _get_col convert the matrix, slice one major position and densify it *)
Definition r_vectors (a : axis) (rt : rtable) : list (list Z) :=
  match a with
  | Obs => dense_of_segs (row_mn rt) (row_segs rt)
  | Samp => dense_of_segs (col_mn rt) (col_segs rt)
  end.

(* ================================================================== nonzero_counts, table.py:3352-3389
   binary: number of non-zero cells of each dense vector; otherwise the sum of its values;
   any axis other than 'sample' / 'observation' accumulates over the samples into one figure *)
Definition vcount (binary : bool) (v : list Z) : Z :=
  if binary then Z.of_nat (count_nz v) else zsum v.
Definition r_nonzero_counts (a : axis3) (binary : bool) (rt : rtable) : list Z :=
  match a with
  | AObs => map (vcount binary) (r_vectors Obs rt)
  | ASamp => map (vcount binary) (r_vectors Samp rt)
  | AWhole => [zsum (map (vcount binary) (r_vectors Samp rt))]
  end.
Definition d_nonzero_counts (a : axis3) (binary : bool) (t : table) : list Z :=
  match a with
  | AObs => map (vcount binary) (mat t)
  | ASamp => map (vcount binary) (transpose (nsamp t) (mat t))
  | AWhole => [if binary then Z.of_nat (count_nonzero (mat t)) else msum (mat t)]
  end.

(* ================================================================== reduce, table.py:1089-1142
   functools.reduce(f, v) for every dense vector; refused on an empty table *)
Section Reduce.
  Variable f : Z -> Z -> Z.
  Definition reduce1 (v : list Z) : result Z :=
    match v with [] => RErr E_TYPE | x :: t => ROk (fold_left f t x) end.
  Definition r_reduce (a : axis) (rt : rtable) : result (list Z) :=
    if r_empty rt then RErr E_TABLE else rmap reduce1 (r_vectors a rt).
End Reduce.

(* ================================================================== nnz and get_table_density, table.py:717-721,1819-1833
   nnz = eliminate_zeros() then the number of stored entries; density = nnz / (samples * observations),
   0 for an empty table.  Density is the pair (numerator, denominator). *)
Definition r_nnz (rt : rtable) : nat := nsum (map (fun s => length (elim_seg s)) (r_segs rt)).
Definition r_density (rt : rtable) : Z * Z :=
  if r_empty rt then (0%Z, 1%Z) else (Z.of_nat (r_nnz rt), Z.of_nat (r_nsamp rt * r_nobs rt)).
Definition d_density (t : table) : Z * Z :=
  if Nat.eqb (nsamp t) 0 || Nat.eqb (nobs t) 0 then (0%Z, 1%Z)
  else (Z.of_nat (count_nonzero (mat t)), Z.of_nat (nsamp t * nobs t)).

(* ================================================================== compute_counts_per_sample_stats, util.py:304-332 *)
Fixpoint zinsert (x : Z) (l : list Z) : list Z :=
  match l with
  | [] => [x]
  | y :: t => if Z.leb x y then x :: l else y :: zinsert x t
  end.
Definition zsort (l : list Z) : list Z := fold_right zinsert [] l.
(* numpy.median: middle of the sorted values, mean of the middle two when their number is even *)
Definition median (l : list Z) : Z * Z :=
  let s := zsort l in
  let n := length l in
  if Nat.even n then ((nth (n / 2 - 1) s 0 + nth (n / 2) s 0)%Z, 2%Z) else (nth (n / 2) s 0%Z, 1%Z).
Definition mean (l : list Z) : Z * Z := (zsum l, Z.of_nat (length l)).
(* numpy.std squared: mean of the squared deviations = (n * sum x^2 - (sum x)^2) / n^2 *)
Definition variance (l : list Z) : Z * Z :=
  let n := Z.of_nat (length l) in
  ((n * zsum (map (fun x => x * x) l) - zsum l * zsum l)%Z, (n * n)%Z).
Definition stats (l : list Z) : Z * Z * (Z * Z) * (Z * Z) :=
  match l with
  | [] => (0%Z, 0%Z, (0%Z, 1%Z), (0%Z, 1%Z))
  | _ => (fold1 Z.min l, fold1 Z.max l, median l, mean l)
  end.
(* table.iter() hands every sample's dense vector; binary counts its non-zero cells *)
Definition r_sample_counts (binary : bool) (rt : rtable) : list Z := map (vcount binary) (r_vectors Samp rt).
Definition d_sample_counts (binary : bool) (t : table) : list Z :=
  map (vcount binary) (transpose (nsamp t) (mat t)).
Definition r_stats (binary : bool) (rt : rtable) : Z * Z * (Z * Z) * (Z * Z) * list (Z * Z) :=
  (stats (r_sample_counts binary rt), combine (r_sids rt) (r_sample_counts binary rt)).
Definition d_stats (binary : bool) (t : table) : Z * Z * (Z * Z) * (Z * Z) * list (Z * Z) :=
  (stats (d_sample_counts binary t), combine (sids t) (d_sample_counts binary t)).

(* ================================================================== Table.transpose on the representation, table.py:1202-1224
   _data.transpose() keeps the arrays and flips the format; the constructor converts to CSR and
   eliminates stored zeros; ids and metadata change places *)
Definition rt_transpose (rt : rtable) : rtable :=
  mkR (r_sids rt) (r_oids rt) CSR (col_mn rt) (map elim_seg (col_segs rt)) (r_smd rt) (r_omd rt).

(* ================================================================== summarize-table, cli/table_summarizer.py:56-148
   The report before text formatting: header lines as (label, figure), then the detail lines
   (id, count) in the order printed (sorted by count, ties in table order).
   Labels: 1 Num samples, 2 Num observations, 3 Total count, 4 Table density, 5 Min, 6 Max, 7 Median,
   8 Mean, 9 Std. dev. SQUARED (the square root is taken by the harness), 10 Sample Metadata
   Categories, 11 Observation Metadata Categories. *)
Inductive figure := FZ (z : Z) | FQ (q : Z * Z) | FKeys (k : option (list Tree)).

(* a metadata entry is  L [L [key; value]; ...]  in dict order *)
Definition entry_keys (e : Tree) : list Tree := map (fun kv => tnth kv 0) (tL e).
(* keys of the FIRST id's metadata; None = "None provided" *)
Definition md_keys (md : option (list Tree)) : option (list Tree) :=
  match md with Some (e :: _) => Some (entry_keys e) | _ => None end.

Fixpoint kinsert (x : Z * Z) (l : list (Z * Z)) : list (Z * Z) :=
  match l with
  | [] => [x]
  | y :: t => if Z.leb (snd x) (snd y) then x :: l else y :: kinsert x t
  end.
(* sorted(items, key=itemgetter(1)): stable *)
Definition ksort (l : list (Z * Z)) : list (Z * Z) := fold_right kinsert [] l.

Definition report_lines (o q : bool) (ns no : nat) (counts : list Z) (dens : Z * Z)
                        (skeys okeys : option (list Tree)) : list (Z * figure) :=
  let '(mn, mx, med, avg) := stats counts in
  (* with --observations the table at hand is the transpose: the two counts and the two key lists
     are printed under each other's label so that they describe the input table *)
  (if o then [(1%Z, FZ (Z.of_nat no)); (2%Z, FZ (Z.of_nat ns))]
        else [(1%Z, FZ (Z.of_nat ns)); (2%Z, FZ (Z.of_nat no))])
  ++ (if q then [] else [(3%Z, FZ (zsum counts)); (4%Z, FQ dens)])
  ++ [(5%Z, FZ mn); (6%Z, FZ mx); (7%Z, FQ med); (8%Z, FQ avg); (9%Z, FQ (variance counts))]
  ++ (if o then [(10%Z, FKeys okeys); (11%Z, FKeys skeys)]
           else [(10%Z, FKeys skeys); (11%Z, FKeys okeys)]).

Definition r_report (q o : bool) (rt : rtable) : list (Z * figure) * list (Z * Z) :=
  let t := if o then rt_transpose rt else rt in
  let counts := r_sample_counts q t in
  (report_lines o q (r_nsamp t) (r_nobs t) counts (r_density t) (md_keys (r_smd t)) (md_keys (r_omd t)),
   ksort (combine (r_sids t) counts)).

Definition d_report (q o : bool) (t0 : table) : list (Z * figure) * list (Z * Z) :=
  let t := if o then transpose_t t0 else t0 in
  let counts := d_sample_counts q t in
  (report_lines o q (nsamp t) (nobs t) counts (d_density t) (md_keys (smd t)) (md_keys (omd t)),
   ksort (combine (sids t) counts)).

(* ================================================================== table-ids, cli/table_ids.py *)
Definition r_table_ids (observations : bool) (rt : rtable) : list Z :=
  if observations then r_oids rt else r_sids rt.

(* ================================================================== head, cli/table_head.py + table.py:1226-1283
   the command refuses n = 0, m = 0 and negatives (ValueError); the table method keeps the leading
   ids through Table.filter (property C08), and str() of a table without data is refused.
   Output: the sample ids of the header line and one (observation id, values) line per row. *)
Definition cli_head (n m : Z) (rt : rtable) : result (list Z * list (Z * list Z)) :=
  if (n <=? 0)%Z || (m <=? 0)%Z then RErr E_VALUE
  else if r_empty rt then RErr E_TABLE
  else ROk (firstn (Z.to_nat m) (r_sids rt),
            combine (firstn (Z.to_nat n) (r_oids rt))
                    (map (firstn (Z.to_nat m)) (firstn (Z.to_nat n) (dense rt)))).

(* ================================================================== to_dataframe, table.py:4360-4398 *)
(* dense=True: matrix_data.toarray() with the ids as labels *)
Definition df_dense (rt : rtable) : list Z * list Z * matrix := (r_oids rt, r_sids rt, dense rt).
(* dense=False: pandas from_spmatrix keeps the stored entries and fills the rest with its
   fill value, which is NaN in the pandas at hand: a cell is Some stored value or None (missing) *)
Definition df_sparse (rt : rtable) : list (list (option Z)) :=
  map (fun i => map (fun j => match r_fmt rt with
                              | CSR => find_idx j (nth i (r_segs rt) [])
                              | CSC => find_idx i (nth j (r_segs rt) [])
                              end) (seq 0 (r_nsamp rt))) (seq 0 (r_nobs rt)).

(* ================================================================== metadata_to_dataframe, table.py:4451-4532
   a metadata entry is  L [L [key; value]; ...]  in dict order; value trees are the harness's tagged
   values  L [I tag; payload]:  tag 5 = list / tuple (payload: the items), 0 = None *)
Definition kv_key (kv : Tree) : Tree := tnth kv 0.
Definition kv_val (kv : Tree) : Tree := tnth kv 1.
Definition is_seq (v : Tree) : bool := Z.eqb (tZ (tnth v 0)) 5.
Definition seq_items (v : Tree) : list Tree := tL (tnth v 1).
Definition md_nan : Tree := L [I 0%Z].

(* width[key] = max(width.get(key, 0), n), keys kept in order of first appearance *)
Fixpoint wset (k : Tree) (n : nat) (w : list (Tree * nat)) : list (Tree * nat) :=
  match w with
  | [] => [(k, n)]
  | (k', n') :: t => if tree_eqb k k' then (k', Nat.max n' n) :: t else (k', n') :: wset k n t
  end.
(* a list value asks for as many columns as it has items, anything else for none of its own *)
Definition kv_width (kv : Tree) : nat :=
  if is_seq (kv_val kv) then length (seq_items (kv_val kv)) else 0.
Definition widths (md : list Tree) : list (Tree * nat) :=
  fold_left (fun w e => fold_left (fun w kv => wset (kv_key kv) (kv_width kv) w) (tL e) w) md [].
(* column labels: key when no id holds a (non-empty) list under it, else key_0 .. key_(n-1) *)
Definition key_columns (kn : Tree * nat) : list Tree :=
  match snd kn with
  | O => [L [fst kn]]
  | n => map (fun i => L [fst kn; I (Z.of_nat i)]) (seq 0 n)
  end.
Fixpoint lookup_kv (k : Tree) (kvs : list Tree) : option Tree :=
  match kvs with
  | [] => None
  | kv :: t => if tree_eqb k (kv_key kv) then Some (kv_val kv) else lookup_kv k t
  end.
(* m.get(key): None for a missing key *)
Definition md_get (k : Tree) (e : Tree) : Tree :=
  match lookup_kv k (tL e) with Some v => v | None => md_nan end.
(* the cells one key fills in one row: exactly as many as the key has columns *)
Definition key_cells (e : Tree) (kn : Tree * nat) : list Tree :=
  let v := md_get (fst kn) e in
  match snd kn with
  | O => [v]
  | n => let items := if is_seq v then seq_items v else if tree_eqb v md_nan then [] else [v] in
         items ++ repeat md_nan (n - length items)
  end.
Definition md_df (ids : list Z) (md : option (list Tree)) : result (list Tree * list (Z * list Tree)) :=
  match md with
  | None => RErr E_KEY
  | Some l =>
      let w := widths l in
      ROk (flat_map key_columns w, combine ids (map (fun e => flat_map (key_cells e) w) l))
  end.
Definition r_md_df (a : axis) (rt : rtable) : result (list Tree * list (Z * list Tree)) :=
  match a with Obs => md_df (r_oids rt) (r_omd rt) | Samp => md_df (r_sids rt) (r_smd rt) end.

(* the export read directly off the metadata: one column per key, every row looked up BY KEY *)
Definition d_md_rows (keys : list Tree) (md : list Tree) : list (list Tree) :=
  map (fun e => map (fun k => md_get k e) keys) md.
