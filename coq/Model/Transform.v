(* C13: Table.transform / norm / pa / rankdata (table.py:3063-3100, 3100-3201, 3203-3256, 3258-3328)
   and the compiled kernel _transform (_transform.pyx:15-51).

   The user function is code: what it RETURNS is an input of the model, one list per call, in call
   order (the harness records the calls of the real run).  Its contract is "an array of the same
   length as the one it was given" (numpy broadcasts a scalar; the harness records the broadcast
   value); an output of another length makes numpy refuse the slice assignment (ValueError).

   Values are integers: the harness scales the table's dyadic values by 64.  norm divides, its
   values are exact rationals (Q). *)
From Coq Require Import List Arith ZArith QArith Lia Bool.
From BiomV Require Import Base.Tree Base.ListUtil Base.Matrix Model.Table Model.Stored.
Import ListNotations.
Close Scope Q_scope.

(* one call of the user function: (data[start:end], id, metadata entry) *)
Definition call := (list Z * Z * option Tree)%type.

(* ------------------------------------------------------------------------------------------
   the kernel on the arrays it is handed (_transform.pyx:41-51):
     if metadata is None: metadata = (None,) * len(ids)
     n = arr.shape[axis]
     for row_or_col in range(n):
         start, end = indptr[row_or_col], indptr[row_or_col+1]
         id_ = ids[row_or_col]; md = metadata[row_or_col]
         data[start:end] = function(data[start:end], id_, md)
   indices and indptr are never written.  State of the fold: (data, calls so far). *)
Definition kernel_md (md : option (list Tree)) (i : nat) : option Tree :=
  match md with None => None | Some l => nth_error l i end.

Definition kernel_body (indptr : list nat) (ids : list Z) (md : option (list Tree)) (outs : list (list Z))
           (st : list Z * list call) (i : nat) : list Z * list call :=
  let '(data, calls) := st in
  let start := nth i indptr 0 in
  let end_ := nth (S i) indptr 0 in
  let id_ := nth i ids 0%Z in
  let m := kernel_md md i in
  (splice data start end_ (nth i outs []), calls ++ [(slice data start end_, id_, m)]).

Definition kernel (n : nat) (indptr : list nat) (ids : list Z) (md : option (list Tree)) (outs : list (list Z))
           (data : list Z) : list Z * list call :=
  fold_left (kernel_body indptr ids md outs) (seq 0 n) (data, []).

(* the arrays of the compressed matrix the kernel is handed; only [a_data] is ever written *)
Record arrays := mkA { a_indptr : list nat; a_indices : list nat; a_data : list Z }.
Definition kernel_arr (n : nat) (ids : list Z) (md : option (list Tree)) (outs : list (list Z)) (r : arrays)
  : arrays * list call :=
  let dc := kernel n (a_indptr r) ids md outs (a_data r) in
  (mkA (a_indptr r) (a_indices r) (fst dc), snd dc).

(* well-formed segments: n + 1 offsets, starting at 0, non-decreasing, ending at len(data) *)
Fixpoint mono (l : list nat) : Prop :=
  match l with
  | x :: t => match t with [] => True | y :: _ => x <= y /\ mono t end
  | [] => True
  end.
Definition ptr_wf (n : nat) (indptr : list nat) (len : nat) : Prop :=
  length indptr = S n /\ nth 0 indptr 0 = 0 /\ mono indptr /\ nth n indptr 0 = len.
(* length-preserving outputs *)
Definition outs_fit_ptr (n : nat) (indptr : list nat) (outs : list (list Z)) : Prop :=
  forall i, i < n -> length (nth i outs []) = nth (S i) indptr 0 - nth i indptr 0.

(* ------------------------------------------------------------------------------------------
   Table.transform at the content level (table.py:3186-3201):
     table = self if inplace else self.copy()
     metadata = table.metadata(axis); ids = table.ids(axis)
     arr = table._get_sparse_data(axis)         CSC for 'sample', CSR for 'observation':
                                                the vectors of [axis] are the major axis; [lay] says
                                                which cells of each are stored and in which order
     _transform(arr, ids, metadata, f, axis_num); arr.eliminate_zeros(); table._data = arr *)
Definition transform_calls (a : axis) (lay : list (list nat)) (t : table) : list call :=
  map (fun i => (gather 0%Z (nth i lay []) (vec a t i), nth i (ids a t) 0%Z, md_at a t i))
      (seq 0 (length (ids a t))).

(* numpy accepts  data[start:end] = out  only when the lengths agree *)
Definition outs_fit (a : axis) (lay : list (list nat)) (outs : list (list Z)) (t : table) : bool :=
  forallb (fun i => Nat.eqb (length (nth i outs [])) (length (nth i lay []))) (seq 0 (length (ids a t))).

Definition transform_table (a : axis) (lay : list (list nat)) (outs : list (list Z)) (t : table) : table :=
  with_axis_vecs a t (scatter_all 0%Z (axis_vecs a t) lay outs).

(* (receiver after the call, returned table).  On a refused assignment the receiver of an in-place
   call may already be partly transformed; that state is not modelled (first component = argument). *)
Definition transform (a : axis) (inplace : bool) (lay : list (list nat)) (outs : list (list Z)) (self : table)
  : table * result table :=
  if outs_fit a lay outs self then
    let r := transform_table a lay outs self in
    (if inplace then r else self, ROk r)
  else (self, RErr E_VALUE).

(* a fixed function applied to what each call receives *)
Definition apply_fn (f : list Z -> list Z) (calls : list call) : list (list Z) :=
  map (fun c => f (fst (fst c))) calls.
Definition transform_with (f : list Z -> list Z) (a : axis) (inplace : bool) (lay : list (list nat)) (t : table)
  : table * result table :=
  transform a inplace lay (apply_fn f (transform_calls a lay t)) t.

(* pa (table.py:3095-3098): np.where(data != 0, 1., 0.) on the default axis 'sample'.
   [one] is the model's integer for 1.0 (the harness scale). *)
Definition pa_fn (one : Z) (seg : list Z) : list Z := map (fun x => if Z.eqb x 0 then 0%Z else one) seg.
Definition pa (one : Z) (inplace : bool) (lay : list (list nat)) (t : table) : table * result table :=
  transform_with (pa_fn one) Samp inplace lay t.

(* rankdata (table.py:3253-3256): scipy.stats.rankdata(val, method) per vector; the rank function is
   a parameter here and its recorded outputs are the inputs of the run *)
Definition rankdata (rk : list Z -> list Z) (a : axis) (inplace : bool) (lay : list (list nat)) (t : table)
  : table * result table :=
  transform_with rk a inplace lay t.

(* an element-wise function, and what it means for a table: zeros are never touched *)
Definition elementwise (g : Z -> Z) (seg : list Z) : list Z := map g seg.
Definition guard (g : Z -> Z) (x : Z) : Z := if Z.eqb x 0 then 0%Z else g x.

(* norm (table.py:3325-3328): val / float(val.sum()) per vector; exact rationals.
   The division is x / s for the sum s of the stored values (domain: non-negative values, so s > 0
   whenever something is stored). *)
Definition norm_fn (seg : list Z) : list Q := map (fun x => Qmake x (Z.to_pos (zsum seg))) seg.
Definition norm_vecs (a : axis) (lay : list (list nat)) (t : table) : list (list Q) :=
  scatter_all 0%Q (axis_vecs a t) lay (map (fun c : call => norm_fn (fst (fst c))) (transform_calls a lay t)).
(* the observations x samples matrix of the normalised table (ids, metadata, type are untouched) *)
Definition norm_mat (a : axis) (lay : list (list nat)) (t : table) : list (list Q) :=
  mat_of_vecs 0%Q a (n_other a t) (norm_vecs a lay t).

(* biom normalize-table (cli/table_normalizer.py:60-72): exactly one of -r / -p *)
Inductive normalized := NormRel (m : list (list Q)) | NormPA (t : table).
Definition normalize_table (relative_abund presence_absence : bool) (a : axis) (one : Z)
           (lay : list (list nat)) (t : table) : result normalized :=
  if negb relative_abund && negb presence_absence then RErr E_VALUE
  else if relative_abund && presence_absence then RErr E_VALUE
  else if relative_abund then ROk (NormRel (norm_mat a lay t))          (* table.norm(axis=axis) *)
  else match snd (pa one true lay t) with                               (* table.pa() *)
       | ROk r => ROk (NormPA r)
       | RErr c => RErr c
       end.

(* number of non-zero cells *)
Definition nnz (m : matrix) : nat := nsum (map count_nz m).
Definition qsum (l : list Q) : Q := fold_right Qplus 0%Q l.
