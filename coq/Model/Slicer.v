(* C14, text level: the JSON slicer behind `biom subset-table` (biom/parse.py:57-273, as of 6327e066, and
   biom/cli/table_subsetter.py:84-136) as functions over lists of code points, followed by the
   reference printers / parsers the theorems are stated with.

   A Python str is a sequence of code points; `text` is `list Z`.  Exceptions are results:
   IndexError -> E_OTHER, ValueError (incl. json.JSONDecodeError) -> E_VALUE, KeyError -> E_KEY,
   TypeError -> E_TYPE  (the enum of harness/tables.err_code). *)
From Coq Require Import String.
From Coq Require Import List Arith ZArith Lia Bool.
From BiomV Require Import Base.Tree Base.TreeStr Base.ListUtil Model.Table.
Import ListNotations.
Open Scope Z_scope.

Definition text := list Z.

Definition QUOTE := 34.   Definition BSL := 92.     Definition COMMA := 44.  Definition COLON := 58.
Definition LBRACK := 91.  Definition RBRACK := 93.  Definition LBRACE := 123. Definition RBRACE := 125.
Definition SP := 32.      Definition NL := 10.      Definition TAB := 9.

Definition teqb (a b : text) : bool := list_eqb Z.eqb a b.

(* ------------------------------------------------------------------ python str primitives *)
Fixpoint prefixb (p s : text) : bool :=
  match p, s with
  | [], _ => true
  | a :: p', b :: s' => Z.eqb a b && prefixb p' s'
  | _ :: _, [] => false
  end.

(* str.find *)
Fixpoint find_sub (p s : text) {struct s} : option nat :=
  if prefixb p s then Some 0%nat
  else match s with [] => None | _ :: t => option_map S (find_sub p t) end.

(* str.isspace for one code point *)
Definition is_space (c : Z) : bool :=
  ((9 <=? c) && (c <=? 13)) || ((28 <=? c) && (c <=? 32)) || (c =? 133) || (c =? 160) || (c =? 5760)
  || ((8192 <=? c) && (c <=? 8202)) || (c =? 8232) || (c =? 8233) || (c =? 8239) || (c =? 8287) || (c =? 12288).

Fixpoint lstrip (p : Z -> bool) (s : text) : text :=
  match s with c :: t => if p c then lstrip p t else s | [] => [] end.
Fixpoint rstrip (p : Z -> bool) (s : text) : text :=
  match s with
  | [] => []
  | c :: t => match rstrip p t with [] => if p c then [] else [c] | r => c :: r end
  end.
Definition strip (p : Z -> bool) (s : text) : text := rstrip p (lstrip p s).

(* str.split(c) for a one-character separator *)
Definition cons_hd (x : Z) (l : list text) : list text :=
  match l with h :: r => (x :: h) :: r | [] => [[x]] end.
Fixpoint split_char (c : Z) (s : text) : list text :=
  match s with
  | [] => [[]]
  | x :: t => if x =? c then [] :: split_char c t else cons_hd x (split_char c t)
  end.
(* str.split(ab) for a two-character separator (leftmost, non-overlapping) *)
Fixpoint split2 (a b : Z) (s : text) : list text :=
  match s with
  | [] => [[]]
  | x :: t =>
    match t with
    | y :: t' => if (x =? a) && (y =? b) then [] :: split2 a b t' else cons_hd x (split2 a b t)
    | [] => [[x]]
    end
  end.

Fixpoint join (sep : text) (l : list text) : text :=
  match l with [] => [] | [x] => x | x :: r => x ++ sep ++ join sep r end.

(* ------------------------------------------------------------------ decimal integers *)
Definition digit (n : nat) : Z := 48 + Z.of_nat n.
Fixpoint digits_fuel (fuel n : nat) (acc : text) : text :=
  match fuel with
  | O => acc
  | S f => let acc' := digit (n mod 10) :: acc in
           if Nat.eqb (n / 10) 0 then acc' else digits_fuel f (n / 10) acc'
  end.
(* str(n) / "%d" % n for n >= 0 *)
Definition print_nat (n : nat) : text := digits_fuel (S n) n [].
Definition print_Z (z : Z) : text := if z <? 0 then 45 :: print_nat (Z.to_nat (- z)) else print_nat (Z.to_nat z).

Definition is_digit (c : Z) : bool := (48 <=? c) && (c <=? 57).
Definition parse_nat_from (a : nat) (s : text) : nat := fold_left (fun a c => (10 * a + Z.to_nat (c - 48))%nat) s a.
Definition parse_nat (s : text) : option nat :=
  match s with [] => None | _ => if forallb is_digit s then Some (parse_nat_from 0 s) else None end.
(* int(s): surrounding whitespace and a sign are accepted (underscores are not modelled) *)
Definition py_int (s : text) : option Z :=
  match strip is_space s with
  | 45 :: d => option_map (fun n => - Z.of_nat n) (parse_nat d)
  | 43 :: d => option_map Z.of_nat (parse_nat d)
  | d => option_map Z.of_nat (parse_nat d)
  end.

(* ------------------------------------------------------------------ direct_parse_key (parse.py:57-115) *)
Definition key_pat (key : text) : text := QUOTE :: key ++ [QUOTE; COLON].      (* '"%s":' % key *)

(* 70-71: count the whitespace, None = ran off the end (IndexError) *)
Fixpoint skip_space (s : text) (n : nat) : option (nat * text) :=
  match s with
  | [] => None
  | c :: t => if is_space c then skip_space t (S n) else Some (n, s)
  end.

(* 73-80: s starts just after the opening quote; result = characters consumed up to and
   including the closing quote *)
Fixpoint scan_str (s : text) (n : nat) : option nat :=
  match s with
  | [] => None
  | c :: t =>
    if c =? QUOTE then Some (S n)
    else if c =? BSL then match t with [] => None | _ :: t' => scan_str t' (S (S n)) end
    else scan_str t (S n)
  end.

(* 82-85 *)
Fixpoint scan_num (s : text) (n : nat) : option nat :=
  match s with
  | [] => None
  | c :: t => if (c =? COMMA) || (c =? LBRACE) || (c =? RBRACE) then Some n else scan_num t (S n)
  end.

Definition is_open (c : Z) : bool := (c =? LBRACK) || (c =? LBRACE).
Definition is_close (c : Z) : bool := (c =? RBRACK) || (c =? RBRACE).

(* 87-113 (as of 6327e066): a stack of open brackets and, on top while inside a string, the
   opening quote.  Inside a string only two things count: a backslash skips the next character,
   an unescaped quote closes the string; brackets and braces are text.  Outside strings a quote
   pushes, a closing bracket pops whatever is on top, an opening bracket pushes. *)
Fixpoint scan_obj (s : text) (stack : list Z) (n : nat) {struct s} : option nat :=
  match stack with
  | [] => Some n
  | top :: below =>
    match s with
    | [] => None
    | c :: t =>
      if top =? QUOTE then
        (if c =? BSL then match t with [] => None | _ :: t' => scan_obj t' stack (S (S n)) end
         else if c =? QUOTE then scan_obj t below (S n)
         else scan_obj t stack (S n))
      else if c =? QUOTE then scan_obj t (c :: stack) (S n)
      else if is_close c then scan_obj t below (S n)
      else if is_open c then scan_obj t (c :: stack) (S n)
      else scan_obj t stack (S n)
    end
  end.

Definition direct_parse_key (s key : text) : result text :=
  match find_sub (key_pat key) s with
  | None => ROk []
  | Some base =>
    let from_base := skipn base s in
    let start := (length key + 3)%nat in
    match skip_space (skipn start from_base) 0 with
    | None => RErr E_OTHER
    | Some (nsp, rest) =>
      match rest with
      | [] => RErr E_OTHER
      | c :: rest' =>
        let consumed :=
          if c =? QUOTE then option_map S (scan_str rest' 0)
          else if negb (is_open c) then scan_num rest 0
          else scan_obj rest' [c] 1 in
        match consumed with
        | None => RErr E_OTHER
        | Some n => ROk (firstn (start + nsp + n) from_base)
        end
      end
    end
  end.

(* ------------------------------------------------------------------ the sparse slicers (parse.py:178-234) *)
Definition strip_set (c : Z) : bool := (c =? LBRACK) || (c =? RBRACK) || (c =? SP) || (c =? NL) || (c =? TAB).
Definition strip_f (x : text) : text := strip strip_set x.

(* sorted(set(to_keep)) *)
Fixpoint ninsert (x : nat) (l : list nat) : list nat :=
  match l with
  | [] => [x]
  | y :: t => if Nat.ltb x y then x :: l else if Nat.eqb x y then l else y :: ninsert x t
  end.
Definition sorted_set (l : list nat) : list nat := fold_right ninsert [] l.

(* {str(v): i for i, v in enumerate(sorted(to_keep))} *)
Definition lookup := list (text * nat).
Definition remap_lookup (to_keep : list nat) : lookup :=
  let s := sorted_set to_keep in combine (map print_nat s) (seq 0 (length s)).
Fixpoint lookup_get (k : text) (lk : lookup) : option nat :=
  match lk with [] => None | (k', v) :: t => if teqb k k' then Some v else lookup_get k t end.

Definition three (l : list text) : option (text * text * text) :=
  match l with [a; b; c] => Some (a, b, c) | _ => None end.

(* 178-187 *)
Definition remap_axis_obs (rcv : text) (lk : lookup) : result text :=
  match three (map strip_f (split_char COMMA rcv)) with
  | None => RErr E_VALUE
  | Some (row, col, value) =>
    match lookup_get row lk with
    | None => RErr E_KEY
    | Some i => ROk (print_nat i ++ [COMMA] ++ col ++ [COMMA] ++ value)
    end
  end.
Definition remap_axis_samp (rcv : text) (lk : lookup) : result text :=
  match three (map strip_f (split_char COMMA rcv)) with
  | None => RErr E_VALUE
  | Some (row, col, value) =>
    match lookup_get col lk with
    | None => RErr E_KEY
    | Some i => ROk (row ++ [COMMA] ++ print_nat i ++ [COMMA] ++ value)
    end
  end.

Definition rbind {A B} (r : result A) (f : A -> result B) : result B :=
  match r with RErr e => RErr e | ROk a => f a end.

(* the loop of _direct_slice_data_sparse_obs: a record that strips to nothing is skipped
   ("data": [] splits into one empty record); r, c, v = strip_f(rcv).split(',') *)
Fixpoint obs_rows (rcvs : list text) (lk : lookup) : result (list text) :=
  match rcvs with
  | [] => ROk []
  | rcv :: rest =>
    match strip_f rcv with
    | [] => obs_rows rest lk
    | _ =>
      match three (split_char COMMA (strip_f rcv)) with
      | None => RErr E_VALUE
      | Some (r, _, _) =>
        match lookup_get r lk with
        | Some _ => rbind (remap_axis_obs rcv lk) (fun x => rbind (obs_rows rest lk) (fun xs => ROk (x :: xs)))
        | None => obs_rows rest lk
        end
      end
    end
  end.
(* the loop of _direct_slice_data_sparse_samp: r, c, v = map(strip_f, rcv.split(',')) *)
Fixpoint samp_rows (rcvs : list text) (lk : lookup) : result (list text) :=
  match rcvs with
  | [] => ROk []
  | rcv :: rest =>
    match strip_f rcv with
    | [] => samp_rows rest lk
    | _ =>
      match three (map strip_f (split_char COMMA rcv)) with
      | None => RErr E_VALUE
      | Some (_, c, _) =>
        match lookup_get c lk with
        | Some _ => rbind (remap_axis_samp rcv lk) (fun x => rbind (samp_rows rest lk) (fun xs => ROk (x :: xs)))
        | None => samp_rows rest lk
        end
      end
    end
  end.

Definition SEP_ROWS : text := [RBRACK; COMMA; LBRACK].                 (* '],[' *)
Definition wrap_rows (rows : list text) : text := [LBRACK; LBRACK] ++ join SEP_ROWS rows ++ [RBRACK; RBRACK].
(* nothing kept: '[]' ; otherwise '[[%s]]' % '],['.join(new_data) *)
Definition out_rows (rows : list text) : text := match rows with [] => [LBRACK; RBRACK] | _ => wrap_rows rows end.

Definition slice_obs (data : text) (to_keep : list nat) : result text :=
  rbind (obs_rows (split2 RBRACK COMMA data) (remap_lookup to_keep)) (fun rows => ROk (out_rows rows)).
Definition slice_samp (data : text) (to_keep : list nat) : result text :=
  rbind (samp_rows (split2 RBRACK COMMA data) (remap_lookup to_keep)) (fun rows => ROk (out_rows rows)).

(* ------------------------------------------------------------------ direct_slice_data (parse.py:116-175) *)
Definition K_SHAPE : text := Eval compute in codes_of_string "shape".
Definition K_DATA : text := Eval compute in codes_of_string "data".
Definition K_MATRIX_TYPE : text := Eval compute in codes_of_string "matrix_type".
Definition T_DATA_OUT : text := Eval compute in codes_of_string """data"": ".
Definition T_SHAPE_OUT : text := Eval compute in codes_of_string ", ""shape"": ".

Definition last_of (l : list text) : text := last l [].
Definition nmax (l : list nat) : nat := fold_right Nat.max 0%nat l.

(* the text between the first '[' and the final character of the "data" pair (144-146) *)
Definition data_inner (data_fields : text) : text :=
  let start := match find_sub [LBRACK] data_fields with Some i => S i | None => 0%nat end in
  firstn (length data_fields - 1 - start) (skipn start data_fields).

Definition need_key (s key : text) : result text :=
  rbind (direct_parse_key s key) (fun kv => match kv with [] => RErr E_VALUE | _ => ROk kv end).

Definition direct_slice_data (s : text) (to_keep : list nat) (a : axis) : result text :=
  rbind (need_key s K_SHAPE) (fun shape_kv =>
  rbind (need_key s K_DATA) (fun data_fields =>
  rbind (need_key s K_MATRIX_TYPE) (fun _ =>
    let raw_shape := filter (fun c => negb ((c =? LBRACK) || (c =? RBRACK))) (last_of (split_char COLON shape_kv)) in
    match map py_int (split_char COMMA raw_shape) with
    | [Some n_rows; Some n_cols] =>
      let data := data_inner data_fields in
      match to_keep with
      | [] => RErr E_VALUE                                   (* min([]) *)
      | _ =>
        let bound := match a with Obs => n_rows | Samp => n_cols end in
        if bound <=? Z.of_nat (nmax to_keep) then RErr E_OTHER      (* IndexError, out of bounds *)
        else
          let new_shape := match a with
                           | Obs => [LBRACK] ++ print_nat (length to_keep) ++ [COMMA; SP] ++ print_Z n_cols ++ [RBRACK]
                           | Samp => [LBRACK] ++ print_Z n_rows ++ [COMMA; SP] ++ print_nat (length to_keep) ++ [RBRACK]
                           end in
          rbind (match a with Obs => slice_obs data to_keep | Samp => slice_samp data to_keep end) (fun new_data =>
          ROk (T_DATA_OUT ++ new_data ++ T_SHAPE_OUT ++ new_shape))
      end
    | _ => RErr E_VALUE                                       (* int() / unpacking *)
    end))).

(* ------------------------------------------------------------------ json.loads / json.dumps *)
Inductive jv := JNull | JTrue | JFalse | JNum (tok : text) | JStr (s : text)
              | JArr (l : list jv) | JObj (l : list (text * jv)).

Definition is_jws (c : Z) : bool := (c =? SP) || (c =? TAB) || (c =? NL) || (c =? 13).
Definition jskip (s : text) : text := lstrip is_jws s.

Definition hexval (c : Z) : option Z :=
  if (48 <=? c) && (c <=? 57) then Some (c - 48)
  else if (97 <=? c) && (c <=? 102) then Some (c - 87)
  else if (65 <=? c) && (c <=? 70) then Some (c - 55) else None.
Definition hex4 (a b c d : Z) : option Z :=
  match hexval a, hexval b, hexval c, hexval d with
  | Some x, Some y, Some z, Some w => Some (((x * 16 + y) * 16 + z) * 16 + w)
  | _, _, _, _ => None
  end.

(* s starts just after the opening quote; strict mode: raw control characters are refused *)
Fixpoint pstring (s : text) : option (text * text) :=
  match s with
  | [] => None
  | c :: t =>
    if c =? QUOTE then Some ([], t)
    else if c <? 32 then None
    else if c =? BSL then
      match t with
      | [] => None
      | e :: t1 =>
        let simple (x : Z) := match pstring t1 with Some (r, rest) => Some (x :: r, rest) | None => None end in
        if e =? QUOTE then simple QUOTE else if e =? BSL then simple BSL else if e =? 47 then simple 47
        else if e =? 98 then simple 8 else if e =? 102 then simple 12 else if e =? 110 then simple 10
        else if e =? 114 then simple 13 else if e =? 116 then simple 9
        else if e =? 117 then
          match t1 with
          | h1 :: h2 :: h3 :: h4 :: t2 =>
            match hex4 h1 h2 h3 h4 with
            | None => None
            | Some u =>
              let plain := match pstring t2 with Some (r, rest) => Some (u :: r, rest) | None => None end in
              if (55296 <=? u) && (u <=? 56319) then
                match t2 with
                | b2 :: u2 :: g1 :: g2 :: g3 :: g4 :: t3 =>
                  if (b2 =? BSL) && (u2 =? 117) then
                    match hex4 g1 g2 g3 g4 with
                    | Some lo =>
                      if (56320 <=? lo) && (lo <=? 57343) then
                        match pstring t3 with
                        | Some (r, rest) => Some ((65536 + (u - 55296) * 1024 + (lo - 56320)) :: r, rest)
                        | None => None
                        end
                      else plain
                    | None => plain
                    end
                  else plain
                | _ => plain
                end
              else plain
            end
          | _ => None
          end
        else None
      end
    else match pstring t with Some (r, rest) => Some (c :: r, rest) | None => None end
  end.

Fixpoint span (p : Z -> bool) (s : text) : text * text :=
  match s with
  | c :: t => if p c then let (a, b) := span p t in (c :: a, b) else ([], s)
  | [] => ([], [])
  end.

(* NUMBER_RE of json.scanner: the token is kept as text *)
Definition pnumber (s : text) : option (text * text) :=
  let (sign, s1) := match s with 45 :: t => ([45], t) | _ => ([], s) end in
  let (ip0, s20) := span is_digit s1 in
  match ip0 with
  | [] => None
  | d :: more =>
    let (ip, s2) := if (d =? 48) && negb (match more with [] => true | _ => false end)
                    then ([48], more ++ s20) else (ip0, s20) in
    let (fr, s3) := match s2 with
                    | 46 :: t => let (fd, r) := span is_digit t in
                                 match fd with [] => ([], s2) | _ => (46 :: fd, r) end
                    | _ => ([], s2)
                    end in
    let (ex, s4) := match s3 with
                    | e :: t =>
                      if (e =? 101) || (e =? 69) then
                        let (sg, t2) := match t with
                                        | c :: t' => if (c =? 43) || (c =? 45) then ([c], t') else ([], t)
                                        | [] => ([], t)
                                        end in
                        let (ed, r) := span is_digit t2 in
                        match ed with [] => ([], s3) | _ => (e :: sg ++ ed, r) end
                      else ([], s3)
                    | [] => ([], s3)
                    end in
    Some (sign ++ ip ++ fr ++ ex, s4)
  end.

(* a python dict: first insertion fixes the position, the last value wins *)
Fixpoint jset (d : list (text * jv)) (k : text) (v : jv) : list (text * jv) :=
  match d with
  | [] => [(k, v)]
  | (k', v') :: t => if teqb k k' then (k, v) :: t else (k', v') :: jset t k v
  end.
Fixpoint jget (d : list (text * jv)) (k : text) : option jv :=
  match d with [] => None | (k', v) :: t => if teqb k k' then Some v else jget t k end.

Definition T_NULL : text := Eval compute in codes_of_string "null".
Definition T_TRUE : text := Eval compute in codes_of_string "true".
Definition T_FALSE : text := Eval compute in codes_of_string "false".

Fixpoint pval (fuel : nat) (s : text) {struct fuel} : option (jv * text) :=
  match fuel with
  | O => None
  | S f =>
    match jskip s with
    | [] => None
    | c :: t =>
      if c =? QUOTE then match pstring t with Some (str, r) => Some (JStr str, r) | None => None end
      else if c =? LBRACK then
        match jskip t with
        | c2 :: r => if c2 =? RBRACK then Some (JArr [], r) else parr f t []
        | [] => None
        end
      else if c =? LBRACE then
        match jskip t with
        | c2 :: r => if c2 =? RBRACE then Some (JObj [], r) else pobj f t []
        | [] => None
        end
      else if prefixb T_NULL (c :: t) then Some (JNull, skipn 4 (c :: t))
      else if prefixb T_TRUE (c :: t) then Some (JTrue, skipn 4 (c :: t))
      else if prefixb T_FALSE (c :: t) then Some (JFalse, skipn 5 (c :: t))
      else match pnumber (c :: t) with Some (tok, r) => Some (JNum tok, r) | None => None end
    end
  end
with parr (fuel : nat) (s : text) (acc : list jv) {struct fuel} : option (jv * text) :=
  match fuel with
  | O => None
  | S f =>
    match pval f s with
    | None => None
    | Some (v, r) =>
      match jskip r with
      | c :: r' => if c =? COMMA then parr f r' (v :: acc)
                   else if c =? RBRACK then Some (JArr (rev (v :: acc)), r') else None
      | [] => None
      end
    end
  end
with pobj (fuel : nat) (s : text) (acc : list (text * jv)) {struct fuel} : option (jv * text) :=
  match fuel with
  | O => None
  | S f =>
    match jskip s with
    | q :: t =>
      if q =? QUOTE then
        match pstring t with
        | None => None
        | Some (k, r) =>
          match jskip r with
          | col :: r1 =>
            if col =? COLON then
              match pval f r1 with
              | None => None
              | Some (v, r2) =>
                match jskip r2 with
                | c :: r3 => if c =? COMMA then pobj f r3 (jset acc k v)
                             else if c =? RBRACE then Some (JObj (jset acc k v), r3) else None
                | [] => None
                end
              end
            else None
          | [] => None
          end
        end
      else None
    | [] => None
    end
  end.

(* json.loads: one value, nothing but whitespace after it *)
Definition json_loads (s : text) : option jv :=
  match pval (2 * length s + 4) s with
  | Some (v, r) => match jskip r with [] => Some v | _ => None end
  | None => None
  end.

(* json.dumps, default arguments: ensure_ascii, separators ', ' and ': ' *)
Definition hexd (k : Z) : Z := if k <? 10 then 48 + k else 87 + k.
Definition u_escape (c : Z) : text :=
  [BSL; 117; hexd ((c / 4096) mod 16); hexd ((c / 256) mod 16); hexd ((c / 16) mod 16); hexd (c mod 16)].
Definition esc_char (c : Z) : text :=
  if c =? QUOTE then [BSL; QUOTE] else if c =? BSL then [BSL; BSL]
  else if c =? 10 then [BSL; 110] else if c =? 13 then [BSL; 114] else if c =? 9 then [BSL; 116]
  else if c =? 8 then [BSL; 98] else if c =? 12 then [BSL; 102]
  else if (32 <=? c) && (c <=? 126) then [c]
  else if c <? 65536 then u_escape c
  else u_escape (55296 + ((c - 65536) / 1024) mod 1024) ++ u_escape (56320 + (c - 65536) mod 1024).
Definition json_escape (s : text) : text := flat_map esc_char s.
Definition print_jstring (s : text) : text := [QUOTE] ++ json_escape s ++ [QUOTE].

Definition SEP_ITEM : text := [COMMA; SP].
Definition SEP_KEY : text := [COLON; SP].
Fixpoint dumps (v : jv) : text :=
  match v with
  | JNull => T_NULL | JTrue => T_TRUE | JFalse => T_FALSE
  | JNum tok => tok                               (* number text re-emitted as read *)
  | JStr s => print_jstring s
  | JArr l => [LBRACK] ++ (fix go (l : list jv) : text :=
                             match l with [] => [] | [x] => dumps x | x :: r => dumps x ++ SEP_ITEM ++ go r end) l
              ++ [RBRACK]
  | JObj l => [LBRACE] ++ (fix go (l : list (text * jv)) : text :=
                             match l with
                             | [] => []
                             | [(k, x)] => print_jstring k ++ SEP_KEY ++ dumps x
                             | (k, x) :: r => print_jstring k ++ SEP_KEY ++ dumps x ++ SEP_ITEM ++ go r
                             end) l
              ++ [RBRACE]
  end.

(* ------------------------------------------------------------------ get_axis_indices (parse.py:237-273) *)
Definition K_ROWS : text := Eval compute in codes_of_string "rows".
Definition K_COLUMNS : text := Eval compute in codes_of_string "columns".
Definition K_ID : text := Eval compute in codes_of_string "id".

Fixpoint positions_from (k : nat) (mask : list bool) : list nat :=
  match mask with
  | [] => []
  | b :: m => if b then k :: positions_from (S k) m else positions_from (S k) m
  end.

(* v['id'] for every element *)
Fixpoint elem_ids (elems : list jv) : result (list jv) :=
  match elems with
  | [] => ROk []
  | JObj d :: rest =>
    match jget d K_ID with
    | None => RErr E_KEY
    | Some (JArr _) => RErr E_TYPE          (* unhashable in a set *)
    | Some (JObj _) => RErr E_TYPE
    | Some idv => rbind (elem_ids rest) (fun l => ROk (idv :: l))
    end
  | JStr _ :: _ => RErr E_TYPE
  | JArr _ :: _ => RErr E_TYPE
  | _ :: _ => RErr E_TYPE
  end.
Definition id_is (k : text) (v : jv) : bool := match v with JStr s => teqb s k | _ => false end.

Definition get_axis_indices (s : text) (to_keep : list text) (a : axis) : result (list nat * text) :=
  let axis_key := match a with Obs => K_ROWS | Samp => K_COLUMNS end in
  rbind (need_key s axis_key) (fun axis_data =>
  match json_loads ([LBRACE] ++ axis_data ++ [RBRACE]) with
  | Some (JObj d) =>
    match jget d axis_key with
    | Some (JArr elems) =>
      rbind (elem_ids elems) (fun all_ids =>
      if negb (forallb (fun k => existsb (id_is k) all_ids) to_keep) then RErr E_KEY
      else
        let mask := map (fun idv => existsb (fun k => id_is k idv) to_keep) all_ids in
        let idxs := positions_from 0 mask in
        let subset := select mask elems in
        let dumped := dumps (JObj [(axis_key, JArr subset)]) in
        ROk (idxs, firstn (length dumped - 2) (skipn 1 dumped)))
    | Some _ => RErr E_TYPE
    | None => RErr E_KEY
    end
  | Some _ => RErr E_OTHER
  | None => RErr E_VALUE
  end).

(* ------------------------------------------------------------------ _subset_table, JSON branch (table_subsetter.py:94-130) *)
Definition HEADER_KEYS : list text := Eval compute in
  map codes_of_string ["id"; "format"; "format_url"; "type"; "generated_by"; "date"; "matrix_type";
                       "matrix_element_type"]%string.

Fixpoint header_pieces (s : text) (keys : list text) : result (list text) :=
  match keys with
  | [] => ROk []
  | k :: rest => rbind (direct_parse_key s k) (fun kv =>
                 rbind (header_pieces s rest) (fun l => ROk (kv :: [COMMA] :: l)))
  end.

(* the pieces the generator yields, joined with a newline as the command writes them *)
Definition subset_json (s : text) (a : axis) (ids_ : list text) : result text :=
  rbind (get_axis_indices s ids_ a) (fun im =>
  rbind (direct_slice_data s (fst im) a) (fun new_data =>
  rbind (header_pieces s HEADER_KEYS) (fun hdr =>
  rbind (direct_parse_key s (match a with Obs => K_COLUMNS | Samp => K_ROWS end)) (fun other_kv =>
    ROk (join [NL] ([[LBRACE]] ++ hdr ++ [new_data; [COMMA]; snd im; [COMMA]; other_kv; [RBRACE]])))))).

(* ------------------------------------------------------------------ the command `biom subset-table` (table_subsetter.py:62-82) *)
(* iterating over the ids file: the pieces ending at a newline (a final piece without one counts
   too, an empty final piece does not) *)
Definition split_lines (s : text) : list text :=
  match rev (split_char NL s) with
  | [] :: r => rev r
  | _ => split_char NL s
  end.
(* 66-70: lines starting with '#' are skipped; line.strip().split('\t')[0] *)
Definition read_ids_file (s : text) : list text :=
  flat_map (fun line => match line with
                        | 35 :: _ => []
                        | _ => [hd [] (split_char TAB (strip is_space line))]
                        end) (split_lines s).
(* JSON input: every piece the generator yields is written followed by a newline (75-78) *)
Definition cli_subset_json (s : text) (a : axis) (ids_file : text) : result text :=
  rbind (subset_json s a (read_ids_file ids_file)) (fun out => ROk (out ++ [NL])).

(* an ids file as users write it: one id per line, optionally followed by tab-separated columns *)
Definition ids_line := (text * option text)%type.
Definition print_ids_line (l : ids_line) : text :=
  match snd l with None => fst l ++ [NL] | Some extra => fst l ++ TAB :: extra ++ [NL] end.
Definition print_ids_file (ls : list ids_line) : text := flat_map print_ids_line ls.
(* ids the file format can carry: not empty, no blank at either end, no tab, no newline, no leading '#' *)
Definition id_ok (i : text) : Prop :=
  i <> [] /\ is_space (hd 0 i) = false /\ is_space (last i 0) = false /\ ~ In TAB i /\ ~ In NL i /\ hd 0 i <> 35.
Definition extra_ok (e : text) : Prop := e <> [] /\ is_space (last e 0) = false /\ ~ In NL e.
Definition ids_line_ok (l : ids_line) : Prop :=
  id_ok (fst l) /\ match snd l with None => True | Some e => extra_ok e end.

(* ================================================================== reference printers / parsers *)
(* A sparse entry: row, column, value token (the number text exactly as the file holds it). *)
Definition triple := (nat * nat * text)%type.

(* whitespace a JSON printer may put around the tokens of the data array *)
Record ws_choice := mkWs {
  w_open : text;        (* after the outer '['              *)
  w_row_open : text;    (* after the '[' of a row           *)
  w_item : text;        (* after a ',' inside a row         *)
  w_row_close : text;   (* before the ']' of a row          *)
  w_rows : text;        (* after the ',' between two rows   *)
  w_close : text        (* before the outer ']'             *)
}.
Definition is_blank (c : Z) : bool := (c =? SP) || (c =? NL) || (c =? TAB).
Definition blank (w : text) : Prop := Forall (fun c => is_blank c = true) w.
Definition ws_ok (w : ws_choice) : Prop :=
  blank (w_open w) /\ blank (w_row_open w) /\ blank (w_item w) /\ blank (w_row_close w)
  /\ blank (w_rows w) /\ blank (w_close w).

Definition ws_compact : ws_choice := mkWs [] [] [] [] [] [].                       (* separators=(',', ':') and to_json *)
Definition ws_default : ws_choice := mkWs [] [] [SP] [] [SP] [].                   (* json.dumps(doc) *)
(* json.dumps(doc, indent=2), the data array sits at depth 1 *)
Definition ws_indent2 : ws_choice :=
  mkWs [NL; SP; SP; SP; SP] [NL; SP; SP; SP; SP; SP; SP] [NL; SP; SP; SP; SP; SP; SP] [NL; SP; SP; SP; SP]
       [NL; SP; SP; SP; SP] [NL; SP; SP].

Definition print_row (w : ws_choice) (t : triple) : text :=
  let '(r, c, v) := t in
  [LBRACK] ++ w_row_open w ++ print_nat r ++ [COMMA] ++ w_item w ++ print_nat c ++ [COMMA] ++ w_item w ++ v
  ++ w_row_close w ++ [RBRACK].
(* rows separated by ',' + w_rows *)
Fixpoint print_rows (w : ws_choice) (l : list triple) : text :=
  match l with
  | [] => []
  | [t] => print_row w t
  | t :: r => print_row w t ++ [COMMA] ++ w_rows w ++ print_rows w r
  end.
(* the text strictly between the outer brackets, and the whole array *)
Definition print_inner (w : ws_choice) (l : list triple) : text :=
  match l with [] => [] | _ => w_open w ++ print_rows w l ++ w_close w end.
Definition print_ws (w : ws_choice) (l : list triple) : text := [LBRACK] ++ print_inner w l ++ [RBRACK].

(* value tokens: non-empty, no separator, bracket or blank inside *)
Definition tok_char (c : Z) : bool := negb ((c =? COMMA) || (c =? LBRACK) || (c =? RBRACK) || is_blank c).
Definition tok_ok (v : text) : Prop := v <> [] /\ Forall (fun c => tok_char c = true) v.
Definition triples_ok (l : list triple) : Prop := Forall (fun t => tok_ok (snd t)) l.

(* reference reader of a JSON array of [row, column, value] rows: a tokenizer that skips blanks
   and a recursive-descent parser over the tokens; written independently of the slicer (no
   splitting on '],' , no stripping) *)
Inductive token := TL | TR | TC | TA (a : text).
Definition flush (cur : text) (rest : list token) : list token :=
  match cur with [] => rest | _ => TA (rev cur) :: rest end.
Fixpoint tokenize (s : text) (cur : text) : list token :=
  match s with
  | [] => flush cur []
  | c :: t =>
    if c =? LBRACK then flush cur (TL :: tokenize t [])
    else if c =? RBRACK then flush cur (TR :: tokenize t [])
    else if c =? COMMA then flush cur (TC :: tokenize t [])
    else if is_blank c then flush cur (tokenize t [])
    else tokenize t (c :: cur)
  end.

(* rows := row (',' row)* ; row := '[' nat ',' nat ',' atom ']' *)
Fixpoint parse_rows (fuel : nat) (ts : list token) : option (list triple * list token) :=
  match fuel with
  | O => None
  | S f =>
    match ts with
    | TL :: TA r :: TC :: TA c :: TC :: TA v :: TR :: rest =>
      match parse_nat r, parse_nat c with
      | Some r', Some c' =>
        match rest with
        | TC :: rest' =>
          match parse_rows f rest' with
          | Some (l, rest'') => Some ((r', c', v) :: l, rest'')
          | None => None
          end
        | _ => Some ([(r', c', v)], rest)
        end
      | _, _ => None
      end
    | _ => None
    end
  end.
Definition parse_triples (s : text) : option (list triple) :=
  match tokenize s [] with
  | [TL; TR] => Some []
  | TL :: ts =>
    match parse_rows (length ts) ts with
    | Some (l, [TR]) => Some l
    | _ => None
    end
  | _ => None
  end.

(* what subsetting means on triples *)
Definition nmem (x : nat) (l : list nat) : bool := existsb (Nat.eqb x) l.
(* rank of x among the kept indices = number of distinct kept indices below x *)
Definition rank (keep : list nat) (x : nat) : nat := length (filter (fun y => Nat.ltb y x) (sorted_set keep)).
Definition subset_obs (keep : list nat) (l : list triple) : list triple :=
  map (fun t => let '(r, c, v) := t in (rank keep r, c, v)) (filter (fun t => nmem (fst (fst t)) keep) l).
Definition subset_samp (keep : list nat) (l : list triple) : list triple :=
  map (fun t => let '(r, c, v) := t in (r, rank keep c, v)) (filter (fun t => nmem (snd (fst t)) keep) l).

(* header documents: a prefix, the pair under inspection, what follows *)
Inductive hvalue := HStr (s : text) | HLit (tok : text).        (* a string, or null / true / a number *)
Definition print_hvalue (v : hvalue) : text := match v with HStr s => print_jstring s | HLit t => t end.
Definition print_pair (key : text) (w : text) (v : hvalue) : text := key_pat key ++ w ++ print_hvalue v.
Definition lit_ok (t : text) : Prop :=
  t <> [] /\ Forall (fun c => ((c =? COMMA) || (c =? LBRACE) || (c =? RBRACE) || (c =? QUOTE) || is_open c || is_space c) = false) t.
(* the key pattern does not occur in s before position n *)
Definition no_occ_before (p s : text) (n : nat) : Prop := forall k, (k < n)%nat -> prefixb p (skipn k s) = false.
Fixpoint no_occ_beforeb (p s : text) (n : nat) {struct n} : bool :=
  match n with
  | O => true
  | S n' => negb (prefixb p s) && match s with [] => true | _ :: t => no_occ_beforeb p t n' end
  end.
