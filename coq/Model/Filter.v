(* C08: Table.filter / remove_empty / head at the content level (L1), and the inner loop
   of the compiled predicate kernel (_filter.pyx:41-52) at the array level (L2). *)
From Coq Require Import List Arith ZArith Lia Bool.
From BiomV Require Import Base.Tree Base.ListUtil Base.Matrix Model.Table Model.Orient.
From BiomV Require Export Gen.FilterGen.
Import ListNotations.

(* keep the vectors of axis [a] at the positions where [mask] is true
   (_filter.pyx:135-150: _remove_rows_csr + compress(ids) + compress(metadata)) *)
Definition filter_mask (mask : list bool) (a : axis) (t : table) : table :=
  match a with
  | Obs => mkT (select mask (oids t)) (sids t) (sel_rows mask (mat t))
               (option_map (select mask) (omd t)) (smd t) (ttype t)
  | Samp => mkT (oids t) (select mask (sids t)) (sel_cols mask (mat t))
                (omd t) (option_map (select mask) (smd t)) (ttype t)
  end.

(* Table.filter (table.py) reinstalls the kernel's result and then calls _cast_metadata, which
   applies the constructor's rule to both metadata tuples: entries all empty -> None *)
Definition norm_md (t : table) : table :=
  mkT (oids t) (sids t) (mat t) (ctor_md (omd t)) (ctor_md (smd t)) (ttype t).
Definition filter_table (mask : list bool) (a : axis) (t : table) : table := norm_md (filter_mask mask a t).

(* iterable path, _filter.pyx:126-130: idx = [index[id_] for id_ in ids_to_keep] raises KeyError
   for an unknown id before anything is modified; bools = put(idx, True) xor invert *)
Definition filter_ids (keep : list Z) (invert : bool) (a : axis) (t : table) : result table :=
  if forallb (fun x => zmem x (ids a t)) keep
  then ROk (filter_table (map (fun i => xorb (zmem i keep) invert) (ids a t)) a t)
  else RErr E_KEY.

(* function path: the user predicate is code, its verdicts are an input of the model *)
Definition filter_pred (verdicts : list bool) (invert : bool) (a : axis) (t : table) : table :=
  filter_table (map (fun b => xorb b invert) verdicts) a t.

(* the ids a predicate accepts *)
Definition accepted (verdicts : list bool) (a : axis) (t : table) : list Z := select verdicts (ids a t).

(* what the predicate is called with, in call order: (vector, id, metadata) per id *)
Definition pred_calls (a : axis) (t : table) : list (list Z * Z * option Tree) :=
  map (fun i => (vec a t i, nth i (ids a t) 0%Z, md_at a t i)) (seq 0 (length (ids a t))).

(* remove_empty, table.py: keeps the vectors that have a non-zero entry *)
Definition nonempty_mask (a : axis) (t : table) : list bool :=
  map (fun i => negb (all_zero (vec a t i))) (seq 0 (length (ids a t))).
Definition remove_empty_axis (a : axis) (t : table) : table := filter_table (nonempty_mask a t) a t.
(* axis = 'whole' filters samples first, then observations of the result *)
Definition remove_empty_whole (t : table) : table := remove_empty_axis Obs (remove_empty_axis Samp t).

(* head(n, m), table.py:1262-1272: n <= 0 or m <= 0 is IndexError *)
Definition head_mask (n len : nat) : list bool := map (fun i => Nat.ltb i n) (seq 0 len).
Definition head (n m : Z) (t : table) : result table :=
  if (n <=? 0)%Z || (m <=? 0)%Z then RErr E_OTHER
  else ROk (filter_table (head_mask (Z.to_nat m) (nsamp t)) Samp
             (filter_table (head_mask (Z.to_nat n) (nobs t)) Obs t)).

(* ---- L2: the dense-vector rebuild loop of _make_filter_array_general ----
   for j in range(n):
       if start >= end or j < indices[start]: row[j] = 0
       elif j == indices[start]:              row[j] = data[start]; start += 1
   The buffer [row] is reused between vectors (allocated once before the outer loop). *)
Section Rebuild.
  Variable data : list Z.
  Variable indices : list nat.

  (* rebuild_body is GENERATED from the loop above by tools/py2v (Gen/FilterGen.v, regenerated on
     every check): rebuild_body data indices end_ (start, row) j.  When no branch is taken the
     reused buffer keeps its old value. *)

  Definition rebuild (n start end_ : nat) (row0 : list Z) : nat * list Z :=
    fold_left (rebuild_body data indices end_) (seq 0 n) (start, row0).

  (* the dense vector a segment denotes: position j holds the value stored with index j *)
  Fixpoint seg_lookup (k : nat) (start len : nat) : Z :=
    match len with
    | O => 0%Z
    | S len' => if nth start indices 0 =? k then nth start data 0%Z else seg_lookup k (S start) len'
    end.
  Definition seg_dense (n start end_ : nat) : list Z :=
    map (fun k => seg_lookup k start (end_ - start)) (seq 0 n).
End Rebuild.
