(* C11: Table.partition (biom/table.py:2401-2530) and Table.collapse (table.py:2532-2844),
   one-to-one and one-to-many, on the content of tables.
   The labelling function is user code: the labels it returns are an input of the model
   (one label code per id, in id order; NONE_LABEL stands for python None; equal codes
   = labels that are equal as python dict keys).  The two dict forms are modelled.
   As in Model/Concat.v the requested axis is turned into the row axis first.
   Line numbers cite biom/table.py of the pinned tree (32a1913a, as in properties.jsonl); later
   repairs shift them by a few dozen lines, the statement order inside each method is unchanged. *)
From Coq Require Import List Arith ZArith Lia Bool.
From BiomV Require Import Base.Tree Base.ListUtil Base.Matrix Model.Table Model.Orient Model.Filter.
Import ListNotations.

Definition NONE_LABEL : Z := 0%Z.

Inductive labelling :=
| LFun (labels : list Z)            (* f(id, md) evaluated by the harness, per id *)
| LIdMap (m : list (Z * Z))         (* dict id -> label (first value is a str) *)
| LGrpMap (m : list (Z * list Z))   (* dict label -> list/tuple of ids *)
| LBadMap                           (* dict whose first value is neither: ValueError, table.py:2475 *)
| LEmptyMap.                        (* empty dict: list(f.values())[0] is an IndexError *)

Fixpoint assoc (m : list (Z * Z)) (x : Z) : Z :=
  match m with
  | [] => NONE_LABEL                (* mapping.get(i) -> None *)
  | (k, v) :: r => if Z.eqb x k then v else assoc r x
  end.

(* table.py:2466-2469: for grp, ids in f.items(): for id_ in ids: mapping[id_] = grp
   (a later assignment overwrites an earlier one) *)
Definition grp_pairs (m : list (Z * list Z)) : list (Z * Z) :=
  flat_map (fun gi => map (fun i => (i, fst gi)) (snd gi)) m.

Definition labels_of (lab : labelling) (ids : list Z) : list Z :=
  match lab with
  | LFun labels => map (fun i => nth i labels NONE_LABEL) (seq 0 (length ids))
  | LIdMap m => map (assoc m) ids
  | LGrpMap m => map (assoc (rev (grp_pairs m))) ids
  | LBadMap | LEmptyMap => []
  end.

(* what iter(dense=False) yields per vector: id, values, metadata (None when the axis has none) *)
Notation vrec := (Z * list Z * Tree)%type (only parsing).
Definition v_id (v : vrec) : Z := fst (fst v).
Definition v_row (v : vrec) : list Z := snd (fst v).
Definition v_md (v : vrec) : Tree := snd v.
Definition vrecs (t : table) : list vrec :=
  combine (combine (oids t) (mat t)) (md_list (omd t) (nobs t)).

(* partitions[part][0..2].append(id_, vals, md), table.py:2497-2502: a python dict keeps the
   labels in order of first insertion; a bucket is the list of the vectors appended to it *)
Fixpoint group_add (g : list (Z * list vrec)) (l : Z) (v : vrec) : list (Z * list vrec) :=
  match g with
  | [] => [(l, [v])]
  | (l', b) :: r => if Z.eqb l l' then (l', b ++ [v]) :: r else (l', b) :: group_add r l v
  end.

Definition group_step (ignore_none : bool) (g : list (Z * list vrec)) (lv : Z * vrec) :=
  if ignore_none && Z.eqb (fst lv) NONE_LABEL then g else group_add g (fst lv) (snd lv).

Definition groups (labels : list Z) (vs : list vrec) (ignore_none : bool) : list (Z * list vrec) :=
  fold_left (group_step ignore_none) (combine labels vs) [].

(* table.py:2506-2525 for axis = observation (rows): the vectors, ids and metadata of the
   bucket, the complete other axis with a copy of its metadata, the type of self *)
Definition part_rows (t : table) (b : list vrec) : table :=
  mkT (map v_id b) (sids t) (map v_row b) (ctor_md (Some (map v_md b))) (ctor_md (smd t)) (ttype t).

Definition lab_error (lab : labelling) : option Z :=
  match lab with LBadMap => Some E_VALUE | LEmptyMap => Some E_OTHER | _ => None end.

Definition partition_t (t : table) (a : axis) (lab : labelling) (ignore_none remove_empty : bool)
  : result (list (Z * table)) :=
  match lab_error lab with
  | Some c => RErr c
  | None =>
    let o := orient a t in
    ROk (map (fun g => (fst g,
                        let p := orient a (part_rows o (snd g)) in
                        if remove_empty then remove_empty_whole p else p))
             (groups (labels_of lab (oids o)) (vrecs o) ignore_none))
  end.

(* ---- collapse ---- *)
(* a collapsed table: the matrix holds numerators, cdiv the divisor of each collapsed
   vector (1 without normalisation): value = numerator / divisor *)
Record collapsed := mkC { ctab : table; cdiv : list Z }.

(* {'collapsed_ids': [ids]} ; the harness turns the codes back into the id texts *)
Definition collapsed_md (ids : list Z) : Tree := L [I 7; L (map I ids)].

(* one-to-one, table.py:2819-2851 (rows).  When no group is kept the result is the empty table
   over the complete other axis (the matrix gets the shape (n_other, 0) resp. (0, n_other)). *)
Definition collapse_rows (o : table) (labels : list Z) (norm : bool) (min_group : Z) (incl_md : bool)
  : collapsed :=
  let gs := filter (fun g => Z.leb min_group (Z.of_nat (length (snd g)))) (groups labels (vrecs o) false) in
  let rows := map (fun g => col_sums (nsamp o) (map v_row (snd g))) gs in
  let mds := map (fun g => collapsed_md (map v_id (snd g))) gs in
  let divs := map (fun g => if norm then Z.of_nat (length (snd g)) else 1%Z) gs in
  mkC (mkT (map fst gs) (sids o) rows (if incl_md then ctor_md (Some mds) else None)
           (ctor_md (smd o)) (ttype o))
      divs.

(* one-to-many, table.py:2700-2803.  Per vector the harness supplies the (pathway, group)
   pairs its generator yields and whether the generator ends with an IndexError. *)
Fixpoint dset (d : list (Z * Tree)) (k : Z) (v : Tree) : list (Z * Tree) :=
  match d with
  | [] => [(k, v)]
  | (k', v') :: r => if Z.eqb k k' then (k, v) :: r else (k', v') :: dset r k v
  end.
Fixpoint dget (d : list (Z * Tree)) (k : Z) : Tree :=
  match d with
  | [] => md_none
  | (k', v) :: r => if Z.eqb k k' then v else dget r k
  end.

(* first loop, table.py:2710-2732: new_md[partition] = pathway *)
Definition new_md_of (paths : list (list (Tree * Z))) : list (Z * Tree) :=
  fold_left (fun d p => fold_left (fun d pg => dset d (snd pg) (fst pg)) p d) paths [].

Definition lcm_counts (paths : list (list (Tree * Z))) : Z :=
  fold_right (fun p k => match p with [] => k | _ => Z.lcm (Z.of_nat (length p)) k end) 1%Z paths.

Definition vadd (a b : list Z) : list Z := map (fun p => (fst p + snd p)%Z) (combine a b).

(* second loop, table.py:2751-2786: new_data[:, column] += vals (/ md_count) *)
Definition o2m_accumulate (rows0 : matrix) (order : list Z) (vecs : matrix)
           (paths : list (list (Tree * Z))) (k : Z) (divide : bool) : matrix :=
  fold_left (fun rows vp =>
               let v := fst vp in let p := snd vp in
               let w := if divide then (k / Z.of_nat (length p))%Z else 1%Z in
               fold_left (fun rows pg =>
                            let c := pos0 (snd pg) order in
                            upd rows c (vadd (nth c rows []) (map (Z.mul w) v)))
                         p rows)
            (combine vecs paths) rows0.

Definition path_md (key pw : Tree) : Tree := L [I 6; L [L [key; pw]]].

Definition o2m_rows (o : table) (paths : list (list (Tree * Z))) (raises : list bool)
           (strict divide incl_md : bool) (key : Tree) : result collapsed :=
  match omd o with
  | None => RErr E_TYPE                                   (* zip(ids, None) *)
  | Some _ =>
    if strict && existsb (fun b => b) raises then RErr E_OTHER      (* IndexError *)
    else
      let new_md := new_md_of paths in
      let order := isort (map fst new_md) in
      let k := if divide then lcm_counts paths else 1%Z in
      let rows := o2m_accumulate (repeat (zero_row (nsamp o)) (length order)) order (mat o) paths k divide in
      ROk (mkC (mkT order (sids o) rows
                    (if incl_md then ctor_md (Some (map (fun g => path_md key (dget new_md g)) order)) else None)
                    (ctor_md (smd o)) (ttype o))
               (repeat k (length order)))
  end.

Inductive collapse_mode := OneToOne (lab : labelling) (min_group : Z)
                         | OneToMany (paths : list (list (Tree * Z))) (raises : list bool)
                                     (strict : bool) (key : Tree).

(* mode: 0 = 'add', 1 = 'divide', anything else is refused first (table.py:2675) *)
Definition collapse_t (t : table) (a : axis) (m : collapse_mode) (norm incl_md : bool) (mode : Z)
  : result collapsed :=
  if negb (Z.eqb mode 0 || Z.eqb mode 1) then RErr E_VALUE
  else
    let o := orient a t in
    let back c := mkC (orient a (ctab c)) (cdiv c) in
    match m with
    | OneToMany paths raises strict key =>
        if norm then RErr E_OTHER                        (* AttributeError, table.py:2701 *)
        else match o2m_rows o paths raises strict (Z.eqb mode 1) incl_md key with
             | ROk c => ROk (back c)
             | RErr e => RErr e
             end
    | OneToOne lab min_group =>
        match lab_error lab with
        | Some c => RErr c
        | None => ROk (back (collapse_rows o (labels_of lab (oids o)) norm min_group incl_md))
        end
    end.
