(* L4: a BIOM 2.1 HDF5 file as a typed tree, the writer Table.to_hdf5 and the reader
   Table.from_hdf5 (biom/table.py), the BIOM 2.1 conformance predicate and a decoder that
   uses only what doc/documentation/format_versions/biom-2.1.rst says.

   Text is a list of Unicode code points (`str`); what h5py stores is a list of byte values
   (`bytes`); the UTF-8 coder pair between them is written here and proved to round-trip in
   Proofs/Hdf5Proofs.v.  Matrix values and float metadata are the 64 bit patterns of the
   doubles read as signed integers (0.0 <-> 0), so "bit-identical" is literal.

   Not modelled (trusted to h5py / HDF5, validated by the raw-file comparison of the
   correspondence run): the gzip filter (compress on/off gives the same tree), HDF5 link-name
   rules (a name is one path component), datetime.isoformat / fromisoformat (a date is its
   ISO text).  Writer and reader branches outside the property's domain return the marker
   E_UNMODELLED instead of guessing (mixed-type categories, flat-string taxonomy, list-valued
   non-reserved categories whose name contains a slash). *)
From Coq Require Import String.
From Coq Require Import List Arith ZArith Lia Bool.
From BiomV Require Import Base.Tree Base.TreeStr Base.ListUtil Base.Matrix Model.Table Model.Sparse.
Import ListNotations.
Open Scope list_scope.

Definition str := list Z.      (* Unicode code points *)
Definition bytes := list Z.    (* byte values 0..255 *)
Definition lz_eqb : list Z -> list Z -> bool := list_eqb Z.eqb.
Definition E_UNMODELLED := 99%Z.

(* ------------------------------------------------------------------ UTF-8 *)
Open Scope Z_scope.
Definition enc_cp (c : Z) : bytes :=
  if c <? 128 then [c]
  else if c <? 2048 then [192 + c / 64; 128 + c mod 64]
  else if c <? 65536 then [224 + c / 4096; 128 + (c / 64) mod 64; 128 + c mod 64]
  else [240 + c / 262144; 128 + (c / 4096) mod 64; 128 + (c / 64) mod 64; 128 + c mod 64].
Definition utf8_encode (s : str) : bytes := flat_map enc_cp s.

Definition is_cont (b : Z) : bool := (128 <=? b) && (b <? 192).
(* strict decoder (rejects overlong forms, surrogates, > U+10FFFF, stray bytes), like Python's *)
Fixpoint utf8_decode (l : bytes) : option str :=
  match l with
  | [] => Some []
  | b0 :: t =>
    if (0 <=? b0) && (b0 <? 128) then option_map (cons b0) (utf8_decode t)
    else if (194 <=? b0) && (b0 <? 224) then
      match t with
      | b1 :: t1 =>
        if is_cont b1 then option_map (cons ((b0 - 192) * 64 + (b1 - 128))) (utf8_decode t1) else None
      | _ => None
      end
    else if (224 <=? b0) && (b0 <? 240) then
      match t with
      | b1 :: b2 :: t2 =>
        let c := (b0 - 224) * 4096 + (b1 - 128) * 64 + (b2 - 128) in
        if is_cont b1 && is_cont b2 && (2048 <=? c) && negb ((55296 <=? c) && (c <? 57344))
        then option_map (cons c) (utf8_decode t2) else None
      | _ => None
      end
    else if (240 <=? b0) && (b0 <? 245) then
      match t with
      | b1 :: b2 :: b3 :: t3 =>
        let c := (b0 - 240) * 262144 + (b1 - 128) * 4096 + (b2 - 128) * 64 + (b3 - 128) in
        if is_cont b1 && is_cont b2 && is_cont b3 && (65536 <=? c) && (c <? 1114112)
        then option_map (cons c) (utf8_decode t3) else None
      | _ => None
      end
    else None
  end.

(* a Unicode scalar value other than NUL (h5py variable-length strings cannot hold NUL) *)
Definition scalar (c : Z) : Prop := (0 < c < 55296) \/ (57344 <= c < 1114112).
Definition scalarb (c : Z) : bool := ((0 <? c) && (c <? 55296)) || ((57344 <=? c) && (c <? 1114112)).
Definition text (s : str) : Prop := Forall scalar s.
Definition textb (s : str) : bool := forallb scalarb s.
Close Scope Z_scope.

Definition dec (b : bytes) : result str :=
  match utf8_decode b with Some s => ROk s | None => RErr E_VALUE end.

(* ------------------------------------------------------------------ result monad *)
Definition bind {A B} (r : result A) (k : A -> result B) : result B :=
  match r with ROk a => k a | RErr e => RErr e end.
Notation "x <- r ;; k" := (bind r (fun x => k)) (at level 61, r at next level, right associativity).

Fixpoint mapM {A B} (f : A -> result B) (l : list A) : result (list B) :=
  match l with
  | [] => ROk []
  | x :: t => y <- f x ;; ys <- mapM f t ;; ROk (y :: ys)
  end.

(* ------------------------------------------------------------------ Python str.replace *)
Fixpoint prefixb (p l : list Z) : bool :=
  match p with
  | [] => true
  | x :: p' => match l with [] => false | y :: l' => Z.eqb x y && prefixb p' l' end
  end.
(* left-to-right, non-overlapping; `skip` counts the characters of a match still to be dropped *)
Fixpoint replace_go (old new : list Z) (skip : nat) (l : list Z) : list Z :=
  match l with
  | [] => []
  | c :: t =>
    match skip with
    | S k => replace_go old new k t
    | O => if prefixb old l then new ++ replace_go old new (length old - 1) t
           else c :: replace_go old new 0 t
    end
  end.
Definition replace (old new l : list Z) : list Z := replace_go old new 0 l.

Definition lit (s : string) : list Z := codes_of_string s.
Definition s_slash : str := Eval vm_compute in lit "/".
Definition s_token : str := Eval vm_compute in lit "@@SLASH@@".
(* table.py:285 and table.py:4213 *)
Definition sanitize (k : str) : str := replace s_slash s_token k.
Definition unsanitize (k : str) : str := replace s_token s_slash k.
Definition has_slash (k : str) : bool := zmem 47%Z k.

(* ------------------------------------------------------------------ the HDF5 tree *)
Inductive dkind := KF64 | KI32 | KI64 | KBool | KVStr.
Definition dkind_eqb (a b : dkind) : bool :=
  match a, b with
  | KF64, KF64 | KI32, KI32 | KI64, KI64 | KBool, KBool | KVStr, KVStr => true
  | _, _ => false
  end.
(* a dataset: element kind, shape, row-major payload (d_num for the numeric kinds, d_str for
   variable-length strings) and its string attributes *)
Record dset := mkD { d_kind : dkind; d_shape : list nat; d_num : list Z; d_str : list bytes;
                     d_attrs : list (bytes * bytes) }.
(* attribute values: variable-length string, scalar int64, 1-D int64 array *)
Inductive aval := AStr (b : bytes) | AInt (z : Z) | AInts (l : list Z).
Definition path := list bytes.
Record h5 := mkH { attrs : list (bytes * aval); groups : list path; dsets : list (path * dset) }.

Definition path_eqb : path -> path -> bool := list_eqb lz_eqb.
Fixpoint get_attr (l : list (bytes * aval)) (k : bytes) : option aval :=
  match l with [] => None | (k', v) :: t => if lz_eqb k k' then Some v else get_attr t k end.
Fixpoint get_dset (l : list (path * dset)) (p : path) : option dset :=
  match l with [] => None | (p', d) :: t => if path_eqb p p' then Some d else get_dset t p end.
Definition has_group (f : h5) (p : path) : bool := existsb (path_eqb p) (groups f).
(* datasets that are direct children of group g, with their last path component *)
Definition children_of (l : list (path * dset)) (g : path) : list (bytes * dset) :=
  flat_map (fun pd => match rev (fst pd) with
                      | name :: rg => if path_eqb (rev rg) g then [(name, snd pd)] else []
                      | [] => []
                      end) l.
Definition children (f : h5) (g : path) : list (bytes * dset) := children_of (dsets f) g.

Definition dnum (k : dkind) (l : list Z) : dset := mkD k [length l] l [] [].
Definition dstr1 (l : list bytes) : dset := mkD KVStr [length l] [] l [].
Definition dstr2 (cols : nat) (rows : list (list bytes)) : dset :=
  mkD KVStr [length rows; cols] [] (concat rows) [].

(* names *)
Definition b_observation : bytes := Eval vm_compute in lit "observation".
Definition b_sample : bytes := Eval vm_compute in lit "sample".
Definition b_ids : bytes := Eval vm_compute in lit "ids".
Definition b_matrix : bytes := Eval vm_compute in lit "matrix".
Definition b_data : bytes := Eval vm_compute in lit "data".
Definition b_indices : bytes := Eval vm_compute in lit "indices".
Definition b_indptr : bytes := Eval vm_compute in lit "indptr".
Definition b_metadata : bytes := Eval vm_compute in lit "metadata".
Definition b_group_metadata : bytes := Eval vm_compute in lit "group-metadata".
Definition b_data_type : bytes := Eval vm_compute in lit "data_type".
Definition b_id : bytes := Eval vm_compute in lit "id".
Definition b_type : bytes := Eval vm_compute in lit "type".
Definition b_format_url : bytes := Eval vm_compute in lit "format-url".
Definition b_format_version : bytes := Eval vm_compute in lit "format-version".
Definition b_generated_by : bytes := Eval vm_compute in lit "generated-by".
Definition b_creation_date : bytes := Eval vm_compute in lit "creation-date".
Definition b_shape : bytes := Eval vm_compute in lit "shape".
Definition b_nnz : bytes := Eval vm_compute in lit "nnz".
Definition s_no_table_id : str := Eval vm_compute in lit "No Table ID".
Definition s_url : str := Eval vm_compute in lit "http://biom-format.org".
Definition s_taxonomy : str := Eval vm_compute in lit "taxonomy".
Definition s_Taxonomy : str := Eval vm_compute in lit "Taxonomy".
Definition s_KEGG : str := Eval vm_compute in lit "KEGG_Pathways".
Definition s_collapsed : str := Eval vm_compute in lit "collapsed_ids".
Definition vocabulary : list str := Eval vm_compute in
  map lit ["OTU table"; "Pathway table"; "Function table"; "Ortholog table"; "Gene table";
           "Metabolite table"; "Taxon table"]%string.

Definition axis_name (a : axis) : bytes := match a with Obs => b_observation | Samp => b_sample end.
(* categories with the list-of-strings layout: table.py:4641-4644 (writer), 4204-4207 (reader) *)
Definition reserved (k : str) : bool :=
  lz_eqb k s_taxonomy || lz_eqb k s_Taxonomy || lz_eqb k s_KEGG || lz_eqb k s_collapsed.

(* ------------------------------------------------------------------ table state *)
(* one metadata value; floats by bit pattern *)
Inductive mdval := MNone | MStr (s : str) | MInt (z : Z) | MFloat (bits : Z) | MBool (b : bool)
                 | MList (l : list str).
Definition mdrow := list (str * mdval).        (* a dict, in insertion order *)
Fixpoint mdget (r : mdrow) (k : str) : option mdval :=
  match r with [] => None | (k', v) :: t => if lz_eqb k k' then Some v else mdget t k end.
Definition mdkeys (r : mdrow) : list str := map fst r.

(* what to_hdf5 reads from a table: ids, the sparse matrix as it is held (any layout), metadata,
   type, table id, group metadata (key -> (data type, payload)) *)
Record state := mkSt {
  st_oids : list str; st_sids : list str;
  st_fmt : fmt; st_cs : cs;
  st_omd : option (list mdrow); st_smd : option (list mdrow);
  st_type : option str; st_id : option str;
  st_ogmd : list (str * (str * str)); st_sgmd : list (str * (str * str)) }.

Definition st_ids (a : axis) (st : state) := match a with Obs => st_oids st | Samp => st_sids st end.
Definition st_md (a : axis) (st : state) := match a with Obs => st_omd st | Samp => st_smd st end.
Definition st_gmd (a : axis) (st : state) := match a with Obs => st_ogmd st | Samp => st_sgmd st end.
(* the table matrix (observations x samples) *)
Definition st_mat (st : state) : matrix := matrix_of (st_fmt st) (st_cs st).
Definition st_nobs (st : state) : nat :=
  match st_fmt st with CSR => major (st_cs st) | CSC => minor (st_cs st) end.
Definition st_nsamp (st : state) : nat :=
  match st_fmt st with CSR => minor (st_cs st) | CSC => major (st_cs st) end.

(* what a loaded table exposes *)
Record loaded := mkLd {
  l_oids : list str; l_sids : list str; l_mat : matrix;
  l_omd : option (list mdrow); l_smd : option (list mdrow);
  l_type : option str; l_id : str; l_genby : str; l_date : str;
  l_ogmd : list (str * str); l_sgmd : list (str * str) }.

(* ------------------------------------------------------------------ writer: metadata formatters *)
Definition is_str (v : mdval) := match v with MStr _ => true | _ => false end.
Definition is_list (v : mdval) := match v with MList _ => true | _ => false end.
Definition is_int (v : mdval) := match v with MInt _ => true | _ => false end.
Definition is_float (v : mdval) := match v with MFloat _ => true | _ => false end.
Definition is_bool (v : mdval) := match v with MBool _ => true | _ => false end.
Definition is_str_or_none (v : mdval) := match v with MStr _ | MNone => true | _ => false end.
Definition is_list_or_none (v : mdval) := match v with MList _ | MNone => true | _ => false end.

Definition str_payload (v : mdval) : bytes := match v with MStr s => utf8_encode s | _ => [] end.
Definition num_payload (v : mdval) : Z :=
  match v with MInt z => z | MFloat z => z | MBool b => if b then 1%Z else 0%Z | _ => 0%Z end.
Definition list_len (v : mdval) : nat := match v with MList l => length l | _ => 0 end.
Definition nmax (l : list nat) : nat := fold_right Nat.max 0 l.
Definition list_row (w : nat) (v : mdval) : list bytes :=
  match v with
  | MList l => map utf8_encode l ++ repeat [] (w - length l)
  | _ => repeat [] w
  end.

(* vlen_list_of_str_formatter, table.py:323-385: an (N, longest) dataset of variable-length
   strings, short rows padded with empty strings; the dataset name is the header as given *)
Definition fmt_vlen_list (k : str) (col : list mdval) : result (bytes * dset) :=
  if existsb (fun v => is_int v || is_float v || is_bool v) col then RErr E_TYPE
  else if existsb is_str col then
    (if lz_eqb k s_taxonomy && forallb is_str col then RErr E_UNMODELLED else RErr E_TYPE)
  else if negb (existsb is_list col) then RErr E_VALUE
  else
    let w := nmax (map list_len col) in
    if Nat.eqb w 0 then RErr E_UNMODELLED
    else ROk (utf8_encode k, dstr2 w (map (list_row w) col)).

(* general_formatter, table.py:277-320 *)
Definition fmt_general (k : str) (col : list mdval) : result (bytes * dset) :=
  let name := utf8_encode (sanitize k) in
  if forallb is_str col then ROk (name, dstr1 (map str_payload col))
  else if forallb is_list col then
    (if has_slash k then RErr E_UNMODELLED else fmt_vlen_list k col)
  else if forallb is_str_or_none col then ROk (name, dstr1 (map str_payload col))
  else if forallb is_int col then ROk (name, dnum KI64 (map num_payload col))
  else if forallb is_float col then ROk (name, dnum KF64 (map num_payload col))
  else if forallb is_bool col then ROk (name, dnum KBool (map num_payload col))
  else RErr E_UNMODELLED.

(* the formatter table, table.py:4640-4645 *)
Definition format_category (k : str) (col : list mdval) : result (bytes * dset) :=
  if reserved k then fmt_vlen_list k col else fmt_general k col.

Definition column (rows : list mdrow) (k : str) : list mdval :=
  map (fun r => match mdget r k with Some v => v | None => MNone end) rows.
Definition subsetb (a b : list str) : bool := forallb (fun x => existsb (lz_eqb x) b) a.
Definition same_keys (r r0 : mdrow) : bool :=
  subsetb (mdkeys r) (mdkeys r0) && subsetb (mdkeys r0) (mdkeys r).
Fixpoint bdup (l : list bytes) : bool :=
  match l with [] => false | x :: t => existsb (lz_eqb x) t || bdup t end.

(* table.py:4657-4675: nothing for absent / empty metadata; every ID must carry the categories of
   the first one (ValueError otherwise); one dataset per category of the first ID, in its order.
   Two categories that map to the same dataset name make h5py raise ValueError. *)
Definition format_md (md : option (list mdrow)) : result (list (bytes * dset)) :=
  match md with
  | None => ROk []
  | Some [] => ROk []
  | Some (r0 :: rest) =>
    if forallb (fun r => same_keys r r0) rest then
      ds <- mapM (fun k => format_category k (column (r0 :: rest) k)) (mdkeys r0) ;;
      if bdup (map fst ds) then RErr E_VALUE else ROk ds
    else RErr E_VALUE
  end.

(* table.py:4677-4689: one (1,) variable-length string dataset per entry, data_type attribute *)
Definition format_gmd (g : list (str * (str * str))) : result (list (bytes * dset)) :=
  if existsb (fun e => has_slash (fst e)) g then RErr E_UNMODELLED
  else ROk (map (fun e => (utf8_encode (fst e),
                           mkD KVStr [1] [] [utf8_encode (snd (snd e))]
                               [(b_data_type, utf8_encode (fst (snd e)))])) g).

(* ------------------------------------------------------------------ writer *)
Definition zs (l : list nat) : list Z := map Z.of_nat l.
Definition ns (l : list Z) : list nat := map Z.to_nat l.

(* table.py:4691-4715 *)
Definition matrix_dsets (a : bytes) (r : cs) (nnz : nat) : list (path * dset) :=
  [ ([a; b_matrix; b_data], mkD KF64 [nnz] (data r) [] []);
    ([a; b_matrix; b_indices], mkD KI32 [nnz] (zs (indices r)) [] []);
    ([a; b_matrix; b_indptr], mkD KI32 [length (indptr r)] (zs (indptr r)) [] []) ].
Definition ids_dset (a : bytes) (ids : list str) : list (path * dset) :=
  [ ([a; b_ids], match ids with
                 | [] => dnum KF64 []                 (* h5py cannot create an empty vlen dataset *)
                 | _ => dstr1 (map utf8_encode ids)
                 end) ].
Definition under (p : path) (l : list (bytes * dset)) : list (path * dset) :=
  map (fun nd => (p ++ [fst nd], snd nd)) l.
Definition axis_groups (a : bytes) : list path :=
  [[a]; [a; b_metadata]; [a; b_group_metadata]; [a; b_matrix]].

Definition opt_text (o : option str) (dflt : str) : str :=
  match o with Some (c :: s) => c :: s | _ => dflt end.

(* Table.to_hdf5, table.py:4618-4715.
   4623: nnz eliminates the stored zeros of the held matrix in place and counts what is left;
   4624-4634: the eight attributes; 4647-4650: per axis the held matrix is converted with
   asformat and kept, so the sample copy is converted from the observation copy. *)
(* the file, given the formatted metadata of both axes *)
Definition assemble (st : state) (genby date : str)
           (omd ogmd smd sgmd : list (bytes * dset)) : h5 :=
  let r0 := eliminate_zeros (st_cs st) in
  let nnz := length (data r0) in
  let r_obs := asformat (st_fmt st) CSR r0 in
  let r_samp := asformat CSR CSC r_obs in
  mkH
    [ (b_id, AStr (utf8_encode (opt_text (st_id st) s_no_table_id)));
      (b_type, AStr (utf8_encode (opt_text (st_type st) [])));
      (b_format_url, AStr (utf8_encode s_url));
      (b_format_version, AInts [2%Z; 1%Z]);
      (b_generated_by, AStr (utf8_encode genby));
      (b_creation_date, AStr (utf8_encode date));
      (b_shape, AInts [Z.of_nat (st_nobs st); Z.of_nat (st_nsamp st)]);
      (b_nnz, AInt (Z.of_nat nnz)) ]
    (axis_groups b_observation ++ axis_groups b_sample)
    (under [b_observation; b_metadata] omd ++ under [b_observation; b_group_metadata] ogmd
     ++ matrix_dsets b_observation r_obs nnz ++ ids_dset b_observation (st_oids st)
     ++ under [b_sample; b_metadata] smd ++ under [b_sample; b_group_metadata] sgmd
     ++ matrix_dsets b_sample r_samp nnz ++ ids_dset b_sample (st_sids st)).

Definition to_hdf5 (st : state) (genby date : str) : result h5 :=
  omd <- format_md (st_omd st) ;;
  ogmd <- format_gmd (st_ogmd st) ;;
  smd <- format_md (st_smd st) ;;
  sgmd <- format_gmd (st_sgmd st) ;;
  ROk (assemble st genby date omd ogmd smd sgmd).

(* ------------------------------------------------------------------ reader *)
Definition attr_text (f : h5) (k : bytes) : result str :=
  match get_attr (attrs f) k with
  | Some (AStr b) => dec b
  | Some _ => RErr E_UNMODELLED
  | None => RErr E_KEY
  end.
Definition need_dset (f : h5) (p : path) : result dset :=
  match get_dset (dsets f) p with Some d => ROk d | None => RErr E_KEY end.

Fixpoint chunks {A} (w n : nat) (l : list A) : list (list A) :=
  match n with O => [] | S n' => firstn w l :: chunks w n' (skipn w l) end.

(* vlen_list_of_str_parser, table.py:265-274: empty strings are padding *)
Definition parse_list_row (row : list bytes) : result mdval :=
  l <- mapM dec (filter (fun b => negb (lz_eqb b [])) row) ;;
  ROk (match l with [] => MNone | _ => MList l end).

(* the parser table, table.py:4203-4208, applied to every row of a dataset *)
Definition parse_column (cat : str) (d : dset) : result (list mdval) :=
  if reserved cat then
    match d_kind d, d_shape d with
    | KVStr, [n; w] => mapM parse_list_row (chunks w n (d_str d))
    | _, _ => RErr E_UNMODELLED
    end
  else
    match d_kind d, d_shape d with
    | KVStr, [_] => mapM (fun b => s <- dec b ;; ROk (MStr s)) (d_str d)       (* general_parser *)
    | KI64, [_] | KI32, [_] => ROk (map MInt (d_num d))
    | KF64, [_] => ROk (map MFloat (d_num d))
    | KBool, [_] => ROk (map (fun z => MBool (negb (Z.eqb z 0))) (d_num d))
    | _, _ => RErr E_UNMODELLED
    end.

(* decode_ids, table.py:4123-4130 *)
Definition load_ids (d : dset) : result (list str) :=
  match d_kind d with
  | KVStr => mapM dec (d_str d)
  | _ => match d_num d with [] => ROk [] | _ => RErr E_UNMODELLED end
  end.

(* axis_load, table.py:4198-4225.  The categories are visited in the order the file lists them
   (h5py: by name); a row is a dict, so only membership and lookup are observable. *)
Definition axis_load (f : h5) (a : bytes)
  : result (list str * option (list mdrow) * list (str * str)) :=
  d_ids <- need_dset f [a; b_ids] ;;
  ids <- load_ids d_ids ;;
  u1 <- (if has_group f [a; b_metadata] then ROk tt else RErr E_KEY) ;;
  cols <- mapM (fun nd => name <- dec (fst nd) ;;
                          let cat := unsanitize name in
                          vals <- parse_column cat (snd nd) ;;
                          ROk (cat, vals)) (children f [a; b_metadata]) ;;
  let md := map (fun i => flat_map (fun cv => match nth_error (snd cv) i with
                                              | Some v => [(fst cv, v)]
                                              | None => []
                                              end) cols) (seq 0 (length ids)) in
  let md' := if existsb (fun r => match r with [] => false | _ => true end) md
             then Some md else None in
  u2 <- (if has_group f [a; b_group_metadata] then ROk tt else RErr E_KEY) ;;
  gmd <- mapM (fun nd => name <- dec (fst nd) ;;
                         v <- match d_str (snd nd) with
                              | b :: _ => dec b
                              | [] => RErr E_OTHER
                              end ;;
                         ROk (name, v)) (children f [a; b_group_metadata]) ;;
  ROk (ids, md', gmd).

Fixpoint sdup (l : list str) : bool :=
  match l with [] => false | x :: t => existsb (lz_eqb x) t || sdup t end.

(* Table.from_hdf5 without subsetting, table.py:4173-4313; `ax` names the matrix copy that is read
   (the three load paths of the library use 'sample').  The constructor refuses id lists
   that do not match the shape or contain duplicates (TableException). *)
Definition from_hdf5 (f : h5) (ax : axis) : result loaded :=
  id_ <- attr_text f b_id ;;
  date <- attr_text f b_creation_date ;;
  genby <- attr_text f b_generated_by ;;
  shape <- match get_attr (attrs f) b_shape with
           | Some (AInts [n; m]) => ROk (Z.to_nat n, Z.to_nat m)
           | Some _ => RErr E_UNMODELLED
           | None => RErr E_KEY
           end ;;
  ty <- attr_text f b_type ;;
  o <- axis_load f b_observation ;;
  s <- axis_load f b_sample ;;
  let a := axis_name ax in
  d_data <- need_dset f [a; b_matrix; b_data] ;;
  d_indices <- need_dset f [a; b_matrix; b_indices] ;;
  d_indptr <- need_dset f [a; b_matrix; b_indptr] ;;
  let '(n, m) := shape in
  let mat := match ax with
             | Samp => transpose n (dense_of (mkCS m n (ns (d_num d_indptr)) (ns (d_num d_indices)) (d_num d_data)))
             | Obs => dense_of (mkCS n m (ns (d_num d_indptr)) (ns (d_num d_indices)) (d_num d_data))
             end in
  let '(oids, omd, ogmd) := o in
  let '(sids, smd, sgmd) := s in
  if negb (Nat.eqb (length oids) n) || negb (Nat.eqb (length sids) m) || sdup oids || sdup sids
  then RErr E_TABLE
  else ROk (mkLd oids sids mat omd smd (match ty with [] => None | _ => Some ty end)
                 id_ genby date ogmd sgmd).

(* ------------------------------------------------------------------ BIOM 2.1 conformance *)
(* transcribed from doc/documentation/format_versions/biom-2.1.rst.  N = shape[0] observations,
   M = shape[1] samples.  The rst gives (M+1,) for observation/matrix/indptr and (N+1,) for
   sample/matrix/indptr; compressed row offsets have rows+1 = N+1 entries and compressed column
   offsets M+1, and that is what is required here (the two sizes are swapped in the rst).
   An ids dataset of length 0 has no element whose kind could be wrong, so the element kind
   of ids is constrained only for a non-empty axis. *)
Definition required_groups : list path :=
  axis_groups b_observation ++ axis_groups b_sample.

Definition dset_is (f : h5) (p : path) (k : dkind) (len : nat) : Prop :=
  exists d, get_dset (dsets f) p = Some d /\ d_kind d = k /\ d_shape d = [len]
            /\ length (if dkind_eqb k KVStr then map (fun _ => 0%Z) (d_str d) else d_num d) = len.

Definition ids_ok (f : h5) (a : bytes) (len : nat) : Prop :=
  exists d, get_dset (dsets f) [a; b_ids] = Some d /\ d_shape d = [len]
            /\ (len > 0 -> d_kind d = KVStr /\ length (d_str d) = len).

(* every metadata dataset has one entry (row) per ID; the special categories are 2-D string sets *)
Definition md_ok_h5 (f : h5) (a : bytes) (len : nat) : Prop :=
  Forall (fun nd => match d_shape (snd nd) with
                    | n :: _ => n = len
                    | [] => False
                    end
                    /\ (forall s, utf8_decode (fst nd) = Some s -> reserved s = true ->
                                  d_kind (snd nd) = KVStr /\ exists w, d_shape (snd nd) = [len; w]))
         (children f [a; b_metadata]).
(* group metadata: a single string with a data_type attribute *)
Definition gmd_ok_h5 (f : h5) (a : bytes) : Prop :=
  Forall (fun nd => d_kind (snd nd) = KVStr /\ length (d_str (snd nd)) = 1
                    /\ exists t, In (b_data_type, t) (d_attrs (snd nd)))
         (children f [a; b_group_metadata]).

Definition conforms (f : h5) : Prop :=
  exists n m nnz,
    (exists b, get_attr (attrs f) b_id = Some (AStr b))
    /\ (exists b, get_attr (attrs f) b_type = Some (AStr b)
                  /\ (b = [] \/ In b (map utf8_encode vocabulary)))
    /\ (exists b, get_attr (attrs f) b_format_url = Some (AStr b))
    /\ get_attr (attrs f) b_format_version = Some (AInts [2%Z; 1%Z])
    /\ (exists b, get_attr (attrs f) b_generated_by = Some (AStr b))
    /\ (exists b, get_attr (attrs f) b_creation_date = Some (AStr b))
    /\ get_attr (attrs f) b_shape = Some (AInts [Z.of_nat n; Z.of_nat m])
    /\ get_attr (attrs f) b_nnz = Some (AInt (Z.of_nat nnz))
    /\ Forall (fun p => has_group f p = true) required_groups
    /\ ids_ok f b_observation n /\ ids_ok f b_sample m
    /\ dset_is f [b_observation; b_matrix; b_data] KF64 nnz
    /\ dset_is f [b_observation; b_matrix; b_indices] KI32 nnz
    /\ dset_is f [b_observation; b_matrix; b_indptr] KI32 (S n)
    /\ dset_is f [b_sample; b_matrix; b_data] KF64 nnz
    /\ dset_is f [b_sample; b_matrix; b_indices] KI32 nnz
    /\ dset_is f [b_sample; b_matrix; b_indptr] KI32 (S m)
    /\ md_ok_h5 f b_observation n /\ md_ok_h5 f b_sample m
    /\ gmd_ok_h5 f b_observation /\ gmd_ok_h5 f b_sample.

(* ------------------------------------------------------------------ specification decoder *)
(* reads shape and one matrix group, checks what the format promises about a compressed matrix
   (offsets of the right length, starting at 0, monotone, ending at the number of stored values;
   indices in range, no index twice in a row/column; no stored zero; the number of stored values
   is nnz) and decodes it.  Nothing of the library's reader is used. *)
Definition spec_arrays (f : h5) (a : bytes) (mj mn : nat) : option cs :=
  match get_dset (dsets f) [a; b_matrix; b_data], get_dset (dsets f) [a; b_matrix; b_indices],
        get_dset (dsets f) [a; b_matrix; b_indptr], get_attr (attrs f) b_nnz with
  | Some dd, Some di, Some dp, Some (AInt nnz) =>
    let r := mkCS mj mn (ns (d_num dp)) (ns (d_num di)) (d_num dd) in
    if forallb (Z.leb 0) (d_num dp) && forallb (Z.leb 0) (d_num di)
       && wf_csb r && no_stored_zerob r && Z.eqb (Z.of_nat (length (data r))) nnz
    then Some r else None
  | _, _, _, _ => None
  end.
Definition spec_shape (f : h5) : option (nat * nat) :=
  match get_attr (attrs f) b_shape with
  | Some (AInts [n; m]) => if Z.leb 0 n && Z.leb 0 m then Some (Z.to_nat n, Z.to_nat m) else None
  | _ => None
  end.
(* observation/matrix is compressed sparse row: N rows of column indices *)
Definition spec_decode_csr (f : h5) : option matrix :=
  match spec_shape f with
  | Some (n, m) => option_map dense_of (spec_arrays f b_observation n m)
  | None => None
  end.
(* sample/matrix is compressed sparse column: M columns of row indices *)
Definition spec_decode_csc (f : h5) : option matrix :=
  match spec_shape f with
  | Some (n, m) => option_map (fun r => transpose n (dense_of r)) (spec_arrays f b_sample m n)
  | None => None
  end.

(* ------------------------------------------------------------------ hypotheses of the theorems *)
(* the state a coherent table is in, for any layout of the held matrix *)
Definition wf_state (st : state) : Prop :=
  wf_cs (st_cs st)
  /\ length (st_oids st) = st_nobs st /\ length (st_sids st) = st_nsamp st
  /\ NoDup (st_oids st) /\ NoDup (st_sids st)
  /\ Forall text (st_oids st) /\ Forall text (st_sids st).

(* per-category-homogeneous metadata in the property's sense: a column is all text, all int,
   all float, all bool, or (reserved names only) all non-empty lists of non-empty text *)
Definition list_ok (v : mdval) : Prop :=
  match v with MList l => l <> [] /\ Forall (fun s => s <> [] /\ text s) l | _ => False end.
Definition str_ok (v : mdval) : Prop := match v with MStr s => text s | _ => False end.
Definition column_ok (k : str) (col : list mdval) : Prop :=
  if reserved k then Forall list_ok col
  else Forall str_ok col \/ forallb is_int col = true \/ forallb is_float col = true
       \/ forallb is_bool col = true.
(* the escape of a slash in a category name must read back (it does whenever the name has no
   at-sign; see slash_escape_refuted for a name where it does not) *)
Definition cat_ok (k : str) : Prop := text k /\ unsanitize (sanitize k) = k.
Definition md_homogeneous (md : option (list mdrow)) (n : nat) : Prop :=
  match md with
  | None => True
  | Some rows =>
    length rows = n /\
    match rows with
    | [] => True
    | r0 :: rest =>
      r0 <> [] /\ NoDup (mdkeys r0) /\ Forall cat_ok (mdkeys r0)
      /\ Forall (fun r => NoDup (mdkeys r) /\ same_keys r r0 = true) rest
      /\ Forall (fun k => column_ok k (column rows k)) (mdkeys r0)
    end
  end.
Definition gmd_ok (g : list (str * (str * str))) : Prop :=
  NoDup (map fst g)
  /\ Forall (fun e => text (fst e) /\ has_slash (fst e) = false /\ text (fst (snd e)) /\ text (snd (snd e))) g.
Definition opt_ok (o : option str) : Prop := match o with Some s => s <> [] /\ text s | None => True end.
(* a table id may be absent or empty: both are written as the placeholder *)
Definition id_ok (o : option str) : Prop := match o with Some s => text s | None => True end.
Definition meta_ok (st : state) : Prop :=
  md_homogeneous (st_omd st) (length (st_oids st)) /\ md_homogeneous (st_smd st) (length (st_sids st))
  /\ gmd_ok (st_ogmd st) /\ gmd_ok (st_sgmd st) /\ opt_ok (st_type st) /\ id_ok (st_id st).

(* metadata agreement as dictionaries: same categories, same value per ID and category *)
Definition row_agree (a b : mdrow) : Prop :=
  (forall k, In k (mdkeys a) <-> In k (mdkeys b)) /\ (forall k, mdget a k = mdget b k).
Definition md_agree (a b : option (list mdrow)) : Prop :=
  match a, b with
  | None, None => True
  | Some x, Some y => Forall2 row_agree x y
  | _, _ => False
  end.
(* what "no metadata" means for the constructor: absent, or no ID carries a category *)
Definition md_norm (md : option (list mdrow)) : option (list mdrow) :=
  match md with
  | Some rows => if existsb (fun r => match r with [] => false | _ => true end) rows then md else None
  | None => None
  end.

(* ------------------------------------------------------------------ deciding the hypotheses *)
(* boolean versions of the hypotheses of hdf5_roundtrip / hdf5_conforms (sound: Hdf5Proofs.in_domainb_sound).
   The correspondence run evaluates them on every case, so the evidence says how many of the
   files actually written lie inside the theorems' domain. *)
Definition is_nil {A} (l : list A) : bool := match l with [] => true | _ => false end.
Definition wf_stateb (st : state) : bool :=
  wf_csb (st_cs st) && Nat.eqb (length (st_oids st)) (st_nobs st) && Nat.eqb (length (st_sids st)) (st_nsamp st)
  && negb (sdup (st_oids st)) && negb (sdup (st_sids st)) && forallb textb (st_oids st) && forallb textb (st_sids st).
Definition list_okb (v : mdval) : bool :=
  match v with
  | MList l => negb (is_nil l) && forallb (fun s => negb (is_nil s) && textb s) l
  | _ => false
  end.
Definition str_okb (v : mdval) : bool := match v with MStr s => textb s | _ => false end.
Definition column_okb (k : str) (col : list mdval) : bool :=
  if reserved k then forallb list_okb col
  else forallb str_okb col || forallb is_int col || forallb is_float col || forallb is_bool col.
Definition cat_okb (k : str) : bool := textb k && lz_eqb (unsanitize (sanitize k)) k.
Definition md_homogeneousb (md : option (list mdrow)) (n : nat) : bool :=
  match md with
  | None => true
  | Some rows =>
    Nat.eqb (length rows) n &&
    match rows with
    | [] => true
    | r0 :: rest =>
      negb (is_nil r0) && negb (sdup (mdkeys r0)) && forallb cat_okb (mdkeys r0)
      && forallb (fun r => negb (sdup (mdkeys r)) && same_keys r r0) rest
      && forallb (fun k => column_okb k (column rows k)) (mdkeys r0)
    end
  end.
Definition gmd_okb (g : list (str * (str * str))) : bool :=
  negb (sdup (map fst g))
  && forallb (fun e => textb (fst e) && negb (has_slash (fst e)) && textb (fst (snd e)) && textb (snd (snd e))) g.
Definition opt_okb (o : option str) : bool := match o with Some s => negb (is_nil s) && textb s | None => true end.
Definition id_okb (o : option str) : bool := match o with Some s => textb s | None => true end.
Definition meta_okb (st : state) : bool :=
  md_homogeneousb (st_omd st) (length (st_oids st)) && md_homogeneousb (st_smd st) (length (st_sids st))
  && gmd_okb (st_ogmd st) && gmd_okb (st_sgmd st) && opt_okb (st_type st) && id_okb (st_id st).
Definition type_in_vocabb (st : state) : bool :=
  match st_type st with None => true | Some s => existsb (lz_eqb s) vocabulary end.
Definition in_domainb (st : state) (genby date : str) : bool :=
  wf_stateb st && meta_okb st && textb genby && textb date.

(* ------------------------------------------------------------------ writing a table that was loaded *)
(* The constructor documents group metadata as  key -> (data type, payload);  from_hdf5 leaves only
   the payload text per key (table.py:4281-4283).  to_hdf5 (table.py:4760-4765) writes a pair as
   (data type, payload) and a bare text as the payload with the empty data type: the data type
   itself does not survive a load (the property asks for the payload only). *)
Inductive gval := GPair (dt v : str) | GText (s : str).
Definition unpack_gval (g : gval) : result (str * str) :=
  match g with
  | GPair dt v => ROk (dt, v)
  | GText s => ROk ([], s)
  end.
Definition with_gmd (st : state) (og sg : list (str * (str * str))) : state :=
  mkSt (st_oids st) (st_sids st) (st_fmt st) (st_cs st) (st_omd st) (st_smd st) (st_type st) (st_id st) og sg.
Definition unpack_gmd (l : list (str * gval)) : result (list (str * (str * str))) :=
  mapM (fun kv => v <- unpack_gval (snd kv) ;; ROk (fst kv, v)) l.
(* to_hdf5 of a table whose group metadata values are whatever its history left *)
Definition to_hdf5_raw (st : state) (og sg : list (str * gval)) (genby date : str) : result h5 :=
  og' <- unpack_gmd og ;; sg' <- unpack_gmd sg ;; to_hdf5 (with_gmd st og' sg') genby date.
