(* C14, array level: subsetting while reading an HDF5 BIOM file, and parse_table(ids=, axis=)
   on a loaded JSON table.

   An HDF5 BIOM file stores, per axis, the ids, optional per-id metadata and the WHOLE matrix
   in that axis' compressed orientation (observation/matrix is CSR, sample/matrix is CSC).
   `Table.from_hdf5(h, ids=, axis=)` reads only the orientation of the requested axis
   (biom/table.py:4302-4305) while a plain `Table.from_hdf5(h)` reads the sample orientation
   (default axis = 'sample').  Everything below follows biom/table.py:4183-4395 (as of 6327e066) statement by
   statement; numpy / scipy calls are replaced by the list functions defined here.

   IDs are integer codes, matrix values are (scaled) integers, a metadata entry is an opaque
   Tree: the subset readers only move metadata entries. *)
From Coq Require Import List Arith ZArith Lia Bool.
From BiomV Require Import Base.Tree Base.ListUtil Base.Matrix Model.Table.
Import ListNotations.

(* ------------------------------------------------------------------ the stored file *)
Record h5axis := mkAx {
  ax_ids : list Z;               (* <axis>/ids *)
  ax_indptr : list nat;          (* <axis>/matrix/indptr  (length = number of ids + 1) *)
  ax_indices : list nat;         (* <axis>/matrix/indices (positions on the OTHER axis) *)
  ax_data : list Z;              (* <axis>/matrix/data *)
  ax_md : option (list Tree)     (* what axis_load returns: None when no id has metadata *)
}.
Record h5file := mkH5 { f_obs : h5axis; f_samp : h5axis; f_type : Z }.

Definition stored (a : axis) (f : h5file) : h5axis := match a with Obs => f_obs f | Samp => f_samp f end.
Definition file_ids (a : axis) (f : h5file) : list Z := ax_ids (stored a f).

(* ------------------------------------------------------------------ compressed -> dense *)
(* python slice l[s:e] *)
Definition slice {A} (s e : nat) (l : list A) : list A := firstn (e - s) (skipn s l).

(* value at minor position j of a stored segment: scipy sums duplicates, absent = 0 *)
Fixpoint seg_get (idx : list nat) (dat : list Z) (j : nat) : Z :=
  match idx, dat with
  | i :: idx', v :: dat' => ((if Nat.eqb i j then v else 0) + seg_get idx' dat' j)%Z
  | _, _ => 0%Z
  end.
Definition scatter (minor : nat) (idx : list nat) (dat : list Z) : list Z :=
  map (seg_get idx dat) (seq 0 minor).

(* the  major x minor  matrix denoted by (data, indices, indptr) *)
Definition seg_row (minor : nat) (indptr indices : list nat) (data : list Z) (k : nat) : list Z :=
  scatter minor (slice (nth k indptr 0) (nth (S k) indptr 0) indices)
                (slice (nth k indptr 0) (nth (S k) indptr 0) data).
Definition dense_of_cs (major minor : nat) (indptr indices : list nat) (data : list Z) : matrix :=
  map (seg_row minor indptr indices data) (seq 0 major).

(* dense matrix of one stored orientation:  (number of ids on a) x (number of ids on other a) *)
Definition axis_dense (a : axis) (f : h5file) : matrix :=
  let A := stored a f in
  dense_of_cs (length (ax_ids A)) (length (file_ids (other a) f)) (ax_indptr A) (ax_indices A) (ax_data A).

(* the observation x sample matrix a read along axis a produces: csr_matrix for
   'observation', csc_matrix for 'sample' (table.py:4375-4378) *)
Definition orient (a : axis) (nobs_ : nat) (m : matrix) : matrix :=
  match a with Obs => m | Samp => transpose nobs_ m end.

(* ------------------------------------------------------------------ metadata normalisation *)
(* Table._cast_metadata (table.py:681-694, since 16e406b1 also at the end of filter):
   metadata none of whose entries holds anything (None or an empty mapping) becomes None.
   An entry is an opaque tree; the two empty ones are the harness' encodings of None and {}
   (tables.md_tree: L [I 0] and L [I 6; L []]). *)
Definition md_empty (x : Tree) : bool := tree_eqb x (L [I 0%Z]) || tree_eqb x (L [I 6%Z; L []]).
Definition cast_md (md : option (list Tree)) : option (list Tree) :=
  match md with
  | Some l => if forallb md_empty l then None else Some l
  | None => None
  end.
Definition cast_t (t : table) : table :=
  mkT (oids t) (sids t) (mat t) (cast_md (omd t)) (cast_md (smd t)) (ttype t).

(* ------------------------------------------------------------------ reading everything *)
(* Table.from_hdf5(h): axis defaults to 'sample', ids is None (table.py:4298-4305, 4367-4384) *)
Definition from_hdf5_all (f : h5file) : table :=
  cast_t (mkT (file_ids Obs f) (file_ids Samp f)
              (orient Samp (length (file_ids Obs f)) (axis_dense Samp f))
              (ax_md (f_obs f)) (ax_md (f_samp f)) (f_type f)).

(* ------------------------------------------------------------------ content-level reference *)
(* keep the positions of axis a where the mask is true: ids, vectors, metadata *)
Definition sel (a : axis) (mask : list bool) (t : table) : table :=
  match a with
  | Obs => mkT (select mask (oids t)) (sids t) (sel_rows mask (mat t))
               (option_map (select mask) (omd t)) (smd t) (ttype t)
  | Samp => mkT (oids t) (select mask (sids t)) (sel_cols mask (mat t))
                (omd t) (option_map (select mask) (smd t)) (ttype t)
  end.

(* Table.filter with the verdicts given as a mask: selection, then _cast_metadata *)
Definition flt (a : axis) (mask : list bool) (t : table) : table := cast_t (sel a mask t).

(* keep the ids of the set, original order (Table.filter(ids, axis)) *)
Definition id_mask (ids_ : list Z) (l : list Z) : list bool := map (fun i => zmem i ids_) l.
Definition filter_ids (ids_ : list Z) (a : axis) (t : table) : table :=
  flt a (id_mask ids_ (ids a t)) t.

(* drop the vectors of axis a that hold no non-zero value *)
Definition nonzero_mask (a : axis) (t : table) : list bool :=
  map (fun k => negb (all_zero (vec a t k))) (seq 0 (length (ids a t))).
Definition drop_empty (a : axis) (t : table) : table := flt a (nonzero_mask a t) t.
(* ... on the axis that was NOT subset *)
Definition drop_empty_other (a : axis) (t : table) : table := drop_empty (other a) t.

(* the metadata-free reader returns ids and matrix only *)
Definition strip_md (t : table) : table := mkT (oids t) (sids t) (mat t) None None NOTYPE.

(* ------------------------------------------------------------------ numpy helpers *)
(* np.where(mask)[0] *)
Fixpoint positions_from (k : nat) (mask : list bool) : list nat :=
  match mask with
  | [] => []
  | b :: m => if b then k :: positions_from (S k) m else positions_from (S k) m
  end.
Definition positions (mask : list bool) : list nat := positions_from 0 mask.

(* python sorted() on (start, end) pairs: stable insertion sort, tuples compare lexicographically *)
Definition pair_le (p q : nat * nat) : bool :=
  Nat.ltb (fst p) (fst q) || (Nat.eqb (fst p) (fst q) && Nat.leb (snd p) (snd q)).
Fixpoint insert_pair (p : nat * nat) (l : list (nat * nat)) : list (nat * nat) :=
  match l with
  | [] => [p]
  | q :: t => if pair_le p q then p :: l else q :: insert_pair p t
  end.
Definition sort_pairs (l : list (nat * nat)) : list (nat * nat) := fold_right insert_pair [] l.

(* 0 followed by the running sums (indptr[0] = 0; indptr[1:] = lengths.cumsum()) *)
Fixpoint cumsum_from (acc : nat) (l : list nat) : list nat :=
  match l with [] => [] | x :: t => (acc + x) :: cumsum_from (acc + x) t end.
Definition new_indptr (ranges : list (nat * nat)) : list nat :=
  0 :: cumsum_from 0 (map (fun se => snd se - fst se) ranges).
(* np.hstack / np.concatenate of the raw slices *)
Definition gather {A} (ranges : list (nat * nat)) (l : list A) : list A :=
  flat_map (fun se => slice (fst se) (snd se) l) ranges.

Definition ranges_of (indptr : list nat) (keep : list nat) : list (nat * nat) :=
  map (fun i => (nth i indptr 0, nth (S i) indptr 0)) keep.

(* `md or None` after `_subset_metadata` (table.py:4340-4348, 4380-4381) *)
Definition subset_md (md : option (list Tree)) (mask : list bool) : option (list Tree) :=
  match md with
  | None => None
  | Some [] => None
  | Some l => match select mask l with [] => None | l' => Some l' end
  end.

Definition put_axis (a : axis) (ids_a ids_o : list Z) (m : matrix) (md_a md_o : option (list Tree)) (ty : Z) : table :=
  match a with
  | Obs => mkT ids_a ids_o m md_a md_o ty
  | Samp => mkT ids_o ids_a m md_o md_a ty
  end.

(* ------------------------------------------------------------------ default variant *)
(* Table.from_hdf5(h, ids=ids, axis=a)  (table.py:4307-4395) *)
Definition from_hdf5_subset (ids_ : list Z) (a : axis) (f : h5file) : result table :=
  let A := stored a f in
  let O := stored (other a) f in
  (* _get_ids: idx = np.isin(source_ids, desired_ids); ids = source_ids[idx];
     refusal when ids.shape != desired_ids.shape (4318-4328) *)
  let mask := id_mask ids_ (ax_ids A) in
  let kept := select mask (ax_ids A) in
  if negb (Nat.eqb (length kept) (length ids_)) then RErr E_VALUE else
  (* the other axis is taken whole (desired_ids is None): mask of ones (4314-4316) *)
  let ones := map (fun _ => true) (ax_ids O) in
  let md_a := subset_md (ax_md A) mask in
  let md_o := subset_md (ax_md O) ones in
  (* 4351-4366 *)
  let keep := positions mask in
  let ranges := sort_pairs (ranges_of (ax_indptr A) keep) in
  match ranges with
  | [] => RErr E_VALUE                 (* np.hstack([]) : need at least one array *)
  | _ =>
    let indptr := new_indptr ranges in
    let data := gather ranges (ax_data A) in
    let indices := gather ranges (ax_indices A) in
    let m := dense_of_cs (length keep) (length (ax_ids O)) indptr indices data in
    let nobs_ := match a with Obs => length kept | Samp => length (ax_ids O) end in
    (* the constructor normalises the metadata it is given *)
    let t := cast_t (put_axis a kept (ax_ids O) (orient a nobs_ m) md_a md_o (f_type f)) in
    (* 4386-4393: filter(any_value) on the OTHER axis *)
    ROk (drop_empty (other a) t)
  end.

(* The request may be any iterable (list, tuple, set, dict view, generator, numpy array): since
   646d8139 _get_ids starts with np.asarray(list(desired_ids)); only its elements matter (F45). *)

(* parse_table / parse_biom_table on an open HDF5 handle (parse.py:419-440): the first attempt is
   Table.from_hdf5(file_obj, ids=ids, axis=axis); a ValueError (an unknown id) is swallowed and the
   handle falls through to json.loads(file_obj), which raises TypeError *)
Definition parse_table_h5 (ids_ : list Z) (a : axis) (f : h5file) : result table :=
  match from_hdf5_subset ids_ a f with
  | RErr c => if Z.eqb c E_VALUE then RErr E_TYPE else RErr c
  | r => r
  end.

(* ------------------------------------------------------------------ metadata-free variant *)
(* Table.from_hdf5(h, ids=ids, axis=a, subset_with_metadata=False)  (table.py:4203-4242) *)
Definition from_hdf5_subset_nomd (ids_ : list Z) (a : axis) (f : h5file) : result table :=
  let A := stored a f in
  let O := stored (other a) f in
  (* ids.issubset(axis_ids) (4213-4216) *)
  if negb (forallb (fun i => zmem i (ax_ids A)) ids_) then RErr E_VALUE else
  let mask := id_mask ids_ (ax_ids A) in
  let keep := positions mask in                       (* to_keep (4218-4219), file order *)
  let ranges := ranges_of (ax_indptr A) keep in       (* start_end, not sorted (4220) *)
  match ranges with
  | [] => RErr E_VALUE                 (* np.concatenate([]) *)
  | _ =>
    let indptr := new_indptr ranges in
    let data := gather ranges (ax_data A) in
    let indices := gather ranges (ax_indices A) in
    let kept := map (fun i => nth i (ax_ids A) 0%Z) keep in      (* axis_ids[to_keep] *)
    let m := dense_of_cs (length keep) (length (ax_ids O)) indptr indices data in
    let nobs_ := match a with Obs => length keep | Samp => length (ax_ids O) end in
    ROk (put_axis a kept (ax_ids O) (orient a nobs_ m) None None NOTYPE)
  end.

(* ------------------------------------------------------------------ parse_table(json, ids=, axis=) *)
(* Table.filter with a predicate over (values, id, metadata), in place (parse.py:448-457):
   the predicate is evaluated on every vector of the axis, the accepted ones are kept *)
Definition filter_by (p : list Z -> Z -> bool) (a : axis) (t : table) : table :=
  flt a (map (fun k => p (vec a t k) (nth k (ids a t) 0%Z)) (seq 0 (length (ids a t)))) t.
Definition subset_ids_p (ids_ : list Z) (_ : list Z) (id_ : Z) : bool := zmem id_ ids_.
Definition gt_zero_p (vals : list Z) (_ : Z) : bool := negb (all_zero vals).
(* t is the fully loaded table; unknown ids are NOT refused on this path *)
Definition parse_table_subset (ids_ : list Z) (a : axis) (t : table) : table :=
  filter_by gt_zero_p (other a) (filter_by (subset_ids_p ids_) a t).

(* ------------------------------------------------------------------ well-formed files *)
Fixpoint monotone (l : list nat) : Prop :=
  match l with
  | a :: t => match t with [] => True | b :: _ => a <= b /\ monotone t end
  | [] => True
  end.
Fixpoint monotoneb (l : list nat) : bool :=
  match l with
  | a :: t => match t with [] => true | b :: _ => Nat.leb a b && monotoneb t end
  | [] => true
  end.

Definition wf_axis (A : h5axis) : Prop :=
  NoDup (ax_ids A) /\ length (ax_indptr A) = S (length (ax_ids A)) /\ monotone (ax_indptr A)
  /\ Forall (fun p => p <= length (ax_data A)) (ax_indptr A)
  /\ length (ax_indices A) = length (ax_data A)
  /\ md_ok (ax_md A) (length (ax_ids A))
  /\ ax_md A <> Some [].            (* axis_load turns "no id has metadata" into None (table.py:4291) *)
Definition md_nonemptyb (md : option (list Tree)) : bool := match md with Some [] => false | _ => true end.
Definition wf_axisb (A : h5axis) : bool :=
  negb (zdup (ax_ids A)) && Nat.eqb (length (ax_indptr A)) (S (length (ax_ids A))) && monotoneb (ax_indptr A)
  && forallb (fun p => Nat.leb p (length (ax_data A))) (ax_indptr A)
  && Nat.eqb (length (ax_indices A)) (length (ax_data A))
  && md_okb (ax_md A) (length (ax_ids A)) && md_nonemptyb (ax_md A).

(* both stored views denote the same matrix (property C04): the observation view is the
   transpose of the sample view *)
Definition views_agree (f : h5file) : Prop :=
  axis_dense Obs f = transpose (length (file_ids Obs f)) (axis_dense Samp f).
Definition views_agreeb (f : h5file) : bool :=
  mat_eqb (axis_dense Obs f) (transpose (length (file_ids Obs f)) (axis_dense Samp f)).

Definition wf_file (f : h5file) : Prop := wf_axis (f_obs f) /\ wf_axis (f_samp f) /\ views_agree f.
Definition wf_fileb (f : h5file) : bool := wf_axisb (f_obs f) && wf_axisb (f_samp f) && views_agreeb f.
