(* C06: sort_order / sort / align_to / copy / update_ids at the content level (L1).
   transpose is Model/Table.v transpose_t.  Written from biom/table.py (HEAD a8aadd7c):
   sort_order 2206-2225, sort 2293, align_to 3493-3530, copy 1954-1960, update_ids 1429-1466. *)
From Coq Require Import List Arith ZArith Lia Bool.
From BiomV Require Import Base.Tree Base.ListUtil Base.Matrix Model.Table Model.Orient.
Import ListNotations.

(* Every new table is built by the constructor, which normalises metadata (Model/Orient.v ctor_md:
   a list whose entries are all None / empty dicts becomes None, otherwise None entries become
   empty dicts). In-place paths assign attributes directly and do NOT normalise. *)
Definition md_normal (md : option (list Tree)) : Prop := ctor_md md = md.
Definition normal (t : table) : Prop := md_normal (omd t) /\ md_normal (smd t).

(* errcheck with the default error profile, on a table built from consistent pieces:
   the only test that can fire here is a duplicated id (err.py _test_obsdup/_test_sampdup) *)
Definition errcheck (t : table) : result table :=
  if zdup (oids t) || zdup (sids t) then RErr E_TABLE else ROk t.

(* ---- sort_order ------------------------------------------------------------------ *)
(* table.py:2206  fancy = [self.index(i, axis) for i in order]; an id that is not in the
   table raises UnknownIDError before anything is built *)
Fixpoint lookup_all (order ids : list Z) : option (list nat) :=
  match order with
  | [] => Some []
  | x :: rest =>
      match pos x ids, lookup_all rest ids with
      | Some i, Some l => Some (i :: l)
      | _, _ => None
      end
  end.

(* 2207-2209: metadata of the axis fancy-indexed by the same positions *)
Definition take_md (fancy : list nat) (md : option (list Tree)) : option (list Tree) :=
  option_map (fun l => map (fun i => nth i l (I 0%Z)) fancy) md.

(* 2211-2223: the matrix fancy-indexed on the axis, [order] becomes the id list of the axis, the
   other axis' ids and metadata and the type are passed on; BOTH metadata lists go through the
   constructor (ctor_md): a selection whose metadata entries are all empty ends up without metadata *)
Definition reorder (fancy : list nat) (order : list Z) (a : axis) (t : table) : table :=
  match a with
  | Samp => mkT (oids t) order (perm_cols fancy (mat t)) (ctor_md (omd t)) (ctor_md (take_md fancy (smd t))) (ttype t)
  | Obs => mkT order (sids t) (perm_rows fancy (mat t)) (ctor_md (take_md fancy (omd t))) (ctor_md (smd t)) (ttype t)
  end.

(* [order] need not be a permutation: a shorter list selects, a repeated id makes the constructor's
   errcheck refuse (TableException), an unknown id is UnknownIDError *)
Definition sort_order (order : list Z) (a : axis) (t : table) : result table :=
  match lookup_all order (ids a t) with
  | None => RErr E_UNKNOWN
  | Some fancy => errcheck (reorder fancy order a t)
  end.

(* ---- sort (2293): sort_order by whatever the sorting function returns ----------------- *)
Section Sort.
  Variable sortf : list Z -> list Z.
  Definition sort (a : axis) (t : table) : result table := sort_order (sortf (ids a t)) a t.
End Sort.

(* ---- copy (1954-1960): same ids, matrix, type; metadata deep-copied and passed to the constructor - *)
Definition copy (t : table) : table := mkT (oids t) (sids t) (mat t) (ctor_md (omd t)) (ctor_md (smd t)) (ttype t).

(* ---- transpose (1208-1230) = Model/Table.v transpose_t, through the constructor ------------- *)
Definition transpose_c (t : table) : table :=
  mkT (sids t) (oids t) (transpose (nsamp t) (mat t)) (ctor_md (smd t)) (ctor_md (omd t)) NOTYPE.

(* ---- align_to (3493-3530) ------------------------------------------------------------- *)
Inductive amode := ASample | AObservation | ABoth | ADetect | AUnknown.

(* set(self ids) == set(other ids) *)
Definition same_set (l1 l2 : list Z) : bool :=
  forallb (fun x => zmem x l2) l1 && forallb (fun x => zmem x l1) l2.

Definition rbind {A B} (r : result A) (f : A -> result B) : result B :=
  match r with ROk a => f a | RErr c => RErr c end.

(* the alignability test comes first (3501-3508), the unknown axis is only met afterwards (3523) *)
Definition align_to (other_t : table) (m : amode) (t : table) : result table :=
  let al_o := same_set (oids t) (oids other_t) in
  let al_s := same_set (sids t) (sids other_t) in
  match m with
  | ABoth => if al_o && al_s
             then rbind (sort_order (oids other_t) Obs t) (sort_order (sids other_t) Samp)
             else RErr E_DISJOINT
  | ASample => if al_s then sort_order (sids other_t) Samp t else RErr E_DISJOINT
  | AObservation => if al_o then sort_order (oids other_t) Obs t else RErr E_DISJOINT
  | ADetect => if al_o || al_s
               then rbind (if al_s then sort_order (sids other_t) Samp t else ROk t)
                          (fun t1 => if al_o then sort_order (oids other_t) Obs t1 else ROk t1)
               else RErr E_DISJOINT
  | AUnknown => RErr E_UNKNOWN
  end.

(* ---- update_ids (1429-1466) ----------------------------------------------------------- *)
(* id_map is a Python dict: an association list with distinct keys; first match wins *)
Fixpoint lookup_map (m : list (Z * Z)) (x : Z) : option Z :=
  match m with
  | [] => None
  | (k, v) :: rest => if Z.eqb k x then Some v else lookup_map rest x
  end.
Definition mapped (m : list (Z * Z)) (x : Z) : bool :=
  match lookup_map m x with Some _ => true | None => false end.
(* 1444: id_map.get(old_id, old_id) *)
Definition rename (m : list (Z * Z)) (x : Z) : Z :=
  match lookup_map m x with Some y => y | None => x end.

(* 1437-1444: strict and an id without a mapping -> TableException, raised inside the loop
   before anything is assigned *)
Definition new_ids (m : list (Z * Z)) (strict : bool) (l : list Z) : option (list Z) :=
  if strict && negb (forallb (mapped m) l) then None else Some (map (rename m) l).

Definition set_ids (a : axis) (new : list Z) (t : table) : table :=
  match a with
  | Obs => mkT new (sids t) (mat t) (omd t) (smd t) (ttype t)
  | Samp => mkT (oids t) new (mat t) (omd t) (smd t) (ttype t)
  end.

(* 1448-1450: in place, duplicates are refused BEFORE the receiver is touched;
   1454-1464: otherwise the ids are set on a copy and errcheck refuses duplicates *)
Definition update_ids (m : list (Z * Z)) (a : axis) (strict inplace : bool) (t : table) : result table :=
  match new_ids m strict (ids a t) with
  | None => RErr E_TABLE
  | Some new =>
      if inplace
      then if zdup new then RErr E_TABLE else errcheck (set_ids a new t)
      else errcheck (set_ids a new (copy t))
  end.

(* value of an id pair seen from one axis: [x] on axis [a], [y] on the other *)
Definition cell_ax (a : axis) (t : table) (x y : Z) : option Z :=
  match a with Obs => cell t x y | Samp => cell t y x end.
