(* C05 (L3'): the table together with the two id -> position dictionaries it STORES
   (Table._obs_index / Table._sample_index, biom/table.py:528-575).  The content model of
   Model/Ops.v derives lookups from the id lists; the code keeps them as state and maintains them
   piecemeal:
     * the constructor / _index_ids(None, None) builds both with util.index_list
       (Gen/UtilGen.v index_list, regenerated from biom/util.py on every check);
     * Table.filter (table.py:2396-2418) looks the ids to keep up IN THE STORED INDEX
       ( idx = [index[id_] for id_ in ids_to_keep], then ids_to_keep.put(idx, True),
       _filter.pyx:128-131 ), rebuilds the index of the filtered axis only and reuses a copy
       of the other one;
     * Table.partition (table.py:2539-2551) hands every part a copy of the source's index of the
       other axis;
     * update_ids re-indexes both axes; add_metadata / in-place transforms leave both alone;
     * every other operation goes through the constructor.
   istep is step of Model/Ops.v with this bookkeeping made explicit; IndexedProofs.v shows it
   refines step and keeps both stored dictionaries equal to the positions of the current ids. *)
From Coq Require Import List Arith ZArith Lia Bool.
From BiomV Require Import Base.Tree Base.ListUtil Base.Matrix Model.Table Model.Filter Model.Reorder
  Model.Merge Model.Concat Model.Partition Model.Stored Model.Subsample Model.Transform Model.Ops.
From BiomV Require Import Gen.Prelude Gen.UtilGen.
Import ListNotations.

Record itable := mkI { body : table; oix : zdict nat; six : zdict nat }.

Definition ix (a : axis) (it : itable) : zdict nat := match a with Obs => oix it | Samp => six it end.

(* Table.__init__ -> _index_ids(None, None) *)
Definition fresh (t : table) : itable := mkI t (index_list (oids t)) (index_list (sids t)).

(* table._index_ids(self._obs_index.copy(), None) resp. (None, self._sample_index.copy()):
   the index of axis a is rebuilt from the new ids, the other one is the copy handed in *)
Definition reindex (a : axis) (src : itable) (t' : table) : itable :=
  match a with
  | Obs => mkI t' (index_list (oids t')) (six src)
  | Samp => mkI t' (oix src) (index_list (sids t'))
  end.

(* in-place change that touches neither id array *)
Definition keep_ix (src : itable) (t' : table) : itable := mkI t' (oix src) (six src).

(* [index[id_] for id_ in ids_to_keep]; a missing key is the KeyError *)
Fixpoint ix_lookup_all (d : zdict nat) (keep : list Z) : option (list nat) :=
  match keep with
  | [] => Some []
  | k :: rest => match zdget d k, ix_lookup_all d rest with
                 | Some i, Some r => Some (i :: r)
                 | _, _ => None
                 end
  end.

(* ids_to_keep = zeros(len(ids), bool); ids_to_keep.put(idx, True); xor invert *)
Definition put_mask (n : nat) (idx : list nat) (invert : bool) : list bool :=
  map (fun i => xorb (existsb (Nat.eqb i) idx) invert) (seq 0 n).

Definition ifilter_table (mask : list bool) (a : axis) (it : itable) : itable :=
  reindex a it (filter_table mask a (body it)).

Definition ifilter_ids (keep : list Z) (invert : bool) (a : axis) (it : itable) : result itable :=
  match ix_lookup_all (ix a it) keep with
  | None => RErr E_KEY
  | Some idx => ROk (ifilter_table (put_mask (length (ids a (body it))) idx invert) a it)
  end.

Definition iremove_empty_axis (a : axis) (it : itable) : itable :=
  ifilter_table (nonempty_mask a (body it)) a it.

(* axes = ['sample', 'observation'] *)
Definition iremove_empty_whole (it : itable) : itable := iremove_empty_axis Obs (iremove_empty_axis Samp it).

Definition iof_result (it : itable) (r : result itable) : itable * Z :=
  match r with ROk it' => (it', 0%Z) | RErr c => (it, c) end.

(* an operation that builds its result through the constructor *)
Definition via_ctor (it : itable) (tc : table * Z) : itable * Z :=
  if Z.eqb (snd tc) 0 then (fresh (fst tc), 0%Z) else (it, snd tc).

Definition istep (it : itable) (o : op) : itable * Z :=
  let t := body it in
  match o with
  | OFilterIds keep invert a => iof_result it (ifilter_ids keep invert a it)
  | OFilterPred verdicts invert a => (ifilter_table (map (fun b => xorb b invert) verdicts) a it, 0%Z)
  | ORemoveEmpty axis3 =>
      (match axis3 with
       | 0%Z => iremove_empty_axis Obs it
       | 1%Z => iremove_empty_axis Samp it
       | _ => iremove_empty_whole it end, 0%Z)
  | OHead n m =>
      if (n <=? 0)%Z || (m <=? 0)%Z then (it, E_OTHER)
      else (ifilter_table (head_mask (Z.to_nat m) (nsamp t)) Samp
              (ifilter_table (head_mask (Z.to_nat n) (nobs t)) Obs it), 0%Z)
  | OSetMd sel o' s' =>
      match set_md sel o' s' t with ROk t' => (keep_ix it t', 0%Z) | RErr c => (it, c) end
  | OSetMat m =>
      match set_mat m t with ROk t' => (keep_ix it t', 0%Z) | RErr c => (it, c) end
  | OPartition a lab ignore_none remove_empty k =>
      match partition_t t a lab ignore_none false with
      | ROk parts =>
          match nth_error parts k with
          | Some p => let ip := reindex a it (snd p) in
                      ((if remove_empty then iremove_empty_whole ip else ip), 0%Z)
          | None => (it, E_KEY)
          end
      | RErr e => (it, e)
      end
  | OFail c => (it, c)
  | ONop => (it, 0%Z)
  | _ => via_ctor it (step t o)
  end.

Definition irun (it : itable) (ops : list op) : itable := fold_left (fun s o => fst (istep s o)) ops it.

(* every state along the way, with the error code of the step that produced it *)
Fixpoint itrace (it : itable) (ops : list op) : list (Z * itable) :=
  match ops with
  | [] => []
  | o :: rest => let '(it', c) := istep it o in (c, it') :: itrace it' rest
  end.

(* both stored dictionaries answer every lookup with the current position *)
Definition ix_ok (it : itable) : Prop :=
  forall a x, zdget (ix a it) x = pos x (ids a (body it)).
