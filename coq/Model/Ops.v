(* C05 (L3): one step function over the whole operation alphabet, composed from the operation
   models of C06 (Reorder), C08 (Filter), C09 (Merge), C10 (Concat), C11 (Partition),
   C12 (Subsample) and C13 (Transform).  A refused operation leaves the table unchanged and
   reports an error code. *)
From Coq Require Import List Arith ZArith Lia Bool.
From BiomV Require Import Base.Tree Base.ListUtil Base.Matrix Model.Table Model.Filter Model.Reorder
  Model.Merge Model.Concat Model.Partition Model.Stored Model.Subsample Model.Transform.
Import ListNotations.

Inductive op :=
| OFilterIds (keep : list Z) (invert : bool) (a : axis)
| OFilterPred (verdicts : list bool) (invert : bool) (a : axis)
| ORemoveEmpty (axis3 : Z)                                   (* 0 observation, 1 sample, else whole *)
| OHead (n m : Z)
| OSortOrder (order : list Z) (a : axis)                     (* sort = sort_order with natsort's order *)
| OTranspose
| OCopy
| OUpdateIds (m : list (Z * Z)) (a : axis) (strict inplace : bool)
| OSetMd (sel : Z) (o s : option (list Tree))                (* add_metadata / del_metadata: the new metadata *)
| OSetMat (m : matrix)                                       (* results of user functions / float arithmetic as data *)
| OSetTable (t : table)
| OConcat (others : list table) (a : axis)
| OAlignTo (other : table) (m : amode)
| OMerge (others : list table) (sm om : mode) (fs fo : option mdf)
| OCollapse (a : axis) (m : collapse_mode) (norm incl : bool) (mode : Z)
| OPartition (a : axis) (lab : labelling) (ignore_none remove_empty : bool) (k : nat)
| OSubsample (n : Z) (a : axis) (by_id wr : bool) (lay : list (list nat)) (draws : list (list Z))
| OTransform (a : axis) (lay : list (list nat)) (outs : list (list Z))
| OFail (c : Z)          (* an operation whose refusal depends on user code / draws: reported, nothing changes *)
| ONop.

Definition of_result (t : table) (r : result table) : table * Z :=
  match r with ROk t' => (t', 0%Z) | RErr c => (t, c) end.

Definition set_md (sel : Z) (o s : option (list Tree)) (t : table) : result table :=
  let okO := md_okb o (nobs t) in
  let okS := md_okb s (nsamp t) in
  match sel with
  | 0%Z => if okO then ROk (mkT (oids t) (sids t) (mat t) o (smd t) (ttype t)) else RErr E_TABLE
  | 1%Z => if okS then ROk (mkT (oids t) (sids t) (mat t) (omd t) s (ttype t)) else RErr E_TABLE
  | _ => if okO && okS then ROk (mkT (oids t) (sids t) (mat t) o s (ttype t)) else RErr E_TABLE
  end.

Definition set_mat (m : matrix) (t : table) : result table :=
  if Nat.eqb (length m) (nobs t) && rectb (nsamp t) m
  then ROk (mkT (oids t) (sids t) m (omd t) (smd t) (ttype t)) else RErr E_TABLE.

Definition step (t : table) (o : op) : table * Z :=
  match o with
  | OFilterIds keep invert a => of_result t (filter_ids keep invert a t)
  | OFilterPred verdicts invert a => (filter_pred verdicts invert a t, 0%Z)
  | ORemoveEmpty axis3 =>
      (match axis3 with
       | 0%Z => remove_empty_axis Obs t
       | 1%Z => remove_empty_axis Samp t
       | _ => remove_empty_whole t end, 0%Z)
  | OHead n m => of_result t (head n m t)
  | OSortOrder order a => of_result t (sort_order order a t)
  | OTranspose => (transpose_t t, 0%Z)
  | OCopy => (copy t, 0%Z)
  | OUpdateIds m a strict inplace => of_result t (update_ids m a strict inplace t)
  | OSetMd sel o s => of_result t (set_md sel o s t)
  | OSetMat m => of_result t (set_mat m t)
  | OSetTable t' => if wfb t' then (t', 0%Z) else (t, E_TABLE)
  | OConcat others a => if forallb wfb others then of_result t (concat_t (t :: others) a) else (t, E_TABLE)
  | OAlignTo other m => if wfb other then of_result t (align_to other m t) else (t, E_TABLE)
  | OMerge others sm om fs fo =>
      if forallb wfb others then of_result t (merge_dispatch t others sm om fs fo) else (t, E_TABLE)
  | OCollapse a m norm incl mode =>
      of_result t (match collapse_t t a m norm incl mode with ROk c => ROk (ctab c) | RErr e => RErr e end)
  | OPartition a lab ignore_none remove_empty k =>
      of_result t (match partition_t t a lab ignore_none remove_empty with
                   | ROk parts => match nth_error parts k with Some p => ROk (snd p) | None => RErr E_KEY end
                   | RErr e => RErr e end)
  | OSubsample n a by_id wr lay draws => of_result t (snd (subsample n a by_id wr lay draws t))
  | OTransform a lay outs => of_result t (snd (transform a false lay outs t))
  | OFail c => (t, c)
  | ONop => (t, 0%Z)
  end.

Definition run_ops (t : table) (ops : list op) : table := fold_left (fun s o => fst (step s o)) ops t.

(* every state along the way, with the error code of the step that produced it *)
Fixpoint trace (t : table) (ops : list op) : list (Z * table) :=
  match ops with
  | [] => []
  | o :: rest => let '(t', c) := step t o in (c, t') :: trace t' rest
  end.

(* index lookups as the code keeps them: id -> position *)
Definition index_of_id (a : axis) (t : table) (x : Z) : option nat := pos x (ids a t).
