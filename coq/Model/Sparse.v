(* L2: the compressed-sparse representation a biom Table really holds (scipy csr_matrix /
   csc_matrix) and the scipy conversions the library relies on, as total Gallina functions.

   One record serves both orientations:
     CSR : major = number of rows,    minor = number of columns, indices are column numbers
     CSC : major = number of columns, minor = number of rows,    indices are row numbers
   `dense_of r` is always the  major x minor  matrix, so a CSC record denotes the TRANSPOSE of
   the table matrix.

   Two views of the same data are used:
     - the array view (indptr / indices / data), which is what scipy holds and what is written
       to HDF5 (`cs`);
     - the segment view: one list of (index, value) entries per major position, in stored order
       (`segs r`), rebuilt into arrays by `of_segs`.
   Every conversion is defined on segments and lifted through `of_segs`; `Proofs/SparseProofs.v`
   shows `segs (of_segs mn ss) = ss`, so the lifted functions compute exactly the arrays scipy
   computes (this is also compared array-for-array with scipy by the C04 correspondence run).

   What a representation may contain (nothing below assumes otherwise):
     - unsorted indices inside a segment (left behind by `sort_order`),
     - explicitly stored zeros (left behind by `subsample` or supplied by the caller).
   Duplicate indices inside one segment are excluded by `wf_cs` (scipy sums them when a table
   is constructed, before any operation sees them).

   Values are integers: the harness maps every float64 injectively to an integer code with
   0.0 <-> 0 (structural properties) or scales dyadic values (arithmetic properties). *)
From Coq Require Import List Arith ZArith Lia Bool.
From BiomV Require Import Base.Tree Base.ListUtil Base.Matrix.
Import ListNotations.

Definition entry := (nat * Z)%type.          (* (minor index, stored value) *)
Definition segment := list entry.            (* the stored entries of one row (CSR) / column (CSC) *)

Record cs := mkCS { major : nat; minor : nat;
                    indptr : list nat; indices : list nat; data : list Z }.

(* ------------------------------------------------------------------ array view <-> segments *)
Definition entries (r : cs) : list entry := combine (indices r) (data r).

(* stored entries of major position i: positions indptr[i] .. indptr[i+1]-1 *)
Definition seg (r : cs) (i : nat) : segment :=
  let s := nth i (indptr r) 0 in
  let e := nth (S i) (indptr r) 0 in
  firstn (e - s) (skipn s (entries r)).

Definition segs (r : cs) : list segment := map (seg r) (seq 0 (major r)).

(* prefix sums of the segment lengths, starting at a *)
Fixpoint offsets (a : nat) (ss : list segment) : list nat :=
  match ss with
  | [] => [a]
  | s :: t => a :: offsets (a + length s) t
  end.

Definition of_segs (mn : nat) (ss : list segment) : cs :=
  mkCS (length ss) mn (offsets 0 ss) (map fst (concat ss)) (map snd (concat ss)).

(* ------------------------------------------------------------------ well-formedness *)
Fixpoint monotone (l : list nat) : Prop :=
  match l with
  | a :: t => match t with [] => True | b :: _ => a <= b /\ monotone t end
  | [] => True
  end.

Fixpoint monotoneb (l : list nat) : bool :=
  match l with
  | a :: t => match t with [] => true | b :: _ => Nat.leb a b && monotoneb t end
  | [] => true
  end.

Definition nmem (x : nat) (l : list nat) : bool := existsb (Nat.eqb x) l.
Fixpoint ndup (l : list nat) : bool :=
  match l with [] => false | x :: t => nmem x t || ndup t end.

(* a segment is acceptable for minor dimension mn *)
Definition seg_ok (mn : nat) (s : segment) : Prop :=
  NoDup (map fst s) /\ Forall (fun e => fst e < mn) s.

Definition wf_cs (r : cs) : Prop :=
  length (indptr r) = S (major r)
  /\ nth 0 (indptr r) 0 = 0
  /\ monotone (indptr r)
  /\ last (indptr r) 0 = length (data r)
  /\ length (indices r) = length (data r)
  /\ Forall (fun j => j < minor r) (indices r)
  /\ Forall (fun s => NoDup (map fst s)) (segs r).

Definition wf_csb (r : cs) : bool :=
  Nat.eqb (length (indptr r)) (S (major r))
  && Nat.eqb (nth 0 (indptr r) 0) 0
  && monotoneb (indptr r)
  && Nat.eqb (last (indptr r) 0) (length (data r))
  && Nat.eqb (length (indices r)) (length (data r))
  && forallb (fun j => Nat.ltb j (minor r)) (indices r)
  && forallb (fun s => negb (ndup (map fst s))) (segs r).

(* ------------------------------------------------------------------ denotation *)
(* value stored for minor index j in a segment: the first entry with that index, 0 if absent *)
Fixpoint find_idx (j : nat) (s : segment) : option Z :=
  match s with
  | [] => None
  | (k, v) :: t => if Nat.eqb k j then Some v else find_idx j t
  end.
Definition lookup (j : nat) (s : segment) : Z :=
  match find_idx j s with Some v => v | None => 0%Z end.

Definition row_of_seg (mn : nat) (s : segment) : list Z := map (fun j => lookup j s) (seq 0 mn).
Definition dense_of_segs (mn : nat) (ss : list segment) : matrix := map (row_of_seg mn) ss.

(* the  major x minor  dense matrix; absent = 0 *)
Definition dense_of (r : cs) : matrix := dense_of_segs (minor r) (segs r).

(* number of non-zero cells of a dense matrix *)
Definition count_nonzero (m : matrix) : nat := nsum (map count_nz m).

(* ------------------------------------------------------------------ layout predicates *)
Fixpoint increasing (l : list nat) : Prop :=
  match l with
  | a :: t => match t with [] => True | b :: _ => a < b /\ increasing t end
  | [] => True
  end.
Fixpoint increasingb (l : list nat) : bool :=
  match l with
  | a :: t => match t with [] => true | b :: _ => Nat.ltb a b && increasingb t end
  | [] => true
  end.

(* scipy's has_sorted_indices (strictly increasing, since wf_cs excludes duplicates) *)
Definition sorted_cs (r : cs) : Prop := Forall (fun s => increasing (map fst s)) (segs r).
Definition sorted_csb (r : cs) : bool := forallb (fun s => increasingb (map fst s)) (segs r).

Definition nzb (v : Z) : bool := negb (Z.eqb v 0).
Definition no_stored_zero (r : cs) : Prop := Forall (fun v => v <> 0%Z) (data r).
Definition no_stored_zerob (r : cs) : bool := forallb nzb (data r).

(* ------------------------------------------------------------------ conversions (segment level) *)
(* scipy csr_eliminate_zeros: per row, keep the non-zero entries in stored order *)
Definition elim_seg (s : segment) : segment := filter (fun e => nzb (snd e)) s.

(* scipy csr_tocsc / csc_tocsr (count per minor index, prefix sums, scatter while scanning the major
   positions in order) is the stable bucketing:
     bucket c = for each major position i in order, the entries of segment i whose index is c,
                in stored order, re-tagged with i *)
Definition tag (i : nat) (c : nat) (s : segment) : segment :=
  map (fun e => (i, snd e)) (filter (fun e => Nat.eqb (fst e) c) s).
Fixpoint bucket_from (i : nat) (c : nat) (ss : list segment) : segment :=
  match ss with
  | [] => []
  | s :: t => tag i c s ++ bucket_from (S i) c t
  end.
Definition bucket (c : nat) (ss : list segment) : segment := bucket_from 0 c ss.
Definition swap_segs (mn : nat) (ss : list segment) : list segment :=
  map (fun c => bucket c ss) (seq 0 mn).

(* scipy sort_indices: stable sort of each segment by index *)
Fixpoint insert_entry (e : entry) (s : segment) : segment :=
  match s with
  | [] => [e]
  | x :: t => if Nat.leb (fst e) (fst x) then e :: s else x :: insert_entry e t
  end.
Definition sort_seg (s : segment) : segment := fold_right insert_entry [] s.

(* dense -> CSR, row-major scan, zeros dropped (what csr_matrix(ndarray) produces) *)
Definition seg_of_row (row : list Z) : segment :=
  elim_seg (combine (seq 0 (length row)) row).

(* ------------------------------------------------------------------ conversions (array level) *)
Definition eliminate_zeros (r : cs) : cs := of_segs (minor r) (map elim_seg (segs r)).

(* CSR -> CSC of the same matrix, and equally CSC -> CSR: the result has the roles swapped *)
Definition swap_major (r : cs) : cs := of_segs (major r) (swap_segs (minor r) (segs r)).
Definition tocsc (r : cs) : cs := swap_major r.      (* r is CSR *)
Definition tocsr (r : cs) : cs := swap_major r.      (* r is CSC *)

Definition sort_indices (r : cs) : cs := of_segs (minor r) (map sort_seg (segs r)).

Definition of_dense (ncols : nat) (m : matrix) : cs := of_segs ncols (map seg_of_row m).

(* the storage format of a table's matrix *)
Inductive fmt := CSR | CSC.

(* scipy asformat: identity when the format already matches, else the conversion *)
Definition asformat (have want : fmt) (r : cs) : cs :=
  match have, want with
  | CSR, CSR | CSC, CSC => r
  | CSR, CSC => tocsc r
  | CSC, CSR => tocsr r
  end.

(* the table matrix (observations x samples) a representation stands for *)
Definition matrix_of (f : fmt) (r : cs) : matrix :=
  match f with
  | CSR => dense_of r
  | CSC => transpose (minor r) (dense_of r)
  end.

(* ------------------------------------------------------------------ wire *)
Definition tFmt (t : Tree) : fmt := if Z.eqb (tZ t) 0 then CSR else CSC.
Definition eFmt (f : fmt) : Tree := match f with CSR => I 0 | CSC => I 1 end.
(* L [major; minor; indptr; indices; data] *)
Definition tCS (t : Tree) : cs :=
  mkCS (tN (tnth t 0)) (tN (tnth t 1)) (tLN (tnth t 2)) (tLN (tnth t 3)) (tLZ (tnth t 4)).
Definition eCS (r : cs) : Tree :=
  L [eN (major r); eN (minor r); eLN (indptr r); eLN (indices r); eLZ (data r)].
