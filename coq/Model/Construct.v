(* C17 (L2): every accepted construction input as the coordinate entries + shape it is reduced
   to, the constructor (metadata normalisation, errcheck through Model/Err.v, metadata cast),
   and the two record importers (adjacency list, uc clusters) as folds over records.

   Anchors: biom/table.py
     Table.__init__        471-545   _to_sparse / tocsr, astype(float), eliminate_zeros,
                                      metadata normalisation, errcheck, _cast_metadata
     Table._to_sparse      604-672   dispatch on the type of the input / of its first element
     _cast_metadata        674-712
     coo_arrays_to_sparse  5410-5436, list_list_to_sparse 5439-5472, nparray_to_sparse 5475-5510,
     list_nparray_to_sparse 5513-5531, list_sparse_to_sparse 5534-5570,
     list_dict_to_sparse   5573-5637, dict_to_sparse 5640-5668
     Table.from_adjacency  5029-5120
   biom/parse.py parse_uc 271-351; biom/cli/uc_processor.py _id_map_from_fasta, _from_uc 55-84.

   A value is the integer the harness scales a float to (k/64 <-> k).  astype(float) of an int
   or bool input is value preserving below 2^53 (numpy; validated by the correspondence run: int
   and bool inputs must give the same table), so the model has no dtype.
   coo_matrix((values, (rows, cols)), shape).tocsr() SUMS the values of a repeated (row, col)
   and raises ValueError for an index outside the shape; eliminate_zeros does not change the
   denotation.  Hence every form is reduced to  (n_rows, n_cols, entries)  and denotes
   coo_dense n_rows n_cols entries. *)
From Coq Require Import List Arith ZArith Lia Bool.
From BiomV Require Import Base.Tree Base.ListUtil Base.Matrix Base.Dict Model.Table Model.Err.
Import ListNotations.
Open Scope list_scope.

Definition entry3 := (nat * nat * Z)%type.
Definition e_row (e : entry3) : nat := fst (fst e).
Definition e_col (e : entry3) : nat := snd (fst e).
Definition e_val (e : entry3) : Z := snd e.

(* ------------------------------------------------------------------ denotation of COO data *)
Definition at_cell (i j : nat) (e : entry3) : bool := Nat.eqb (e_row e) i && Nat.eqb (e_col e) j.
Definition cell_sum (es : list entry3) (i j : nat) : Z := zsum (map e_val (filter (at_cell i j) es)).
Definition coo_dense (nr nc : nat) (es : list entry3) : matrix :=
  map (fun i => map (fun j => cell_sum es i j) (seq 0 nc)) (seq 0 nr).
Definition in_range (nr nc : nat) (e : entry3) : bool := Nat.ltb (e_row e) nr && Nat.ltb (e_col e) nc.

(* coo_matrix(..., shape=(nr, nc)): ValueError when an index exceeds the shape *)
Definition coo_checked (nr nc : nat) (es : list entry3) : result (nat * nat * list entry3) :=
  if forallb (in_range nr nc) es then ROk (nr, nc, es) else RErr E_VALUE.
(* _check_coordinates (table.py:5427-5432, called by coo_arrays_to_sparse and list_list_to_sparse
   when a shape is given): a coordinate outside the shape described by the ids is a
   TableException, raised before scipy sees it *)
Definition coo_checked_ids (nr nc : nat) (es : list entry3) : result (nat * nat * list entry3) :=
  if forallb (in_range nr nc) es then ROk (nr, nc, es) else RErr E_TABLE.
(* max([...], default=-1) + 1 *)
Definition dim_of (l : list nat) : nat := match l with [] => 0 | _ => S (fold_right Nat.max 0 l) end.

(* ------------------------------------------------------------------ helpers *)
Definition row_entries := list (nat * Z).            (* (column, value) of one row *)
Fixpoint enum_from (s : nat) (row : list Z) : row_entries :=
  match row with [] => [] | v :: t => (s, v) :: enum_from (S s) t end.
(* rows -> entries, the k-th row gets row index base + k *)
Fixpoint flatten_from (base : nat) (rows : list row_entries) : list entry3 :=
  match rows with
  | [] => []
  | r :: t => map (fun cv => (base, fst cv, snd cv)) r ++ flatten_from (S base) t
  end.
Definition flatten (rows : list row_entries) : list entry3 := flatten_from 0 rows.
(* list_dict_to_sparse in column mode: the k-th dict is column base + k, its key's first
   component is the row *)
Fixpoint flatten_col_from (base : nat) (cols : list (list entry3)) : list entry3 :=
  match cols with
  | [] => []
  | c :: t => map (fun e => (e_row e, base, e_val e)) c ++ flatten_col_from (S base) t
  end.
(* coo_matrix(dense): the non-zero cells in row-major order *)
Definition nz3 (e : entry3) : bool := negb (Z.eqb (e_val e) 0).
Definition scan (m : matrix) : list entry3 := filter nz3 (flatten (map (enum_from 0) m)).
Definition nmax (l : list nat) : nat := fold_right Nat.max 0 l.
Definition width (m : matrix) : nat := match m with [] => 0 | r :: _ => length r end.

(* ------------------------------------------------------------------ the accepted input forms *)
Inductive cinput :=
| InArray (nr nc : nat) (m : matrix)                 (* 2-D ndarray of shape (nr, nc), any dtype *)
| InDenseLists (m : matrix)                          (* nested lists, input_is_dense=True *)
| InTriples (l : list entry3)                        (* [[row, col, value], ...] *)
| InDict (l : list entry3)                           (* {(row, col): value}: its items *)
| InRowArrays (rows : list (list Z))                 (* list of 1-D ndarrays *)
| InRowDicts (rows : list (list entry3))             (* list of dicts {(a, col): value}, one per vector *)
| InSparseRows (rows : list (nat * row_entries))     (* list of 1 x w sparse matrices: (w, stored entries) *)
| InSparse (nr nc : nat) (l : list entry3)           (* scipy sparse matrix of any layout: shape + stored entries *)
| InDokRows (rows : list (nat * row_entries)).        (* list of 1 x w sparse rows whose FIRST one is a dok_matrix
                                                        (the other rows in any layout): (w, stored entries) *)

(* Table._to_sparse followed by tocsr: (n_rows, n_cols, entries).  [shape] is what the
   constructor passes: (number of observation ids, number of sample ids). *)
Definition to_coo (inp : cinput) (shape : nat * nat) : result (nat * nat * list entry3) :=
  let empty := ROk (fst shape, snd shape, []) in
  match inp with
  | InArray nr nc m =>
      (* table.py:609-611: an empty array takes the known shape; 626: nparray_to_sparse keeps its own *)
      if Nat.eqb (nr * nc) 0 then empty else ROk (nr, nc, scan m)
  | InDenseLists m =>
      (* 628-632 the empty list; 657-664: coo_matrix(values) states the shape, ragged rows are numpy's ValueError *)
      match m with
      | [] => empty
      | r :: _ => if rectb (length r) m then ROk (length m, length r, scan m) else RErr E_VALUE
      end
  | InTriples l =>
      match l with [] => empty | _ => coo_checked_ids (fst shape) (snd shape) l end   (* list_list_to_sparse *)
  | InDict l => coo_checked_ids (fst shape) (snd shape) l        (* dict_to_sparse -> coo_arrays_to_sparse *)
  | InRowArrays rows =>
      match rows with
      | [] => empty
      | r :: _ => if rectb (length r) rows then ROk (length rows, length r, scan rows) else RErr E_VALUE
      end                                                                          (* 633-637, 5513-5531 *)
  | InRowDicts rows =>
      match rows with
      | [] => empty
      | _ =>
        let keys := concat rows in
        (* vectors without any entry describe zeros: max(..., default=-1) + 1 *)
        let nr_k := dim_of (map e_row keys) in
        let nc_k := dim_of (map e_col keys) in
        if Nat.ltb nc_k nr_k then                      (* n_rows > n_cols: the dicts are columns *)
          let n_rows := Nat.max nr_k (fst shape) in
          coo_checked n_rows (length rows) (flatten_col_from 0 rows)
        else
          let n_cols := Nat.max nc_k (snd shape) in
          coo_checked (length rows) n_cols (flatten (map (map (fun e => (e_col e, e_val e))) rows))
      end                                                                          (* 639-643, 5573-5637 *)
  | InSparseRows rows =>
      match rows with
      | [] => empty
      | (w, _) :: _ =>
          (* vstack wants one width; coo_matrix(sparse, shape=...) ignores the shape argument, so the
             n_rows > n_cols heuristic of list_sparse_to_sparse (5549-5555) has no effect *)
          if forallb (fun r => Nat.eqb (fst r) w) rows
          then coo_checked (length rows) w (flatten (map snd rows)) else RErr E_VALUE
      end                                                                          (* 645-649, 5534-5570 *)
  | InSparse nr nc l => coo_checked nr nc l                                        (* 489: data.tocsr() *)
  | InDokRows rows =>
      (* scipy's dok_matrix is a dict subclass: _to_sparse tests isinstance(values[0], dict) before
         isspmatrix(values[0]), so the list goes to list_dict_to_sparse and takes its isspmatrix branch
         (5629-5637): the FIRST row states the width, the shape from the ids is not used for sparse
         vectors (repair 3ab6fd0d), a row in another layout is read through todok() (repair ae5dfffc);
         the widths of the other rows are not compared, an entry beyond the first row's width is
         scipy's ValueError *)
      match rows with
      | [] => empty
      | (w0, _) :: _ =>
          if Nat.ltb w0 1 then                           (* 1 > w0: the rows are taken for columns *)
            coo_checked 1 (length rows)
                        (flatten_col_from 0 (map (fun r => map (fun cv => (0, fst cv, snd cv)) (snd r)) rows))
          else coo_checked (length rows) w0 (flatten (map snd rows))
      end
  end.

Definition to_dense (inp : cinput) (shape : nat * nat) : result (nat * nat * matrix) :=
  match to_coo inp shape with
  | ROk (nr, nc, es) => ROk (nr, nc, coo_dense nr nc es)
  | RErr c => RErr c
  end.

(* ------------------------------------------------------------------ metadata as given by the caller *)
Inductive mdin :=
| MdNone                               (* None *)
| MdMap (kv : list Tree)               (* a dict; kv = its items as trees *)
| MdOther (truthy : bool) (t : Tree).  (* anything else; its truth value no longer matters *)

Definition is_none (e : mdin) : bool := match e with MdNone => true | _ => false end.
(* None or an empty mapping *)
Definition is_blank (e : mdin) : bool := match e with MdNone => true | MdMap [] => true | _ => false end.
Definition is_other (e : mdin) : bool := match e with MdOther _ _ => true | _ => false end.
Definition dict_tree (kv : list Tree) : Tree := L [I 6; L kv].        (* tables.md_tree of a dict *)
Definition md_entry_tree (e : mdin) : Tree :=
  match e with MdMap kv => dict_tree kv | _ => dict_tree [] end.

(* table.py:500-524: metadata whose entries are all None or an empty mapping becomes None, unless
   its size is wrong; other falsy objects ('', 0, []) are not "empty" (repair e7f3397a) *)
Definition norm_md (md : option (list mdin)) (n_ids : nat) : option (list mdin) :=
  match md with
  | None => None
  | Some l =>
      if forallb is_blank l && Nat.eqb (length l) n_ids then None else Some l
  end.

(* _cast_metadata, table.py:674-714: no entry holds anything (None or an empty mapping) -> None,
   as the constructor does (repair 16e406b1); a dict or None entry becomes a defaultdict; anything
   else is a TableException *)
Definition cast_md (md : option (list mdin)) : result (option (list Tree)) :=
  match md with
  | None => ROk None
  | Some l =>
      if forallb is_blank l then ROk None
      else if existsb is_other l then RErr E_TABLE
      else ROk (Some (map md_entry_tree l))
  end.

(* ------------------------------------------------------------------ the constructor *)
Definition view_of (nr nc : nat) (oids sids : list Z) (omd smd : option (list mdin)) : view :=
  {| v_empty := Nat.eqb (length sids) 0 || Nat.eqb (length oids) 0;
     v_rows := nr; v_cols := nc; v_oids := oids; v_sids := sids;
     v_omd := option_map (@length mdin) omd; v_smd := option_map (@length mdin) smd |}.

Definition construct (p : profile) (inp : cinput) (oids sids : list Z)
           (omd smd : option (list mdin)) (ty : Z) : result table :=
  match to_dense inp (length oids, length sids) with
  | RErr c => RErr c
  | ROk (nr, nc, m) =>
      let omd1 := norm_md omd (length oids) in
      let smd1 := norm_md smd (length sids) in
      match errcheck p (view_of nr nc oids sids omd1 smd1) [] with
      | Raise _ => RErr E_TYPE
      | Ok (EvRaise _) => RErr E_TABLE
      | Ok _ =>
          (* _cast_metadata: sample metadata first, then observation metadata (both TableException) *)
          match cast_md smd1, cast_md omd1 with
          | ROk s, ROk o => ROk (mkT oids sids m o s ty)
          | RErr c, _ => RErr c
          | _, RErr c => RErr c
          end
      end
  end.

(* ------------------------------------------------------------------ canonical encodings of a matrix *)
Definition full_rows (m : matrix) : list row_entries := map (enum_from 0) m.
Definition nz_row (r : row_entries) : row_entries := filter (fun cv => negb (Z.eqb (snd cv) 0)) r.
Definition enc_array (c : nat) (m : matrix) : cinput := InArray (length m) c m.
Definition enc_lists (m : matrix) : cinput := InDenseLists m.
Definition enc_triples (m : matrix) : cinput := InTriples (scan m).
Definition enc_triples_zeros (m : matrix) : cinput := InTriples (flatten (full_rows m)).   (* explicit zeros *)
Definition enc_dict (m : matrix) : cinput := InDict (scan m).
Definition enc_rowarrays (m : matrix) : cinput := InRowArrays m.
(* row dicts keyed (0, column) *)
Definition enc_rowdicts (m : matrix) : cinput :=
  InRowDicts (map (fun r => map (fun cv => (0, fst cv, snd cv)) (nz_row (enum_from 0 r))) m).
Definition enc_sparserows (c : nat) (m : matrix) : cinput :=
  InSparseRows (map (fun r => (c, nz_row (enum_from 0 r))) m).
Definition enc_sparse (c : nat) (m : matrix) : cinput := InSparse (length m) c (scan m).
Definition enc_dokrows (c : nat) (m : matrix) : cinput :=
  InDokRows (map (fun r => (c, nz_row (enum_from 0 r))) m).

(* an arbitrary entry list describing m: any order, explicit zeros, a value split over several
   entries of one cell (which COO sums) *)
Definition represents (es : list entry3) (r c : nat) (m : matrix) : Prop :=
  forallb (in_range r c) es = true /\ forall i j, i < r -> j < c -> cell_sum es i j = get m i j.

(* ------------------------------------------------------------------ adjacency list importer *)
Inductive aline :=
| AHeader                          (* exactly '#OTU ID<tab>SampleID<tab>value' *)
| ARec (o s : Z) (v : Z)           (* observation, sample, numeric value *)
| AJunk (three_fields : bool).     (* comment, blank line, wrong field count, non-numeric value *)

(* sorted(set(xs)) over id codes (codes respect the order of the id texts) *)
Fixpoint zins (x : Z) (l : list Z) : list Z :=
  match l with
  | [] => [x]
  | y :: t => if Z.ltb x y then x :: l else if Z.eqb x y then l else y :: zins x t
  end.
Definition sort_uniq (l : list Z) : list Z := fold_right zins [] l.
Definition posn (x : Z) (l : list Z) : nat := match pos x l with Some i => i | None => 0 end.

(* the record loop, in reading order: assert len(parts) == 3 (AssertionError), float(parts[2]) (ValueError) *)
Fixpoint adj_records_lr (ls : list aline) (acc : list (Z * Z * Z)) : result (list (Z * Z * Z)) :=
  match ls with
  | [] => ROk (rev acc)
  | ARec o s v :: t => adj_records_lr t ((o, s, v) :: acc)
  | AHeader :: _ => RErr E_VALUE
  | AJunk true :: _ => RErr E_VALUE
  | AJunk false :: _ => RErr E_OTHER
  end.

Definition adj_table (p : profile) (recs : list (Z * Z * Z)) : result table :=
  match recs with
  | [] => RErr E_VALUE               (* coo_matrix cannot infer dimensions from empty index arrays *)
  | _ =>
    let obs := map (fun r => fst (fst r)) recs in
    let smp := map (fun r => snd (fst r)) recs in
    let obs_order := sort_uniq obs in
    let samp_order := sort_uniq smp in
    let row := map (fun o => posn o obs_order) obs in
    let col := map (fun s => posn s samp_order) smp in
    let es := map (fun r => (posn (fst (fst r)) obs_order, posn (snd (fst r)) samp_order, snd r)) recs in
    (* coo_matrix((data, (row, col))): the shape is inferred as max index + 1 *)
    construct p (InSparse (S (nmax row)) (S (nmax col)) es) obs_order samp_order None None 0%Z
  end.

Definition from_adjacency (p : profile) (ls : list aline) : result table :=
  match ls with
  | [] => RErr E_OTHER                                   (* lines[0]: IndexError *)
  | AJunk _ :: _ => RErr E_VALUE                         (* "Does not appear to be an adjacency format" *)
  | AHeader :: t => match adj_records_lr t [] with ROk r => adj_table p r | RErr c => RErr c end
  | ARec _ _ _ :: _ => match adj_records_lr ls [] with ROk r => adj_table p r | RErr c => RErr c end
  end.

(* ------------------------------------------------------------------ uc importer *)
Definition label := list Z.                       (* the bytes of an identifier *)
Definition label_eqb (a b : label) : bool := list_eqb Z.eqb a b.
Inductive ukind := UH | US | UL | UOther.         (* UOther: N, C, D, comment and blank lines *)
Record urec := mkU { u_kind : ukind; u_query : label; u_target : label }.
Definition STAR : label := [42%Z].
Definition UNDERSCORE : Z := 95%Z.

(* query_id[:query_id.rindex('_')] *)
Fixpoint rsplit_us (q : label) : option label :=
  match q with
  | [] => None
  | c :: t =>
      match rsplit_us t with
      | Some pre => Some (c :: pre)
      | None => if Z.eqb c UNDERSCORE then Some [] else None
      end
  end.

Definition lpos (x : label) (l : list label) : option nat := index_of label_eqb x l.
(* "index of the id, or append it" *)
Definition intern (x : label) (l : list label) : nat * list label :=
  match lpos x l with Some i => (i, l) | None => (length l, l ++ [x]) end.

Definition cells := list (nat * nat * Z).          (* the defaultdict(int), insertion ordered *)
Fixpoint dincr (d : cells) (i j : nat) : cells :=
  match d with
  | [] => [(i, j, 1%Z)]
  | e :: t => if at_cell i j e then (i, j, (e_val e + 1)%Z) :: t else e :: dincr t i j
  end.

Record ustate := mkUS { us_obs : list label; us_samp : list label; us_data : cells }.
Definition observation_of (r : urec) : label :=
  if label_eqb (u_target r) STAR then u_query r else u_target r.

Definition uc_step (acc : result ustate) (r : urec) : result ustate :=
  match acc with
  | RErr c => RErr c
  | ROk s =>
      match u_kind r with
      | UOther => ROk s
      | k =>
          let '(oi, obs') := intern (observation_of r) (us_obs s) in
          match k with
          | UL => ROk (mkUS obs' (us_samp s) (us_data s))
          | _ =>
              match rsplit_us (u_query r) with
              | None => RErr E_VALUE
              | Some sid =>
                  let '(si, samp') := intern sid (us_samp s) in
                  ROk (mkUS obs' samp' (dincr (us_data s) oi si))
              end
          end
      end
  end.

Definition uc_fold (rs : list urec) : result ustate := fold_left uc_step rs (ROk (mkUS [] [] [])).

(* Table(data, observation_ids, sample_ids): the dict form with the shape of the ids *)
Definition uc_matrix (s : ustate) : result (nat * nat * matrix) :=
  to_dense (InDict (us_data s)) (length (us_obs s), length (us_samp s)).

Record uc_table := mkUT { ut_obs : list label; ut_samp : list label; ut_mat : matrix }.
Definition parse_uc (rs : list urec) : result uc_table :=
  match uc_fold rs with
  | RErr c => RErr c
  | ROk s => match uc_matrix s with
             | ROk (_, _, m) => ROk (mkUT (us_obs s) (us_samp s) m)
             | RErr c => RErr c
             end
  end.

(* _from_uc with a representative-set fasta: strict renaming of the observation ids; a seed
   without a new name or a repeated new name is a ValueError *)
Fixpoint lassoc (m : list (label * label)) (x : label) : option label :=
  match m with
  | [] => None
  | (k, v) :: t => match lassoc t x with       (* a later fasta record overwrites an earlier one *)
                   | Some v' => Some v'
                   | None => if label_eqb k x then Some v else None
                   end
  end.
Fixpoint ldup (l : list label) : bool :=
  match l with [] => false | x :: t => existsb (label_eqb x) t || ldup t end.
Fixpoint rename_all (m : list (label * label)) (l : list label) : option (list label) :=
  match l with
  | [] => Some []
  | x :: t => match lassoc m x, rename_all m t with
              | Some y, Some r => Some (y :: r)
              | _, _ => None
              end
  end.
Definition from_uc (rs : list urec) (fasta : option (list (label * label))) : result uc_table :=
  match parse_uc rs, fasta with
  | RErr c, _ => RErr c
  | ROk t, None => ROk t
  | ROk t, Some m =>
      match rename_all m (ut_obs t) with
      | None => RErr E_VALUE
      | Some new => if ldup new then RErr E_VALUE else ROk (mkUT new (ut_samp t) (ut_mat t))
      end
  end.
