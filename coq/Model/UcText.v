(* C17, uc importer at the level of the text: the HAND-WRITTEN step from a line of a .uc file to the
   record (`urec`) that Model/Construct.v folds, and parse_uc over lines.  biom/parse.py parse_uc:
   a line is stripped; a blank line and a line whose first tab-separated field is not H, S or L
   is skipped; the target is the first whitespace-delimited word of field 9, the query that of
   field 8 (a missing field or an all-blank field is an IndexError). *)
From Coq Require Import List Arith ZArith Bool.
From BiomV Require Import Base.ListUtil Model.Table Model.Err Model.Slicer Model.Construct.
Import ListNotations.
Open Scope list_scope.

Fixpoint take_word (s : text) : text :=
  match s with [] => [] | c :: t => if is_space c then [] else c :: take_word t end.
Definition first_word (f : text) : option text :=
  match lstrip is_space f with [] => None | w => Some (take_word w) end.

Definition uc_kind_of (t : text) : ukind :=
  if teqb t [72%Z] then UH else if teqb t [83%Z] then US else if teqb t [76%Z] then UL else UOther.

Definition uc_skip : urec := mkU UOther [] [].

Definition uc_record (line : text) : result urec :=
  match strip is_space line with
  | [] => ROk uc_skip
  | l =>
      let fields := split_char TAB l in
      match uc_kind_of (hd [] fields) with
      | UOther => ROk uc_skip
      | k =>
          match nth_error fields 9, nth_error fields 8 with
          | Some f9, Some f8 =>
              match first_word f9, first_word f8 with
              | Some t, Some q => ROk (mkU k q t)
              | _, _ => RErr E_OTHER                  (* IndexError: field.split()[0] *)
              end
          | _, _ => RErr E_OTHER                      (* IndexError: fields[9] / fields[8] *)
          end
      end
  end.

Definition uc_step_text (acc : result ustate) (line : text) : result ustate :=
  match acc with
  | RErr c => RErr c
  | ROk s => match uc_record line with RErr c => RErr c | ROk r => uc_step (ROk s) r end
  end.
Definition uc_fold_text (lines : list text) : result ustate :=
  fold_left uc_step_text lines (ROk (mkUS [] [] [])).

Definition parse_uc_text (lines : list text) : result uc_table :=
  match uc_fold_text lines with
  | RErr c => RErr c
  | ROk s => match uc_matrix s with
             | ROk (_, _, m) => ROk (mkUT (us_obs s) (us_samp s) m)
             | RErr c => RErr c
             end
  end.

(* when every line parses, the text-level importer is the record-level one on the records *)
Fixpoint all_records (lines : list text) : option (list urec) :=
  match lines with
  | [] => Some []
  | l :: t => match uc_record l, all_records t with
              | ROk r, Some rs => Some (r :: rs)
              | _, _ => None
              end
  end.

Lemma uc_fold_text_records_from : forall lines rs acc,
  all_records lines = Some rs -> fold_left uc_step_text lines acc = fold_left uc_step rs acc.
Proof.
  induction lines as [|l t IH]; intros rs acc H; cbn [all_records] in H.
  - inversion H. reflexivity.
  - destruct (uc_record l) as [r|c] eqn:E; [|discriminate].
    destruct (all_records t) as [rs'|] eqn:E2; [|discriminate]. inversion H; subst.
    cbn [fold_left]. rewrite (IH rs' _ eq_refl). f_equal.
    unfold uc_step_text. destruct acc as [s|c]; [rewrite E; reflexivity|reflexivity].
Qed.

Lemma parse_uc_text_records : forall lines rs,
  all_records lines = Some rs -> parse_uc_text lines = parse_uc rs.
Proof.
  intros lines rs H. unfold parse_uc_text, parse_uc, uc_fold_text, uc_fold.
  rewrite (uc_fold_text_records_from lines rs _ H). reflexivity.
Qed.

(* _from_uc over the text: the renaming of Model/Construct.v from_uc on parse_uc_text *)
Definition from_uc_text (lines : list text) (fasta : option (list (label * label))) : result uc_table :=
  match parse_uc_text lines, fasta with
  | RErr c, _ => RErr c
  | ROk t, None => ROk t
  | ROk t, Some m =>
      match rename_all m (ut_obs t) with
      | None => RErr E_VALUE
      | Some new => if ldup new then RErr E_VALUE else ROk (mkUT new (ut_samp t) (ut_mat t))
      end
  end.

Lemma from_uc_text_records : forall lines rs fasta,
  all_records lines = Some rs -> from_uc_text lines fasta = from_uc rs fasta.
Proof.
  intros lines rs fasta H. unfold from_uc_text, from_uc. rewrite (parse_uc_text_records lines rs H). reflexivity.
Qed.
