(* C12: Table.subsample (table.py:3034-3061) and the two compiled kernels of _subsample.pyx.

   Random draws are INPUTS of the model: the harness records what numpy's Generator returned to the
   real code and hands exactly that to the model.
     without replacement : for every vector that reaches  rng.choice(counts_sum, n, replace=False)
                           the SORTED result (the kernel sorts it before it is used), in call order;
     with replacement    : the result of every  rng.multinomial(n, pvals)  in call order;
     by id               : the id array after  rng.shuffle(ids).
   Their contracts (n distinct values below the total / non-negative, sum n, zero where p = 0 /
   a permutation) are hypotheses of the theorems, never axioms.

   Counts are non-negative integers (the property's domain), so  astype(int64)  and  ceil  are the
   identity on them; int64 overflow is not modelled. *)
From Coq Require Import List Arith ZArith Lia Bool.
From BiomV Require Import Base.Tree Base.ListUtil Base.Matrix Model.Table Model.Filter Model.Stored.
Import ListNotations.

(* ------------------------------------------------------------------------------------------
   _subsample_without_replacement, the walk (_subsample.pyx:113-146).

   [out] is the view data[start:end]: data[start+el] is position el of the view.
   [intdata] is the int64 COPY of the same slice taken before the walk (pyx:95), so writes into
   the view do not change what the walk reads.
   w_ok turns false if the code would index intdata out of range or the inner while would not
   terminate within the segment (Proofs: impossible under the contract of choice). *)
Record wstate := mkW { w_out : list Z; w_el : nat; w_count_el : Z; w_count_rem : Z; w_el_cnt : Z; w_ok : bool }.

(* body of the inner while (pyx:121-131):
     data[start+el] = el_cnt; el += 1; count_el += count_rem; count_rem = intdata[el]; el_cnt = 0 *)
Definition advance1 (intdata : list Z) (st : wstate) : wstate :=
  let out := upd (w_out st) (w_el st) (w_el_cnt st) in
  let el := S (w_el st) in
  let count_el := (w_count_el st + w_count_rem st)%Z in
  mkW out el count_el (nth el intdata 0%Z) 0%Z (w_ok st && (el <? length intdata)).

(* while (perm_count_el - count_el) >= count_rem: ...      fuel = number of entries of the segment *)
Fixpoint advance (fuel : nat) (intdata : list Z) (p : Z) (st : wstate) : wstate :=
  if (w_count_rem st <=? p - w_count_el st)%Z then
    match fuel with
    | O => mkW (w_out st) (w_el st) (w_count_el st) (w_count_rem st) (w_el_cnt st) false
    | S f => advance f intdata p (advance1 intdata st)
    end
  else st.

(* one turn of  for idx in range(n)  (pyx:117-138), p = permuted[idx]:
     while ...; el_cnt += 1; count_rem -= (perm_count_el - count_el); count_el = perm_count_el *)
Definition walk_body (intdata : list Z) (st : wstate) (p : Z) : wstate :=
  let st1 := advance (length intdata) intdata p st in
  mkW (w_out st1) (w_el st1) p (w_count_rem st1 - (p - w_count_el st1))%Z (w_el_cnt st1 + 1)%Z (w_ok st1).

(* el = 0; count_el = 0; count_rem = intdata[0]; el_cnt = 0 (pyx:113-116) *)
Definition walk_init (seg : list Z) : wstate :=
  mkW seg 0 0%Z (nth 0 seg 0%Z) 0%Z (0 <? length seg).

(* the for loop, then  data[start+el] = el_cnt; data[start+el+1:end] = 0  (pyx:139-146) *)
Definition walk (n : nat) (seg : list Z) (permuted : list Z) : list Z * bool :=
  let intdata := seg in
  let st := fold_left (fun st idx => walk_body intdata st (nth idx permuted 0%Z)) (seq 0 n) (walk_init seg) in
  let out := upd (w_out st) (w_el st) (w_el_cnt st) in
  (firstn (S (w_el st)) out ++ repeat 0%Z (length out - S (w_el st)), w_ok st).

(* one vector (pyx:90-146): the draws still to be consumed are threaded through *)
Definition sub_seg (n : nat) (seg : list Z) (draws : list (list Z)) : list Z * list (list Z) * bool :=
  let counts_sum := zsum seg in
  if (counts_sum <? Z.of_nat n)%Z then (repeat 0%Z (length seg), draws, true)     (* data[start:end] = 0; continue *)
  else match draws with
       | [] => (seg, [], false)                   (* the recording has no draw left: never on a faithful run *)
       | permuted :: rest => let '(o, ok) := walk n seg permuted in (o, rest, ok)
       end.

(* with replacement (pyx:45-56): pvals = ceil(data)/sum; data[start:end] = rng.multinomial(n, pvals).
   An empty slice gives empty pvals, a zero sum gives NaN: numpy raises ValueError for both. *)
Definition rep_seg (seg : list Z) (draws : list (list Z)) : option (list Z * list (list Z)) :=
  if (zsum seg =? 0)%Z then None
  else match draws with
       | [] => None
       | d :: rest => Some (d, rest)
       end.

(* ---- the kernels on the arrays (indptr, data), for i in range(indptr.shape[0] - 1) ---- *)
Definition kernel_wo (n : nat) (indptr : list nat) (data : list Z) (draws : list (list Z))
  : list Z * list (list Z) * bool :=
  fold_left (fun st i =>
               let '(data, draws, ok) := st in
               let start := nth i indptr 0 in let end_ := nth (S i) indptr 0 in
               let '(o, draws', ok') := sub_seg n (slice data start end_) draws in
               (splice data start end_ o, draws', ok && ok'))
            (seq 0 (length indptr - 1)) (data, draws, true).

Definition kernel_rep (indptr : list nat) (data : list Z) (draws : list (list Z)) : option (list Z * list (list Z)) :=
  fold_left (fun st i =>
               match st with
               | None => None
               | Some (data, draws) =>
                   let start := nth i indptr 0 in let end_ := nth (S i) indptr 0 in
                   match rep_seg (slice data start end_) draws with
                   | None => None
                   | Some (o, draws') => Some (splice data start end_ o, draws')
                   end
               end)
            (seq 0 (length indptr - 1)) (Some (data, draws)).

(* the per-segment results, the draws threaded through in order *)
Fixpoint seg_results (n : nat) (segs : list (list Z)) (draws : list (list Z)) (ok : bool)
  : list (list Z) * list (list Z) * bool :=
  match segs with
  | [] => ([], draws, ok)
  | seg :: rest =>
      let '(o, draws', ok') := sub_seg n seg draws in
      let '(os, draws'', ok'') := seg_results n rest draws' (ok && ok') in
      (o :: os, draws'', ok'')
  end.

(* ---- the same per vector of the table, through the layout ---- *)
(* a layout shorter than the table reads as "nothing stored" for the remaining vectors, so the
   result always has one vector per id *)
Fixpoint sub_vecs (n : nat) (vs : list (list Z)) (lay : list (list nat)) (draws : list (list Z)) : list (list Z) :=
  match vs with
  | [] => []
  | v :: vs' =>
      let ord := hd [] lay in
      let '(o, draws', _) := sub_seg n (gather 0%Z ord v) draws in
      scatter 0%Z (length v) ord o :: sub_vecs n vs' (tl lay) draws'
  end.

Fixpoint rep_vecs (vs : list (list Z)) (lay : list (list nat)) (draws : list (list Z)) : option (list (list Z)) :=
  match vs with
  | [] => Some []
  | v :: vs' =>
      let ord := hd [] lay in
      match rep_seg (gather 0%Z ord v) draws with
      | None => None
      | Some (o, draws') => option_map (cons (scatter 0%Z (length v) ord o)) (rep_vecs vs' (tl lay) draws')
      end
  end.

(* ---- Table.subsample ---- *)
(* table.filter(lambda v, i, md: v.sum() > 0, axis): the verdicts of that predicate on the
   (vector, id, metadata) triples Table.filter hands it (Filter.pred_calls, theorem C08.predicate_calls) *)
Definition sum_pos_verdicts (a : axis) (t : table) : list bool :=
  map (fun c => (0 <? zsum (fst (fst c)))%Z) (pred_calls a t).
Definition drop_nonpositive (a : axis) (t : table) : table := filter_pred (sum_pos_verdicts a t) false a t.

(* the table right after the kernel and eliminate_zeros, before the two filters
   (eliminate_zeros does not change the content) *)
Definition kernel_table_wo (n : nat) (a : axis) (lay : list (list nat)) (draws : list (list Z)) (t : table) : table :=
  with_axis_vecs a t (sub_vecs n (axis_vecs a t) lay draws).

Definition subsample_counts (n : nat) (a : axis) (lay : list (list nat)) (draws : list (list Z)) (t : table) : table :=
  drop_nonpositive (other a) (drop_nonpositive a (kernel_table_wo n a lay draws t)).

(* kernel + eliminate_zeros + the two closing filters, on the table the kernel is handed *)
Definition subsample_replace_core (a : axis) (lay : list (list nat)) (draws : list (list Z)) (t : table) : result table :=
  match rep_vecs (axis_vecs a t) lay draws with
  | None => RErr E_VALUE
  | Some vs => ROk (drop_nonpositive (other a) (drop_nonpositive a (with_axis_vecs a t vs)))
  end.

(* with replacement (table.py:3057-3060): the vectors without counts are filtered out BEFORE the
   kernel sees the table (the kernel raises on them, see Props/C12.v replace_kernel_needs_prefilter);
   [lay] is the layout of the filtered table *)
Definition subsample_replace (a : axis) (lay : list (list nat)) (draws : list (list Z)) (t : table) : result table :=
  subsample_replace_core a lay draws (drop_nonpositive a t).

(* ids = table.ids(axis).copy(); rng.shuffle(ids); subset = set(ids[:n]);
   table.filter(lambda v, i, md: i in subset, axis); then the closing filter on the other axis *)
Definition subsample_by_id (n : nat) (a : axis) (shuffled : list Z) (t : table) : table :=
  let subset := firstn n shuffled in
  drop_nonpositive (other a) (filter_pred (map (fun c => zmem (snd (fst c)) subset) (pred_calls a t)) false a t).

(* the whole method.  The first component is the receiver after the call: every statement works on
   `table = self.copy()`, so it is the argument itself (aliasing between the copy and the receiver is
   outside a content model; the correspondence run compares the receiver before and after). *)
Definition subsample (n : Z) (a : axis) (by_id with_replacement : bool)
           (lay : list (list nat)) (draws : list (list Z)) (self : table) : table * result table :=
  if (n <? 0)%Z then (self, RErr E_VALUE)
  else if with_replacement && by_id then (self, RErr E_VALUE)
  else
    let table := self in                                  (* table = self.copy() *)
    if by_id then (self, ROk (subsample_by_id (Z.to_nat n) a (nth 0 draws []) table))
    else if with_replacement then (self, subsample_replace a lay draws table)
    else (self, ROk (subsample_counts (Z.to_nat n) a lay draws table)).

(* ------------------------------------------------------------------------------------------
   vocabulary of the specifications (Props/C12.v) *)
(* unit positions: entry k of a segment with counts [a] owns the units off a k .. off a k + a_k - 1 *)
Definition off (a : list Z) (k : nat) : Z := zsum (firstn k a).
Definition inb (lo hi p : Z) : bool := (lo <=? p)%Z && (p <? hi)%Z.
(* number of elements of P in [lo, hi) *)
Definition cnt (lo hi : Z) (P : list Z) : Z := Z.of_nat (length (filter (inb lo hi) P)).

(* every element is smaller than (not larger than) all later ones *)
Fixpoint incr (l : list Z) : Prop :=
  match l with [] => True | x :: t => Forall (fun q => (x < q)%Z) t /\ incr t end.
Fixpoint nondecr (l : list Z) : Prop :=
  match l with [] => True | x :: t => Forall (fun q => (x <= q)%Z) t /\ nondecr t end.
Fixpoint incrb (l : list Z) : bool :=
  match l with [] => true | x :: t => forallb (fun q => (x <? q)%Z) t && incrb t end.

(* contract of  sorted(rng.choice(total, n, replace=False)) : n distinct values in [0, total) *)
Definition choice_ok (total : Z) (n : nat) (P : list Z) : Prop :=
  incr P /\ Forall (fun p => (0 <= p < total)%Z) P /\ length P = n.
Definition choice_okb (total : Z) (n : nat) (P : list Z) : bool :=
  incrb P && forallb (fun p => (0 <=? p)%Z && (p <? total)%Z) P && Nat.eqb (length P) n.

(* the recorded draws fit the vectors that reach rng.choice (those with total >= n), in order *)
Fixpoint draws_ok (n : nat) (totals : list Z) (draws : list (list Z)) : Prop :=
  match totals with
  | [] => True
  | s :: ts => if (s <? Z.of_nat n)%Z then draws_ok n ts draws
               else match draws with [] => False | P :: rest => choice_ok s n P /\ draws_ok n ts rest end
  end.

(* contract of  rng.multinomial(n, pvals)  with pvals = seg / sum(seg) *)
Definition multi_ok (n : nat) (seg d : list Z) : Prop :=
  length d = length seg /\ Forall (fun x => (0 <= x)%Z) d /\ zsum d = Z.of_nat n /\
  (forall k, nth k seg 0%Z = 0%Z -> nth k d 0%Z = 0%Z).
Fixpoint multis_ok (n : nat) (segs draws : list (list Z)) : Prop :=
  match segs with
  | [] => True
  | s :: ss => match draws with [] => False | d :: rest => multi_ok n s d /\ multis_ok n ss rest end
  end.

Definition nonneg_table (t : table) : Prop := Forall (Forall (fun x => (0 <= x)%Z)) (mat t).
Definition nonneg_tableb (t : table) : bool := forallb (forallb (fun x => (0 <=? x)%Z)) (mat t).
