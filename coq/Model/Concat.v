(* C10: Table.concat (biom/table.py:3516-3676) and the biom.concat wrapper
   (biom/__init__.py:75-95), modelled on the content of tables.
   The code is generic in the axis through stack/invstack; the model orients every
   operand so that the concatenation axis is the row axis, runs the row version and
   orients the result back.
   Line numbers cite biom/table.py of the pinned tree (32a1913a, as in properties.jsonl); later
   repairs shift them by a few dozen lines, the statement order inside each method is unchanged. *)
From Coq Require Import List Arith ZArith Lia Bool.
From BiomV Require Import Base.Tree Base.ListUtil Base.Matrix Model.Table Model.Orient.
Import ListNotations.

(* table.py:3587-3595: ids on the concatenation axis are accumulated operand by operand;
   an operand sharing an id with what was seen so far raises DisjointIDError *)
Fixpoint disjoint_ok (seen : list Z) (ts : list table) : bool :=
  match ts with
  | [] => true
  | t :: r => if existsb (fun x => zmem x seen) (oids t) then false
              else disjoint_ok (seen ++ oids t) r
  end.

(* table.metadata(i, axis=invaxis), table.py:1531-1541: None when the axis has no metadata *)
Definition md_lookup (t : table) (y : Z) : Tree :=
  match md_of Samp t y with Some m => m | None => md_none end.

(* table.py:3597-3602: ids of the other axis not seen before are added to the union and
   their metadata is remembered from the operand that brought them in *)
Fixpoint collect (seen : list Z) (mdmap : list (Z * Tree)) (ts : list table)
  : list Z * list (Z * Tree) :=
  match ts with
  | [] => (seen, mdmap)
  | t :: r =>
      let fresh := filter (fun y => negb (zmem y seen)) (sids t) in
      collect (seen ++ fresh) (mdmap ++ map (fun y => (y, md_lookup t y)) fresh) r
  end.

Fixpoint md_get (m : list (Z * Tree)) (y : Z) : Tree :=
  match m with
  | [] => md_none
  | (k, v) :: r => if Z.eqb y k then v else md_get r y
  end.

(* table.py:3609-3655 for one operand.  missing_ids is built from a python set, its order is
   not specified; the model takes the ids in the order of the common order, the later
   sort_order makes the choice unobservable. *)
Definition pad_only (order : list Z) (mdmap : list (Z * Tree)) (t : table) : table :=
  let missing := filter (fun y => negb (zmem y (sids t))) order in
  match missing with
  | [] => t
  | _ =>
    mkT (oids t) (sids t ++ missing)
        (map (fun r => r ++ zero_row (length missing)) (mat t))
        (ctor_md (omd t))
        (ctor_md (Some (md_list (smd t) (nsamp t) ++ map (md_get mdmap) missing)))
        NOTYPE
  end.

Definition pad_table (order : list Z) (mdmap : list (Z * Tree)) (t : table) : table :=
  let t1 := pad_only order mdmap t in
  if list_eqb Z.eqb (sids t1) order then t1 else sort_order_cols order t1.

(* table.py:3657-3674 *)
Definition stack_rows (order : list Z) (ty : Z) (padded : list table) : table :=
  let cmat := concat (map mat padded) in
  let cids := concat (map oids padded) in
  let cmd := concat (map (fun t => md_list (omd t) (length (mat t))) padded) in
  let inv_md := match padded with p :: _ => smd p | [] => None end in
  mkT cids order cmat (ctor_md (Some cmd)) (ctor_md inv_md) ty.

Definition concat_rows (ts : list table) : result table :=
  match ts with
  | [] => RErr E_OTHER                     (* biom.concat of an empty list: IndexError *)
  | self :: _ =>
    if negb (disjoint_ok [] ts) then RErr E_DISJOINT
    else
      let '(inv_ids, mdmap) := collect [] [] ts in
      let order := isort inv_ids in
      ROk (stack_rows order (ttype self) (map (pad_table order mdmap) ts))
  end.

(* self.concat(others, axis) with ts = self :: others *)
Definition concat_t (ts : list table) (a : axis) : result table :=
  match concat_rows (map (orient a) ts) with
  | ROk r => ROk (orient a r)
  | RErr c => RErr c
  end.
