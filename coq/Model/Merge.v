(* C09: Table.merge (biom/table.py:3768-4038 at b9a3d3e4), its helpers _union_id_order /
   _intersect_id_order (table.py:3397-3418), the pandas-free "fast" path _fast_merge
   (table.py:3704-3766) and the default metadata policy prefer_self (util.py:195-197),
   modelled on the content of tables.  IDs are integer codes that respect python's string
   order (harness.tables.Coder), so sorted(...) is "sort by code".  Values are scaled
   integers.  A metadata-merge function is any Gallina function
       option Tree -> option Tree -> option Tree
   (None = python None, Some m = the dict the table stores for that id). *)
From Coq Require Import List Arith ZArith Lia Bool.
From BiomV Require Import Base.Tree Base.ListUtil Base.Matrix Model.Table Model.Orient.
Import ListNotations.

(* the two axis arguments of merge: 'union', 'intersection', anything else *)
Inductive mode := Union | Inter | BadMode.
Definition is_union (m : mode) : bool := match m with Union => true | _ => false end.

Definition mdf := option Tree -> option Tree -> option Tree.

(* python truth value of a metadata argument: None and the empty mapping are false *)
Definition md_truthy (o : option Tree) : bool :=
  match o with Some m => negb (md_falsy m) | None => false end.

(* util.py:195-197 (after repair c0ec632f): x if x else y *)
Definition prefer_self : mdf := fun x y => if md_truthy x then x else y.
(* the definition before the repair: x if x is not None else y *)
Definition prefer_self_old : mdf := fun x y => match x with Some _ => x | None => y end.

(* ---- table.py:3397-3407: walk a followed by b, an id gets the next index the first time it
   is met; the dict is later turned into the list of ids by index (table.py:3894-3895) ---- *)
Definition uniq_step (acc : list Z) (x : Z) : list Z := if zmem x acc then acc else acc ++ [x].
Definition union_order (a b : list Z) : list Z := fold_left uniq_step (a ++ b) [].

(* ---- table.py:3409-3418: the ids of a, in a's order, that are members of set(b) ---- *)
Definition intersect_order (a b : list Z) : list Z := filter (fun x => zmem x b) a.

(* table.py:3872-3890 *)
Definition order_for (m : mode) (a b : list Z) : option (list Z) :=
  match m with
  | Union => Some (union_order a b)
  | Inter => Some (intersect_order a b)
  | BadMode => None
  end.

(* ---- metadata of the result, table.py:3925-3968 then Table.__init__ (498-523, 675-700) ----
   md_of ax t i is None when the table has no metadata on that axis or does not know the id,
   otherwise the stored dict: exactly the self_md / other_md the code computes. *)
Definition entry_of (o : option Tree) : Tree := match o with Some m => m | None => md_none end.
Definition merged_md (f : mdf) (ax : axis) (a b : table) (idl : list Z) : option (list Tree) :=
  ctor_md (Some (map (fun i => entry_of (f (md_of ax a i) (md_of ax b i))) idl)).

(* ---- one result vector, table.py:3974-4035 ---- *)
Definition vec_at (t : table) (o : Z) : option (list Z) := option_map (mrow (mat t)) (pos o (oids t)).
(* vector value at a sample id; an id the table does not know contributes nothing *)
Definition pick (t : table) (v : list Z) (s : Z) : Z :=
  match pos s (sids t) with Some j => nth j v 0%Z | None => 0%Z end.
Definition merged_row (a b : table) (sord : list Z) (o : Z) : list Z :=
  match vec_at b o, vec_at a o with
  | None, Some sv => map (pick a sv) sord                          (* 3998-4001 *)
  | Some ov, None => map (pick b ov) sord                          (* 4005-4008 *)
  | Some ov, Some sv => map (fun s => (pick a sv s + pick b ov s)%Z) sord   (* 4016-4031 *)
  | None, None => map (fun _ => 0%Z) sord      (* not reachable: o comes from one of the two *)
  end.

(* table.py:3863-3870 (repair b9a3d3e4): a metadata function that is None stands for
   "no metadata on that axis" *)
Definition drop_md : mdf := fun _ _ => None.
Definition f_or_drop (f : option mdf) : mdf := match f with Some g => g | None => drop_md end.

(* ---- the general (pairwise) merge, table.py:3861-4038.
   Refusals, in the order the code meets them: unknown mode (TableException), no sample /
   no observation left (TableException).
   The result is built by the plain constructor: no type. ---- *)
Definition merge_general (a b : table) (sm om : mode) (fs fo : option mdf) : result table :=
  match order_for sm (sids a) (sids b) with
  | None => RErr E_TABLE
  | Some sord =>
    match order_for om (oids a) (oids b) with
    | None => RErr E_TABLE
    | Some oord =>
      match sord, oord with
      | [], _ => RErr E_TABLE
      | _, [] => RErr E_TABLE
      | _, _ =>
          ROk (mkT oord sord (map (merged_row a b sord) oord)
                   (merged_md (f_or_drop fo) Obs a b oord) (merged_md (f_or_drop fs) Samp a b sord) NOTYPE)
      end
    end
  end.

(* ---- sorted(set(...)) over codes, table.py:3716-3722 ---- *)
Fixpoint uinsert (x : Z) (l : list Z) : list Z :=
  match l with
  | [] => [x]
  | y :: r => if Z.ltb x y then x :: l else if Z.eqb x y then l else y :: uinsert x r
  end.
Definition usort (l : list Z) : list Z := fold_right uinsert [] l.

(* ---- _fast_merge, table.py:3704-3766 ---- *)
Definition triple := (nat * nat * Z)%type.
Definition t_row (e : triple) : nat := fst (fst e).
Definition t_col (e : triple) : nat := snd (fst e).
Definition t_val (e : triple) : Z := snd e.

(* table.nnz eliminates stored zeros, then matrix_data.tocoo(): the non-zero cells as
   (row, col, value); their order depends on the layout and is irrelevant for the sums *)
Definition coo_of (t : table) : list triple :=
  flat_map (fun i => flat_map (fun j => let v := get (mat t) i j in
                                        if Z.eqb v 0 then [] else [(i, j, v)])
                              (seq 0 (nsamp t)))
           (seq 0 (nobs t)).

(* feature_map[id] / sample_map[id]: index in the sorted global order *)
Definition gpos (order : list Z) (x : Z) : nat := pos0 x order.

(* row_map / col_map (3748-3753) applied to coo.row / coo.col (3754-3755) *)
Definition remap (fo so : list Z) (t : table) : list triple :=
  let row_map := map (gpos fo) (oids t) in
  let col_map := map (gpos so) (sids t) in
  map (fun e => (nth (t_row e) row_map 0, nth (t_col e) col_map 0, t_val e)) (coo_of t).

(* coo_matrix((data, (rows, cols)), shape).tocsr(): duplicates are summed *)
Definition hits (i j : nat) (e : triple) : bool := Nat.eqb (t_row e) i && Nat.eqb (t_col e) j.
Definition coo_dense (nr nc : nat) (es : list triple) : matrix :=
  map (fun i => map (fun j => zsum (map t_val (filter (hits i j) es))) (seq 0 nc)) (seq 0 nr).

Definition fast_merge (ts : list table) : table :=
  let fo := usort (flat_map oids ts) in
  let so := usort (flat_map sids ts) in
  mkT fo so (coo_dense (length fo) (length so) (flat_map (remap fo so) ts)) None None NOTYPE.

(* ---- the entry point, table.py:3836-3861 ---- *)
Definition no_md (t : table) : bool :=
  match omd t, smd t with None, None => true | _, _ => false end.
Definition is_none {A} (o : option A) : bool := match o with None => true | Some _ => false end.

(* 3843-3851: fast iff (no operand has metadata on either axis, or both functions are None)
   and both axes are 'union' *)
Definition fast_ok (ts : list table) (sm om : mode) (fs fo : option mdf) : bool :=
  (forallb no_md ts || (is_none fs && is_none fo)) && is_union sm && is_union om.

(* merged.merge(other, ...) with a single table: the recursive call of 3857 *)
Definition merge_pair (sm om : mode) (fs fo : option mdf) (self other : table) : result table :=
  if fast_ok [self; other] sm om fs fo then ROk (fast_merge [self; other])
  else merge_general self other sm om fs fo.

Definition pair_step (sm om : mode) (fs fo : option mdf) (acc : result table) (other : table)
  : result table :=
  match acc with ROk m => merge_pair sm om fs fo m other | RErr c => RErr c end.

(* self.merge(others, sample, observation, sample_metadata_f, observation_metadata_f) where a
   single table argument is the one-element list (3836-3839) *)
Definition merge_dispatch (self : table) (others : list table) (sm om : mode) (fs fo : option mdf)
  : result table :=
  if fast_ok (self :: others) sm om fs fo then ROk (fast_merge (self :: others))
  else match others with
       | [other] => merge_general self other sm om fs fo
       | _ => fold_left (pair_step sm om fs fo) others (ROk self)      (* 3853-3860, self.copy() *)
       end.

(* ---- what the property text asks of metadata ---- *)
(* None and the empty dict are the same observation "no metadata for this id" *)
Definition md_norm (o : option Tree) : option Tree :=
  match o with Some m => if md_falsy m then None else Some m | None => None end.
(* "the receiver's if it has any, otherwise the other's" *)
Definition prefer_self_text : mdf :=
  fun x y => match md_norm x with Some _ => x | None => y end.

(* the id set the property promises on one axis for a list of operands *)
Definition in_all (ax : axis) (ts : list table) (x : Z) : Prop := forall t, In t ts -> In x (ids ax t).
Definition in_some (ax : axis) (ts : list table) (x : Z) : Prop := exists t, In t ts /\ In x (ids ax t).
Definition id_set (m : mode) (ax : axis) (ts : list table) (x : Z) : Prop :=
  match m with Union => in_some ax ts x | Inter => in_all ax ts x | BadMode => False end.
Definition cell_sum (ts : list table) (o s : Z) : Z := zsum (map (fun t => cell0 t o s) ts).
Definition total (t : table) : Z := msum (mat t).

(* the metadata of an id over self and a list of others: f applied from left to right *)
Definition md_fold (f : mdf) (ax : axis) (self : table) (others : list table) (i : Z) : option Tree :=
  fold_left (fun acc t => f acc (md_of ax t i)) others (md_of ax self i).
(* a merge function that does not tell None from the empty dict and does not create metadata *)
Definition respects_norm (f : mdf) : Prop :=
  (forall x x' y y', md_norm x = md_norm x' -> md_norm y = md_norm y' -> md_norm (f x y) = md_norm (f x' y')) /\
  md_norm (f None None) = None.

(* vocabulary of the statements about one pairwise step *)
Definition pair_ids (m : mode) (a b : list Z) (x : Z) : Prop :=
  match m with Union => In x a \/ In x b | Inter => In x a /\ In x b | BadMode => False end.
Definition axis_f {A} (ax : axis) (f_s f_o : A) : A := match ax with Obs => f_o | Samp => f_s end.
