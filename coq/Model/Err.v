(* Executable model of biom/err.py: the error-profile state machine.
   Everything that transcribes source code is GENERATED from the Python AST on every run
   (coq/Gen/ErrGen.v, by tools/py2v with tools/py2v/sigs/err.json); the types it is written
   over are in Model/ErrTypes.v.  What remains here is not source: the default profile object
   and the small program language the correspondence run executes. *)
From Coq Require Import List String Bool Arith ZArith Lia.
From BiomV Require Import Base.Tree Base.ListUtil Base.Dict.
From BiomV Require Export Model.ErrTypes Gen.ErrGen.
Import ListNotations.
Open Scope string_scope. Open Scope list_scope.

(* the profile after import of biom.err: the registered default states; every 'call' slot is
   callback 0 (the harness installs its callback 0 on reset) *)
Definition default_profile : profile :=
  {| st := default_state; calls := map (fun kv => (fst kv, 0%Z)) default_state |}.

(* ---- programs over the profile (what the correspondence run executes) ---- *)
Inductive instr :=
| ISeterr (kw : dict string)
| ISetcall (k : string) (cb : Z)
| IGetcall (k : string)
| ICheck (v : view) (args : list string)
| IBlock (kw : dict string) (body : list instr) (exc : bool).
   (* try: with errstate( **kw ): body; if exc: raise Marker   except Marker: pass *)

Inductive obs :=
| OSeterr (r : res (dict string))
| OCall (r : res Z)
| OCheck (r : res event)
| OEnter (ok : bool)
| OExit
| OState (s : dict string) (c : dict Z).

Definition snap (p : profile) : obs := OState (st p) (calls p).

Fixpoint exec (p : profile) (i : instr) {struct i} : profile * list obs :=
  match i with
  | ISeterr kw =>
      let '(s', r) := seterr (st p) kw in
      let p' := {| st := s'; calls := calls p |} in (p', [OSeterr r; snap p'])
  | ISetcall k cb =>
      let '(c', r) := seterrcall (st p) (calls p) k cb in
      let p' := {| st := st p; calls := c' |} in (p', [OCall r; snap p'])
  | IGetcall k => (p, [OCall (geterrcall (st p) (calls p) k); snap p])
  | ICheck v args => (p, [OCheck (errcheck p v args); snap p])
  | IBlock kw body exc =>
      match errstate_enter (st p) kw with
      | (s1, Raise e) =>
          let p1 := {| st := s1; calls := calls p |} in (p1, [OEnter false; snap p1])
      | (s1, Ok old) =>
          let p1 := {| st := s1; calls := calls p |} in
          let '(p2, os) :=
            (fix go (p : profile) (l : list instr) : profile * list obs :=
               match l with
               | [] => (p, [])
               | i :: t => let '(p', o1) := exec p i in
                           let '(p'', o2) := go p' t in (p'', o1 ++ o2)
               end) p1 body in
          (* the exception leaving the block is the harness's marker; which exception it is
             does not matter to the state, TypeError stands for it *)
          let s3 := if exc then fst (errstate_exit_exception (st p2) old TypeError)
                    else fst (errstate_exit_normal (st p2) old) in
          let p3 := {| st := s3; calls := calls p2 |} in
          (p3, [OEnter true; snap p1] ++ os ++ [OExit; snap p3])
      end
  end.

Fixpoint exec_list (p : profile) (l : list instr) : profile * list obs :=
  match l with
  | [] => (p, [])
  | i :: t => let '(p', o1) := exec p i in
              let '(p'', o2) := exec_list p' t in (p'', o1 ++ o2)
  end.
