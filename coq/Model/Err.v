(* Executable model of biom/err.py: the error-profile state machine.
   Written in the shape the translator emits (state threaded through raises).
   Source anchors are given per definition.  *)
From Coq Require Import List String Bool Arith ZArith Lia.
From BiomV Require Import Base.Tree Base.ListUtil Base.Dict.
Import ListNotations.
Open Scope string_scope. Open Scope list_scope.

Inductive exn := KeyError (msg : string) | TableException (msg : string) | TypeError.
Inductive res (A : Type) := Ok (a : A) | Raise (e : exn).
Arguments Ok {A}. Arguments Raise {A}.

(* ErrorProfile._valid_states *)
Definition valid_states : list string := ["raise"; "ignore"; "call"; "print"; "warn"].

(* what the seven test predicates look at *)
Record view := { v_empty : bool; v_rows : nat; v_cols : nat;
                 v_oids : list Z; v_sids : list Z;
                 v_omd : option nat; v_smd : option nat }.

Fixpoint distinct (l : list Z) : list Z :=
  match l with [] => [] | x :: t => if zmem x t then distinct t else x :: distinct t end.

(* err.py:78-113 *)
Definition test_empty (t : view) : bool := v_empty t.
Definition test_obssize (t : view) : bool := negb (Nat.eqb (v_rows t) (List.length (v_oids t))).
Definition test_sampsize (t : view) : bool := negb (Nat.eqb (v_cols t) (List.length (v_sids t))).
Definition test_obsdup (t : view) : bool :=
  negb (Nat.eqb (List.length (v_oids t)) (List.length (distinct (v_oids t)))).
Definition test_sampdup (t : view) : bool :=
  negb (Nat.eqb (List.length (v_sids t)) (List.length (distinct (v_sids t)))).
Definition test_obsmdsize (t : view) : bool :=
  match v_omd t with Some n => negb (Nat.eqb (v_rows t) n) | None => false end.
Definition test_sampmdsize (t : view) : bool :=
  match v_smd t with Some n => negb (Nat.eqb (v_cols t) n) | None => false end.

(* the module-level registrations, err.py:314-336, in registration order *)
Definition registry : dict (view -> bool) :=
  [("empty", test_empty); ("obssize", test_obssize); ("sampsize", test_sampsize);
   ("obsdup", test_obsdup); ("sampdup", test_sampdup);
   ("obsmdsize", test_obsmdsize); ("sampmdsize", test_sampmdsize)].
Definition default_state : dict string :=
  [("empty","ignore");("obssize","raise");("sampsize","raise");("obsdup","raise");
   ("sampdup","raise");("obsmdsize","raise");("sampmdsize","raise")].

(* mutable part of the ErrorProfile object: _state and the 'call' slot of _profile *)
Record profile := { st : dict string; calls : dict Z }.
Definition default_profile : profile :=
  {| st := default_state; calls := map (fun kv => (fst kv, 0%Z)) default_state |}.

(* ErrorProfile.state setter, err.py:213-230.  Two loops over to_update: the first validates
   every (kind, reaction) and raises before anything is written, the second writes. *)
Definition validate_body (s : dict string) (acc : res unit) (kv : string * string) : res unit :=
  match acc with
  | Raise e => Raise e
  | Ok _ =>
      let '(errtype, new_state) := kv in
      if negb (smem new_state valid_states) then Raise (KeyError "Unknown state type")
      else if negb (dmem s errtype) then Raise (KeyError "Unknown error type")
      else Ok tt
  end.
Definition apply_body (s : dict string) (kv : string * string) : dict string :=
  dset s (fst kv) (snd kv).
Definition state_set (self_state new_state : dict string) : dict string * res unit :=
  let to_update :=
    if dmem new_state "all"
    then map (fun err => (err, match dget new_state "all" with Some v => v | None => "" end))
             (dkeys self_state)
    else new_state in
  match fold_left (validate_body self_state) to_update (Ok tt) with
  | Raise e => (self_state, Raise e)
  | Ok _ => (fold_left apply_body to_update self_state, Ok tt)
  end.

(* seterr, err.py:344-392 *)
Definition seterr (s kwargs : dict string) : dict string * res (dict string) :=
  let old_state := s in
  let '(s', r) :=
    if dmem kwargs "all"
    then state_set s [("all", match dget kwargs "all" with Some v => v | None => "" end)]
    else state_set s kwargs in
  match r with Ok _ => (s', Ok old_state) | Raise e => (s', Raise e) end.

(* errstate, err.py:483-510: generator split at its single yield, which sits inside
   try/finally: the old state is restored on both exits. *)
Definition errstate_enter (s kwargs : dict string) := seterr s kwargs.
Definition errstate_exit_normal (s old : dict string) : dict string := fst (seterr s old).
Definition errstate_exit_exception (s old : dict string) : dict string := fst (seterr s old).

(* seterrcall / ErrorProfile.setcall, err.py:262-291,395-427 *)
Definition seterrcall (c : dict Z) (errtype : string) (func : Z) : dict Z * res Z :=
  if negb (dmem c errtype) then (c, Raise (KeyError "Unknown error type"))
  else (dset c errtype func, Ok (match dget c errtype with Some v => v | None => 0%Z end)).
Definition geterrcall (c : dict Z) (errtype : string) : res Z :=
  match dget c errtype with Some v => Ok v | None => Raise (KeyError "Unknown error type") end.

(* observable reaction of errcheck *)
Inductive event := EvNone | EvWarn (k : string) | EvPrint (k : string)
                 | EvCall (k : string) (cb : Z) | EvRaise (k : string).

(* ErrorProfile._handle_error, err.py: profile[state](item) *)
Definition react (errtype r : string) (cb : Z) : event :=
  if String.eqb r "raise" then EvRaise errtype
  else if String.eqb r "warn" then EvWarn errtype
  else if String.eqb r "print" then EvPrint errtype
  else if String.eqb r "call" then EvCall errtype cb
  else EvNone.
Definition handle_error (p : profile) (errtype : string) : event :=
  match dget (st p) errtype with
  | Some r => react errtype r (match dget (calls p) errtype with Some c => c | None => 0%Z end)
  | None => EvNone
  end.
Definition is_ignored (p : profile) (errtype : string) : bool :=
  match dget (st p) errtype with Some r => String.eqb r "ignore" | None => false end.

(* ErrorProfile.test, err.py:235-262:
   for errtype in sorted(args): if test(item): [continue if the kind is ignored] return handle *)
Fixpoint test_loop (p : profile) (item : view) (args : list string) : res event :=
  match args with
  | [] => Ok EvNone
  | errtype :: rest =>
      match dget registry errtype with
      | None => Raise TypeError          (* self._test.get(errtype, lambda: None)(item) *)
      | Some test =>
          if test item then
            if is_ignored p errtype then test_loop p item rest
            else Ok (handle_error p errtype)
          else test_loop p item rest
      end
  end.
Definition errcheck (p : profile) (item : view) (args : list string) : res event :=
  let args := match args with [] => dkeys registry | _ => args end in
  test_loop p item (ssorted args).

(* ---- programs over the profile (what the correspondence run executes) ---- *)
Inductive instr :=
| ISeterr (kw : dict string)
| ISetcall (k : string) (cb : Z)
| IGetcall (k : string)
| ICheck (v : view) (args : list string)
| IBlock (kw : dict string) (body : list instr) (exc : bool).
   (* try: with errstate( **kw ): body; if exc: raise Marker   except Marker: pass *)

Inductive obs :=
| OSeterr (r : res (dict string))
| OCall (r : res Z)
| OCheck (r : res event)
| OEnter (ok : bool)
| OExit
| OState (s : dict string) (c : dict Z).

Definition snap (p : profile) : obs := OState (st p) (calls p).

Fixpoint exec (p : profile) (i : instr) {struct i} : profile * list obs :=
  match i with
  | ISeterr kw =>
      let '(s', r) := seterr (st p) kw in
      let p' := {| st := s'; calls := calls p |} in (p', [OSeterr r; snap p'])
  | ISetcall k cb =>
      let '(c', r) := seterrcall (calls p) k cb in
      let p' := {| st := st p; calls := c' |} in (p', [OCall r; snap p'])
  | IGetcall k => (p, [OCall (geterrcall (calls p) k); snap p])
  | ICheck v args => (p, [OCheck (errcheck p v args); snap p])
  | IBlock kw body exc =>
      match errstate_enter (st p) kw with
      | (s1, Raise e) =>
          let p1 := {| st := s1; calls := calls p |} in (p1, [OEnter false; snap p1])
      | (s1, Ok old) =>
          let p1 := {| st := s1; calls := calls p |} in
          let '(p2, os) :=
            (fix go (p : profile) (l : list instr) : profile * list obs :=
               match l with
               | [] => (p, [])
               | i :: t => let '(p', o1) := exec p i in
                           let '(p'', o2) := go p' t in (p'', o1 ++ o2)
               end) p1 body in
          let s3 := if exc then errstate_exit_exception (st p2) old
                    else errstate_exit_normal (st p2) old in
          let p3 := {| st := s3; calls := calls p2 |} in
          (p3, [OEnter true; snap p1] ++ os ++ [OExit; snap p3])
      end
  end.

Fixpoint exec_list (p : profile) (l : list instr) : profile * list obs :=
  match l with
  | [] => (p, [])
  | i :: t => let '(p', o1) := exec p i in
              let '(p'', o2) := exec_list p' t in (p'', o1 ++ o2)
  end.
