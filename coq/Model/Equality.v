(* C16 (L3): table equality and the read accessors, over a table STATE = observable content
   + the sparse representation the object really holds.

   The representation is kept in the segment view of Model/Sparse.v (one list of
   (minor index, stored value) entries per major position, in stored order): it carries
   exactly what the property quantifies over - storage format (CSR | CSC), index order inside
   a vector, explicitly stored zeros - and converts to / from the scipy arrays by
   Sparse.segs / Sparse.of_segs (the run wrapper feeds real scipy arrays through `segs` and
   prints `of_segs`, so every step below is compared array-for-array with scipy).

   Anchors: biom/table.py
     nnz                 717-721   eliminate_zeros in place, then the stored-entry count
     __getitem__         877-925   full-slice -> _get_row / _get_col; [i, j] reads in place
     _get_row/_get_col   927-965   self._data = self._data.tocsr() / tocsc()
     _iter_samp/_iter_obs 1806-1818 one _get_col / _get_row per vector
     descriptive_equality 1835-1854, __eq__ 1856-1875, __ne__ 1908-1909
     _data_equality      1877-1906 shape, dtype, count_nonzero, tocsr, element-wise
     copy                1956-1964 constructor on a copy of the matrix (tocsr, astype, eliminate_zeros)
   scipy/sparse/_compressed.py
     count_nonzero       138-141   self.sum_duplicates() (IN PLACE: sort_indices when the
                                   matrix is not in canonical format), then count of non-zero data
   Metadata and ids are compared with numpy.array_equal (element-wise ==); metadata entries
   are opaque trees compared structurally (the harness never generates 1 vs 1.0 vs True). *)
From Coq Require Import List Arith ZArith Lia Bool.
From BiomV Require Import Base.Tree Base.ListUtil Base.Matrix Model.Table Model.Sparse.
Import ListNotations.

(* ------------------------------------------------------------------ representation *)
Record repr := mkR { rfmt : fmt; rminor : nat; rsegs : list segment }.

Definition rep_rows (r : repr) : nat := match rfmt r with CSR => length (rsegs r) | CSC => rminor r end.
Definition rep_cols (r : repr) : nat := match rfmt r with CSR => rminor r | CSC => length (rsegs r) end.

(* the observations x samples matrix the representation stands for *)
Definition rep_matrix (r : repr) : matrix :=
  match rfmt r with
  | CSR => dense_of_segs (rminor r) (rsegs r)
  | CSC => transpose (rminor r) (dense_of_segs (rminor r) (rsegs r))
  end.

Definition seg_okb (mn : nat) (s : segment) : bool :=
  negb (ndup (map fst s)) && forallb (fun e => Nat.ltb (fst e) mn) s.
Definition wf_rep (r : repr) : Prop := Forall (seg_ok (rminor r)) (rsegs r).
Definition wf_repb (r : repr) : bool := forallb (seg_okb (rminor r)) (rsegs r).

(* scipy conversions on the representation *)
Definition r_tocsr (r : repr) : repr :=
  match rfmt r with
  | CSR => r                                     (* tocsr() of a CSR matrix is the matrix itself *)
  | CSC => mkR CSR (length (rsegs r)) (swap_segs (rminor r) (rsegs r))
  end.
Definition r_tocsc (r : repr) : repr :=
  match rfmt r with
  | CSC => r
  | CSR => mkR CSC (length (rsegs r)) (swap_segs (rminor r) (rsegs r))
  end.
Definition r_elim (r : repr) : repr := mkR (rfmt r) (rminor r) (map elim_seg (rsegs r)).
(* sum_duplicates on a matrix without duplicates: sort_indices (identity on sorted segments) *)
Definition r_sort (r : repr) : repr := mkR (rfmt r) (rminor r) (map sort_seg (rsegs r)).

Definition stored (r : repr) : list Z := map snd (concat (rsegs r)).
Definition r_nnz (r : repr) : nat := length (stored r).                     (* scipy .nnz *)
Definition r_count_nonzero (r : repr) : nat := length (filter nzb (stored r)). (* np.count_nonzero(data) *)

(* arrays <-> representation (wire only) *)
Definition repr_of_cs (f : fmt) (c : cs) : repr := mkR f (minor c) (segs c).
Definition cs_of_repr (r : repr) : cs := of_segs (rminor r) (rsegs r).

(* ------------------------------------------------------------------ state *)
Definition DT_FLOAT : Z := 0%Z.
Record state := mkS { cont : table; rep : repr; dtype : Z }.

Definition coherent (s : state) : Prop :=
  wf (cont s) /\ wf_rep (rep s) /\ rep_matrix (rep s) = mat (cont s)
  /\ rep_rows (rep s) = nobs (cont s) /\ rep_cols (rep s) = nsamp (cont s) /\ dtype s = DT_FLOAT.
Definition coherentb (s : state) : bool :=
  wfb (cont s) && wf_repb (rep s) && mat_eqb (rep_matrix (rep s)) (mat (cont s))
  && Nat.eqb (rep_rows (rep s)) (nobs (cont s)) && Nat.eqb (rep_cols (rep s)) (nsamp (cont s))
  && Z.eqb (dtype s) DT_FLOAT.

Definition with_rep (s : state) (r : repr) : state := mkS (cont s) r (dtype s).

(* the state a constructor call leaves behind: canonical CSR without stored zeros *)
Definition fresh (t : table) : state :=
  mkS t (mkR CSR (nsamp t) (map seg_of_row (mat t))) DT_FLOAT.

(* ------------------------------------------------------------------ read accessors *)
Inductive accessor :=
| ANnz                  (* t.nnz, get_table_density *)
| AGetRow               (* t[i, :], t.data(id, 'observation') *)
| AGetCol               (* t[:, j], t.data(id, 'sample') *)
| AIterObs              (* consuming iter / iter_data / _iter_obs over observations *)
| AIterSamp             (* ... over samples (also __iter__) *)
| ACell                 (* t[i, j], get_value_by_ids *)
| ARead                 (* matrix_data, shape, dtype, ids, metadata, to_dataframe, metadata_to_dataframe: no effect *)
| AToHdf5               (* to_hdf5: self.nnz, then self._data = asformat('csr'), then asformat('csc') *)
| AToJson.              (* to_json: iter(axis='observation') for rows and data, then iter() for the columns *)
(* to_tsv (delimited_self) walks _iter_obs, i.e. it is AIterObs *)

Definition access (a : accessor) (s : state) : state :=
  match a with
  | ANnz => with_rep s (r_elim (rep s))
  | AGetRow => with_rep s (r_tocsr (rep s))
  | AGetCol => with_rep s (r_tocsc (rep s))
  | AIterObs => if Nat.eqb (rep_rows (rep s)) 0 then s else with_rep s (r_tocsr (rep s))
  | AIterSamp => if Nat.eqb (rep_cols (rep s)) 0 then s else with_rep s (r_tocsc (rep s))
  | ACell => s
  | ARead => s
  | AToHdf5 => with_rep s (r_tocsc (r_tocsr (r_elim (rep s))))
  | AToJson =>
      let s1 := if Nat.eqb (rep_rows (rep s)) 0 then s else with_rep s (r_tocsr (rep s)) in
      if Nat.eqb (rep_cols (rep s1)) 0 then s1 else with_rep s1 (r_tocsc (rep s1))
  end.

(* what the nnz property returns *)
Definition nnz_value (s : state) : nat := r_nnz (r_elim (rep s)).

(* Table.copy: a new object; the receiver is untouched *)
Definition copy_state (s : state) : state :=
  mkS (cont s) (r_elim (r_tocsr (rep s))) DT_FLOAT.

(* ------------------------------------------------------------------ equality *)
Definition md_eqb (a b : option (list Tree)) : bool :=
  match a, b with
  | None, None => true
  | Some x, Some y => list_eqb tree_eqb x y
  | _, _ => false
  end.

(* the tests of __eq__ before the matrix is looked at *)
Definition head_eqb (a b : table) : bool :=
  Z.eqb (ttype a) (ttype b) && list_eqb Z.eqb (oids a) (oids b) && list_eqb Z.eqb (sids a) (sids b)
  && md_eqb (omd a) (omd b) && md_eqb (smd a) (smd b).

(* which test of descriptive_equality answers: 0 equal, 1 type, 2 obs ids, 3 sample ids,
   4 obs metadata, 5 sample metadata, 6 data *)
Definition head_code (a b : table) : Z :=
  if negb (Z.eqb (ttype a) (ttype b)) then 1
  else if negb (list_eqb Z.eqb (oids a) (oids b)) then 2
  else if negb (list_eqb Z.eqb (sids a) (sids b)) then 3
  else if negb (md_eqb (omd a) (omd b)) then 4
  else if negb (md_eqb (smd a) (smd b)) then 5
  else 0.

(* _data_equality(self = a, other = b's matrix): verdict and the representations left behind.
   [count] is the entry count compared third: r_count_nonzero now, r_nnz before the repair. *)
Definition data_eq_gen (sortfirst : bool) (count : repr -> nat) (a b : state) : bool * repr * repr :=
  let ra := rep a in let rb := rep b in
  if negb (Nat.eqb (rep_rows ra) (rep_rows rb) && Nat.eqb (rep_cols ra) (rep_cols rb)) then (false, ra, rb)
  else if negb (Z.eqb (dtype a) (dtype b)) then (false, ra, rb)
  else
    let ra1 := if sortfirst then r_sort ra else ra in        (* count_nonzero -> sum_duplicates, in place *)
    let rb1 := if sortfirst then r_sort rb else rb in
    if negb (Nat.eqb (count ra1) (count rb1)) then (false, ra1, rb1)
    else
      let ra2 := r_tocsr ra1 in                              (* assigned to the receiver *)
      let rb2 := r_tocsr rb1 in                              (* local *)
      (mat_eqb (rep_matrix ra2) (rep_matrix rb2), ra2, rb1). (* (a != b).nnz == 0 *)

Definition data_eq := data_eq_gen true r_count_nonzero.
Definition data_eq_old := data_eq_gen false r_nnz.

(* a == b : verdict, new state of a, new state of b *)
Definition eq_step_gen (deq : state -> state -> bool * repr * repr) (a b : state) : bool * state * state :=
  if head_eqb (cont a) (cont b)
  then let '(v, ra, rb) := deq a b in (v, with_rep a ra, with_rep b rb)
  else (false, a, b).
Definition eq_step := eq_step_gen data_eq.
Definition eq_step_old := eq_step_gen data_eq_old.

Definition eq_impl (a b : state) : bool := fst (fst (eq_step a b)).
Definition eq_impl_old (a b : state) : bool := fst (fst (eq_step_old a b)).
Definition ne_impl (a b : state) : bool := negb (eq_impl a b).
Definition desc_impl (a b : state) : Z :=
  let c := head_code (cont a) (cont b) in
  if Z.eqb c 0 then (if fst (fst (data_eq a b)) then 0 else 6)%Z else c.

(* ------------------------------------------------------------------ histories over several tables *)
Inductive op :=
| OAcc (i : nat) (a : accessor)
| OEq (i j : nat)            (* t_i == t_j, t_i != t_j, t_i.descriptive_equality(t_j): same effects *)
| OCopy (i : nat).           (* appends t_i.copy() to the world *)

Definition world := list state.
Definition dstate : state := fresh (mkT [] [] [] None None 0%Z).
Definition wget (w : world) (i : nat) : state := nth i w dstate.

Definition step (w : world) (o : op) : world :=
  match o with
  | OAcc i a => if Nat.ltb i (length w) then upd w i (access a (wget w i)) else w
  | OEq i j =>
      if Nat.ltb i (length w) && Nat.ltb j (length w) then
        let '(_, a', b') := eq_step (wget w i) (wget w j) in
        (* one object on both sides: the receiver's assignment is the last write *)
        if Nat.eqb i j then upd w i a' else upd (upd w j b') i a'
      else w
  | OCopy i => if Nat.ltb i (length w) then w ++ [copy_state (wget w i)] else w
  end.
Definition run_ops (ops : list op) (w : world) : world := fold_left step ops w.

(* ------------------------------------------------------------------ content-level queries
   (every export and per-ID / per-cell query of the library is a function of these) *)
Inductive query :=
| QCell (o s : Z) | QVec (a : axis) (id : Z) | QMd (a : axis) (id : Z) | QIds (a : axis)
| QType | QShape | QMatrix.
Inductive answer :=
| AnZ (v : option Z) | AnVec (v : option (list Z)) | AnMd (m : option Tree) | AnIds (l : list Z)
| AnType (z : Z) | AnShape (r c : nat) | AnMatrix (m : matrix).
Definition ask (q : query) (t : table) : answer :=
  match q with
  | QCell o s => AnZ (cell t o s)
  | QVec a id => AnVec (vec_of a t id)
  | QMd a id => AnMd (md_of a t id)
  | QIds a => AnIds (ids a t)
  | QType => AnType (ttype t)
  | QShape => AnShape (nobs t) (nsamp t)
  | QMatrix => AnMatrix (mat t)
  end.
