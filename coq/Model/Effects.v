(* C07 (b): a small store / effect model of the Table operations.
   A purely functional content model cannot say "the result shares an array with the receiver".
   Here every table is five-plus-two abstract locations and every operation is a hand-written
   effect signature (a list of allocation / aliasing / write events in program order) read off
   biom/table.py, biom/_filter.pyx, biom/_transform.pyx, biom/_subsample.pyx (HEAD 16e406b1).
   The signatures are an abstraction of CPython object identity; they are tied to the code by the
   C07 correspondence run (np.shares_memory / `is` on the real objects), not by proof. *)
From Coq Require Import List Arith Bool.
From BiomV Require Import Model.Table.
Import ListNotations.

(* tables that take part in a call *)
Inductive tbl := Recv      (* the receiver, as it was before the call *)
               | Arg       (* the argument table (merge, concat, align_to) *)
               | Copy      (* the table made by self.copy() *)
               | Work | Work2  (* matrices handed to / produced by a kernel *)
               | Mid       (* an intermediate table (first sort_order of align_to) *)
               | Res.      (* what the call returns (for partition: each yielded table) *)
(* what a table consists of *)
Inductive comp := M            (* the scipy matrix: data, indices, indptr *)
                | IdO | IdS    (* the two numpy id arrays *)
                | DictO | DictS  (* the metadata dict objects of an axis (mutable) *)
                | ValO | ValS.   (* mutable values nested inside those dicts (lists) *)
Definition loc := (tbl * comp)%type.

Inductive lay := CSR | CSC.
Inductive effect :=
  | Fresh (l : loc)            (* l is a newly allocated object *)
  | Share (l l' : loc)         (* l is the same object as / a view of / holds the same objects as l' *)
  | Write (l : loc)            (* the content of object l is changed in place *)
  | Assign (t : tbl) (c : comp)  (* attribute c of table t is bound to another object (content may change) *)
  | Canon (l : loc)            (* representation-only change inside l: sort_indices, eliminate_zeros *)
  | Reformat (t : tbl) (k : lay). (* t._data bound to an equal matrix in layout k (format conversion) *)

Definition tbl_eqb (a b : tbl) : bool :=
  match a, b with Recv, Recv | Arg, Arg | Copy, Copy | Work, Work | Work2, Work2 | Mid, Mid | Res, Res => true | _, _ => false end.
Definition comp_eqb (a b : comp) : bool :=
  match a, b with M, M | IdO, IdO | IdS, IdS | DictO, DictO | DictS, DictS | ValO, ValO | ValS, ValS => true | _, _ => false end.
Definition loc_eqb (a b : loc) : bool := tbl_eqb (fst a) (fst b) && comp_eqb (snd a) (snd b).
Definition lay_eqb (a b : lay) : bool := match a, b with CSR, CSR | CSC, CSC => true | _, _ => false end.

(* ---- operations and the flags their footprint depends on ---- *)
Inductive opk :=
  | OFilter | OTransform | ONorm | OPa | ORankdata | ORemoveEmpty | OUpdateIds      (* have an inplace flag *)
  | OSort | OSortOrder | OTranspose | OCopy | OHead | OSubsample | OPartition | OCollapse
  | OMerge | OConcat | OAlignTo                                                      (* documented to return a new table *)
  | OAddMetadata | ODelMetadata                                                      (* mutators (always in place) *)
  | OToDataframe.                                                                     (* an export: the pandas frame plays the result *)
Inductive ax3 := XObs | XSamp | XWhole.
Inductive mdk := MdNone | MdFlat | MdNested.   (* metadata of an axis: absent / only immutable values / with nested lists *)

Record flags := mkF {
  f_inplace : bool;
  f_axis : ax3;
  f_mdo : mdk; f_mds : mdk;        (* receiver metadata *)
  f_amdo : mdk; f_amds : mdk;      (* argument-table metadata *)
  f_view : bool;                   (* sort_order: [order] is a view of the receiver's own id array *)
  f_o : bool; f_s : bool           (* align_to: the observation / sample axis gets aligned;
                                      merge, concat: the argument has ids the receiver lacks on that axis *)
}.

Definition has_flag (o : opk) : bool :=
  match o with OFilter | OTransform | ONorm | OPa | ORankdata | ORemoveEmpty | OUpdateIds => true | _ => false end.
Definition mutator (o : opk) : bool := match o with OAddMetadata | ODelMetadata => true | _ => false end.
Definition new_table_op (o : opk) : bool := negb (has_flag o) && negb (mutator o).
(* does this call work on the receiver itself? *)
Definition in_place (o : opk) (fl : flags) : bool := if has_flag o then f_inplace fl else mutator o.

(* ---- helpers ---- *)
Definition ax_of (x : ax3) : axis := match x with XObs => Obs | _ => Samp end.
Definition IdC (a : axis) : comp := match a with Obs => IdO | Samp => IdS end.
Definition DictC (a : axis) : comp := match a with Obs => DictO | Samp => DictS end.
Definition ValC (a : axis) : comp := match a with Obs => ValO | Samp => ValS end.
Definition present (k : mdk) : bool := match k with MdNone => false | _ => true end.
Definition nested (k : mdk) : bool := match k with MdNested => true | _ => false end.
Definition need (a : axis) : lay := match a with Obs => CSR | Samp => CSC end.
Definition mdk_of (a : axis) (mo ms : mdk) : mdk := match a with Obs => mo | Samp => ms end.

(* metadata components that exist, given the metadata kinds of the two axes *)
Definition md_comps (mo ms : mdk) : list comp :=
  (if present mo then [DictO] else []) ++ (if nested mo then [ValO] else []) ++
  (if present ms then [DictS] else []) ++ (if nested ms then [ValS] else []).
Definition all_comps_of (mo ms : mdk) : list comp := [M; IdO; IdS] ++ md_comps mo ms.

Definition fresh_all (t : tbl) (cs : list comp) : list effect := map (fun c => Fresh (t, c)) cs.
Definition share_all (t t' : tbl) (cs : list comp) : list effect := map (fun c => Share (t, c) (t', c)) cs.

(* the constructor (table.py __init__ + _cast_metadata): the matrix goes through astype(float), a
   copy; every metadata dict is re-created as a defaultdict with d.update(item), a SHALLOW copy:
   new dict objects that hold the same value objects *)
Definition cast_md_eff (dst src : tbl) (a : axis) (k : mdk) : list effect :=
  (if present k then [Fresh (dst, DictC a)] else []) ++
  (if nested k then [Share (dst, ValC a) (src, ValC a)] else []).

(* self.copy() (table.py copy): matrix .copy(), id arrays .copy(), metadata deepcopy *)
Definition copy_eff (dst : tbl) (mo ms : mdk) : list effect := fresh_all dst (all_comps_of mo ms).

(* _get_sparse_data(axis) on a matrix object [src] held in layout [cur]: tocsr()/tocsc() return the
   object itself when the format already matches, else a converted copy *)
Definition get_sparse (src : loc) (cur : lay) (a : axis) (dst : tbl) : list effect :=
  if lay_eqb cur (need a) then [Share (dst, M) src] else [Fresh (dst, M)].

(* one Table.filter on table [T] whose matrix is the object [srcM] in layout [cur] (table.py filter,
   _filter.pyx _filter/_remove_rows_csr): the kernel compacts the arrays of the matrix it is handed
   in place; the ids of the axis become a new array, the metadata tuple is rebuilt; T._data / ids /
   metadata are re-assigned; then (repair 16e406b1) _cast_metadata re-creates the dict objects of
   BOTH axes (new dicts, same values) *)
Definition filter_step (T : tbl) (srcM : loc) (cur : lay) (a : axis) (W : tbl) : list effect :=
  get_sparse srcM cur a W ++
  [Canon (W, M); Write (W, M); Assign T M; Assign T (IdC a); Assign T DictO; Assign T DictS; Reformat T (need a)].

(* ... and what the filtered table T then consists of *)
Definition filtered_table (T : tbl) (W : tbl) (fresh_ids : list axis) (mo ms : mdk) : list effect :=
  [Share (Res, M) (W, M)] ++
  map (fun a => if existsb (fun b => match a, b with Obs, Obs | Samp, Samp => true | _, _ => false end) fresh_ids
                then Fresh (Res, IdC a) else Share (Res, IdC a) (T, IdC a)) [Obs; Samp] ++
  cast_md_eff Res T Obs mo ++ cast_md_eff Res T Samp ms.

(* Table.transform (table.py transform, _transform.pyx): the kernel overwrites data[start:end] of the
   matrix it is handed; ids and metadata are not touched *)
Definition transform_eff (T : tbl) (cur : lay) (a : axis) (mo ms : mdk) : list effect :=
  get_sparse (T, M) cur a Work ++
  [Write (Work, M); Canon (Work, M); Assign T M; Reformat T (need a)] ++
  [Share (Res, M) (Work, M)] ++ share_all Res T ([IdO; IdS] ++ md_comps mo ms).

(* sort_order (table.py sort_order): fancy-indexed matrix (new), the other axis' ids are passed as
   ids[:] (a numpy view), the axis' ids are order[:], both metadata tuples go through the
   constructor (new dicts, same values) *)
Definition sort_order_eff (src dst : tbl) (a : axis) (order_src : option loc) (mo ms : mdk) : list effect :=
  [Fresh (dst, M); Share (dst, IdC (other a)) (src, IdC (other a));
   match order_src with Some l => Share (dst, IdC a) l | None => Fresh (dst, IdC a) end] ++
  cast_md_eff dst src Obs mo ++ cast_md_eff dst src Samp ms.

(* ---- the effect signature ---- *)
Definition eff (o : opk) (lk : lay) (fl : flags) : list effect :=
  let a := ax_of (f_axis fl) in
  let mo := f_mdo fl in let ms := f_mds fl in
  let T := if f_inplace fl then Recv else Copy in          (* table = self if inplace else self.copy() *)
  let cur := if f_inplace fl then lk else CSR in           (* the constructor leaves a copy in CSR *)
  let pre := if f_inplace fl then [] else copy_eff Copy mo ms in
  match o with
  | OFilter => pre ++ filter_step T (T, M) cur a Work ++ filtered_table T Work [a] mo ms
  | ORemoveEmpty =>
      match f_axis fl with
      | XWhole =>   (* sample first, then observation, both in place on T *)
          pre ++ filter_step T (T, M) cur Samp Work ++ filter_step T (Work, M) CSC Obs Work2 ++
          filtered_table T Work2 [Obs; Samp] mo ms
      | _ => pre ++ filter_step T (T, M) cur a Work ++ filtered_table T Work [a] mo ms
      end
  | OTransform | ONorm | ORankdata => pre ++ transform_eff T cur a mo ms
  | OPa => pre ++ transform_eff T cur Samp mo ms           (* pa() transforms along the default axis *)
  | OUpdateIds =>
      (* a new id array is assigned to the axis; nothing is written *)
      pre ++ [Assign T (IdC a); Fresh (Res, IdC a); Share (Res, M) (T, M); Share (Res, IdC (other a)) (T, IdC (other a))] ++
      share_all Res T (md_comps mo ms)
  | OCopy => copy_eff Res mo ms
  | OTranspose =>
      (* transposed copy of the matrix, ids passed as views and swapped, metadata deep-copied *)
      [Fresh (Res, M); Share (Res, IdO) (Recv, IdS); Share (Res, IdS) (Recv, IdO)] ++
      fresh_all Res (md_comps ms mo)
  | OSortOrder => sort_order_eff Recv Res a (if f_view fl then Some (Recv, IdC a) else None) mo ms
  | OSort => sort_order_eff Recv Res a None mo ms           (* the sorting function returns a list *)
  | OAlignTo =>
      (* order = other.ids(axis): the aligned axis ends up as a view of the ARGUMENT's id array;
         'both' sorts observation then sample, 'detect' sample then observation: same footprint *)
      match f_o fl, f_s fl with
      | true, true => sort_order_eff Recv Mid Obs (Some (Arg, IdO)) mo ms ++ sort_order_eff Mid Res Samp (Some (Arg, IdS)) mo ms
      | true, false => sort_order_eff Recv Res Obs (Some (Arg, IdO)) mo ms
      | false, true => sort_order_eff Recv Res Samp (Some (Arg, IdS)) mo ms
      | false, false => []                                   (* DisjointIDError, nothing is built *)
      end
  | OHead =>
      (* filter(rows, inplace=False) then filter(cols) in place on that copy *)
      copy_eff Copy mo ms ++ filter_step Copy (Copy, M) CSR Obs Work ++ filter_step Copy (Work, M) CSR Samp Work2 ++
      filtered_table Copy Work2 [Obs; Samp] mo ms
  | OSubsample =>
      (* copy; kernel on the copy's matrix in the axis layout; filter on the axis, then on the other *)
      copy_eff Copy mo ms ++ get_sparse (Copy, M) CSR a Work ++ [Write (Work, M); Canon (Work, M); Assign Copy M] ++
      (* filter along the axis: the matrix already is in that layout, the kernel gets the same object *)
      [Canon (Work, M); Write (Work, M); Assign Copy M; Assign Copy (IdC a); Assign Copy DictO; Assign Copy DictS] ++
      filter_step Copy (Work, M) (need a) (other a) Work2 ++
      filtered_table Copy Work2 [Obs; Samp] mo ms
  | OPartition =>
      (* iter(dense=False) converts the receiver to the axis layout (_get_col/_get_row re-assign
         self._data); each part: new matrix, new id array on the axis, ids[:] view on the other axis,
         metadata through the constructor *)
      [Reformat Recv (need a); Fresh (Res, M); Fresh (Res, IdC a); Share (Res, IdC (other a)) (Recv, IdC (other a))] ++
      cast_md_eff Res Recv Obs mo ++ cast_md_eff Res Recv Samp ms
  | OCollapse =>
      (* partition, then one vector per group; the collapsed axis gets new ids and new metadata
         (collapsed_ids lists), the other axis ids[:] and its metadata through the constructor *)
      [Reformat Recv (need a); Fresh (Res, M); Fresh (Res, IdC a); Share (Res, IdC (other a)) (Recv, IdC (other a));
       Fresh (Res, DictC a); Fresh (Res, ValC a)] ++
      cast_md_eff Res Recv (other a) (mdk_of (other a) mo ms)
  | OMerge =>
      let amo := f_amdo fl in let ams := f_amds fl in
      if negb (present mo) && negb (present ms) && negb (present amo) && negb (present ams)
      then (* _fast_merge: t.nnz eliminates stored zeros of every operand in place; all new *)
        [Canon (Recv, M); Canon (Arg, M); Fresh (Res, M); Fresh (Res, IdO); Fresh (Res, IdS)]
      else (* general merge: data(id, 'observation') converts both operands to CSR; ids are new lists;
              each id's metadata is prefer_self(self's dict, other's dict), then the constructor *)
        let md_from (a' : axis) (k ka : mdk) (arg_new : bool) : list effect :=
          (if present k || present ka then [Fresh (Res, DictC a')] else []) ++
          (if nested k then [Share (Res, ValC a') (Recv, ValC a')] else []) ++
          (if nested ka && (negb (present k) || arg_new) then [Share (Res, ValC a') (Arg, ValC a')] else []) in
        [Reformat Recv CSR; Reformat Arg CSR; Fresh (Res, M); Fresh (Res, IdO); Fresh (Res, IdS)] ++
        md_from Obs mo amo (f_o fl) ++ md_from Samp ms ams (f_s fl)
  | OConcat =>
      (* hstack/vstack of the (padded, re-sorted) matrices; ids of the axis np.concatenate, ids of the
         other axis a sorted list; axis metadata = both tables' dicts, other-axis metadata = the first
         padded table's (the receiver's, extended by the argument's for ids the receiver lacks);
         everything through the constructor *)
      let amo := f_amdo fl in let ams := f_amds fl in
      let ia := other a in
      let k := mdk_of a mo ms in let ka := mdk_of a amo ams in
      let ki := mdk_of ia mo ms in let kia := mdk_of ia amo ams in
      let arg_new := match ia with Obs => f_o fl | Samp => f_s fl end in
      [Fresh (Res, M); Fresh (Res, IdO); Fresh (Res, IdS)] ++
      (if present k || present ka then [Fresh (Res, DictC a)] else []) ++
      (if nested k then [Share (Res, ValC a) (Recv, ValC a)] else []) ++
      (if nested ka then [Share (Res, ValC a) (Arg, ValC a)] else []) ++
      (if present ki || (arg_new && present kia) then [Fresh (Res, DictC ia)] else []) ++
      (if nested ki then [Share (Res, ValC ia) (Recv, ValC ia)] else []) ++
      (if arg_new && nested kia then [Share (Res, ValC ia) (Arg, ValC ia)] else [])
  | OAddMetadata =>
      (* metadata[idx].update(entry) on the existing dicts (or a new tuple when there was none), then
         _cast_metadata re-creates the dict objects of BOTH axes (same values); returns nothing: the
         "result" is the receiver afterwards *)
      let k := mdk_of a mo ms in
      (if present k then [Write (Recv, DictC a)] else []) ++ [Assign Recv DictO; Assign Recv DictS] ++
      share_all Res Recv [M; IdO; IdS] ++
      cast_md_eff Res Recv a (if present k then k else MdFlat) ++
      cast_md_eff Res Recv (other a) (mdk_of (other a) mo ms)
  | ODelMetadata =>
      (* del md[k] inside the existing dicts of the axis / of both axes (keys given, not all of them) *)
      (match f_axis fl with
       | XWhole => (if present mo then [Write (Recv, DictO)] else []) ++ (if present ms then [Write (Recv, DictS)] else [])
       | _ => if present (mdk_of a mo ms) then [Write (Recv, DictC a)] else []
       end) ++ share_all Res Recv (all_comps_of mo ms)
  | OToDataframe =>
      (* to_dataframe: dense -> matrix_data.toarray(), sparse -> matrix_data.copy() handed to pandas: the
         value buffers of the frame (its "matrix") are new whatever layout the table is in; ids become
         pandas indexes (new objects); metadata is not exported *)
      [Fresh (Res, M); Fresh (Res, IdO); Fresh (Res, IdS)]
  end.

(* ---- meaning of a signature ---- *)
(* objects a location is bound to directly *)
Definition sources (effs : list effect) (l : loc) : list loc :=
  flat_map (fun e => match e with Share x y => if loc_eqb x l then [y] else [] | _ => [] end) effs.

(* ... and ultimately (Share chains are at most a handful long; 8 is enough for every signature,
   which [chains_resolved] below checks) *)
Fixpoint roots (fuel : nat) (effs : list effect) (l : loc) : list loc :=
  match fuel with
  | O => [l]
  | S n => match sources effs l with [] => [l] | ss => flat_map (roots n effs) ss end
  end.
Definition FUEL := 8.

Definition is_input (t : tbl) : bool := match t with Recv | Arg => true | _ => false end.

(* objects whose content some Write changes *)
Definition written (effs : list effect) : list loc :=
  flat_map (fun e => match e with Write l => roots FUEL effs l | _ => [] end) effs.
(* table attributes that are re-assigned *)
Definition assigned (effs : list effect) : list loc :=
  flat_map (fun e => match e with Assign t c => [(t, c)] | _ => [] end) effs.

Definition all_comps : list comp := [M; IdO; IdS; DictO; DictS; ValO; ValS].
(* the aliasing relation between the returned table and the input tables:
   (component of the result, input location it is / views / holds objects of) *)
Definition aliases (effs : list effect) : list (comp * loc) :=
  flat_map (fun c => map (fun r => (c, r)) (filter (fun r => is_input (fst r)) (roots FUEL effs (Res, c)))) all_comps.

(* layout the table's matrix is in after the call *)
Definition layout_after (t : tbl) (before : lay) (effs : list effect) : lay :=
  fold_left (fun k e => match e with Reformat t' k' => if tbl_eqb t t' then k' else k | _ => k end) effs before.
Definition reformatted (t : tbl) (effs : list effect) : bool :=
  existsb (fun e => match e with Reformat t' _ => tbl_eqb t t' | _ => false end) effs.

(* ---- the finite domain ---- *)
Definition all_bool : list bool := [true; false].
Definition all_lay : list lay := [CSR; CSC].
Definition all_ax3 : list ax3 := [XObs; XSamp; XWhole].
Definition all_mdk : list mdk := [MdNone; MdFlat; MdNested].
Definition all_op : list opk :=
  [OFilter; OTransform; ONorm; OPa; ORankdata; ORemoveEmpty; OUpdateIds; OSort; OSortOrder; OTranspose; OCopy; OHead;
   OSubsample; OPartition; OCollapse; OMerge; OConcat; OAlignTo; OAddMetadata; ODelMetadata; OToDataframe].
Definition all_flags : list flags :=
  flat_map (fun i => flat_map (fun x => flat_map (fun mo => flat_map (fun ms => flat_map (fun amo => flat_map (fun ams =>
  flat_map (fun v => flat_map (fun bo => map (fun bs => mkF i x mo ms amo ams v bo bs) all_bool) all_bool) all_bool)
  all_mdk) all_mdk) all_mdk) all_mdk) all_ax3) all_bool.

(* a boolean check over the whole domain: operations x layout kinds x flags *)
Definition for_all_calls (P : opk -> lay -> flags -> bool) : bool :=
  forallb (fun o => forallb (fun lk => forallb (fun fl => P o lk fl) all_flags) all_lay) all_op.

(* components some operation writes in place: these are the "mutable" ones *)
Definition comp_written (c : comp) : bool :=
  existsb (fun o => existsb (fun lk => existsb (fun fl => existsb (fun l => comp_eqb (snd l) c) (written (eff o lk fl)))
                                                all_flags) all_lay) all_op.
Definition mutable_comps : list comp := filter comp_written all_comps.

(* ---- the checks behind the C07 theorems ---- *)
Definition chk_pure (o : opk) (lk : lay) (fl : flags) : bool :=
  in_place o fl ||
  (forallb (fun l => negb (is_input (fst l))) (written (eff o lk fl)) &&
   forallb (fun l => negb (is_input (fst l))) (assigned (eff o lk fl))).
Definition chk_separate_on (cs : list comp) (o : opk) (lk : lay) (fl : flags) : bool :=
  in_place o fl ||
  forallb (fun c => forallb (fun r => negb (is_input (fst r))) (roots FUEL (eff o lk fl) (Res, c))) cs.
Definition never_written (c : comp) : bool := match c with IdO | IdS | ValO | ValS => true | _ => false end.
Definition chk_ids_unwritten (o : opk) (lk : lay) (fl : flags) : bool :=
  forallb (fun l => negb (never_written (snd l))) (written (eff o lk fl)).
(* an in-place call touches the receiver only, never the argument *)
Definition chk_arg_untouched (o : opk) (lk : lay) (fl : flags) : bool :=
  forallb (fun l => negb (tbl_eqb (fst l) Arg)) (written (eff o lk fl)) &&
  forallb (fun l => negb (tbl_eqb (fst l) Arg)) (assigned (eff o lk fl)).
(* every Share chain that matters (from a component of the result, from the target of a Write) ends
   within FUEL steps, so [roots] really returns roots there *)
Definition write_targets (effs : list effect) : list loc :=
  flat_map (fun e => match e with Write l => [l] | _ => [] end) effs.
Definition chk_resolved (o : opk) (lk : lay) (fl : flags) : bool :=
  let effs := eff o lk fl in
  forallb (fun l => forallb (fun r => match sources effs r with [] => true | _ => false end) (roots FUEL effs l))
          (map (fun c => (Res, c)) all_comps ++ write_targets effs).
