(* L1: the observable content of a biom Table.
   IDs are integer codes (the harness maps each distinct ID text to a code, order
   preserving where an operation sorts), matrix values are integers (the harness scales
   dyadic floats), a metadata entry is an opaque Tree (compared structurally; an
   association list  L [L [key; value]; ...]  where an operation looks inside). *)
From Coq Require Import List Arith ZArith Lia Bool.
From BiomV Require Import Base.Tree Base.ListUtil Base.Matrix.
Import ListNotations.

Inductive axis := Obs | Samp.
Definition other (a : axis) : axis := match a with Obs => Samp | Samp => Obs end.

Record table := mkT { oids : list Z; sids : list Z; mat : matrix;
                      omd : option (list Tree); smd : option (list Tree); ttype : Z }.

Definition nobs (t : table) : nat := length (oids t).
Definition nsamp (t : table) : nat := length (sids t).
Definition ids (a : axis) (t : table) : list Z := match a with Obs => oids t | Samp => sids t end.
Definition mds (a : axis) (t : table) : option (list Tree) := match a with Obs => omd t | Samp => smd t end.

Definition md_ok (md : option (list Tree)) (n : nat) : Prop :=
  match md with None => True | Some l => length l = n end.
Definition md_okb (md : option (list Tree)) (n : nat) : bool :=
  match md with None => true | Some l => Nat.eqb (length l) n end.

(* "coherent" in the sense of property C05 *)
Definition wf (t : table) : Prop :=
  length (mat t) = nobs t /\ rect (nsamp t) (mat t) /\ NoDup (oids t) /\ NoDup (sids t)
  /\ md_ok (omd t) (nobs t) /\ md_ok (smd t) (nsamp t).
Definition wfb (t : table) : bool :=
  Nat.eqb (length (mat t)) (nobs t) && rectb (nsamp t) (mat t) && negb (zdup (oids t)) && negb (zdup (sids t))
  && md_okb (omd t) (nobs t) && md_okb (smd t) (nsamp t).

Lemma md_okb_ok md n : md_okb md n = true <-> md_ok md n.
Proof. destruct md; simpl; [apply Nat.eqb_eq|tauto]. Qed.

Lemma wfb_wf t : wfb t = true <-> wf t.
Proof.
  unfold wfb, wf. rewrite !andb_true_iff, !negb_true_iff, Nat.eqb_eq, rectb_rect,
    !zdup_false_NoDup, !md_okb_ok. tauto.
Qed.

Definition pos (x : Z) (l : list Z) : option nat := index_of Z.eqb x l.

(* value stored for an (observation id, sample id) pair *)
Definition cell (t : table) (o s : Z) : option Z :=
  match pos o (oids t), pos s (sids t) with
  | Some i, Some j => Some (get (mat t) i j)
  | _, _ => None
  end.
(* absent counts as zero (merge, concat) *)
Definition cell0 (t : table) (o s : Z) : Z := match cell t o s with Some v => v | None => 0%Z end.

(* the vector at position i along an axis *)
Definition vec (a : axis) (t : table) (i : nat) : list Z :=
  match a with Obs => mrow (mat t) i | Samp => mcol (mat t) i end.
Definition vec_of (a : axis) (t : table) (id : Z) : option (list Z) :=
  option_map (vec a t) (pos id (ids a t)).
Definition md_at (a : axis) (t : table) (i : nat) : option Tree :=
  match mds a t with Some l => nth_error l i | None => None end.
Definition md_of (a : axis) (t : table) (id : Z) : option Tree :=
  match pos id (ids a t) with Some i => md_at a t i | None => None end.

(* results of operations that may refuse *)
Inductive result (A : Type) := ROk (a : A) | RErr (code : Z).
Arguments ROk {A}. Arguments RErr {A}.
Definition E_TABLE := 1%Z.       (* TableException *)
Definition E_UNKNOWN := 2%Z.     (* UnknownIDError / UnknownAxisError *)
Definition E_DISJOINT := 3%Z.    (* DisjointIDError *)
Definition E_KEY := 4%Z.         (* KeyError *)
Definition E_VALUE := 5%Z.       (* ValueError *)
Definition E_TYPE := 6%Z.        (* TypeError *)
Definition E_OTHER := 9%Z.

(* ---- wire ---- *)
Definition tAxis (t : Tree) : axis := if Z.eqb (tZ t) 0 then Obs else Samp.
Definition eAxis (a : axis) : Tree := match a with Obs => I 0 | Samp => I 1 end.
Definition tTable (t : Tree) : table :=
  mkT (tLZ (tnth t 0)) (tLZ (tnth t 1)) (tLLZ (tnth t 2))
      (tOpt tL (tnth t 3)) (tOpt tL (tnth t 4)) (tZ (tnth t 5)).
Definition eTable (t : table) : Tree :=
  L [eLZ (oids t); eLZ (sids t); eLLZ (mat t); eOpt L (omd t); eOpt L (smd t); I (ttype t)].
Definition eResult {A} (f : A -> Tree) (r : result A) : Tree :=
  match r with ROk a => L [I 0; f a] | RErr c => eErr c end.

(* ---- transpose (table.py:1202-1213; drops the type, as the code does) ---- *)
Definition NOTYPE := 0%Z.
Definition transpose_t (t : table) : table :=
  mkT (sids t) (oids t) (transpose (nsamp t) (mat t)) (smd t) (omd t) NOTYPE.

Lemma pos_Some x l i : pos x l = Some i -> nth i l 0%Z = x /\ i < length l.
Proof. apply index_of_Z_Some. Qed.

Lemma pos_None x l : pos x l = None <-> ~ In x l.
Proof. apply index_of_Z_None. Qed.

Lemma pos_nth_NoDup l i : NoDup l -> i < length l -> pos (nth i l 0%Z) l = Some i.
Proof.
  unfold pos. revert i. induction l as [|y t IH]; intros i Hn Hi; simpl in *; [lia|].
  inversion Hn as [|? ? Hy Hn']; subst. destruct i as [|i].
  - rewrite Z.eqb_refl. reflexivity.
  - destruct (Z.eqb (nth i t 0%Z) y) eqn:E.
    + apply Z.eqb_eq in E. exfalso. apply Hy. rewrite <- E. apply nth_In. lia.
    + rewrite IH by (assumption || lia). reflexivity.
Qed.

Lemma wf_transpose t : wf t -> wf (transpose_t t).
Proof.
  unfold wf, transpose_t, nobs, nsamp; simpl. intros (H1 & H2 & H3 & H4 & H5 & H6).
  repeat split; try assumption.
  - apply transpose_length.
  - rewrite <- H1. apply transpose_rect.
Qed.

Theorem transpose_cell t o s : wf t -> cell (transpose_t t) s o = cell t o s.
Proof.
  intros W. unfold cell, transpose_t; simpl.
  destruct (pos s (sids t)) as [j|] eqn:Ej; destruct (pos o (oids t)) as [i|] eqn:Ei; try reflexivity.
  f_equal. apply get_transpose. apply pos_Some in Ej. unfold nsamp. tauto.
Qed.

Theorem transpose_t_involutive t : wf t ->
  transpose_t (transpose_t t) = mkT (oids t) (sids t) (mat t) (omd t) (smd t) NOTYPE.
Proof.
  intros (H1 & H2 & _). unfold transpose_t, nsamp, nobs in *; simpl.
  f_equal. rewrite <- H1. apply transpose_involutive. exact H2.
Qed.
