(* L4: BIOM 1.0 JSON.  JSON value trees with the handful of Python operations the reader,
   the writer and the validator apply to them; the tree layer of Table.to_json /
   Table.from_json; the text layer for string literals (what json.dumps emits with
   ensure_ascii, what the json scanner accepts).

   Conventions
   * a string is the list of its code points (Z);
   * JInt is a JSON number Python reads as int, JFlt one it reads as float.  The payload of
     JFlt is an integer code of the double: 64 * value wherever the model computes with it
     (validator comparisons, sums of duplicate coordinates: the C15 harness only sends
     multiples of 1/64), an arbitrary injective code with 0.0 -> 0 where it does not (C02:
     the writer only tests a value against zero and the reader adds it to zero);
   * a Python exception is  RErr code  (codes of Model/Table.v plus E_ATTR, E_INDEX);
     E_UNMODELLED marks input the model deliberately does not follow (numpy coercions of
     non-text IDs, non-numeric matrix values).
   Sources: biom/table.py 216-227 (NpEncoder, dumps), 469-526 (constructor), 596-658
   (_to_sparse), 660-696 (_cast_metadata), 4718-4806 (from_json), 4808-4992 (to_json),
   5383-5416 (list_list_to_sparse). *)
From Coq Require Import String.
From Coq Require Import List Arith ZArith Lia Bool.
From BiomV Require Import Base.Tree Base.ListUtil Base.Matrix Base.TreeStr Model.Table.
Import ListNotations.
Open Scope Z_scope.

Definition str := list Z.
Definition str_eqb (a b : str) : bool := list_eqb Z.eqb a b.
Definition K (s : string) : str := codes_of_string s.
Arguments K s%string_scope.

Inductive json :=
| JNull
| JBool (b : bool)
| JInt (z : Z)
| JFlt (k : Z)
| JStr (s : str)
| JArr (l : list json)
| JObj (kv : list (str * json)).

(* induction principle for the nested type *)
Section JsonInd.
  Variable P : json -> Prop.
  Hypothesis HNull : P JNull.
  Hypothesis HBool : forall b, P (JBool b).
  Hypothesis HInt : forall z, P (JInt z).
  Hypothesis HFlt : forall k, P (JFlt k).
  Hypothesis HStr : forall s, P (JStr s).
  Hypothesis HArr : forall l, Forall P l -> P (JArr l).
  Hypothesis HObj : forall kv, Forall (fun p => P (snd p)) kv -> P (JObj kv).
  Fixpoint json_ind' (j : json) : P j :=
    match j with
    | JNull => HNull
    | JBool b => HBool b
    | JInt z => HInt z
    | JFlt k => HFlt k
    | JStr s => HStr s
    | JArr l => HArr l ((fix go (l : list json) : Forall P l :=
                           match l with
                           | [] => Forall_nil P
                           | x :: r => Forall_cons x (json_ind' x) (go r)
                           end) l)
    | JObj kv => HObj kv ((fix go (kv : list (str * json)) : Forall (fun p => P (snd p)) kv :=
                             match kv with
                             | [] => Forall_nil _
                             | p :: r =>
                                 Forall_cons p
                                   (match p as p0 return P (snd p0) with (k, v) => json_ind' v end)
                                   (go r)
                             end) kv)
    end.
End JsonInd.

Fixpoint json_eqb (a b : json) {struct a} : bool :=
  match a, b with
  | JNull, JNull => true
  | JBool x, JBool y => Bool.eqb x y
  | JInt x, JInt y => Z.eqb x y
  | JFlt x, JFlt y => Z.eqb x y
  | JStr x, JStr y => str_eqb x y
  | JArr xs, JArr ys =>
      (fix go (xs ys : list json) {struct xs} : bool :=
         match xs, ys with
         | [], [] => true
         | x :: xs', y :: ys' => json_eqb x y && go xs' ys'
         | _, _ => false
         end) xs ys
  | JObj xs, JObj ys =>
      (fix go (xs ys : list (str * json)) {struct xs} : bool :=
         match xs, ys with
         | [], [] => true
         | (k, x) :: xs', (k', y) :: ys' => str_eqb k k' && json_eqb x y && go xs' ys'
         | _, _ => false
         end) xs ys
  | _, _ => false
  end.

(* ------------------------------------------------------------------ errors *)
Definition E_ATTR := 7%Z.        (* AttributeError *)
Definition E_INDEX := 8%Z.       (* IndexError *)
Definition E_UNMODELLED := 99%Z.

Definition bind {A B} (r : result A) (f : A -> result B) : result B :=
  match r with ROk a => f a | RErr c => RErr c end.
Notation "x <- e ;; f" := (bind e (fun x => f)) (at level 61, e at next level, right associativity).

Fixpoint mapM {A B} (f : A -> result B) (l : list A) : result (list B) :=
  match l with
  | [] => ROk []
  | x :: t => y <- f x ;; ys <- mapM f t ;; ROk (y :: ys)
  end.

(* ------------------------------------------------------------------ Python on JSON values *)
Definition SCALE := 64%Z.
Definition b2z (b : bool) : Z := if b then 1 else 0.

(* numeric value times SCALE; bool is a subclass of int *)
Definition numval (j : json) : option Z :=
  match j with
  | JBool b => Some (SCALE * b2z b)
  | JInt z => Some (SCALE * z)
  | JFlt k => Some k
  | _ => None
  end.

(* bool(x) *)
Definition py_truthy (j : json) : bool :=
  match j with
  | JNull => false
  | JBool b => b
  | JInt z => negb (z =? 0)
  | JFlt k => negb (k =? 0)
  | JStr s => match s with [] => false | _ => true end
  | JArr l => match l with [] => false | _ => true end
  | JObj kv => match kv with [] => false | _ => true end
  end.

(* x == y where at least one side is a scalar (None, bool, number, text) *)
Definition py_eq (a b : json) : bool :=
  match numval a, numval b with
  | Some x, Some y => x =? y
  | None, None =>
      match a, b with
      | JNull, JNull => true
      | JStr s, JStr t => str_eqb s t
      | _, _ => false
      end
  | _, _ => false
  end.

Definition py_hashable (j : json) : bool :=
  match j with JArr _ | JObj _ => false | _ => true end.

(* np.issubdtype(type(x), np.integer): python ints, not bools *)
Definition py_is_int (j : json) : bool := match j with JInt _ => true | _ => false end.

Fixpoint jget (kv : list (str * json)) (k : str) : option json :=
  match kv with
  | [] => None
  | (k', v) :: t => if str_eqb k k' then Some v else jget t k
  end.

Fixpoint is_prefix (p s : str) : bool :=
  match p, s with
  | [], _ => true
  | x :: p', y :: s' => (x =? y) && is_prefix p' s'
  | _, [] => false
  end.
Fixpoint is_infix (p s : str) : bool :=
  is_prefix p s || match s with [] => false | _ :: s' => is_infix p s' end.

(* key in x  for a text key *)
Definition py_in (k : str) (j : json) : result bool :=
  match j with
  | JObj kv => ROk (match jget kv k with Some _ => true | None => false end)
  | JArr l => ROk (existsb (fun x => py_eq x (JStr k)) l)
  | JStr s => ROk (is_infix k s)
  | _ => RErr E_TYPE
  end.

(* x[key]  for a text key *)
Definition py_getitem (j : json) (k : str) : result json :=
  match j with
  | JObj kv => match jget kv k with Some v => ROk v | None => RErr E_KEY end
  | _ => RErr E_TYPE
  end.

(* x.get(key, None) *)
Definition py_get (j : json) (k : str) : result json :=
  match j with
  | JObj kv => ROk (match jget kv k with Some v => v | None => JNull end)
  | _ => RErr E_ATTR
  end.

(* x[i]  for an int index *)
Definition py_index (j : json) (i : nat) : result json :=
  match j with
  | JArr l => match nth_error l i with Some v => ROk v | None => RErr E_INDEX end
  | JStr s => match nth_error s i with Some c => ROk (JStr [c]) | None => RErr E_INDEX end
  | JObj _ => RErr E_KEY
  | _ => RErr E_TYPE
  end.

(* list(x) : iteration *)
Definition py_iter (j : json) : result (list json) :=
  match j with
  | JArr l => ROk l
  | JStr s => ROk (map (fun c => JStr [c]) s)
  | JObj kv => ROk (map (fun p => JStr (fst p)) kv)
  | _ => RErr E_TYPE
  end.

Definition py_len (j : json) : result nat :=
  match j with
  | JArr l => ROk (length l)
  | JStr s => ROk (length s)
  | JObj kv => ROk (length kv)
  | _ => RErr E_TYPE
  end.

(* a, b = x *)
Definition py_unpack2 (j : json) : result (json * json) :=
  l <- py_iter j ;;
  match l with [a; b] => ROk (a, b) | _ => RErr E_VALUE end.

(* n != x  for a python int n *)
Definition py_ne_nat (n : nat) (j : json) : bool :=
  match numval j with Some v => negb (SCALE * Z.of_nat n =? v) | None => true end.

(* ASCII lowering; see docs/C15.md for why this is enough for the vocabulary test *)
Definition lower_char (c : Z) : Z := if (65 <=? c) && (c <=? 90) then c + 32 else c.
Definition py_lower (j : json) : result str :=
  match j with JStr s => ROk (map lower_char s) | _ => RErr E_ATTR end.

Definition str_mem (s : str) (l : list str) : bool := existsb (str_eqb s) l.

(* ------------------------------------------------------------------ table content *)
(* what a Table object holds as far as the JSON format is concerned; j_genby / j_date are
   the arguments of to_json on the way out and the attributes set by from_json on the way in *)
Record jtable := mkJT {
  j_oids : list str; j_sids : list str; j_mat : matrix;
  j_omd : option (list json); j_smd : option (list json);
  j_type : json; j_genby : json; j_date : json }.

Definition jnobs (c : jtable) : nat := length (j_oids c).
Definition jnsamp (c : jtable) : nat := length (j_sids c).

Fixpoint str_dup (l : list str) : bool :=
  match l with [] => false | x :: t => str_mem x t || str_dup t end.

Definition is_obj (j : json) : bool := match j with JObj _ => true | _ => false end.
Definition is_str (j : json) : bool := match j with JStr _ => true | _ => false end.
Definition md_objs (md : option (list json)) : Prop :=
  match md with None => True | Some l => Forall (fun x => is_obj x = true) l end.
Definition md_len (md : option (list json)) (n : nat) : Prop :=
  match md with None => True | Some l => length l = n end.
(* an entry that is None or an empty mapping holds nothing *)
Definition holds_nothing (j : json) : bool :=
  match j with JNull => true | JObj [] => true | _ => false end.
(* the constructor never keeps a metadata tuple whose entries are all empty *)
Definition md_normal (md : option (list json)) : Prop :=
  match md with None => True | Some l => forallb holds_nothing l = false end.

Definition wfj (c : jtable) : Prop :=
  length (j_mat c) = jnobs c /\ rect (jnsamp c) (j_mat c)
  /\ NoDup (j_oids c) /\ NoDup (j_sids c)
  /\ md_len (j_omd c) (jnobs c) /\ md_len (j_smd c) (jnsamp c)
  /\ md_objs (j_omd c) /\ md_objs (j_smd c).

(* ------------------------------------------------------------------ writer, tree layer *)
Definition FORMAT_1_0 : str := K "Biological Observation Matrix 1.0.0".
Definition FORMAT_URL : str := K "http://biom-format.org".

(* table.py:4928-4935, one observation vector: the cells with float(val) != 0.0 *)
Fixpoint row_triples (i j : nat) (r : list Z) : list (nat * nat * Z) :=
  match r with
  | [] => []
  | v :: t => if v =? 0 then row_triples i (S j) t else (i, j, v) :: row_triples i (S j) t
  end.
(* table.py:4912, the loop over observations *)
Fixpoint triples_from (i : nat) (m : matrix) : list (nat * nat * Z) :=
  match m with
  | [] => []
  | r :: t => row_triples i 0 r ++ triples_from (S i) t
  end.
Definition triples (m : matrix) : list (nat * nat * Z) := triples_from 0 m.

Definition jtriple (t : nat * nat * Z) : json :=
  let '(i, j, v) := t in JArr [JInt (Z.of_nat i); JInt (Z.of_nat j); JFlt v].

Definition jrecord (id : str) (md : json) : json :=
  JObj [(K "id", JStr id); (K "metadata", md)].

(* Table.iter yields None for the metadata of every vector when the axis has none *)
Definition md_list (n : nat) (md : option (list json)) : list json :=
  match md with None => repeat JNull n | Some l => l end.
Definition jrecords (ids : list str) (md : option (list json)) : list json :=
  map (fun p => jrecord (fst p) (snd p)) (combine ids (md_list (length ids) md)).

(* table.py:4861-4877: self[0, 0] of a non-empty table is a float, otherwise test_element = 0 *)
Definition element_type (c : jtable) : str :=
  if (0 <? jnobs c)%nat && (0 <? jnsamp c)%nat then K "float" else K "int".

(* table.py:5043-5047: an axis without IDs is written as an empty list *)
Definition w_rows (c : jtable) : json := JArr (jrecords (j_oids c) (j_omd c)).
Definition w_columns (c : jtable) : json := JArr (jrecords (j_sids c) (j_smd c)).

Definition w_id (tid : str) := (K "id", JStr tid).
Definition w_format := (K "format", JStr FORMAT_1_0).
Definition w_format_url := (K "format_url", JStr FORMAT_URL).
Definition w_matrix_type := (K "matrix_type", JStr (K "sparse")).
Definition w_generated_by (c : jtable) := (K "generated_by", j_genby c).
Definition w_date (c : jtable) := (K "date", j_date c).
Definition w_type (c : jtable) := (K "type", j_type c).
Definition w_element_type (c : jtable) := (K "matrix_element_type", JStr (element_type c)).
Definition w_shape (c : jtable) :=
  (K "shape", JArr [JInt (Z.of_nat (jnobs c)); JInt (Z.of_nat (jnsamp c))]).
Definition w_data (c : jtable) := (K "data", JArr (map jtriple (triples (j_mat c)))).

(* the returned string, table.py:4979-4992 (tid is str(self.table_id)) *)
Definition to_json_fields (c : jtable) (tid : str) : list (str * json) :=
  [w_id tid; w_format; w_format_url; w_matrix_type; w_generated_by c; w_date c; w_type c;
   w_element_type c; w_shape c; w_data c; (K "rows", w_rows c); (K "columns", w_columns c)].
(* the direct_io stream, in the order of its write calls, table.py:4837-4977 *)
Definition to_json_fields_direct (c : jtable) (tid : str) : list (str * json) :=
  [w_id tid; w_format; w_format_url; w_generated_by c; w_date c; w_element_type c; w_shape c;
   w_type c; w_matrix_type; w_data c; (K "rows", w_rows c); (K "columns", w_columns c)].

Definition to_json_tree (c : jtable) (tid : str) : json := JObj (to_json_fields c tid).
Definition to_json_tree_direct (c : jtable) (tid : str) : json := JObj (to_json_fields_direct c tid).

(* ------------------------------------------------------------------ reader, tree layer *)
Definition zeros (nr nc : nat) : matrix := repeat (repeat 0 nc) nr.
Definition mset (m : matrix) (i j : nat) (v : Z) : matrix := upd m i (upd (nth i m []) j v).
(* COO -> CSR: entries with the same coordinate are summed *)
Definition add_triple (m : matrix) (t : nat * nat * Z) : matrix :=
  let '(i, j, v) := t in mset m i j (get m i j + v).
Definition dense_of_triples (nr nc : nat) (ts : list (nat * nat * Z)) : matrix :=
  fold_left add_triple ts (zeros nr nc).

(* a matrix value as numpy casts it to float64 *)
Definition val_code (j : json) : result Z :=
  match numval j with Some v => ROk v | None => RErr E_UNMODELLED end.

(* _check_coordinates, table.py:5428-5433: integer coordinates inside the shape given by the
   IDs, else TableException *)
Definition coord (nr nc : nat) (x y v : json) : result (nat * nat * Z) :=
  match x, y with
  | JInt a, JInt b =>
      if (a <? 0) || (Z.of_nat nr <=? a) || (b <? 0) || (Z.of_nat nc <=? b) then RErr E_TABLE
      else c <- val_code v ;; ROk (Z.to_nat a, Z.to_nat b, c)
  | _, _ => RErr E_UNMODELLED
  end.

(* list_list_to_sparse, table.py:5401-5416:  rows, cols, values come from zipping the entries *)
Definition sparse_entries (nr nc : nat) (data : list json) : result (list (nat * nat * Z)) :=
  its <- mapM py_iter data ;;
  if forallb (fun l => (3 <=? length l)%nat) its && existsb (fun l => (length l =? 3)%nat) its
  then mapM (fun l => coord nr nc (nth 0 l JNull) (nth 1 l JNull) (nth 2 l JNull)) its
  else RErr E_VALUE.

(* _to_sparse with input_is_dense, table.py:645-648: coo_matrix(values) of a rectangular
   nested list, then coo_arrays_to_sparse with the shape taken from the ID lists *)
Fixpoint dense_cells_row (i j : nat) (r : list Z) : list (nat * nat * Z) :=
  match r with [] => [] | v :: t => (i, j, v) :: dense_cells_row i (S j) t end.
Definition dense_entries (nr nc : nat) (data : list json) : result (list (nat * nat * Z)) :=
  rows <- mapM (fun r => match r with JArr l => mapM val_code l | _ => RErr E_UNMODELLED end) data ;;
  match rows with
  | [] => ROk []
  | r0 :: _ =>
      if forallb (fun r => (length r =? length r0)%nat) rows then
        let ts := triples rows in
        if forallb (fun t => let '(i, j, _) := t in (i <? nr)%nat && (j <? nc)%nat) ts
        then ROk ts else RErr E_TABLE
      else RErr E_VALUE
  end.

(* Table._to_sparse on what json.load can deliver, table.py:596-658 *)
Definition to_sparse (data : json) (dense : bool) (nr nc : nat) : result matrix :=
  match data with
  | JArr [] => ROk (zeros nr nc)
  | JArr (JObj _ :: _) => RErr E_UNMODELLED                (* list_dict_to_sparse *)
  | JObj [] => ROk (zeros nr nc)                          (* dict_to_sparse of {} *)
  | JObj _ => RErr E_UNMODELLED
  | JArr ((JArr _ :: _) as l) =>
      ts <- (if dense then dense_entries nr nc l else sparse_entries nr nc l) ;;
      ROk (dense_of_triples nr nc ts)
  | _ => RErr E_TABLE                                     (* "Unknown input type" *)
  end.

(* constructor, table.py:500-522 then _cast_metadata 683-705: entries that are None or an
   empty mapping hold nothing; any other non-mapping is refused by the cast *)
Definition cast_md (md : list json) : result (option (list json)) :=
  if forallb holds_nothing md then ROk None
  else
    l <- mapM (fun x => match x with
                        | JObj _ => ROk x
                        | JNull => ROk (JObj [])
                        | _ => RErr E_TABLE
                        end) md ;;
    ROk (Some l).

Definition as_str (j : json) : result str :=
  match j with JStr s => ROk s | _ => RErr E_UNMODELLED end.

Definition ELEMENT_TYPES_TABLE : list str := [K "int"; K "float"; K "unicode"].

(* Table.from_json, table.py:4776-4806, and the constructor it calls.  The "shape" entry is
   looked up (KeyError when absent) but the constructor ignores it: the matrix takes its
   shape from the two ID lists. *)
Definition from_json (j : json) : result jtable :=
  cols <- py_getitem j (K "columns") ;;
  crecs <- py_iter cols ;;
  sids <- mapM (fun r => py_getitem r (K "id")) crecs ;;
  smd <- mapM (fun r => py_getitem r (K "metadata")) crecs ;;
  rows <- py_getitem j (K "rows") ;;
  rrecs <- py_iter rows ;;
  oids <- mapM (fun r => py_getitem r (K "id")) rrecs ;;
  omd <- mapM (fun r => py_getitem r (K "metadata")) rrecs ;;
  met <- py_getitem j (K "matrix_element_type") ;;
  _ <- (if py_hashable met then
          if existsb (fun t => py_eq met (JStr t)) ELEMENT_TYPES_TABLE then ROk tt else RErr E_KEY
        else RErr E_TYPE) ;;
  has_mt <- py_in (K "matrix_type") j ;;
  dense <- (if has_mt then mt <- py_getitem j (K "matrix_type") ;; ROk (py_eq mt (JStr (K "dense")))
            else ROk false) ;;
  ty <- py_getitem j (K "type") ;;
  data <- py_getitem j (K "data") ;;
  date <- py_getitem j (K "date") ;;
  _ <- py_getitem j (K "shape") ;;
  gb <- py_getitem j (K "generated_by") ;;
  m <- to_sparse data dense (length oids) (length sids) ;;
  oids' <- mapM as_str oids ;;
  sids' <- mapM as_str sids ;;
  _ <- (if str_dup oids' || str_dup sids' then RErr E_TABLE else ROk tt) ;;
  smd' <- cast_md smd ;;
  omd' <- cast_md omd ;;
  ROk (mkJT oids' sids' m omd' smd' ty gb date).

(* what a reader can tell about per-ID metadata: a tuple of all-empty entries and no metadata
   at all are written and read back alike (constructor, table.py:495-513) *)
Definition md_canon (md : option (list json)) : option (list json) :=
  match md with None => None | Some l => if forallb holds_nothing l then None else Some l end.
Definition canon_jt (c : jtable) : jtable :=
  mkJT (j_oids c) (j_sids c) (j_mat c) (md_canon (j_omd c)) (md_canon (j_smd c))
       (j_type c) (j_genby c) (j_date c).

(* ------------------------------------------------------------------ text layer: string literals *)
(* json.dumps(s) with the defaults NpEncoder/dumps pass on (ensure_ascii=True):
   json/encoder.py ESCAPE_ASCII, py_encode_basestring_ascii *)
Definition hexdigit (n : Z) : Z := if n <? 10 then 48 + n else 87 + n.
Definition hex4 (n : Z) : str :=
  [hexdigit (n / 4096); hexdigit ((n / 256) mod 16); hexdigit ((n / 16) mod 16); hexdigit (n mod 16)].
Definition uesc (n : Z) : str := 92 :: 117 :: hex4 n.
Definition escape_char (c : Z) : str :=
  if c =? 34 then [92; 34]
  else if c =? 92 then [92; 92]
  else if c =? 10 then [92; 110]
  else if c =? 13 then [92; 114]
  else if c =? 9 then [92; 116]
  else if c =? 8 then [92; 98]
  else if c =? 12 then [92; 102]
  else if (32 <=? c) && (c <=? 126) then [c]
  else if c <? 65536 then uesc c
  else uesc (55296 + (c - 65536) / 1024) ++ uesc (56320 + (c - 65536) mod 1024).
Definition escape (s : str) : str := flat_map escape_char s.
Definition quote (t : str) : str := 34 :: t ++ [34].
Definition dumps_str (s : str) : str := quote (escape s).

(* '"%s"' % s : what the writer did before the repair and still does for date, format, format_url *)
Definition raw_literal (s : str) : str := quote s.

(* a Unicode scalar value: a code point that is not a surrogate *)
Definition scalar (c : Z) : Prop := 0 <= c < 1114112 /\ ~ (55296 <= c <= 57343).
Definition scalarb (c : Z) : bool := (0 <=? c) && (c <? 1114112) && negb ((55296 <=? c) && (c <=? 57343)).

(* the scanner of json.loads for one string literal (json/decoder.py py_scanstring and its C
   twin, strict mode) *)
Definition hexval (c : Z) : option Z :=
  if (48 <=? c) && (c <=? 57) then Some (c - 48)
  else if (97 <=? c) && (c <=? 102) then Some (c - 87)
  else if (65 <=? c) && (c <=? 70) then Some (c - 55)
  else None.
Definition take_hex4 (t : str) : option (Z * str) :=
  match t with
  | a :: b :: c :: d :: r =>
      match hexval a, hexval b, hexval c, hexval d with
      | Some x, Some y, Some z, Some w => Some (x * 4096 + y * 256 + z * 16 + w, r)
      | _, _, _, _ => None
      end
  | _ => None
  end.
Definition simple_escape (e : Z) : option Z :=
  if e =? 34 then Some 34 else if e =? 92 then Some 92 else if e =? 47 then Some 47
  else if e =? 98 then Some 8 else if e =? 102 then Some 12 else if e =? 110 then Some 10
  else if e =? 114 then Some 13 else if e =? 116 then Some 9 else None.
Definition is_hi (u : Z) : bool := (55296 <=? u) && (u <=? 56319).
Definition is_lo (u : Z) : bool := (56320 <=? u) && (u <=? 57343).

(* t is the text after the opening quote; acc the characters read so far, reversed *)
Fixpoint lex_chars (fuel : nat) (t : str) (acc : str) : option (str * str) :=
  match fuel with
  | O => None
  | S f =>
      match t with
      | [] => None
      | c :: r =>
          if c =? 34 then Some (rev acc, r)
          else if c =? 92 then
            match r with
            | [] => None
            | e :: r2 =>
                if e =? 117 then
                  match take_hex4 r2 with
                  | None => None
                  | Some (u, r3) =>
                      if is_hi u then
                        match r3 with
                        | 92 :: 117 :: r4 =>
                            match take_hex4 r4 with
                            | None => None
                            | Some (u2, r5) =>
                                if is_lo u2
                                then lex_chars f r5 ((65536 + (u - 55296) * 1024 + (u2 - 56320)) :: acc)
                                else lex_chars f r3 (u :: acc)
                            end
                        | _ => lex_chars f r3 (u :: acc)
                        end
                      else lex_chars f r3 (u :: acc)
                  end
                else
                  match simple_escape e with
                  | Some ch => lex_chars f r2 (ch :: acc)
                  | None => None
                  end
            end
          else if c <? 32 then None
          else lex_chars f r (c :: acc)
      end
  end.

(* a string literal at the head of t: its value and the text after the closing quote *)
Definition lex_string (t : str) : option (str * str) :=
  match t with
  | c :: r => if c =? 34 then lex_chars (length r) r [] else None
  | [] => None
  end.

(* ------------------------------------------------------------------ wire *)
(* json <-> Tree: [0] null, [1,b], [2,z] int, [3,k] float, [4,[code points]], [5,[items]],
   [6,[[key,value],...]] *)
Fixpoint tJson (t : Tree) : json :=
  match t with
  | I _ => JNull
  | L l =>
      match l with
      | [I 1; I b] => JBool (negb (b =? 0))
      | [I 2; I z] => JInt z
      | [I 3; I k] => JFlt k
      | [I 4; L s] => JStr (map tZ s)
      | [I 5; L xs] => JArr (map tJson xs)
      | [I 6; L kvs] =>
          JObj (map (fun kv => match kv with
                               | L [k; v] => (tLZ k, tJson v)
                               | _ => ([], JNull)
                               end) kvs)
      | _ => JNull
      end
  end.

Fixpoint eJson (j : json) : Tree :=
  match j with
  | JNull => L [I 0]
  | JBool b => L [I 1; I (b2z b)]
  | JInt z => L [I 2; I z]
  | JFlt k => L [I 3; I k]
  | JStr s => L [I 4; eLZ s]
  | JArr l => L [I 5; L (map eJson l)]
  | JObj kv => L [I 6; L (map (fun p => L [eLZ (fst p); eJson (snd p)]) kv)]
  end.

Definition tStr (t : Tree) : str := tLZ t.
Definition eStr (s : str) : Tree := eLZ s.
Definition tMd (t : Tree) : option (list json) := tOpt (fun x => map tJson (tL x)) t.
Definition eMd (md : option (list json)) : Tree := eOpt (fun l => L (map eJson l)) md.

(* jtable on the wire: [oids, sids, mat, omd, smd, type, generated_by, date] *)
Definition tJT (t : Tree) : jtable :=
  mkJT (map tStr (tL (tnth t 0))) (map tStr (tL (tnth t 1))) (tLLZ (tnth t 2))
       (tMd (tnth t 3)) (tMd (tnth t 4)) (tJson (tnth t 5)) (tJson (tnth t 6)) (tJson (tnth t 7)).
Definition eJT (c : jtable) : Tree :=
  L [L (map eStr (j_oids c)); L (map eStr (j_sids c)); eLLZ (j_mat c); eMd (j_omd c); eMd (j_smd c);
     eJson (j_type c); eJson (j_genby c); eJson (j_date c)].
