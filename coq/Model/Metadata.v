(* L1/L4: metadata updates and mapping files (property C18).
   add_metadata      biom/table.py:840-866        _cast_metadata   biom/table.py:660-696
   del_metadata      biom/table.py:773-838
   MetadataMap.from_file                           biom/parse.py:460-563
   _add_metadata (process functions from the CLI)  biom/cli/metadata_adder.py:113-184
   A metadata entry is an insertion-ordered association list key text -> value Tree (a Python
   dict); ids and keys are texts (lists of code points) because mapping files produce texts. *)
From Coq Require Import List Arith ZArith Lia Bool.
From BiomV Require Import Base.Tree Base.ListUtil Base.Matrix Model.Table Model.Tsv.
Import ListNotations.
Open Scope Z_scope.

Definition assoc := list (text * Tree).

Fixpoint aget (a : assoc) (k : text) : option Tree :=
  match a with [] => None | (k', v) :: r => if text_eqb k k' then Some v else aget r k end.
(* d[k] = v : the position of an existing key is kept, a new key goes last *)
Fixpoint aset (a : assoc) (k : text) (v : Tree) : assoc :=
  match a with
  | [] => [(k, v)]
  | (k', v') :: r => if text_eqb k k' then (k, v) :: r else (k', v') :: aset r k v
  end.
(* d.update(e) *)
Definition aupdate (a e : assoc) : assoc := fold_left (fun acc kv => aset acc (fst kv) (snd kv)) e a.
(* if k in d: del d[k] *)
Definition adel (a : assoc) (k : text) : assoc := filter (fun kv => negb (text_eqb (fst kv) k)) a.
Definition adel_all (a : assoc) (ks : list text) : assoc := fold_left adel ks a.

Record mtab := mkM { m_oids : list text; m_sids : list text; m_mat : matrix;
                     m_omd : option (list assoc); m_smd : option (list assoc) }.

Definition m_ids (a : axis) (t : mtab) : list text := match a with Obs => m_oids t | Samp => m_sids t end.
Definition m_mds (a : axis) (t : mtab) : option (list assoc) := match a with Obs => m_omd t | Samp => m_smd t end.

Definition tpos (x : text) (l : list text) : option nat := index_of text_eqb x l.

(* a mapping {id: {key: value}} in insertion order *)
Definition mapping := list (text * assoc).
Fixpoint mlookup (id : text) (m : mapping) : option assoc :=
  match m with [] => None | (id', e) :: r => if text_eqb id id' then Some e else mlookup id r end.

(* ---- _cast_metadata, table.py:681-700 (after repair 16e406b1): a tuple in which no entry
   holds anything (None or an empty mapping; the empty tuple included) becomes None, as in the
   constructor; otherwise None entries become empty dicts and dicts are copied ---- *)
Definition is_none {A} (o : option A) : bool := match o with None => true | Some _ => false end.
Definition is_nil {A} (l : list A) : bool := match l with [] => true | _ => false end.
Definition opt_empty (o : option assoc) : bool := match o with None => true | Some e => is_nil e end.
Definition cast_opt (l : list (option assoc)) : option (list assoc) :=
  if forallb opt_empty l then None
  else Some (map (fun o => match o with Some e => e | None => [] end) l).
(* the same on a tuple of dicts *)
Definition cast_md (md : option (list assoc)) : option (list assoc) :=
  match md with
  | Some l => if forallb is_nil l then None else Some l
  | None => None
  end.

(* ---- add_metadata, table.py:850-866 ---- *)
Definition add_step (ids : list text) (l : list assoc) (p : text * assoc) : list assoc :=
  match tpos (fst p) ids with
  | Some i => upd l i (aupdate (nth i l []) (snd p))    (* metadata[idx].update(md_entry) *)
  | None => l                                           (* unknown id: ignored *)
  end.
Definition add_axis (ids : list text) (md : option (list assoc)) (m : mapping) : option (list assoc) :=
  match md with
  | Some l => cast_md (Some (fold_left (add_step ids) m l))
  | None => cast_opt (map (fun id => mlookup id m) ids)
  end.
Definition add_metadata (t : mtab) (m : mapping) (a : axis) : mtab :=
  match a with
  | Obs => mkM (m_oids t) (m_sids t) (m_mat t) (add_axis (m_oids t) (m_omd t) m) (cast_md (m_smd t))
  | Samp => mkM (m_oids t) (m_sids t) (m_mat t) (cast_md (m_omd t)) (add_axis (m_sids t) (m_smd t) m)
  end.

(* ---- del_metadata, table.py:805-838 ---- *)
Inductive axsel := SelObs | SelSamp | SelWhole.
Definition selected (s : axsel) (a : axis) : bool :=
  match s, a with SelWhole, _ => true | SelObs, Obs => true | SelSamp, Samp => true | _, _ => false end.
Definition del_axis (keys : option (list text)) (md : option (list assoc)) : option (list assoc) :=
  match keys with
  | None => None
  | Some ks =>
      match md with
      | None => None
      | Some l =>
          let l' := map (fun e => adel_all e ks) l in
          (* empties == {True}: every entry is empty and there is at least one *)
          if negb (is_nil l') && forallb is_nil l' then None else Some l'
      end
  end.
Definition del_metadata (t : mtab) (keys : option (list text)) (s : axsel) : mtab :=
  mkM (m_oids t) (m_sids t) (m_mat t)
      (if selected s Obs then del_axis keys (m_omd t) else m_omd t)
      (if selected s Samp then del_axis keys (m_smd t) else m_smd t).

(* ---- mapping files: MetadataMap.from_file, parse.py:493-563 ---- *)
Definition QUOTE : Z := 34.
Definition PIPE : Z := 124.
Definition unquote (t : text) : text := filter (fun c => negb (c =? QUOTE)) t.
(* the four strip_f variants, parse.py:493-510 *)
Definition strip_f (sq ss : bool) (x : text) : text :=
  let y := if sq then unquote x else x in if ss then y else strip y.

Definition pad (n : nat) (l : list text) : list text := l ++ repeat [] (n - length l).

(* one turn of the loop at parse.py:523-540; the state is (header, mapping_data) *)
Definition map_step (sq ss : bool) (st : list text * list (list text)) (line0 : text)
  : list text * list (list text) :=
  let '(header, rows) := st in
  let line := strip_f sq ss line0 in
  if is_nil line || (ss && is_nil (strip line)) then st
  else if starts_hash line then
    if is_nil header then (split_on TAB (strip (tl line)), rows) else st
  else (header, rows ++ [pad (length header) (map (strip_f sq ss) (split_on TAB line))]).

(* column conversions built by _add_metadata (metadata_adder.py:113-166):
   1 split on ';', 2 split on '|' then ';', 3 int, 4 float, 0 none.  int() and float() are
   oracles: conv k text = Some value, or None when Python raises ValueError (the text is then
   kept, metadata_adder.py:121-132). *)
Definition proc_pipe (t : text) : Tree :=
  tList (map (fun y => tList (map (fun e => tStr (strip e)) (split_on SEMI y))) (split_on PIPE t)).

Record colopts := mkC { c_sc : list text; c_pipe : list text; c_int : list text; c_float : list text }.
Definition no_colopts : colopts := mkC [] [] [] [].
(* dict.update order: sc, pipe, int, float; the last one naming a column wins *)
Definition kind_of (o : colopts) (col : text) : Z :=
  if tmem col (c_float o) then 4 else if tmem col (c_int o) then 3
  else if tmem col (c_pipe o) then 2 else if tmem col (c_sc o) then 1 else 0.

Section Mapping.
  Variable conv : Z -> text -> option Tree.

  Definition process_col (o : colopts) (col v : text) : Tree :=
    match kind_of o col with
    | 1 => proc_sc v
    | 2 => proc_pipe v
    | 3 => match conv 3 v with Some x => x | None => tStr v end
    | 4 => match conv 4 v with Some x => x | None => tStr v end
    | _ => tStr v
    end.

  (* current_d[k] = process(v) for k, v in zip(header[1:], vals[1:]), parse.py:555-560 *)
  Fixpoint row_dict (o : colopts) (cols vals : list text) (acc : assoc) : assoc :=
    match cols, vals with
    | k :: cols', v :: vals' => row_dict o cols' vals' (aset acc k (process_col o k v))
    | _, _ => acc
    end.

  Definition parse_mapping (sq ss : bool) (header0 : list text) (o : colopts) (lines : list text)
    : result mapping :=
    let '(header, rows) := fold_left (map_step sq ss) lines (header0, []) in
    if is_nil header then RErr E_OTHER                    (* No header line was found *)
    else if is_nil rows then RErr E_OTHER                 (* No data found *)
    else if tdup (map (fun r => hd [] r) rows) then RErr E_OTHER   (* first column not unique *)
    else ROk (map (fun r => (hd [] r, row_dict o (tl header) (tl r) [])) rows).

  (* ---- _add_metadata, metadata_adder.py:135-184: mapping files are read with the default
     strip_f (quotes and blanks removed) ---- *)
  Definition cli_add (t : mtab) (samp obs : option (list text)) (o : colopts)
             (samp_header obs_header : list text) : result mtab :=
    match samp, obs with
    | None, None => RErr E_VALUE
    | _, _ =>
        let sm := match samp with Some ls => match parse_mapping true false samp_header o ls with
                                             | ROk m => ROk (Some m) | RErr e => RErr e end
                                | None => ROk None end in
        match sm with
        | RErr e => RErr e
        | ROk sm =>
            let om := match obs with Some ls => match parse_mapping true false obs_header o ls with
                                                | ROk m => ROk (Some m) | RErr e => RErr e end
                                   | None => ROk None end in
            match om with
            | RErr e => RErr e
            | ROk om =>
                let t1 := match sm with Some ((_ :: _) as m) => add_metadata t m Samp | _ => t end in
                let t2 := match om with Some ((_ :: _) as m) => add_metadata t1 m Obs | _ => t1 end in
                ROk t2
            end
        end
    end.
End Mapping.

(* ---- the row grammar of mapping files and its printer ---- *)
Inductive mitem := MComment (t : text) | MBlank (t : text) | MRow (cells : list text).
Record mfile := mkF { f_pre : list text;          (* white-space lines before the header line *)
                      f_names : list text;        (* the header line: '#' + names joined by tabs *)
                      f_items : list mitem }.
Definition render_item (it : mitem) : text :=
  match it with MComment t => HASH :: t | MBlank t => t | MRow cells => join TAB cells end.
Definition render (g : mfile) : list text :=
  f_pre g ++ (HASH :: join TAB (f_names g)) :: map render_item (f_items g).
Fixpoint rows_of (items : list mitem) : list (list text) :=
  match items with
  | [] => []
  | MRow cells :: r => cells :: rows_of r
  | _ :: r => rows_of r
  end.

Section Relation.
  Variable conv : Z -> text -> option Tree.
  (* the id -> {column: value} relation the rows describe: the effective header is the
     override when one is given (its length selects the first k columns), a short row is
     padded with empty texts, every cell is read through strip_f and converted per column *)
  Definition relation (sq ss : bool) (override : list text) (o : colopts) (g : mfile) : mapping :=
    let H := if is_nil override then f_names g else override in
    map (fun cells =>
           (strip_f sq ss (hd [] cells),
            map (fun kv => (fst kv, process_col conv o (fst kv) (snd kv)))
                (combine (tl H) (tl (pad (length H) (map (strip_f sq ss) cells))))))
        (rows_of (f_items g)).
End Relation.

(* ---- histories over several tables (value semantics: what the code must implement although
   its dicts are mutable objects).  The value of a mapping entry is a literal dict or the
   metadata object another table (or the same one) holds for an id at that moment, as in
   t.add_metadata({'S1': ref.metadata('R1', axis)}). ---- *)
Inductive esrc := ELit (e : assoc) | ERef (tj : nat) (a : axis) (id : text).
Inductive minstr :=
| IAdd (ti : nat) (a : axis) (m : list (text * esrc))
| IDel (ti : nat) (keys : option (list text)) (s : axsel)
| IRead (ti : nat) (a : axis) (id k : text).     (* t.metadata(id, axis)[k] *)
Definition mt_empty : mtab := mkM [] [] [] None None.
Definition entry_for (t : mtab) (a : axis) (id : text) : assoc :=
  match tpos id (m_ids a t), m_mds a t with
  | Some i, Some l => nth i l []
  | _, _ => []
  end.
Definition resolve (ts : list mtab) (s : esrc) : assoc :=
  match s with ELit e => e | ERef j a id => entry_for (nth j ts mt_empty) a id end.
(* entries are default-None mappings (collections.defaultdict(lambda: None), table.py:689):
   READING a key an id does not have leaves  key: None  behind in that entry *)
Definition read_axis (ids : list text) (md : option (list assoc)) (id k : text) : option (list assoc) :=
  match md, tpos id ids with
  | Some l, Some i =>
      match aget (nth i l []) k with
      | Some _ => md
      | None => Some (upd l i (aset (nth i l []) k tNone))
      end
  | _, _ => md
  end.
Definition read_md (t : mtab) (a : axis) (id k : text) : mtab :=
  match a with
  | Obs => mkM (m_oids t) (m_sids t) (m_mat t) (read_axis (m_oids t) (m_omd t) id k) (m_smd t)
  | Samp => mkM (m_oids t) (m_sids t) (m_mat t) (m_omd t) (read_axis (m_sids t) (m_smd t) id k)
  end.
Definition mstep (ts : list mtab) (i : minstr) : list mtab :=
  match i with
  | IAdd ti a m =>
      upd ts ti (add_metadata (nth ti ts mt_empty) (map (fun p => (fst p, resolve ts (snd p))) m) a)
  | IDel ti keys s => upd ts ti (del_metadata (nth ti ts mt_empty) keys s)
  | IRead ti a id k => upd ts ti (read_md (nth ti ts mt_empty) a id k)
  end.
(* the states after every step *)
Fixpoint mexec (ts : list mtab) (prog : list minstr) : list (list mtab) :=
  match prog with
  | [] => []
  | i :: r => let ts' := mstep ts i in ts' :: mexec ts' r
  end.
