(* L4: the classic tab-separated table format (property C03).
   Text is a list of Unicode code points, a file is a list of lines.
   Writer:  Table.delimited_self / to_tsv            biom/table.py:1692-1777, 5293-5347
   Reader:  Table._extract_data_from_tsv / from_tsv  biom/table.py:5092-5142, 5145-5291
   Constructor behind from_tsv (shape, triples):     biom/table.py:482-486, 616-620, 5383-5416
   Number text (str of a float64 when writing, float() when reading) is an oracle: the two
   section variables [fmt] and [parse_num]; matrix values travel as opaque integer codes and the
   code 0 is the value zero (the reader drops every value equal to zero, table.py:5286-5289). *)
From Coq Require Import List Arith ZArith Lia Bool.
From BiomV Require Import Base.Tree Base.ListUtil Base.Matrix Model.Table.
Import ListNotations.
Open Scope Z_scope.

Definition text := list Z.
Definition TAB : Z := 9.
Definition NL : Z := 10.
Definition HASH : Z := 35.

Definition text_eqb : text -> text -> bool := list_eqb Z.eqb.
Definition tmem (x : text) (l : list text) : bool := existsb (text_eqb x) l.
Fixpoint tdup (l : list text) : bool :=
  match l with [] => false | x :: t => tmem x t || tdup t end.

(* ---- Python str helpers ------------------------------------------------------------- *)
(* str.isspace / the characters removed by str.strip() (checked against CPython for every
   code point by the harness) *)
Definition is_space (c : Z) : bool :=
  ((9 <=? c) && (c <=? 13)) || ((28 <=? c) && (c <=? 32)) || (c =? 133) || (c =? 160)
  || (c =? 5760) || ((8192 <=? c) && (c <=? 8202)) || (c =? 8232) || (c =? 8233)
  || (c =? 8239) || (c =? 8287) || (c =? 12288).

(* the code points at which str.splitlines / codecs.StreamReader cut a line *)
Definition is_linebreak (c : Z) : bool :=
  ((10 <=? c) && (c <=? 13)) || ((28 <=? c) && (c <=? 30)) || (c =? 133) || (c =? 8232) || (c =? 8233).

Fixpoint lstrip (t : text) : text :=
  match t with c :: r => if is_space c then lstrip r else t | [] => [] end.
Definition rstrip (t : text) : text := rev (lstrip (rev t)).
Definition strip (t : text) : text := rstrip (lstrip t).

(* splitting at every character of a class: never returns the empty list *)
Fixpoint split_when (f : Z -> bool) (t : text) : list text :=
  match t with
  | [] => [[]]
  | c :: r => if f c then [] :: split_when f r
              else match split_when f r with p :: ps => (c :: p) :: ps | [] => [[c]] end
  end.
(* s.split(d) for a one-character separator *)
Definition split_on (d : Z) (t : text) : list text := split_when (Z.eqb d) t.
(* d.join(pieces) *)
Definition join (d : Z) (ps : list text) : text :=
  match ps with [] => [] | p :: r => p ++ flat_map (fun q => d :: q) r end.

Definition starts_hash (l : text) : bool := match l with c :: _ => c =? HASH | [] => false end.
Definition blank (l : text) : bool := match strip l with [] => true | _ => false end.

(* what the reader looks at in a data line: line.split(delim) with the last field stripped
   (table.py:5263-5264) *)
Definition fields_of (l : text) : list text :=
  let fs := split_on TAB l in removelast fs ++ [strip (last fs [])].
(* line.rsplit(delim, 1)[-1].strip()  (table.py:5231) *)
Definition last_value (l : text) : text := strip (last (split_on TAB l) []).

(* ---- how a text becomes the list of lines handed to the reader ------------------------- *)
(* keep the line terminator on every line but the last, as file iteration does *)
Fixpoint keepends (ls : list text) : list text :=
  match ls with
  | [] => []
  | [l] => [l]
  | l :: r => (l ++ [NL]) :: keepends r
  end.
(* The three ways a text reaches the reader, as the class of characters at which it is cut:
   - text.split('\n') / io.StringIO / a handle opened with newline='\n': only NL;
   - a path opened in text mode (universal newlines, util.py:449): NL and CR;
   - codecs.getreader('utf-8')(gzip.open(..)) for a gzip path (util.py:437-438): every
     str.splitlines boundary.
   keep = true keeps a terminator on every line but the last, as handle iteration does. *)
Definition brk_nl (c : Z) : bool := c =? NL.
Definition brk_univ (c : Z) : bool := (c =? NL) || (c =? 13).
Definition brk_gz (c : Z) : bool := is_linebreak c.
Definition feed (brk : Z -> bool) (keep : bool) (t : text) : list text :=
  if keep then keepends (split_when brk t) else split_when brk t.

(* ---- the table content the format talks about ------------------------------------------- *)
Definition mdentry := list (text * Tree).
Record ttab := mkX { x_oids : list text; x_sids : list text; x_mat : matrix;
                     x_omd : option (list mdentry) }.

Definition tNone : Tree := L [I 0].
Fixpoint md_get (k : text) (e : mdentry) : Tree :=
  match e with [] => tNone | (k', v) :: r => if text_eqb k k' then v else md_get k r end.

Definition xwf (c : ttab) : Prop :=
  length (x_mat c) = length (x_oids c) /\ rect (length (x_sids c)) (x_mat c)
  /\ NoDup (x_oids c) /\ NoDup (x_sids c)
  /\ match x_omd c with Some l => length l = length (x_oids c) | None => True end.
Definition xwfb (c : ttab) : bool :=
  Nat.eqb (length (x_mat c)) (length (x_oids c)) && rectb (length (x_sids c)) (x_mat c)
  && negb (tdup (x_oids c)) && negb (tdup (x_sids c))
  && match x_omd c with Some l => Nat.eqb (length l) (length (x_oids c)) | None => true end.
Definition x_empty (c : ttab) : bool :=
  match x_oids c, x_sids c with [], _ => true | _, [] => true | _, _ => false end.

(* ocn = observation_column_name, the corner cell of the header line (default "#OTU ID") *)
Record opts := mkO3 { header_key : option text; header_value : option text; ocn : text }.

(* "# Constructed from biom file" and "#OTU ID" *)
Definition CONSTRUCTED : text :=
  [35;32;67;111;110;115;116;114;117;99;116;101;100;32;102;114;111;109;32;98;105;111;109;32;102;105;108;101].
Definition OCN : text := [35;79;84;85;32;73;68].
Definition mkO (hk hv : option text) : opts := mkO3 hk hv OCN.
Definition no_opts : opts := mkO None None.

Definition opt_truthy (o : option text) : bool := match o with Some (_ :: _) => true | _ => false end.
Definition is_some {A} (o : option A) : bool := match o with Some _ => true | None => false end.

Section Tsv.
  Variable fmt : Z -> text.                   (* str(numpy.float64)          *)
  Variable parse_num : text -> option Z.      (* float(text), None = ValueError *)
  Variable format : Tree -> text.             (* metadata_formatter          *)
  Variable process : text -> Tree.            (* process_func of from_tsv    *)

  Definition isfloat (t : text) : bool := is_some (parse_num t).

  (* ---------------- writer: delimited_self, table.py:1724-1777 ---------------- *)
  (* md_out of every observation; None = the row is written without a metadata cell
     (header_key false or the table has no observation metadata, table.py:1759) *)
  Definition md_cells (c : ttab) (o : opts) : list (option text) :=
    match header_key o, x_omd c with
    | Some ((_ :: _) as key), Some l => map (fun e => Some (format (md_get key e))) l
    | _, _ => map (fun _ => None) (x_oids c)
    end.

  Definition row_line (id : text) (vals : list Z) (cell : option text) : text :=
    match cell with
    | Some m => id ++ [TAB] ++ join TAB (map fmt vals) ++ [TAB] ++ m
    | None => id ++ [TAB] ++ join TAB (map fmt vals)
    end.

  Fixpoint row_lines (ids : list text) (m : matrix) (cells : list (option text)) : list text :=
    match ids, m, cells with
    | id :: ids', vals :: m', cell :: cells' => row_line id vals cell :: row_lines ids' m' cells'
    | _, _, _ => []
    end.

  Definition header_line (c : ttab) (o : opts) : text :=
    let samp := join TAB (x_sids c) in
    match header_value o with
    | Some ((_ :: _) as hv) => ocn o ++ [TAB] ++ samp ++ [TAB] ++ hv
    | _ => ocn o ++ [TAB] ++ samp
    end.

  Definition to_tsv (c : ttab) (o : opts) : result (list text) :=
    if x_empty c then RErr E_TABLE
    else if is_some (header_key o) && negb (is_some (header_value o)) then RErr E_TABLE
    else if is_some (header_value o) && negb (is_some (header_key o)) then RErr E_TABLE
    else ROk (CONSTRUCTED :: header_line c o :: row_lines (x_oids c) (x_mat c) (md_cells c o)).

  (* the returned string *)
  Definition to_tsv_text (c : ttab) (o : opts) : result text :=
    match to_tsv c o with ROk ls => ROk (join NL ls) | RErr e => RErr e end.

  (* ---------------- reader: _extract_data_from_tsv, table.py:5202-5291 ---------------- *)
  (* header : None is Python's False; "not header" holds for False and for the empty list *)
  Definition truthy (h : option (list text)) : bool := match h with Some (_ :: _) => true | _ => false end.

  (* the loop of table.py:5205-5218; returns (header, data_start).  Blank lines do not
     advance list_index (they "continue" before the increment). *)
  Fixpoint find_header (lines : list text) (header : option (list text)) (idx : nat)
    : option (list text) * nat :=
    match lines with
    | [] => (header, 0%nat)
    | l :: rest =>
        if blank l then find_header rest header idx
        else if negb (starts_hash l) then
          if truthy header then (header, idx)
          else (Some (tl (split_on TAB (rstrip l))), S idx)
        else find_header rest (Some (tl (split_on TAB (strip l)))) (S idx)
    end.

  (* table.py:5231-5233 *)
  Definition last_numeric (checks : list text) : bool := forallb (fun l => isfloat (last_value l)) checks.

  Fixpoint parse_all (ts : list text) : option (list Z) :=
    match ts with
    | [] => Some []
    | t :: r => match parse_num t, parse_all r with
                | Some v, Some vs => Some (v :: vs)
                | _, _ => None
                end
    end.

  (* one parsed data row: observation id, values, last field *)
  Definition drow := (text * list Z * text)%type.

  (* the loop of table.py:5257-5290 without the triple construction *)
  Fixpoint data_rows (numeric : bool) (lines : list text) : result (list drow) :=
    match lines with
    | [] => ROk []
    | l :: rest =>
        if blank l then data_rows numeric rest
        else if starts_hash l then data_rows numeric rest
        else
          let fields := fields_of l in
          let valtexts := if numeric then tl fields else removelast (tl fields) in
          match parse_all valtexts with
          | None => RErr E_TYPE
          | Some vals =>
              match data_rows numeric rest with
              | ROk rows => ROk ((hd [] fields, vals, last fields []) :: rows)
              | RErr e => RErr e
              end
          end
    end.

  (* table.py:5286-5289: only values different from zero become [row, column, value] *)
  Definition triple := (nat * nat * Z)%type.
  Fixpoint row_triples (r j : nat) (vals : list Z) : list triple :=
    match vals with
    | [] => []
    | v :: t => (if v =? 0 then [] else [(r, j, v)]) ++ row_triples r (S j) t
    end.
  Fixpoint all_triples (r : nat) (rows : list (list Z)) : list triple :=
    match rows with [] => [] | vs :: t => row_triples r 0 vs ++ all_triples (S r) t end.

  Record extracted := mkE { e_sids : list text; e_oids : list text; e_data : list triple;
                            e_md : option (list text); e_name : option text }.

  Definition extract_tsv (lines : list text) : result extracted :=
    let '(header, data_start) := find_header lines None 0%nat in
    let checks := skipn data_start lines in
    let numeric := last_numeric checks in
    (* table.py:5236-5243; header[:] on False is a TypeError, header[-1] on [] an IndexError *)
    let ids_r : result (list text * option text) :=
      if numeric || Nat.eqb data_start 0 then
        match header with None => RErr E_TYPE | Some h => ROk (h, None) end
      else
        match header with
        | None => RErr E_TYPE
        | Some [] => RErr E_OTHER
        | Some h => ROk (removelast h, Some (last h []))
        end in
    match ids_r with
    | RErr e => RErr e
    | ROk (samp_ids, md_name) =>
        match data_rows numeric checks with
        | RErr e => RErr e
        | ROk rows =>
            ROk (mkE samp_ids (map (fun r => fst (fst r)) rows)
                     (all_triples 0 (map (fun r => snd (fst r)) rows))
                     (if numeric then None else Some (map (fun r => snd r) rows))
                     md_name)
        end
    end.

  (* ---------------- Table(data, obs_ids, sample_ids, obs_md): shape from the ids;
     _check_coordinates (repair 10b5e58d) refuses a coordinate outside that shape with a
     TableException (it was scipy's ValueError before), errcheck refuses duplicates -------- *)
  Definition lookup3 (ts : list triple) (i j : nat) : Z :=
    match find (fun t => Nat.eqb (fst (fst t)) i && Nat.eqb (snd (fst t)) j) ts with
    | Some t => snd t
    | None => 0
    end.
  Definition dense_of (n m : nat) (ts : list triple) : matrix :=
    map (fun i => map (fun j => lookup3 ts i j) (seq 0 m)) (seq 0 n).
  Definition in_shape (n m : nat) (ts : list triple) : bool :=
    forallb (fun t => Nat.ltb (fst (fst t)) n && Nat.ltb (snd (fst t)) m) ts.

  (* from_tsv with obs_mapping = sample_mapping = None, table.py:5123-5142 *)
  Definition from_tsv (lines : list text) : result ttab :=
    match extract_tsv lines with
    | RErr e => RErr e
    | ROk x =>
        (* an empty metadata list is turned into None by the constructor's _cast_metadata
           (table.py:670-672, [].count(None) == len([])) *)
        let omd := match e_md x with
                   | Some ((_ :: _) as l) =>
                       Some (map (fun v => [(match e_name x with Some n => n | None => [] end,
                                             process v)]) l)
                   | _ => None
                   end in
        let n := length (e_oids x) in
        let m := length (e_sids x) in
        if negb (in_shape n m (e_data x)) then RErr E_TABLE
        else if tdup (e_oids x) || tdup (e_sids x) then RErr E_TABLE
        else ROk (mkX (e_oids x) (e_sids x) (dense_of n m (e_data x)) omd)
    end.

  (* export, then import of the written text cut into lines by one of the feeders *)
  Definition roundtrip (brk : Z -> bool) (keep : bool) (c : ttab) (o : opts) : result ttab :=
    match to_tsv_text c o with
    | RErr e => RErr e
    | ROk t => from_tsv (feed brk keep t)
    end.
End Tsv.

(* ---- the two formatter / process pairs of `biom convert` (cli/table_converter.py:29-40) ---- *)
(* metadata values: L [I 4; L codepoints] is a str, L [I 5; L items] a list, L [I 0] None *)
Definition tStr (s : text) : Tree := L [I 4; eLZ s].
Definition tList (l : list Tree) : Tree := L [I 5; L l].
Definition str_of (v : Tree) : text := tLZ (tnth v 1).
Definition SEMI : Z := 59.
Definition SP : Z := 32.

(* '; '.join(x) *)
Definition join2 (ps : list text) : text :=
  match ps with [] => [] | p :: r => p ++ flat_map (fun q => SEMI :: SP :: q) r end.
Definition fmt_sc (v : Tree) : text := join2 (map str_of (tL (tnth v 1))).
(* [e.strip() for e in x.split(';')] *)
Definition proc_sc (t : text) : Tree := tList (map (fun e => tStr (strip e)) (split_on SEMI t)).
(* naive: identity on strings; Python's str on a str and on None *)
Definition fmt_naive (v : Tree) : text :=
  match tZ (tnth v 0) with 0 => [78;111;110;101] | _ => str_of v end.
Definition proc_naive (t : text) : Tree := tStr t.

(* ---- number text given by finite tables (how the correspondence run and the examples
   instantiate the oracle: the harness evaluates str(numpy.float64) and float() and sends
   the graph of both functions restricted to the case) ---- *)
Fixpoint tab_fmt (tab : list (Z * text)) (v : Z) : text :=
  match tab with [] => [] | (k, t) :: r => if k =? v then t else tab_fmt r v end.
Fixpoint tab_parse (tab : list (text * Z)) (t : text) : option Z :=
  match tab with [] => None | (k, v) :: r => if text_eqb k t then Some v else tab_parse r t end.
