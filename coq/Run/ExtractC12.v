From Coq Require Extraction.
From Coq Require Import ExtrOcamlBasic.
From BiomV Require Import Run.RunC12.
Extraction "c12.ml" RunC12.run.
