(* wire decoding / encoding for the C12 correspondence run *)
From Coq Require Import List Bool ZArith Arith.
From BiomV Require Import Base.Tree Base.ListUtil Base.Matrix Model.Table Model.Filter Model.Stored Model.Subsample.
Import ListNotations.

(* executable forms of the hypotheses of the theorems: the run reports whether the recorded layout
   and the recorded draws met them (the harness requires "yes" on every case, which is how the
   trusted contracts of numpy's Generator are confronted with what numpy really returned) *)
Fixpoint draws_okb (n : nat) (totals : list Z) (draws : list (list Z)) : bool :=
  match totals with
  | [] => match draws with [] => true | _ => false end
  | s :: ts => if (s <? Z.of_nat n)%Z then draws_okb n ts draws
               else match draws with [] => false | P :: rest => choice_okb s n P && draws_okb n ts rest end
  end.
Definition multi_okb (n : nat) (seg d : list Z) : bool :=
  Nat.eqb (length d) (length seg) && forallb (fun x => (0 <=? x)%Z) d && Z.eqb (zsum d) (Z.of_nat n)
  && forallb (fun p => negb (Z.eqb (fst p) 0) || Z.eqb (snd p) 0) (combine seg d).
Fixpoint multis_okb (n : nat) (segs draws : list (list Z)) : bool :=
  match segs with
  | [] => match draws with [] => true | _ => false end
  | s :: ss => match draws with [] => false | d :: rest => multi_okb n s d && multis_okb n ss rest end
  end.
Definition permb (a b : list Z) : bool :=
  Nat.eqb (length a) (length b) && negb (zdup b) && forallb (fun x => zmem x b) a.

Definition tLLZ' (t : Tree) : list (list Z) := tLLZ t.

(* [0; table; n; axis; by_id; with_replacement; lay; draws]
     -> [receiver afterwards; result; layout is a layout of the table; draws meet their contract] *)
Definition run_table (t : Tree) : Tree :=
  let tb := tTable (tnth t 1) in
  let n := tZ (tnth t 2) in
  let a := tAxis (tnth t 3) in
  let by_id := tB (tnth t 4) in
  let wr := tB (tnth t 5) in
  let lay := tLLN (tnth t 6) in
  let draws := tLLZ (tnth t 7) in
  let r := subsample n a by_id wr lay draws tb in
  (* with replacement the kernel is handed the table without its empty vectors *)
  let vs := axis_vecs a (if wr then drop_nonpositive a tb else tb) in
  let contract :=
    if by_id then permb (ids a tb) (nth 0 draws [])
    else if wr then multis_okb (Z.to_nat n) (gather_all vs lay) draws
    else draws_okb (Z.to_nat n) (map zsum vs) draws in
  let refused := (n <? 0)%Z || (wr && by_id) in        (* nothing is drawn, no kernel runs *)
  L [eTable (fst r); eResult eTable (snd r); eB (refused || (if by_id then true else lay_okb vs lay));
     eB (refused || contract)].

(* [1; with_replacement; n; indptr; data; draws] -> the arrays after the compiled kernel
     without replacement: [data'; draws left; in-bounds flag]     with: [0; data'] | error *)
Definition run_kernel (t : Tree) : Tree :=
  let n := tN (tnth t 2) in
  let indptr := tLN (tnth t 3) in
  let data := tLZ (tnth t 4) in
  let draws := tLLZ (tnth t 5) in
  if tB (tnth t 1) then
    match kernel_rep indptr data draws with
    | Some (d, _) => L [I 0; eLZ d]
    | None => eErr E_VALUE
    end
  else
    let '(d, rest, ok) := kernel_wo n indptr data draws in L [eLZ d; eN (length rest); eB ok].

Definition run0 (t : Tree) : Tree :=
  match tZ (tnth t 0) with
  | 0%Z => run_table t
  | _ => run_kernel t
  end.

(* [5; case; case] : two sub-cases evaluated side by side *)
Definition run (t : Tree) : Tree :=
  match tZ (tnth t 0) with
  | 5%Z => L [run0 (tnth t 1); run0 (tnth t 2)]
  | _ => run0 t
  end.
