From Coq Require Extraction.
From Coq Require Import ExtrOcamlBasic.
From BiomV Require Import Run.RunC16.
Extraction "c16.ml" RunC16.run.
