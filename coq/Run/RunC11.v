(* wire decoding / encoding for the C11 correspondence run.
   input:  L [I 0; table; axis; labelling; ignore_none; remove_empty]                partition
           L [I 1; table; axis; labelling; norm; min_group; incl_md; mode]           collapse one-to-one
           L [I 2; table; axis; paths; raises; strict; key; norm; incl_md; mode]     collapse one-to-many
   labelling: L [I 0; labels] | L [I 1; [[id; label]...]] | L [I 2; [[label; ids]...]] | L [I 3] | L [I 4]
   output: L [I 0; L [L [label; table]; ...]]   |  L [I 0; L [table; divisors]]  |  L [I (-1); I code] *)
From Coq Require Import List ZArith Bool.
From BiomV Require Import Base.Tree Model.Table Model.Orient Model.Partition.
Import ListNotations.

Definition tLab (t : Tree) : labelling :=
  match tZ (tnth t 0) with
  | 0%Z => LFun (tLZ (tnth t 1))
  | 1%Z => LIdMap (map (fun p => (tZ (tnth p 0), tZ (tnth p 1))) (tL (tnth t 1)))
  | 2%Z => LGrpMap (map (fun p => (tZ (tnth p 0), tLZ (tnth p 1))) (tL (tnth t 1)))
  | 3%Z => LBadMap
  | _ => LEmptyMap
  end.

Definition tPaths (t : Tree) : list (list (Tree * Z)) :=
  map (fun v => map (fun p => (tnth p 0, tZ (tnth p 1))) (tL v)) (tL t).

Definition eCollapsed (c : collapsed) : Tree := L [eTable (ctab c); eLZ (cdiv c)].

Definition run (t : Tree) : Tree :=
  let tab := tTable (tnth t 1) in
  let a := tAxis (tnth t 2) in
  match tZ (tnth t 0) with
  | 0%Z => eResult (fun l => L (map (fun lp => L [I (fst lp); eTable (snd lp)]) l))
                   (partition_t tab a (tLab (tnth t 3)) (tB (tnth t 4)) (tB (tnth t 5)))
  | 1%Z => eResult eCollapsed
                   (collapse_t tab a (OneToOne (tLab (tnth t 3)) (tZ (tnth t 5)))
                               (tB (tnth t 4)) (tB (tnth t 6)) (tZ (tnth t 7)))
  | _ => eResult eCollapsed
                 (collapse_t tab a (OneToMany (tPaths (tnth t 3)) (map tB (tL (tnth t 4))) (tB (tnth t 5)) (tnth t 6))
                             (tB (tnth t 7)) (tB (tnth t 8)) (tZ (tnth t 9)))
  end.
