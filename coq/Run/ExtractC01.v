From Coq Require Extraction.
From Coq Require Import ExtrOcamlBasic.
From BiomV Require Import Run.RunC01.
Extraction "c01.ml" RunC01.run.
