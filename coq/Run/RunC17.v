(* wire decoding / encoding for the C17 correspondence run *)
From Coq Require Import List Bool ZArith.
From BiomV Require Import Base.Tree Base.TreeStr Base.ListUtil Base.Matrix Base.Dict Model.Table Model.Err
  Model.Construct Model.UcText.
Import ListNotations.

Definition tEntry3 (t : Tree) : entry3 := (tN (tnth t 0), tN (tnth t 1), tZ (tnth t 2)).
Definition tEntries (t : Tree) : list entry3 := map tEntry3 (tL t).
Definition tCV (t : Tree) : nat * Z := (tN (tnth t 0), tZ (tnth t 1)).

Definition tInput (t : Tree) : cinput :=
  match tZ (tnth t 0) with
  | 0%Z => InArray (tN (tnth t 1)) (tN (tnth t 2)) (tLLZ (tnth t 3))
  | 1%Z => InDenseLists (tLLZ (tnth t 1))
  | 2%Z => InTriples (tEntries (tnth t 1))
  | 3%Z => InDict (tEntries (tnth t 1))
  | 4%Z => InRowArrays (tLLZ (tnth t 1))
  | 5%Z => InRowDicts (map tEntries (tL (tnth t 1)))
  | 6%Z => InSparseRows (map (fun r => (tN (tnth r 0), map tCV (tL (tnth r 1)))) (tL (tnth t 1)))
  | 8%Z => InDokRows (map (fun r => (tN (tnth r 0), map tCV (tL (tnth r 1)))) (tL (tnth t 1)))
  | _ => InSparse (tN (tnth t 1)) (tN (tnth t 2)) (tEntries (tnth t 3))
  end.

(* metadata entry: [0] None | [1; items] dict | [2; truthy; tree] anything else *)
Definition tMdin (t : Tree) : mdin :=
  match tZ (tnth t 0) with
  | 0%Z => MdNone
  | 1%Z => MdMap (tL (tnth t 1))
  | _ => MdOther (tB (tnth t 1)) (tnth t 2)
  end.
Definition tMd (t : Tree) : option (list mdin) := tOpt (fun x => map tMdin (tL x)) t.

(* profile: the default one with the given (kind, reaction) pairs set *)
Definition tProfile (t : Tree) : profile :=
  let kw := map (fun kv => (tS (tnth kv 0), tS (tnth kv 1))) (tL t) in
  {| st := fst (seterr (st default_profile) kw); calls := calls default_profile |}.

Definition tALine (t : Tree) : aline :=
  match tZ (tnth t 0) with
  | 0%Z => AHeader
  | 1%Z => ARec (tZ (tnth t 1)) (tZ (tnth t 2)) (tZ (tnth t 3))
  | _ => AJunk (tB (tnth t 1))
  end.

Definition tKind (t : Tree) : ukind :=
  match tZ t with 0%Z => UH | 1%Z => US | 2%Z => UL | _ => UOther end.
Definition tURec (t : Tree) : urec := mkU (tKind (tnth t 0)) (tLZ (tnth t 1)) (tLZ (tnth t 2)).
Definition eUT (u : uc_table) : Tree :=
  L [L (map eLZ (ut_obs u)); L (map eLZ (ut_samp u)); eLLZ (ut_mat u)].

(* [0; profile; input; oids; sids; omd; smd; type] constructor
   [1; profile; lines]                              Table.from_adjacency
   [2; records; fasta; lines; mode]                 parse_uc / _from_uc (fasta: [] or [pairs]) *)
Definition run0 (t : Tree) : Tree :=
  match tZ (tnth t 0) with
  | 0%Z => eResult eTable (construct (tProfile (tnth t 1)) (tInput (tnth t 2)) (tLZ (tnth t 3)) (tLZ (tnth t 4))
                                     (tMd (tnth t 5)) (tMd (tnth t 6)) (tZ (tnth t 7)))
  | 1%Z => eResult eTable (from_adjacency (tProfile (tnth t 1)) (map tALine (tL (tnth t 2))))
  | _ =>
      let fasta := tOpt (fun x => map (fun kv => (tLZ (tnth kv 0), tLZ (tnth kv 1))) (tL x)) (tnth t 2) in
      let by_rec := eResult eUT (from_uc (map tURec (tL (tnth t 1))) fasta) in
      let by_text := eResult eUT (from_uc_text (map tLZ (tL (tnth t 3))) fasta) in
      (* [2; records; fasta; lines; mode]: mode 0 = the records are the lines (both levels of the model
         must agree, else the marker [77] that no implementation result decodes to), 1 = text only *)
      match tZ (tnth t 4) with
      | 0%Z => if tree_eqb by_rec by_text then by_text else L [I 77%Z]
      | _ => by_text
      end
  end.

(* [9; cases] : several constructor calls evaluated side by side *)
Definition run (t : Tree) : Tree :=
  match tZ (tnth t 0) with
  | 9%Z => L (map run0 (tL (tnth t 1)))
  | _ => run0 t
  end.
