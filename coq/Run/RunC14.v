(* wire decoding / encoding for the C14 correspondence run *)
From Coq Require Import List Bool ZArith.
From BiomV Require Import Base.Tree Base.ListUtil Base.Matrix Model.Table Model.Subset Model.Slicer.
Import ListNotations.

Definition tAx (t : Tree) : h5axis :=
  mkAx (tLZ (tnth t 0)) (tLN (tnth t 1)) (tLN (tnth t 2)) (tLZ (tnth t 3)) (tOpt tL (tnth t 4)).
Definition tFile (t : Tree) : h5file := mkH5 (tAx (tnth t 0)) (tAx (tnth t 1)) (tZ (tnth t 2)).

Definition eText (s : text) : Tree := eLZ s.
Definition tTexts (t : Tree) : list text := map tLZ (tL t).

(* input: L [I kind; ...]
     0  [file]                  whole read            -> L [table; wf_file flag]
     1  [file; axis; ids]       from_hdf5(ids=, axis=)                      -> result table
     2  [file; axis; ids]       from_hdf5(..., subset_with_metadata=False)  -> result table
     3  [table; axis; ids]      parse_table(json, ids=, axis=)              -> table
     4  [text; axis; ids]       _subset_table on JSON text                  -> result text
     5  [file; axis; ids file text; L [L [id text; I code]]]   `biom subset-table -i` : the ids file is read as the
                                command reads it, each id text is looked up (unknown -> a fresh negative code)  -> result table
     6  [text; axis; ids file text]   `biom subset-table -j`  -> result text (the output file)
     7  [file; axis; ids]       parse_table(open h5py.File, ids=, axis=)      -> result table *)
Definition lookup_code (d : list (text * Z)) (k : nat) (i : text) : Z :=
  match find (fun p => teqb (fst p) i) d with Some p => snd p | None => (- Z.of_nat (S k))%Z end.
Fixpoint codes_from (d : list (text * Z)) (k : nat) (l : list text) : list Z :=
  match l with [] => [] | i :: r => lookup_code d k i :: codes_from d (S k) r end.
Definition tDict (t : Tree) : list (text * Z) := map (fun p => (tLZ (tnth p 0), tZ (tnth p 1))) (tL t).
Definition run (t : Tree) : Tree :=
  match tZ (tnth t 0) with
  | 0%Z => let f := tFile (tnth t 1) in L [eTable (from_hdf5_all f); eB (wf_fileb f)]
  | 1%Z => eResult eTable (from_hdf5_subset (tLZ (tnth t 3)) (tAxis (tnth t 2)) (tFile (tnth t 1)))
  | 2%Z => eResult eTable (from_hdf5_subset_nomd (tLZ (tnth t 3)) (tAxis (tnth t 2)) (tFile (tnth t 1)))
  | 3%Z => eTable (parse_table_subset (tLZ (tnth t 3)) (tAxis (tnth t 2)) (tTable (tnth t 1)))
  | 4%Z => eResult eText (subset_json (tLZ (tnth t 1)) (tAxis (tnth t 2)) (tTexts (tnth t 3)))
  | 5%Z => eResult eTable (from_hdf5_subset (codes_from (tDict (tnth t 4)) 0 (read_ids_file (tLZ (tnth t 3))))
                                            (tAxis (tnth t 2)) (tFile (tnth t 1)))
  | 6%Z => eResult eText (cli_subset_json (tLZ (tnth t 1)) (tAxis (tnth t 2)) (tLZ (tnth t 3)))
  | _ => eResult eTable (parse_table_h5 (tLZ (tnth t 3)) (tAxis (tnth t 2)) (tFile (tnth t 1)))
  end.
