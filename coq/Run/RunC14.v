(* wire decoding / encoding for the C14 correspondence run *)
From Coq Require Import List Bool ZArith.
From BiomV Require Import Base.Tree Base.ListUtil Base.Matrix Model.Table Model.Subset Model.Slicer.
Import ListNotations.

Definition tAx (t : Tree) : h5axis :=
  mkAx (tLZ (tnth t 0)) (tLN (tnth t 1)) (tLN (tnth t 2)) (tLZ (tnth t 3)) (tOpt tL (tnth t 4)).
Definition tFile (t : Tree) : h5file := mkH5 (tAx (tnth t 0)) (tAx (tnth t 1)) (tZ (tnth t 2)).

Definition eText (s : text) : Tree := eLZ s.
Definition tTexts (t : Tree) : list text := map tLZ (tL t).

(* input: L [I kind; ...]
     0  [file]                  whole read            -> L [table; wf_file flag]
     1  [file; axis; ids]       from_hdf5(ids=, axis=)                      -> result table
     2  [file; axis; ids]       from_hdf5(..., subset_with_metadata=False)  -> result table
     3  [table; axis; ids]      parse_table(json, ids=, axis=)              -> table
     4  [text; axis; ids]       _subset_table on JSON text                  -> result text *)
Definition run (t : Tree) : Tree :=
  match tZ (tnth t 0) with
  | 0%Z => let f := tFile (tnth t 1) in L [eTable (from_hdf5_all f); eB (wf_fileb f)]
  | 1%Z => eResult eTable (from_hdf5_subset (tLZ (tnth t 3)) (tAxis (tnth t 2)) (tFile (tnth t 1)))
  | 2%Z => eResult eTable (from_hdf5_subset_nomd (tLZ (tnth t 3)) (tAxis (tnth t 2)) (tFile (tnth t 1)))
  | 3%Z => eTable (parse_table_subset (tLZ (tnth t 3)) (tAxis (tnth t 2)) (tTable (tnth t 1)))
  | _ => eResult eText (subset_json (tLZ (tnth t 1)) (tAxis (tnth t 2)) (tTexts (tnth t 3)))
  end.
