From Coq Require Extraction.
From Coq Require Import ExtrOcamlBasic.
From BiomV Require Import Run.RunC10.
Extraction "c10.ml" RunC10.run.
