(* wire decoding / encoding for the C08 correspondence run *)
From Coq Require Import List Bool ZArith.
From BiomV Require Import Base.Tree Base.ListUtil Base.Matrix Model.Table Model.Filter.
Import ListNotations.

Definition eCall (c : list Z * Z * option Tree) : Tree :=
  let '(v, i, m) := c in L [eLZ v; I i; eOpt (fun x => x) m].

Fixpoint rebuild_rows (data : list Z) (indices indptr : list nat) (n : nat) (rows : list nat) (buf : list Z)
  : list (list Z) :=
  match rows with
  | [] => []
  | i :: rest =>
      let r := snd (rebuild data indices n (nth i indptr 0) (nth (S i) indptr 0) buf) in
      r :: rebuild_rows data indices indptr n rest r
  end.

(* [0; table; keep; invert; axis] | [1; table; verdicts; invert; axis] | [2; table; axis3] | [3; table; n; m]
   | [4; n; indptr; indices; data] *)
Definition run0 (t : Tree) : Tree :=
  match tZ (tnth t 0) with
  | 0%Z => eResult eTable (filter_ids (tLZ (tnth t 2)) (tB (tnth t 3)) (tAxis (tnth t 4)) (tTable (tnth t 1)))
  | 1%Z => let tb := tTable (tnth t 1) in let a := tAxis (tnth t 4) in
           L [eTable (filter_pred (map tB (tL (tnth t 2))) (tB (tnth t 3)) a tb);
              L (map eCall (pred_calls a tb))]
  | 2%Z => let tb := tTable (tnth t 1) in
           eTable (match tZ (tnth t 2) with
                   | 0%Z => remove_empty_axis Obs tb
                   | 1%Z => remove_empty_axis Samp tb
                   | _ => remove_empty_whole tb end)
  | 3%Z => eResult eTable (head (tZ (tnth t 2)) (tZ (tnth t 3)) (tTable (tnth t 1)))
  | _ => let n := tN (tnth t 1) in let indptr := tLN (tnth t 2) in
         eLLZ (rebuild_rows (tLZ (tnth t 4)) (tLN (tnth t 3)) indptr n
                            (seq 0 (length indptr - 1)) (repeat 0%Z n))
  end.

(* [5; case; case] : two sub-cases evaluated side by side *)
Definition run (t : Tree) : Tree :=
  match tZ (tnth t 0) with
  | 5%Z => L [run0 (tnth t 1); run0 (tnth t 2)]
  | _ => run0 t
  end.
