(* wire decoding / encoding for the C16 correspondence run *)
From Coq Require Import List Bool ZArith.
From BiomV Require Import Base.Tree Base.ListUtil Base.Matrix Model.Table Model.Sparse Model.Equality.
Import ListNotations.

(* state: L [table; fmt; L [major; minor; indptr; indices; data]; dtype] *)
Definition tState (t : Tree) : state :=
  mkS (tTable (tnth t 0)) (repr_of_cs (tFmt (tnth t 1)) (tCS (tnth t 2))) (tZ (tnth t 3)).
Definition eRepr (r : repr) : Tree := L [eFmt (rfmt r); eCS (cs_of_repr r)].

Definition tAcc (t : Tree) : accessor :=
  match tZ t with
  | 0%Z => ANnz | 1%Z => AGetRow | 2%Z => AGetCol | 3%Z => AIterObs | 4%Z => AIterSamp
  | 5%Z => ACell | 7%Z => AToHdf5 | 8%Z => AToJson | _ => ARead
  end.

(* op: [0; i; acc] | [1; i; j; kind] with kind 0 ==, 1 !=, 2 descriptive_equality | [2; i] copy *)
Definition tOp (t : Tree) : op * Z :=
  match tZ (tnth t 0) with
  | 0%Z => (OAcc (tN (tnth t 1)) (tAcc (tnth t 2)), 0%Z)
  | 1%Z => (OEq (tN (tnth t 1)) (tN (tnth t 2)), tZ (tnth t 3))
  | _ => (OCopy (tN (tnth t 1)), 0%Z)
  end.

(* what one step shows: the value returned and the representation of every table it touched *)
Definition observe (w : world) (ok : op * Z) : Tree :=
  let w' := step w (fst ok) in
  match fst ok with
  | OAcc i a =>
      L [match a with ANnz => eN (nnz_value (wget w i)) | _ => I (-1)%Z end; eRepr (rep (wget w' i));
         eB (coherentb (wget w' i))]
  | OEq i j =>
      let a := wget w i in let b := wget w j in
      L [match snd ok with
         | 0%Z => eB (eq_impl a b)
         | 1%Z => eB (ne_impl a b)
         | _ => I (desc_impl a b)
         end; eRepr (rep (wget w' i)); eRepr (rep (wget w' j))]
  | OCopy i =>
      let c := wget w' (length w) in
      L [eB (coherentb c); eRepr (rep c); eRepr (rep (wget w' i))]
  end.

Fixpoint trace (w : world) (ops : list (op * Z)) : list Tree :=
  match ops with
  | [] => []
  | o :: rest => observe w o :: trace (step w (fst o)) rest
  end.

(* input  L [L states; L ops]
   output L [L coherent-bits of the initial states; L observations;
             L [for every pair i <= j of initial states: content equal?]] *)
Definition table_eqb (a b : table) : bool :=
  head_eqb a b && mat_eqb (mat a) (mat b).
Definition run (t : Tree) : Tree :=
  let w := map tState (tL (tnth t 0)) in
  let ops := map tOp (tL (tnth t 1)) in
  L [L (map (fun s => eB (coherentb s)) w);
     L (trace w ops);
     L (map (fun s => L (map (fun s' => eB (table_eqb (cont s) (cont s'))) w)) w)].
