(* wire decoding / encoding for the C13 correspondence run *)
From Coq Require Import List Bool ZArith QArith Arith.
From BiomV Require Import Base.Tree Base.ListUtil Base.Matrix Model.Table Model.Stored Model.Sparse Model.Transform.
Import ListNotations.
Close Scope Q_scope.

Definition eCall (c : call) : Tree :=
  let '(v, i, m) := c in L [eLZ v; I i; eOpt (fun x => x) m].
Definition eQ (q : Q) : Tree := L [I (Qnum q); I (Zpos (Qden q))].
Definition eQM (m : list (list Q)) : Tree := L (map (fun r => L (map eQ r)) m).

Definition ptr_wfb (n : nat) (indptr : list nat) (len : nat) : bool :=
  Nat.eqb (length indptr) (S n) && Nat.eqb (nth 0 indptr 0) 0 && monotoneb indptr && Nat.eqb (nth n indptr 0) len.

(* [0; table; axis; inplace; lay; outs] -> [receiver afterwards; result; calls; layout stores no zero] *)
Definition run_transform (t : Tree) : Tree :=
  let tb := tTable (tnth t 1) in
  let a := tAxis (tnth t 2) in
  let lay := tLLN (tnth t 4) in
  let r := transform a (tB (tnth t 3)) lay (tLLZ (tnth t 5)) tb in
  L [eTable (fst r); eResult eTable (snd r); L (map eCall (transform_calls a lay tb)); eB (lay_okb (axis_vecs a tb) lay)].

(* [1; table; axis; lay] -> [norm matrix as (numerator, denominator) pairs; layout is a layout of the table] *)
Definition run_norm (t : Tree) : Tree :=
  let tb := tTable (tnth t 1) in
  let a := tAxis (tnth t 2) in
  let lay := tLLN (tnth t 3) in
  L [eQM (norm_mat a lay tb); eB (lay_wfb (axis_vecs a tb) lay)].

(* [2; table; one; inplace; lay] -> [receiver afterwards; result] *)
Definition run_pa (t : Tree) : Tree :=
  let r := pa (tZ (tnth t 2)) (tB (tnth t 3)) (tLLN (tnth t 4)) (tTable (tnth t 1)) in
  L [eTable (fst r); eResult eTable (snd r)].

(* [3; n; indptr; indices; data; ids; md; outs] -> the arrays after the compiled kernel, the calls,
   whether the segments were well formed *)
Definition run_kernel (t : Tree) : Tree :=
  let n := tN (tnth t 1) in
  let r := mkA (tLN (tnth t 2)) (tLN (tnth t 3)) (tLZ (tnth t 4)) in
  let res := kernel_arr n (tLZ (tnth t 5)) (tOpt tL (tnth t 6)) (tLLZ (tnth t 7)) r in
  L [eLN (a_indptr (fst res)); eLN (a_indices (fst res)); eLZ (a_data (fst res)); L (map eCall (snd res));
     eB (ptr_wfb n (a_indptr r) (length (a_data r)))].

(* [4; have; cs; axis; outs] : the representation path of Table.transform.
   arr = _get_sparse_data(axis) (CSC for samples, CSR for observations); kernel; eliminate_zeros.
   -> [arrays handed to the kernel; arrays installed afterwards] *)
Definition run_repr (t : Tree) : Tree :=
  let have := tFmt (tnth t 1) in
  let r := tCS (tnth t 2) in
  let a := tAxis (tnth t 3) in
  let want := match a with Samp => CSC | Obs => CSR end in
  let arr := asformat have want r in
  let res := kernel (major arr) (indptr arr) [] None (tLLZ (tnth t 4)) (data arr) in
  let arr' := mkCS (major arr) (minor arr) (indptr arr) (indices arr) (fst res) in
  L [eCS arr; eFmt want; eCS (eliminate_zeros arr')].

(* [5; relative_abund; presence_absence; axis; one; lay; table] : _normalize_table *)
Definition run_normalize (t : Tree) : Tree :=
  match normalize_table (tB (tnth t 1)) (tB (tnth t 2)) (tAxis (tnth t 3)) (tZ (tnth t 4)) (tLLN (tnth t 5)) (tTable (tnth t 6)) with
  | RErr c => eErr c
  | ROk (NormRel m) => L [I 0; eQM m]
  | ROk (NormPA r) => L [I 1; eTable r]
  end.

Definition run0 (t : Tree) : Tree :=
  match tZ (tnth t 0) with
  | 0%Z => run_transform t
  | 1%Z => run_norm t
  | 2%Z => run_pa t
  | 3%Z => run_kernel t
  | 4%Z => run_repr t
  | _ => run_normalize t
  end.

(* [9; case; ...] : sub-cases evaluated side by side *)
Definition run (t : Tree) : Tree :=
  match tZ (tnth t 0) with
  | 9%Z => L (map run0 (tl (tL t)))
  | _ => run0 t
  end.
