(* wire decoding / encoding for the C09 correspondence run.
   input:  L [sample mode; observation mode; sample md function; observation md function; L [self; other; ...]]
           modes: 0 union | 1 intersection | 2 anything else
           functions: 0 prefer_self | 1 prefer_other | 2 self_only | 3 other_only | 4 drop | 5 both
                      | 6 tag | 7 const | 9 None
   output: L [I 0; table]  |  L [I (-1); I code] *)
From Coq Require Import List ZArith Bool.
From BiomV Require Import Base.Tree Base.ListUtil Base.Matrix Model.Table Model.Orient Model.Merge.
Import ListNotations.

Definition tMode (t : Tree) : mode :=
  match tZ t with 0%Z => Union | 1%Z => Inter | _ => BadMode end.

(* the finite family of metadata functions the harness passes (harness/c09.py MDF) *)
Definition cls (o : option Tree) : Z :=
  match o with None => 48%Z | Some m => if md_falsy m then 49%Z else 50%Z end.
Definition tag_tree (x y : option Tree) : Tree :=
  L [I 6; L [L [L [I 119]; L [I 4; L [I (cls x); I (cls y)]]]]]%Z.
Definition const_tree : Tree := L [I 6; L [L [L [I 99]; L [I 4; L [I 107]]]]]%Z.

Definition tMdf (t : Tree) : option mdf :=
  match tZ t with
  | 0%Z => Some prefer_self
  | 1%Z => Some (fun x y => match y with Some _ => y | None => x end)
  | 2%Z => Some (fun x _ => x)
  | 3%Z => Some (fun _ y => y)
  | 4%Z => Some (fun _ _ => None)
  | 5%Z => Some (fun x y => match x, y with Some _, Some _ => x | _, _ => None end)
  | 6%Z => Some (fun x y => Some (tag_tree x y))
  | 7%Z => Some (fun _ _ => Some const_tree)
  | _ => None
  end.

Definition run (t : Tree) : Tree :=
  let sm := tMode (tnth t 0) in
  let om := tMode (tnth t 1) in
  let fs := tMdf (tnth t 2) in
  let fo := tMdf (tnth t 3) in
  match map tTable (tL (tnth t 4)) with
  | [] => eErr E_OTHER
  | self :: others => eResult eTable (merge_dispatch self others sm om fs fo)
  end.
