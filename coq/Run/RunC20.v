(* wire decoding / encoding for the C20 correspondence run *)
From Coq Require Import List String Bool ZArith.
From BiomV Require Import Base.Tree Base.TreeStr Base.Dict Model.Err.
Import ListNotations.

Definition tDictS (t : Tree) : dict string := map (fun kv => (tS (tnth kv 0), tS (tnth kv 1))) (tL t).
Definition eDictS (d : dict string) : Tree := L (map (fun kv => L [eS (fst kv); eS (snd kv)]) d).
Definition eDictZ (d : dict Z) : Tree := L (map (fun kv => L [eS (fst kv); I (snd kv)]) d).

Definition tView (t : Tree) : view :=
  {| v_empty := tB (tnth t 0); v_rows := tN (tnth t 1); v_cols := tN (tnth t 2);
     v_oids := tLZ (tnth t 3); v_sids := tLZ (tnth t 4);
     v_omd := tOpt tN (tnth t 5); v_smd := tOpt tN (tnth t 6) |}.

(* instr: [0,kw] seterr | [1,k,cb] setcall | [2,k] getcall | [3,view,args] check | [4,kw,body,exc] block *)
Fixpoint tInstr (fuel : nat) (t : Tree) : instr :=
  match fuel with
  | O => IGetcall ""
  | S f =>
    match tZ (tnth t 0) with
    | 0%Z => ISeterr (tDictS (tnth t 1))
    | 1%Z => ISetcall (tS (tnth t 1)) (tZ (tnth t 2))
    | 2%Z => IGetcall (tS (tnth t 1))
    | 3%Z => ICheck (tView (tnth t 1)) (map tS (tL (tnth t 2)))
    | _ => IBlock (tDictS (tnth t 1)) (map (tInstr f) (tL (tnth t 2))) (tB (tnth t 3))
    end
  end.

Definition eExn (e : exn) : Tree :=
  match e with KeyError _ => eErr 1 | TableException _ => eErr 2 | TypeError => eErr 3 end.
Definition eRes {A} (f : A -> Tree) (r : res A) : Tree :=
  match r with Ok a => L [I 0; f a] | Raise e => eExn e end.
Definition eEvent (e : event) : Tree :=
  match e with
  | EvNone => L [I 0]
  | EvWarn k => L [I 1; eS k]
  | EvPrint k => L [I 2; eS k]
  | EvCall k cb => L [I 3; eS k; I cb]
  | EvRaise k => L [I 4; eS k]
  end.
Definition eObs (o : obs) : Tree :=
  match o with
  | OSeterr r => L [I 0; eRes eDictS r]
  | OCall r => L [I 1; eRes I r]
  | OCheck r => L [I 2; eRes eEvent r]
  | OEnter ok => L [I 3; eB ok]
  | OExit => L [I 4]
  | OState s c => L [I 5; eDictS s; eDictZ c]
  end.

(* input: L [I fuel; L instrs]; the run starts from the default profile *)
Definition run (t : Tree) : Tree :=
  let prog := map (tInstr (tN (tnth t 0))) (tL (tnth t 1)) in
  L (map eObs (snd (exec_list default_profile prog))).
