From Coq Require Extraction.
From Coq Require Import ExtrOcamlBasic.
From BiomV Require Import Run.RunC15.
Extraction "c15.ml" RunC15.run.
