(* wire decoding / encoding for the C03 correspondence run.
   input  L [I kind; parse table; fmt table; payload...]
     parse table  L [L [text; I code]; ...]   the graph of float() on the texts of the case
     fmt table    L [L [I code; text]; ...]   the graph of str(numpy.float64) on its values
   kind 0: payload = table; opts L [hk opt; hv opt; I formatter; corner cell]; I process; I splitter; I keep
           -> L [to_tsv result; round-trip result]
   kind 1: payload = lines; I process -> L [from_tsv result]                                  *)
From Coq Require Import List ZArith Bool.
From BiomV Require Import Base.Tree Base.ListUtil Base.Matrix Model.Table Model.Tsv.
Import ListNotations.
Open Scope Z_scope.

Definition tText (t : Tree) : text := tLZ t.
Definition eText (t : text) : Tree := eLZ t.
Definition tEntry (t : Tree) : mdentry := map (fun kv => (tText (tnth kv 0), tnth kv 1)) (tL t).
Definition eEntry (e : mdentry) : Tree := L (map (fun kv => L [eText (fst kv); snd kv]) e).
Definition tXtab (t : Tree) : ttab :=
  mkX (map tText (tL (tnth t 0))) (map tText (tL (tnth t 1))) (tLLZ (tnth t 2))
      (tOpt (fun x => map tEntry (tL x)) (tnth t 3)).
Definition eXtab (c : ttab) : Tree :=
  L [L (map eText (x_oids c)); L (map eText (x_sids c)); eLLZ (x_mat c);
     eOpt (fun l => L (map eEntry l)) (x_omd c)].

Definition tParseTab (t : Tree) : list (text * Z) := map (fun kv => (tText (tnth kv 0), tZ (tnth kv 1))) (tL t).
Definition tFmtTab (t : Tree) : list (Z * text) := map (fun kv => (tZ (tnth kv 0), tText (tnth kv 1))) (tL t).

(* formatter: 0 sc_separated, 1 naive / str ; process: 0 identity (naive), 1 sc_separated *)
Definition formatter (k : Z) : Tree -> text := if k =? 0 then fmt_sc else fmt_naive.
Definition processor (k : Z) : text -> Tree := if k =? 0 then proc_naive else proc_sc.
(* splitter: 0 '\n' only (list of lines, StringIO), 1 universal newlines (path, gzip path),
   2 the str.splitlines boundaries (gzip reader before repair a8aadd7c) *)
Definition splitter (k : Z) : Z -> bool := if k =? 0 then brk_nl else if k =? 1 then brk_univ else brk_gz.

Definition run (t : Tree) : Tree :=
  let parse := tab_parse (tParseTab (tnth t 1)) in
  let fmt := tab_fmt (tFmtTab (tnth t 2)) in
  match tZ (tnth t 0) with
  | 0 =>
      let c := tXtab (tnth t 3) in
      let ot := tnth t 4 in
      let o := mkO3 (tOpt tText (tnth ot 0)) (tOpt tText (tnth ot 1)) (tText (tnth ot 3)) in
      let format := formatter (tZ (tnth ot 2)) in
      let process := processor (tZ (tnth t 5)) in
      L [eResult (fun ls => L (map eText ls)) (to_tsv fmt format c o);
         eResult eXtab (roundtrip fmt parse format process (splitter (tZ (tnth t 6))) (tB (tnth t 7)) c o)]
  | _ =>
      let lines := map tText (tL (tnth t 3)) in
      L [eResult eXtab (from_tsv parse (processor (tZ (tnth t 4))) lines)]
  end.
