(* wire decoding / encoding for the C15 correspondence run *)
From Coq Require Import String.
From Coq Require Import List Bool ZArith.
From BiomV Require Import Base.Tree Base.TreeStr Model.Table Model.Json Model.Validator.
Import ListNotations.
Open Scope Z_scope.

Definition tAttr (t : Tree) : h5attr :=
  match tZ (tnth t 0) with
  | 0 => AStr (tLZ (tnth t 1))
  | 1 => AInt (tZ (tnth t 1))
  | 2 => AFlt (tZ (tnth t 1))
  | 3 => AInts (tLZ (tnth t 1))
  | _ => AFlts (tLZ (tnth t 1))
  end.

(* node: [0,[[name,node],...]] group | [1,[texts]] | [2,ints] | [3,float codes] | [4] empty | [5,n] other kind *)
Fixpoint tNode (t : Tree) : h5node :=
  match t with
  | I _ => HEmpty
  | L l =>
      match l with
      | [I 0; L ch] =>
          HGroup (map (fun kv => match kv with
                                 | L [k; v] => (tLZ k, tNode v)
                                 | _ => ([], HEmpty)
                                 end) ch)
      | [I 1; L xs] => HStrs (map tLZ xs)
      | [I 2; L xs] => HInts (map tZ xs)
      | [I 3; L xs] => HFlts (map tZ xs)
      | [I 5; I n] => HOther (Z.to_nat n)
      | _ => HEmpty
      end
  end.

Definition tH5 (t : Tree) : h5file :=
  mkH5 (map (fun kv => (tLZ (tnth kv 0), tAttr (tnth kv 1))) (tL (tnth t 0)))
       (match tNode (L [I 0; tnth t 1]) with HGroup ch => ch | _ => [] end).

Definition eMsgs (l : list msg) : Tree := L (map eLZ l).

(* input [0, json document, version] -> [report lines or exception, valid, what from_json makes of it]
   input [1, [attrs, root members], version] -> [(valid, report lines) or exception]
   version: [] for None, [[code points]] for a --format-version text *)
Definition run (t : Tree) : Tree :=
  let fv := tOpt tLZ (tnth t 2) in
  match tZ (tnth t 0) with
  | 0 =>
      let j := tJson (tnth t 1) in
      let r := run_json fv j in
      L [eResult eMsgs r; eB (match r with ROk [] => true | _ => false end); eResult eJT (from_json j)]
  | _ =>
      let f := tH5 (tnth t 1) in
      L [eResult (fun p => L [eB (fst p); eMsgs (snd p)]) (run_hdf5 fv f)]
  end.
