(* wire decoding / encoding for the C10 correspondence run.
   input:  L [axis; L [table; ...]]   (first table = the receiver)
   output: L [I 0; table]  |  L [I (-1); I code] *)
From Coq Require Import List ZArith Bool.
From BiomV Require Import Base.Tree Model.Table Model.Orient Model.Concat.
Import ListNotations.

Definition run (t : Tree) : Tree :=
  let a := tAxis (tnth t 0) in
  let ts := map tTable (tL (tnth t 1)) in
  eResult eTable (concat_t ts a).
