(* wire decoding / encoding for the C10 correspondence run.
   input:  L [axis; L [table; ...]; L [other receiver; ...]]   (first table = the receiver)
   output: L [result; L [result with the i-th other receiver in place of the receiver; ...]]
   result: L [I 0; table]  |  L [I (-1); I code] *)
From Coq Require Import List ZArith Bool.
From BiomV Require Import Base.Tree Model.Table Model.Orient Model.Concat.
Import ListNotations.

Definition run (t : Tree) : Tree :=
  let a := tAxis (tnth t 0) in
  let ts := map tTable (tL (tnth t 1)) in
  L [eResult eTable (concat_t ts a);
     L (map (fun b => eResult eTable (concat_t (tTable b :: tl ts) a)) (tL (tnth t 2)))].
