From Coq Require Extraction.
From Coq Require Import ExtrOcamlBasic.
From BiomV Require Import Run.RunC02.
Extraction "c02.ml" RunC02.run.
