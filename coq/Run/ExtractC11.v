From Coq Require Extraction.
From Coq Require Import ExtrOcamlBasic.
From BiomV Require Import Run.RunC11.
Extraction "c11.ml" RunC11.run.
