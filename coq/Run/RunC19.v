(* wire decoding / encoding for the C19 correspondence run *)
From Coq Require Import List Bool ZArith.
From BiomV Require Import Base.Tree Base.ListUtil Base.Matrix Model.Table Model.Sparse Model.Summary.
Import ListNotations.

(* L [oids; sids; fmt; L [major; minor; indptr; indices; data]; omd; smd] *)
Definition tRT (t : Tree) : rtable :=
  of_cs (tLZ (tnth t 0)) (tLZ (tnth t 1)) (tFmt (tnth t 2)) (tCS (tnth t 3))
        (tOpt tL (tnth t 4)) (tOpt tL (tnth t 5)).

Definition tAxis3 (t : Tree) : axis3 :=
  match tZ t with 0%Z => AObs | 1%Z => ASamp | _ => AWhole end.
Definition ePairZ (p : Z * Z) : Tree := L [I (fst p); I (snd p)].
Definition eFigure (f : figure) : Tree :=
  match f with
  | FZ z => L [I 0%Z; I z]
  | FQ q => L [I 1%Z; I (fst q); I (snd q)]
  | FKeys None => L [I 2%Z]
  | FKeys (Some ks) => L [I 3%Z; L ks]
  end.
Definition eReport (r : list (Z * figure) * list (Z * Z)) : Tree :=
  L [L (map (fun lf => L [I (fst lf); eFigure (snd lf)]) (fst r)); L (map ePairZ (snd r))].
Definition eStats (s : Z * Z * (Z * Z) * (Z * Z) * list (Z * Z)) : Tree :=
  let '(mn, mx, med, avg, counts) := s in
  L [I mn; I mx; ePairZ med; ePairZ avg; L (map ePairZ counts)].
Definition fcode (c : Z) : Z -> Z -> Z :=
  match c with
  | 0%Z => Z.add
  | 1%Z => Z.sub
  | _ => Z.max
  end.
Definition eExtreme (op : Z -> Z -> Z) (a : axis3) (rt : rtable) : Tree :=
  match a with
  | AObs => eResult eLZ (r_extreme op Obs rt)
  | ASamp => eResult eLZ (r_extreme op Samp rt)
  | AWhole => eResult (eOpt I) (r_extreme_whole op rt)
  end.
Definition eMdDf (r : list Tree * list (Z * list Tree)) : Tree :=
  L [L (fst r); L (map (fun ic => L [I (fst ic); L (snd ic)]) (snd r))].

Definition run (t : Tree) : Tree :=
  let rt := tRT (tnth t 1) in
  match tZ (tnth t 0) with
  | 0%Z => eLZ (r_sum3 (tAxis3 (tnth t 2)) rt)
  | 1%Z => eExtreme Z.min (tAxis3 (tnth t 2)) rt
  | 2%Z => eExtreme Z.max (tAxis3 (tnth t 2)) rt
  | 3%Z => L (map ePairZ (r_nonzero rt))
  | 4%Z => eLZ (r_nonzero_counts (tAxis3 (tnth t 2)) (tB (tnth t 3)) rt)
  | 5%Z => eResult eLZ (r_reduce (fcode (tZ (tnth t 2))) (tAxis (tnth t 3)) rt)
  | 6%Z => ePairZ (r_density rt)
  | 7%Z => eStats (r_stats (tB (tnth t 2)) rt)
  | 8%Z => eReport (r_report (tB (tnth t 2)) (tB (tnth t 3)) rt)
  | 9%Z => eLZ (r_table_ids (tB (tnth t 2)) rt)
  | 10%Z => eResult (fun r => L [eLZ (fst r); L (map (fun ov => L [I (fst ov); eLZ (snd ov)]) (snd r))])
                    (cli_head (tZ (tnth t 2)) (tZ (tnth t 3)) rt)
  | 11%Z => let '(o, s, m) := df_dense rt in L [eLZ o; eLZ s; eLLZ m]
  | 12%Z => L (map (fun row => L (map (eOpt I) row)) (df_sparse rt))
  | 13%Z => eResult eMdDf (r_md_df (tAxis (tnth t 2)) rt)
  | 15%Z => eLLZ (r_vectors (tAxis (tnth t 2)) rt)
  | _ => eN (r_nnz rt)
  end.
