From Coq Require Extraction.
From Coq Require Import ExtrOcamlBasic.
From BiomV Require Import Run.RunC05.
Extraction "c05.ml" RunC05.run.
