(* wire decoding / encoding for the C18 correspondence run.
   table   L [oids; sids; matrix; omd opt; smd opt]   ids are texts, an entry is L [L [key; value]; ...]
   kind 0  L [I 0; table; mapping; I axis]                     add_metadata (axis 0 obs, 1 sample, else unknown)
   kind 1  L [I 1; table; keys opt; I sel]                     del_metadata (0 obs, 1 sample, 2 whole, else unknown)
   kind 2  L [I 2; conv; I sq; I ss; header; colopts; lines]   MetadataMap.from_file on raw lines
   kind 3  L [I 3; conv; table; samp opt; obs opt; colopts; samp_header; obs_header]   _add_metadata
   kind 4  L [I 4; conv; I sq; I ss; header; colopts; grammar] render + parse + relation
   kind 5  L [I 5; tables; steps]   history over several tables -> the tables after every step
           step  L [I 0; I ti; I axis; L [L [id; src]; ...]]   src = L [I 0; entry] | L [I 1; I tj; I axis; id]
                 L [I 1; I ti; keys opt; I sel]
                 L [I 2; I ti; I axis; id; key]        a read  t.metadata(id, axis)[key]
   conv    L [L [I kind; text; value]; ...]   the graph of int() / float() on the texts of the case *)
From Coq Require Import List ZArith Bool.
From BiomV Require Import Base.Tree Base.ListUtil Base.Matrix Model.Table Model.Tsv Model.Metadata.
Import ListNotations.
Open Scope Z_scope.

Definition tText (t : Tree) : text := tLZ t.
Definition eText (t : text) : Tree := eLZ t.
Definition tTexts (t : Tree) : list text := map tText (tL t).
Definition tAssoc (t : Tree) : assoc := map (fun kv => (tText (tnth kv 0), tnth kv 1)) (tL t).
Definition eAssoc (e : assoc) : Tree := L (map (fun kv => L [eText (fst kv); snd kv]) e).
Definition tMd (t : Tree) : option (list assoc) := tOpt (fun x => map tAssoc (tL x)) t.
Definition eMd (m : option (list assoc)) : Tree := eOpt (fun l => L (map eAssoc l)) m.
Definition tMtab (t : Tree) : mtab :=
  mkM (tTexts (tnth t 0)) (tTexts (tnth t 1)) (tLLZ (tnth t 2)) (tMd (tnth t 3)) (tMd (tnth t 4)).
Definition eMtab (t : mtab) : Tree :=
  L [L (map eText (m_oids t)); L (map eText (m_sids t)); eLLZ (m_mat t); eMd (m_omd t); eMd (m_smd t)].
Definition tMapping (t : Tree) : mapping := map (fun kv => (tText (tnth kv 0), tAssoc (tnth kv 1))) (tL t).
Definition eMapping (m : mapping) : Tree := L (map (fun kv => L [eText (fst kv); eAssoc (snd kv)]) m).

Fixpoint conv_of (tab : list (Z * text * Tree)) (k : Z) (t : text) : option Tree :=
  match tab with
  | [] => None
  | (k', t', v) :: r => if (k =? k') && text_eqb t t' then Some v else conv_of r k t
  end.
Definition tConv (t : Tree) : Z -> text -> option Tree :=
  conv_of (map (fun e => (tZ (tnth e 0), tText (tnth e 1), tnth e 2)) (tL t)).
Definition tColopts (t : Tree) : colopts :=
  mkC (tTexts (tnth t 0)) (tTexts (tnth t 1)) (tTexts (tnth t 2)) (tTexts (tnth t 3)).
Definition tItem (t : Tree) : mitem :=
  match tZ (tnth t 0) with
  | 0 => MComment (tText (tnth t 1))
  | 1 => MBlank (tText (tnth t 1))
  | _ => MRow (tTexts (tnth t 1))
  end.
Definition tMfile (t : Tree) : mfile := mkF (tTexts (tnth t 0)) (tTexts (tnth t 1)) (map tItem (tL (tnth t 2))).

Definition tSrc (t : Tree) : esrc :=
  if tZ (tnth t 0) =? 0 then ELit (tAssoc (tnth t 1))
  else ERef (tN (tnth t 1)) (tAxis (tnth t 2)) (tText (tnth t 3)).
Definition tSel (z : Z) : axsel := if z =? 0 then SelObs else if z =? 1 then SelSamp else SelWhole.
Definition tStep (t : Tree) : minstr :=
  if tZ (tnth t 0) =? 0
  then IAdd (tN (tnth t 1)) (tAxis (tnth t 2)) (map (fun kv => (tText (tnth kv 0), tSrc (tnth kv 1))) (tL (tnth t 3)))
  else if tZ (tnth t 0) =? 1
  then IDel (tN (tnth t 1)) (tOpt tTexts (tnth t 2)) (tSel (tZ (tnth t 3)))
  else IRead (tN (tnth t 1)) (tAxis (tnth t 2)) (tText (tnth t 3)) (tText (tnth t 4)).

Definition run (t : Tree) : Tree :=
  match tZ (tnth t 0) with
  | 0 =>
      let a := tZ (tnth t 3) in
      if a =? 0 then eResult eMtab (ROk (add_metadata (tMtab (tnth t 1)) (tMapping (tnth t 2)) Obs))
      else if a =? 1 then eResult eMtab (ROk (add_metadata (tMtab (tnth t 1)) (tMapping (tnth t 2)) Samp))
      else eErr E_UNKNOWN
  | 1 =>
      let s := tZ (tnth t 3) in
      let keys := tOpt tTexts (tnth t 2) in
      if s =? 0 then eResult eMtab (ROk (del_metadata (tMtab (tnth t 1)) keys SelObs))
      else if s =? 1 then eResult eMtab (ROk (del_metadata (tMtab (tnth t 1)) keys SelSamp))
      else if s =? 2 then eResult eMtab (ROk (del_metadata (tMtab (tnth t 1)) keys SelWhole))
      else eErr E_UNKNOWN
  | 2 =>
      eResult eMapping (parse_mapping (tConv (tnth t 1)) (tB (tnth t 2)) (tB (tnth t 3)) (tTexts (tnth t 4))
                                      (tColopts (tnth t 5)) (tTexts (tnth t 6)))
  | 3 =>
      eResult eMtab (cli_add (tConv (tnth t 1)) (tMtab (tnth t 2)) (tOpt tTexts (tnth t 3)) (tOpt tTexts (tnth t 4))
                             (tColopts (tnth t 5)) (tTexts (tnth t 6)) (tTexts (tnth t 7)))
  | 5 =>
      L (map (fun ts => L (map eMtab ts)) (mexec (map tMtab (tL (tnth t 1))) (map tStep (tL (tnth t 2)))))
  | _ =>
      let conv := tConv (tnth t 1) in
      let sq := tB (tnth t 2) in let ss := tB (tnth t 3) in
      let h := tTexts (tnth t 4) in let o := tColopts (tnth t 5) in
      let g := tMfile (tnth t 6) in
      L [L (map eText (render g));
         eResult eMapping (parse_mapping conv sq ss h o (render g));
         eMapping (relation conv sq ss h o g)]
  end.
