From Coq Require Extraction.
From Coq Require Import ExtrOcamlBasic.
From BiomV Require Import Run.RunC07.
Extraction "c07.ml" RunC07.run.
