From Coq Require Extraction.
From Coq Require Import ExtrOcamlBasic.
From BiomV Require Import Run.RunC03.
Extraction "c03.ml" RunC03.run.
