(* wire decoding / encoding for the C05 correspondence run *)
From Coq Require Import List Bool ZArith.
From BiomV Require Import Base.Tree Base.ListUtil Base.Matrix Model.Table Model.Filter Model.Reorder
  Model.Merge Model.Concat Model.Partition Model.Ops Model.Indexed.
Import ListNotations.

Definition tPairs (t : Tree) : list (Z * Z) := map (fun p => (tZ (tnth p 0), tZ (tnth p 1))) (tL t).
Definition tAmode (t : Tree) : amode :=
  match tZ t with 0%Z => ASample | 1%Z => AObservation | 2%Z => ABoth | 3%Z => ADetect | _ => AUnknown end.

Definition tOp (t : Tree) : op :=
  match tZ (tnth t 0) with
  | 0%Z => OFilterIds (tLZ (tnth t 1)) (tB (tnth t 2)) (tAxis (tnth t 3))
  | 1%Z => OFilterPred (map tB (tL (tnth t 1))) (tB (tnth t 2)) (tAxis (tnth t 3))
  | 2%Z => ORemoveEmpty (tZ (tnth t 1))
  | 3%Z => OHead (tZ (tnth t 1)) (tZ (tnth t 2))
  | 4%Z => OSortOrder (tLZ (tnth t 1)) (tAxis (tnth t 2))
  | 5%Z => OTranspose
  | 6%Z => OCopy
  | 7%Z => OUpdateIds (tPairs (tnth t 1)) (tAxis (tnth t 2)) (tB (tnth t 3)) (tB (tnth t 4))
  | 8%Z => OSetMd (tZ (tnth t 1)) (tOpt tL (tnth t 2)) (tOpt tL (tnth t 3))
  | 9%Z => OSetMat (tLLZ (tnth t 1))
  | 10%Z => OSetTable (tTable (tnth t 1))
  | 11%Z => OConcat [tTable (tnth t 1)] (tAxis (tnth t 2))
  | 12%Z => OAlignTo (tTable (tnth t 1)) (tAmode (tnth t 2))
  | 98%Z => OFail (tZ (tnth t 1))
  | _ => ONop
  end.

Definition eIx (d : list (Z * nat)) : Tree := L (map (fun kv => L [I (fst kv); I (Z.of_nat (snd kv))]) d).

(* input: L [start table; L ops]; output: the start state and the state after every step, each with the
   two STORED id -> position dictionaries (Model/Indexed.v; the content is that of Model/Ops.v trace,
   Props/C05.v stored_index_every_state) *)
Definition run (t : Tree) : Tree :=
  let start := fresh (tTable (tnth t 0)) in
  L (map (fun ci => L [I (fst ci); eTable (body (snd ci)); eIx (oix (snd ci)); eIx (six (snd ci))])
         ((0%Z, start) :: itrace start (map tOp (tL (tnth t 1))))).
