From Coq Require Extraction.
From Coq Require Import ExtrOcamlBasic.
From BiomV Require Import Run.RunC08.
Extraction "c08.ml" RunC08.run.
