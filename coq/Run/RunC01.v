(* C01 correspondence run.
   case  L [I 0; state; genby; date] -> L [written file; table loaded from the sample copy;
                                            table loaded from the observation copy;
                                            does the case satisfy the hypotheses of hdf5_roundtrip;
                                            for every later generation (the state of the table that was
                                            loaded and is written again, 5th element: L [state; generated-by; date] each):
                                            L [written file; table loaded from it; hypotheses]]
   case  L [I 1; bytes]              -> the strict UTF-8 decoder on arbitrary bytes
   case  L [I 2; text]               -> escape / unescape of a category name *)
From Coq Require Import List Bool ZArith.
From BiomV Require Import Base.Tree Base.ListUtil Base.Matrix Model.Table Model.Sparse Model.Hdf5 Run.WireH5.
Import ListNotations.

Definition run (t : Tree) : Tree :=
  match tZ (tnth t 0) with
  | 0%Z =>
    let st := tState (tnth t 1) in
    let w := write_state (tnth t 1) (tLZ (tnth t 2)) (tLZ (tnth t 3)) in
    L [eResult eH5 w;
       eResult eLoaded (bind w (fun f => from_hdf5 f Samp));
       eResult eLoaded (bind w (fun f => from_hdf5 f Obs));
       eB (in_domainb st (tLZ (tnth t 2)) (tLZ (tnth t 3)));
       L (map (fun e => let t2 := tnth e 0 in let g2 := tLZ (tnth e 1) in let d2 := tLZ (tnth e 2) in
                        let w2 := write_state t2 g2 d2 in
                        L [eResult eH5 w2; eResult eLoaded (bind w2 (fun f => from_hdf5 f Samp));
                           eB (in_domainb (tState t2) g2 d2)])
               (tL (tnth t 4)))]
  | 1%Z => eOpt eLZ (utf8_decode (tLZ (tnth t 1)))
  | _ => L [eLZ (utf8_encode (sanitize (tLZ (tnth t 1)))); eLZ (unsanitize (sanitize (tLZ (tnth t 1))))]
  end.
