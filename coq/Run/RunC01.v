(* C01 correspondence run.
   case  L [I 0; state; genby; date] -> L [written file; table loaded from the sample copy;
                                            table loaded from the observation copy;
                                            does the case satisfy the hypotheses of hdf5_roundtrip]
   case  L [I 1; bytes]              -> the strict UTF-8 decoder on arbitrary bytes
   case  L [I 2; text]               -> escape / unescape of a category name *)
From Coq Require Import List Bool ZArith.
From BiomV Require Import Base.Tree Base.ListUtil Base.Matrix Model.Table Model.Sparse Model.Hdf5 Run.WireH5.
Import ListNotations.

Definition run (t : Tree) : Tree :=
  match tZ (tnth t 0) with
  | 0%Z =>
    let st := tState (tnth t 1) in
    let w := to_hdf5 st (tLZ (tnth t 2)) (tLZ (tnth t 3)) in
    L [eResult eH5 w;
       eResult eLoaded (bind w (fun f => from_hdf5 f Samp));
       eResult eLoaded (bind w (fun f => from_hdf5 f Obs));
       eB (in_domainb st (tLZ (tnth t 2)) (tLZ (tnth t 3)))]
  | 1%Z => eOpt eLZ (utf8_decode (tLZ (tnth t 1)))
  | _ => L [eLZ (utf8_encode (sanitize (tLZ (tnth t 1)))); eLZ (unsanitize (sanitize (tLZ (tnth t 1))))]
  end.
