(* C04 correspondence run.
   case  L [state; genby; date] -> L [written file; spec decoder on the observation copy;
                                       spec decoder on the sample copy;
                                       does the case satisfy the hypotheses of hdf5_conforms] *)
From Coq Require Import List Bool ZArith.
From BiomV Require Import Base.Tree Base.ListUtil Base.Matrix Model.Table Model.Sparse Model.Hdf5 Run.WireH5.
Import ListNotations.

Definition run (t : Tree) : Tree :=
  let st := tState (tnth t 0) in
  let w := to_hdf5 st (tLZ (tnth t 1)) (tLZ (tnth t 2)) in
  match w with
  | ROk f => L [eResult eH5 w; eOpt (fun m => L (map eBigs m)) (spec_decode_csr f); eOpt (fun m => L (map eBigs m)) (spec_decode_csc f);
                eB (in_domainb st (tLZ (tnth t 1)) (tLZ (tnth t 2)) && type_in_vocabb st)]
  | RErr e => L [eErr e; L []; L []; I 0]
  end.
