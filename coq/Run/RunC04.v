(* C04 correspondence run.
   case  L [state; genby; date] -> L [written file; spec decoder on the observation copy;
                                       spec decoder on the sample copy;
                                       does the case satisfy the hypotheses of hdf5_conforms;
                                       for every later generation (4th element: states of the
                                       table loaded and written again): L [file; csr; csc]] *)
From Coq Require Import List Bool ZArith.
From BiomV Require Import Base.Tree Base.ListUtil Base.Matrix Model.Table Model.Sparse Model.Hdf5 Run.WireH5.
Import ListNotations.

Definition run (t : Tree) : Tree :=
  let st := tState (tnth t 0) in
  let later := L (map (fun e => match write_state (tnth e 0) (tLZ (tnth e 1)) (tLZ (tnth e 2)) with
                                  | ROk f2 => L [eResult eH5 (ROk f2); eOpt (fun m => L (map eBigs m)) (spec_decode_csr f2);
                                                 eOpt (fun m => L (map eBigs m)) (spec_decode_csc f2)]
                                  | RErr e => L [eErr e; L []; L []]
                                  end) (tL (tnth t 3))) in
  let w := write_state (tnth t 0) (tLZ (tnth t 1)) (tLZ (tnth t 2)) in
  match w with
  | ROk f => L [eResult eH5 w; eOpt (fun m => L (map eBigs m)) (spec_decode_csr f); eOpt (fun m => L (map eBigs m)) (spec_decode_csc f);
                eB (in_domainb st (tLZ (tnth t 1)) (tLZ (tnth t 2)) && type_in_vocabb st); later]
  | RErr e => L [eErr e; L []; L []; I 0; later]
  end.
