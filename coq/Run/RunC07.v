(* wire decoding / encoding for the C07 correspondence run *)
From Coq Require Import List Bool ZArith.
From BiomV Require Import Base.Tree Base.ListUtil Base.Matrix Model.Table Model.Filter Model.Reorder Model.Inplace Model.Effects.
Import ListNotations.

Definition tOp (t : Tree) : opk := nth (tN t) all_op OCopy.
Definition tLay (t : Tree) : lay := if Z.eqb (tZ t) 0 then CSR else CSC.
Definition eLay (k : lay) : Tree := match k with CSR => I 0 | CSC => I 1 end.
Definition tAx3 (t : Tree) : ax3 := match tZ t with 0%Z => XObs | 1%Z => XSamp | _ => XWhole end.
Definition tMdk (t : Tree) : mdk := match tZ t with 0%Z => MdNone | 1%Z => MdFlat | _ => MdNested end.
Definition tbl_code (t : tbl) : Z :=
  match t with Recv => 0 | Arg => 1 | Copy => 2 | Work => 3 | Work2 => 4 | Mid => 5 | Res => 6 end.
Definition comp_code (c : comp) : Z :=
  match c with M => 0 | IdO => 1 | IdS => 2 | DictO => 3 | DictS => 4 | ValO => 5 | ValS => 6 end.
Definition tPairs (t : Tree) : list (Z * Z) := map (fun p => (tZ (tnth p 0), tZ (tnth p 1))) (tL t).

(* content part: [] | [0; table; keep; invert; axis] | [1; table; axis3] | [2; table; pairs; axis; strict] *)
Definition run_content (inplace : bool) (t : Tree) : Tree :=
  match tL t with
  | [] => L []
  | _ =>
    let tb := tTable (tnth t 1) in
    eOutcome
      (match tZ (tnth t 0) with
       | 0%Z => filter_call (tLZ (tnth t 2)) (tB (tnth t 3)) (tAxis (tnth t 4)) inplace tb
       | 1%Z => remove_empty_call (tZ (tnth t 2)) inplace tb
       | _ => update_ids_call (tPairs (tnth t 2)) (tAxis (tnth t 3)) (tB (tnth t 4)) inplace tb
       end)
  end.

(* [op; layout; inplace; axis3; mdo; mds; amdo; amds; view; b_o; b_s; content; argument layout] ->
   [works in place; aliases of the result with the inputs; layout of the receiver afterwards;
    layout of the argument afterwards; content outcome] *)
Definition run (t : Tree) : Tree :=
  let o := tOp (tnth t 0) in
  let lk := tLay (tnth t 1) in
  let fl := mkF (tB (tnth t 2)) (tAx3 (tnth t 3)) (tMdk (tnth t 4)) (tMdk (tnth t 5)) (tMdk (tnth t 6)) (tMdk (tnth t 7))
                (tB (tnth t 8)) (tB (tnth t 9)) (tB (tnth t 10)) in
  let effs := eff o lk fl in
  L [eB (in_place o fl);
     L (map (fun p => L [I (comp_code (fst p)); I (tbl_code (fst (snd p))); I (comp_code (snd (snd p)))]) (aliases effs));
     eLay (layout_after Recv lk effs);
     eLay (layout_after Arg (tLay (tnth t 12)) effs);
     run_content (in_place o fl) (tnth t 11)].
