(* wire codecs shared by the C01 and C04 correspondence runs *)
From Coq Require Import List Bool ZArith.
From BiomV Require Import Base.Tree Base.ListUtil Base.Matrix Model.Table Model.Sparse Model.Hdf5.
Import ListNotations.

(* 64 bit patterns do not fit the driver's native integers: a value crosses the wire as
   L [I hi; I lo]  with  value = hi * 2^32 + lo,  0 <= lo < 2^32 *)
Definition tBig (t : Tree) : Z := (tZ (tnth t 0) * 4294967296 + tZ (tnth t 1))%Z.
Definition eBig (z : Z) : Tree := L [I (z / 4294967296)%Z; I (z mod 4294967296)%Z].
Definition tBigs (t : Tree) : list Z := map tBig (tL t).
Definition eBigs (l : list Z) : Tree := L (map eBig l).
Definition tCSbig (t : Tree) : cs :=
  mkCS (tN (tnth t 0)) (tN (tnth t 1)) (tLN (tnth t 2)) (tLN (tnth t 3)) (tBigs (tnth t 4)).

Definition tStrs (t : Tree) : list (list Z) := map tLZ (tL t).
Definition eStrs (l : list (list Z)) : Tree := L (map eLZ l).

(* L[0] None | L[1; str] | L[2; z] int | L[3; bits] float | L[4; b] bool | L[5; L strs] *)
Definition tMdval (t : Tree) : mdval :=
  match tZ (tnth t 0) with
  | 1%Z => MStr (tLZ (tnth t 1))
  | 2%Z => MInt (tBig (tnth t 1))
  | 3%Z => MFloat (tBig (tnth t 1))
  | 4%Z => MBool (tB (tnth t 1))
  | 5%Z => MList (tStrs (tnth t 1))
  | _ => MNone
  end.
Definition eMdval (v : mdval) : Tree :=
  match v with
  | MNone => L [I 0]
  | MStr s => L [I 1; eLZ s]
  | MInt z => L [I 2; eBig z]
  | MFloat z => L [I 3; eBig z]
  | MBool b => L [I 4; eB b]
  | MList l => L [I 5; eStrs l]
  end.
Definition tRow (t : Tree) : mdrow := map (fun kv => (tLZ (tnth kv 0), tMdval (tnth kv 1))) (tL t).
Definition eRow (r : mdrow) : Tree := L (map (fun kv => L [eLZ (fst kv); eMdval (snd kv)]) r).
Definition tMd (t : Tree) : option (list mdrow) := tOpt (fun x => map tRow (tL x)) t.
Definition eMd (m : option (list mdrow)) : Tree := eOpt (fun rows => L (map eRow rows)) m.
Definition tGmd (t : Tree) : list (str * (str * str)) :=
  map (fun e => (tLZ (tnth e 0), (tLZ (tnth e 1), tLZ (tnth e 2)))) (tL t).

(* a group-metadata entry is  L [key; data type; payload]  or, for a loaded table,  L [key; text] *)
Definition tGmdRaw (t : Tree) : list (str * gval) :=
  map (fun e => (tLZ (tnth e 0),
                 match tL e with
                 | [_; _; _] => GPair (tLZ (tnth e 1)) (tLZ (tnth e 2))
                 | _ => GText (tLZ (tnth e 1))
                 end)) (tL t).
(* L [oids; sids; fmt; cs; omd; smd; type; id; ogmd; sgmd] *)
Definition tState (t : Tree) : state :=
  mkSt (tStrs (tnth t 0)) (tStrs (tnth t 1)) (tFmt (tnth t 2)) (tCSbig (tnth t 3))
       (tMd (tnth t 4)) (tMd (tnth t 5)) (tOpt tLZ (tnth t 6)) (tOpt tLZ (tnth t 7))
       (tGmd (tnth t 8)) (tGmd (tnth t 9)).
(* write a state whose group metadata are as its history left them *)
Definition write_state (t : Tree) (genby date : str) : result h5 :=
  to_hdf5_raw (tState t) (tGmdRaw (tnth t 8)) (tGmdRaw (tnth t 9)) genby date.

Definition eKind (k : dkind) : Tree :=
  match k with KF64 => I 0 | KI32 => I 1 | KI64 => I 2 | KBool => I 3 | KVStr => I 4 end.
Definition eAval (v : aval) : Tree :=
  match v with AStr b => L [I 0; eLZ b] | AInt z => L [I 1; I z] | AInts l => L [I 2; eLZ l] end.
Definition eDset (pd : path * dset) : Tree :=
  let d := snd pd in
  L [eStrs (fst pd); eKind (d_kind d); eLN (d_shape d); eBigs (d_num d); eStrs (d_str d);
     L (map (fun kv => L [eLZ (fst kv); eLZ (snd kv)]) (d_attrs d))].
Definition eH5 (f : h5) : Tree :=
  L [L (map (fun kv => L [eLZ (fst kv); eAval (snd kv)]) (attrs f));
     L (map eStrs (groups f));
     L (map eDset (dsets f))].
Definition eLoaded (l : loaded) : Tree :=
  L [eStrs (l_oids l); eStrs (l_sids l); L (map eBigs (l_mat l)); eMd (l_omd l); eMd (l_smd l);
     eOpt eLZ (l_type l); eLZ (l_id l); eLZ (l_genby l); eLZ (l_date l);
     L (map (fun kv => L [eLZ (fst kv); eLZ (snd kv)]) (l_ogmd l));
     L (map (fun kv => L [eLZ (fst kv); eLZ (snd kv)]) (l_sgmd l))].
