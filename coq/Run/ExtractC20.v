From Coq Require Extraction.
From Coq Require Import ExtrOcamlBasic.
From BiomV Require Import Run.RunC20.
Extraction "c20.ml" RunC20.run.
