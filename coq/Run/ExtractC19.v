From Coq Require Extraction.
From Coq Require Import ExtrOcamlBasic.
From BiomV Require Import Run.RunC19.
Extraction "c19.ml" RunC19.run.
