From Coq Require Extraction.
From Coq Require Import ExtrOcamlBasic.
From BiomV Require Import Run.RunC13.
Extraction "c13.ml" RunC13.run.
