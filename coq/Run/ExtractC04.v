From Coq Require Extraction.
From Coq Require Import ExtrOcamlBasic.
From BiomV Require Import Run.RunC04.
Extraction "c04.ml" RunC04.run.
