From Coq Require Extraction.
From Coq Require Import ExtrOcamlBasic.
From BiomV Require Import Run.RunC09.
Extraction "c09.ml" RunC09.run.
