From Coq Require Extraction.
From Coq Require Import ExtrOcamlBasic.
From BiomV Require Import Run.RunC14.
Extraction "c14.ml" RunC14.run.
