(* wire decoding / encoding for the C06 correspondence run *)
From Coq Require Import List Bool ZArith.
From BiomV Require Import Base.Tree Base.ListUtil Base.Matrix Model.Table Model.Reorder.
Import ListNotations.

Definition tMode (t : Tree) : amode :=
  match tZ t with 0%Z => AObservation | 1%Z => ASample | 2%Z => ABoth | 3%Z => ADetect | _ => AUnknown end.
Definition tPairs (t : Tree) : list (Z * Z) := map (fun p => (tZ (tnth p 0), tZ (tnth p 1))) (tL t).

(* [0; table; order; axis]            sort_order
   [1; table; sorted ids; axis]       sort, the sorting function being "whatever returned this list"
   [2; table; other table; mode]      align_to
   [3; table] transpose   [4; table] transpose twice   [5; table] copy
   [6; table; id_map pairs; axis; strict; inplace]     update_ids
   [7; table; order; axis]            sort_order, then sort_order back to the original order
   [8; table; order; axis; sorted]    sort_order (a prior history), then sort *)
Definition run (t : Tree) : Tree :=
  let tb := tTable (tnth t 1) in
  eResult eTable
    (match tZ (tnth t 0) with
     | 0%Z => sort_order (tLZ (tnth t 2)) (tAxis (tnth t 3)) tb
     | 1%Z => sort (fun _ => tLZ (tnth t 2)) (tAxis (tnth t 3)) tb
     | 2%Z => align_to (tTable (tnth t 2)) (tMode (tnth t 3)) tb
     | 3%Z => ROk (transpose_c tb)
     | 4%Z => ROk (transpose_c (transpose_c tb))
     | 5%Z => ROk (copy tb)
     | 6%Z => update_ids (tPairs (tnth t 2)) (tAxis (tnth t 3)) (tB (tnth t 4)) (tB (tnth t 5)) tb
     | 7%Z => let a := tAxis (tnth t 3) in rbind (sort_order (tLZ (tnth t 2)) a tb) (sort_order (ids a tb) a)
     | _ => let a := tAxis (tnth t 3) in
            rbind (sort_order (tLZ (tnth t 2)) a tb) (sort (fun _ => tLZ (tnth t 4)) a)
     end).
