From Coq Require Extraction.
From Coq Require Import ExtrOcamlBasic.
From BiomV Require Import Run.RunC17.
Extraction "c17.ml" RunC17.run.
