From Coq Require Extraction.
From Coq Require Import ExtrOcamlBasic.
From BiomV Require Import Run.RunC18.
Extraction "c18.ml" RunC18.run.
