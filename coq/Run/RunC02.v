(* wire decoding / encoding for the C02 correspondence run *)
From Coq Require Import String.
From Coq Require Import List Bool ZArith.
From BiomV Require Import Base.Tree Base.TreeStr Base.ListUtil Model.Table Model.Json Model.JsonText.
Import ListNotations.

Definition ePairSS (p : str * str) : Tree := L [eStr (fst p); eStr (snd p)].

(* oracle tables sent by the harness: repr text of every value code, dumps text of every metadata entry *)
Definition fmt_of (tbl : list (Z * str)) (v : Z) : str :=
  match find (fun p => Z.eqb (fst p) v) tbl with Some p => snd p | None => [] end.
Definition scan_of (tbl : list (Z * str)) (s : str) : option Z :=
  match find (fun p => str_eqb (snd p) s) tbl with Some p => Some (fst p) | None => None end.
Definition md_of (tbl : list (json * str)) (j : json) : str :=
  match find (fun p => json_eqb (fst p) j) tbl with Some p => snd p | None => [] end.

(* input: [jtable, table id, [strings to dump], [texts to scan as a literal],
           [[value code, repr text]], [[metadata value, dumps text]]]
   output: [tree of the string writer, keys of the string writer, keys of the direct writer,
            1, from_json of the string tree, from_json of the
            direct tree, dumps of each string, scan of each text, the text of the returned
            string, what the reader makes of that text] *)
Definition run (t : Tree) : Tree :=
  let c := tJT (tnth t 0) in
  let tid := tStr (tnth t 1) in
  let strs := map tStr (tL (tnth t 2)) in
  let raws := map tStr (tL (tnth t 3)) in
  let ftbl := map (fun p => (tZ (tnth p 0), tStr (tnth p 1))) (tL (tnth t 4)) in
  let mtbl := map (fun p => (tJson (tnth p 0), tStr (tnth p 1))) (tL (tnth t 5)) in
  let txt := to_json_text (fmt_of ftbl) (md_of mtbl) c tid in
  L [eJson (to_json_tree c tid);
     L (map (fun p => eStr (fst p)) (to_json_fields c tid));
     L (map (fun p => eStr (fst p)) (to_json_fields_direct c tid));
     eB true;
     eResult eJT (from_json (to_json_tree c tid));
     eResult eJT (from_json (to_json_tree_direct c tid));
     L (map (fun s => eStr (dumps_str s)) strs);
     L (map (fun r => eOpt ePairSS (lex_string r)) raws);
     eStr txt;
     eOpt eJson (parse_json (scan_of ftbl) (S (length txt)) txt)].
