(* wire decoding / encoding for the C02 correspondence run *)
From Coq Require Import String.
From Coq Require Import List Bool ZArith.
From BiomV Require Import Base.Tree Base.TreeStr Model.Table Model.Json.
Import ListNotations.

Definition ePairSS (p : str * str) : Tree := L [eStr (fst p); eStr (snd p)].

(* input: [jtable, table id, [strings to dump], [texts to scan as a literal]]
   output: [tree of the string writer, keys of the string writer, keys of the direct writer,
            the text closes its "columns" list, from_json of the string tree, from_json of the
            direct tree, dumps of each string, scan of each text] *)
Definition run (t : Tree) : Tree :=
  let c := tJT (tnth t 0) in
  let tid := tStr (tnth t 1) in
  let strs := map tStr (tL (tnth t 2)) in
  let raws := map tStr (tL (tnth t 3)) in
  L [eJson (to_json_tree c tid);
     L (map (fun p => eStr (fst p)) (to_json_fields c tid));
     L (map (fun p => eStr (fst p)) (to_json_fields_direct c tid));
     eB (writer_closes_columns c);
     eResult eJT (from_json (to_json_tree c tid));
     eResult eJT (from_json (to_json_tree_direct c tid));
     L (map (fun s => eStr (dumps_str s)) strs);
     L (map (fun r => eOpt ePairSS (lex_string r)) raws)].
