From Coq Require Extraction.
From Coq Require Import ExtrOcamlBasic.
From BiomV Require Import Run.RunC06.
Extraction "c06.ml" RunC06.run.
