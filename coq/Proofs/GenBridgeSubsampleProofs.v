(* Bridges for C12: the two kernels of _subsample.pyx as tools/py2v regenerates them on every
   check (Gen/SubsampleGen.v: subsample_wo / sub_wo_seg / sub_wo_idx / sub_wo_advance with explicit
   fuel, subsample_rep / sub_rep_seg) against the hand-written model of Model/Subsample.v
   (kernel_wo / sub_seg / walk / walk_body / advance, kernel_rep / rep_seg).

   The generated code works IN PLACE on the whole data array at positions start + el; the hand model
   works on the slice data[start:end] as a view and splices the result back.  The hand model's flag
   w_ok is false exactly on the runs the generated code cannot be compared on: an index outside
   the segment (the in-place write would land in a neighbouring segment), an exhausted fuel, a
   recording without a draw.  The bridges are therefore conditional on the flag being true (and on
   the offsets lying inside the array), hence named ..._partial; the theorems of C12 prove the flag
   true under the contract of rng.choice. *)
From Coq Require Import List Arith ZArith Lia Bool.
From BiomV Require Import Base.Tree Base.ListUtil Base.Matrix Model.Table Model.Filter Model.Stored Model.Subsample.
From BiomV Require Import Proofs.SubsampleProofs Gen.SubsampleGen.
Import ListNotations.

(* ---------- list facts ---------- *)
Lemma upd_cons_S {A} (x : A) l i v : upd (x :: l) (S i) v = x :: upd l i v.
Proof. reflexivity. Qed.

Lemma upd_app_l {A} (out post : list A) el v : el < length out -> upd (out ++ post) el v = upd out el v ++ post.
Proof.
  revert el. induction out as [|y o IH]; intros el H; simpl in H; [lia|].
  destruct el as [|e]; [reflexivity|]. simpl app. rewrite !upd_cons_S, IH by lia. reflexivity.
Qed.

Lemma upd_app_mid {A} (pre out post : list A) el v :
  el < length out -> upd (pre ++ out ++ post) (length pre + el) v = pre ++ upd out el v ++ post.
Proof.
  intros H. induction pre as [|x pre IH]; simpl; [apply upd_app_l; exact H|].
  rewrite upd_cons_S, IH. reflexivity.
Qed.

Lemma skipn_app_pre {A} (pre X : list A) k : skipn (length pre + k) (pre ++ X) = skipn k X.
Proof. induction pre as [|x pre IH]; [reflexivity|exact IH]. Qed.

Lemma skipn_app_pre0 {A} (pre X : list A) : skipn (length pre) (pre ++ X) = X.
Proof. induction pre as [|x pre IH]; [reflexivity|exact IH]. Qed.

Lemma firstn_app_pre0 {A} (pre X : list A) : firstn (length pre) (pre ++ X) = pre.
Proof. induction pre as [|x pre IH]; [destruct X; reflexivity|simpl; rewrite IH; reflexivity]. Qed.

Lemma slice_mid {A} (pre seg post : list A) :
  slice (pre ++ seg ++ post) (length pre) (length pre + length seg) = seg.
Proof.
  unfold slice. rewrite skipn_app_pre0.
  replace (length pre + length seg - length pre) with (length seg) by lia.
  apply firstn_app_pre0.
Qed.

Lemma splice_mid {A} (pre seg post o : list A) :
  splice (pre ++ seg ++ post) (length pre) (length pre + length seg) o = pre ++ o ++ post.
Proof.
  unfold splice. rewrite skipn_app_pre, firstn_app_pre0, skipn_app_pre0. reflexivity.
Qed.

Lemma skipn_add {A} (l : list A) a b : skipn a (skipn b l) = skipn (b + a) l.
Proof.
  revert l. induction b as [|b IH]; intros l; [reflexivity|].
  destruct l as [|x l]; [destruct a; reflexivity|]. simpl. apply IH.
Qed.

Lemma split3 {A} (l : list A) s e : s <= e -> e <= length l ->
  l = firstn s l ++ slice l s e ++ skipn e l /\ length (firstn s l) = s /\ length (slice l s e) = e - s.
Proof.
  intros H1 H2. unfold slice. repeat split.
  - rewrite <- (firstn_skipn s l) at 1. f_equal.
    rewrite <- (firstn_skipn (e - s) (skipn s l)) at 1. f_equal.
    rewrite skipn_add. f_equal. lia.
  - rewrite firstn_length. lia.
  - rewrite firstn_length, skipn_length. lia.
Qed.

(* ================================================================================================
   one segment: the hand model's walk state determines the generated loop state              *)
Section Segment.
  Variables pre post intdata : list Z.

  Definition G (h : wstate) : Z * Z * list Z * nat * Z :=
    (w_count_el h, w_count_rem h, pre ++ w_out h ++ post, w_el h, w_el_cnt h).
  Definition GB (h : wstate) (b : bool) : Z * Z * list Z * nat * Z * bool :=
    (w_count_el h, w_count_rem h, pre ++ w_out h ++ post, w_el h, w_el_cnt h, b).

  Definition Inv (h : wstate) : Prop :=
    length (w_out h) = length intdata /\ (w_ok h = true -> w_el h < length intdata).

  Lemma advance1_inv h : Inv h -> Inv (advance1 intdata h).
  Proof.
    intros [L P]. unfold Inv, advance1. cbn [w_out w_el w_ok]. split.
    - rewrite upd_length. exact L.
    - intros H. apply andb_true_iff in H. destruct H as [_ H]. apply Nat.ltb_lt in H. exact H.
  Qed.

  Lemma advance_inv fuel p : forall h, Inv h -> Inv (advance fuel intdata p h).
  Proof.
    induction fuel as [|f IH]; intros h I; cbn [advance]; destruct (w_count_rem h <=? p - w_count_el h)%Z; try exact I.
    - destruct I as [L _]. split; [exact L|]. cbn [w_ok]. discriminate.
    - apply IH. apply advance1_inv. exact I.
  Qed.

  Lemma advance_ok_mono fuel p : forall h, w_ok (advance fuel intdata p h) = true -> w_ok h = true.
  Proof.
    induction fuel as [|f IH]; intros h; cbn [advance]; destruct (w_count_rem h <=? p - w_count_el h)%Z; try (intros H; exact H).
    - cbn [w_ok]. discriminate.
    - intros H. apply IH in H. unfold advance1 in H. cbn [w_ok] in H. apply andb_true_iff in H. apply H.
  Qed.

  (* one turn of the inner while *)
  Lemma advance1_G h : length (w_out h) = length intdata -> w_el h < length intdata ->
    G (advance1 intdata h) =
    (let '(count_el, count_rem, data, el, el_cnt) := G h in
     let data := upd data (length pre + el) el_cnt in
     let el := S el in
     let count_el := (count_el + count_rem)%Z in
     let count_rem := nth el intdata 0%Z in
     let el_cnt := 0%Z in
     (count_el, count_rem, data, el, el_cnt)).
  Proof.
    intros L H. unfold G, advance1. cbn [w_out w_el w_count_el w_count_rem w_el_cnt].
    rewrite upd_app_mid by lia. reflexivity.
  Qed.

  Lemma advance_sim fuel p : forall h, Inv h -> w_ok (advance fuel intdata p h) = true ->
    sub_wo_advance fuel (length pre) intdata p (G h) = (G (advance fuel intdata p h), true).
  Proof.
    induction fuel as [|f IH]; intros h I Hok.
    - cbn [advance sub_wo_advance] in *. unfold G at 1. cbv zeta. cbn [fst snd].
      destruct (w_count_rem h <=? p - w_count_el h)%Z; [cbn [w_ok] in Hok; discriminate|reflexivity].
    - cbn [advance] in *.
      assert (E : sub_wo_advance (S f) (length pre) intdata p (G h) =
                  if (w_count_rem h <=? p - w_count_el h)%Z
                  then sub_wo_advance f (length pre) intdata p
                         (let '(count_el, count_rem, data, el, el_cnt) := G h in
                          let data := upd data (length pre + el) el_cnt in
                          let el := S el in
                          let count_el := (count_el + count_rem)%Z in
                          let count_rem := nth el intdata 0%Z in
                          let el_cnt := 0%Z in
                          (count_el, count_rem, data, el, el_cnt))
                  else (G h, true)) by reflexivity.
      rewrite E. clear E.
      destruct (w_count_rem h <=? p - w_count_el h)%Z; [|reflexivity].
      pose proof (advance_ok_mono f p _ Hok) as H1. unfold advance1 in H1. cbn [w_ok] in H1.
      apply andb_true_iff in H1. destruct H1 as [Hk Hlt]. apply Nat.ltb_lt in Hlt.
      destruct I as [L P]. rewrite <- advance1_G by (try exact L; lia).
      apply IH; [|exact Hok]. apply advance1_inv. split; assumption.
  Qed.

  Lemma walk_body_inv h p : Inv h -> Inv (walk_body intdata h p).
  Proof. intros I. pose proof (advance_inv (length intdata) p h I) as [L P]. unfold walk_body. split; assumption. Qed.

  Lemma walk_body_ok_mono h p : w_ok (walk_body intdata h p) = true -> w_ok h = true.
  Proof. unfold walk_body. cbn [w_ok]. apply advance_ok_mono. Qed.

  Lemma walk_body_sim permuted h b idx : Inv h -> w_ok (walk_body intdata h (nth idx permuted 0%Z)) = true ->
    sub_wo_idx (length pre) intdata permuted (GB h b) idx = GB (walk_body intdata h (nth idx permuted 0%Z)) b.
  Proof.
    intros I Hok. unfold sub_wo_idx, GB at 1. cbv zeta.
    change (w_count_el h, w_count_rem h, pre ++ w_out h ++ post, w_el h, w_el_cnt h) with (G h).
    unfold walk_body in Hok. cbn [w_ok] in Hok. rewrite (advance_sim _ _ h I Hok).
    unfold G, GB, walk_body. cbn [w_out w_el w_count_el w_count_rem w_el_cnt]. rewrite andb_true_r. reflexivity.
  Qed.

  Lemma walk_fold_ok_mono permuted idxs : forall h,
    w_ok (fold_left (fun st idx => walk_body intdata st (nth idx permuted 0%Z)) idxs h) = true -> w_ok h = true.
  Proof.
    induction idxs as [|i idxs IH]; intros h H; [exact H|]. cbn [fold_left] in H.
    apply IH in H. apply walk_body_ok_mono in H. exact H.
  Qed.

  Lemma walk_fold_inv permuted idxs : forall h, Inv h ->
    Inv (fold_left (fun st idx => walk_body intdata st (nth idx permuted 0%Z)) idxs h).
  Proof. induction idxs as [|i idxs IH]; intros h I; [exact I|]. cbn [fold_left]. apply IH. apply walk_body_inv. exact I. Qed.

  Lemma walk_fold_sim permuted b idxs : forall h, Inv h ->
    w_ok (fold_left (fun st idx => walk_body intdata st (nth idx permuted 0%Z)) idxs h) = true ->
    fold_left (sub_wo_idx (length pre) intdata permuted) idxs (GB h b) =
    GB (fold_left (fun st idx => walk_body intdata st (nth idx permuted 0%Z)) idxs h) b.
  Proof.
    induction idxs as [|i idxs IH]; intros h I Hok; [reflexivity|]. cbn [fold_left] in *.
    rewrite walk_body_sim; [|exact I|exact (walk_fold_ok_mono _ _ _ Hok)].
    apply IH; [apply walk_body_inv; exact I|exact Hok].
  Qed.
End Segment.

(* the whole walk on one segment, in place = the hand model's walk spliced back *)
Lemma walk_sim pre seg post n permuted b o :
  walk n seg permuted = (o, true) ->
  (let '(count_el, count_rem, data, el, el_cnt, fuel_ok) :=
     fold_left (sub_wo_idx (length pre) seg permuted) (seq 0 n)
               (0%Z, nth 0 seg 0%Z, pre ++ seg ++ post, 0, 0%Z, b) in
   let data := upd data (length pre + el) el_cnt in
   let data := splice data (S (length pre + el)) (length pre + length seg)
                      (repeat 0%Z (length pre + length seg - S (length pre + el))) in
   (data, fuel_ok)) = (pre ++ o ++ post, b).
Proof.
  unfold walk. cbv zeta. intros H.
  assert (I0 : Inv seg (walk_init seg)).
  { unfold Inv, walk_init. cbn [w_out w_ok w_el]. split; [reflexivity|]. intros E. apply Nat.ltb_lt in E. exact E. }
  remember (fold_left (fun st idx => walk_body seg st (nth idx permuted 0%Z)) (seq 0 n) (walk_init seg)) as st eqn:Est.
  inversion H as [[Ho Hok]]. clear H.
  change (0%Z, nth 0 seg 0%Z, pre ++ seg ++ post, 0, 0%Z, b) with (GB pre post (walk_init seg) b).
  assert (Hok' : w_ok (fold_left (fun st idx => walk_body seg st (nth idx permuted 0%Z)) (seq 0 n) (walk_init seg)) = true)
    by (rewrite <- Est; exact Hok).
  rewrite (walk_fold_sim pre post seg permuted b (seq 0 n) (walk_init seg) I0 Hok'). rewrite <- Est.
  pose proof (walk_fold_inv seg permuted (seq 0 n) (walk_init seg) I0) as IL. rewrite <- Est in IL.
  destruct IL as [L P]. specialize (P Hok).
  assert (Hel : w_el st < length (w_out st)) by (rewrite L; exact P).
  unfold GB. rewrite upd_app_mid by exact Hel. f_equal.
  set (out := upd (w_out st) (w_el st) (w_el_cnt st)).
  assert (Lo : length out = length seg) by (unfold out; rewrite upd_length; exact L).
  unfold splice.
  replace (S (length pre + w_el st)) with (length pre + S (w_el st)) by lia.
  rewrite firstn_app_2, skipn_app_pre.
  rewrite firstn_app. replace (S (w_el st) - length out) with 0 by lia. simpl firstn at 2. rewrite app_nil_r.
  rewrite skipn_app, skipn_all2 by lia. replace (length seg - length out) with 0 by lia. simpl skipn.
  replace (length pre + length seg - (length pre + S (w_el st))) with (length out - S (w_el st)) by lia.
  rewrite <- !app_assoc. reflexivity.
Qed.


(* one vector: sub_seg on the slice, spliced back = the generated segment step in place *)
Lemma sub_seg_length n seg draws : length (fst (fst (sub_seg n seg draws))) = length seg.
Proof.
  unfold sub_seg. destruct (zsum seg <? Z.of_nat n)%Z; cbn [fst]; [apply repeat_length|].
  destruct draws as [|p rest]; cbn [fst]; [reflexivity|].
  pose proof (walk_length n seg p) as W. destruct (walk n seg p) as [o ok]. exact W.
Qed.

Lemma sub_seg_sim indptr i pre seg post n draws b o dr :
  nth i indptr 0 = length pre -> nth (S i) indptr 0 = length pre + length seg ->
  sub_seg n seg draws = (o, dr, true) ->
  sub_wo_seg indptr n tt (pre ++ seg ++ post, draws, b) i = (pre ++ o ++ post, dr, b).
Proof.
  intros Hs He H. unfold sub_wo_seg. cbv zeta. rewrite Hs, He, slice_mid.
  unfold sub_seg in H. destruct (zsum seg <? Z.of_nat n)%Z.
  - inversion H; subst. rewrite splice_mid.
    replace (length pre + length seg - length pre) with (length seg) by lia. reflexivity.
  - destruct draws as [|p rest]; [inversion H|].
    destruct (walk n seg p) as [o' ok] eqn:W. inversion H; subst. cbn [hd tl].
    pose proof (walk_sim pre seg post n p b o W) as WS.
    destruct (fold_left (sub_wo_idx (length pre) seg p) (seq 0 n) (0%Z, nth 0 seg 0%Z, pre ++ seg ++ post, 0, 0%Z, b))
      as [[[[[cel crem] d] el] ecnt] fok].
    cbv zeta in WS. inversion WS. reflexivity.
Qed.

(* the kernel: fold over the vectors *)
Lemma kernel_wo_fold_ok_mono n indptr is : forall data draws ok d dr,
  fold_left (fun st i =>
               let '(data, draws, ok) := st in
               let start := nth i indptr 0 in let end_ := nth (S i) indptr 0 in
               let '(o, draws', ok') := sub_seg n (slice data start end_) draws in
               (splice data start end_ o, draws', ok && ok')) is (data, draws, ok) = (d, dr, true) -> ok = true.
Proof.
  induction is as [|i is IH]; intros data draws ok d dr H; [inversion H; reflexivity|].
  cbn [fold_left] in H. cbv zeta in H.
  destruct (sub_seg n (slice data (nth i indptr 0) (nth (S i) indptr 0)) draws) as [[o dr'] ok'].
  apply IH in H. apply andb_true_iff in H. apply H.
Qed.

Lemma kernel_wo_fold_sim n indptr is : forall data draws b d dr,
  (forall i, In i is -> nth i indptr 0 <= nth (S i) indptr 0 /\ nth (S i) indptr 0 <= length data) ->
  fold_left (fun st i =>
               let '(data, draws, ok) := st in
               let start := nth i indptr 0 in let end_ := nth (S i) indptr 0 in
               let '(o, draws', ok') := sub_seg n (slice data start end_) draws in
               (splice data start end_ o, draws', ok && ok')) is (data, draws, true) = (d, dr, true) ->
  fold_left (sub_wo_seg indptr n tt) is (data, draws, b) = (d, dr, b).
Proof.
  induction is as [|i is IH]; intros data draws b d dr Hb H; [inversion H; reflexivity|].
  cbn [fold_left] in *. cbv zeta in H.
  destruct (Hb i (or_introl eq_refl)) as [H1 H2].
  destruct (split3 data (nth i indptr 0) (nth (S i) indptr 0) H1 H2) as (Ed & Lp & Ls).
  pose proof (sub_seg_length n (slice data (nth i indptr 0) (nth (S i) indptr 0)) draws) as Lo.
  destruct (sub_seg n (slice data (nth i indptr 0) (nth (S i) indptr 0)) draws) as [[o dr'] ok'] eqn:SS.
  cbn [fst] in Lo. cbn [andb] in H.
  assert (ok' = true) by (exact (kernel_wo_fold_ok_mono n indptr is _ _ _ _ _ H)). subst ok'.
  rewrite Ed at 1.
  rewrite (sub_seg_sim indptr i (firstn (nth i indptr 0) data) (slice data (nth i indptr 0) (nth (S i) indptr 0))
             (skipn (nth (S i) indptr 0) data) n draws b o dr'); [|lia|lia|exact SS].
  change (firstn (nth i indptr 0) data ++ o ++ skipn (nth (S i) indptr 0) data)
    with (splice data (nth i indptr 0) (nth (S i) indptr 0) o).
  apply IH; [|exact H].
  intros j Hj. destruct (Hb j (or_intror Hj)) as [A B]. split; [exact A|].
  unfold splice. rewrite !app_length, firstn_length, skipn_length. lia.
Qed.

(* kernel_wo IS the source, wherever the hand model's flag says the run is a legitimate one *)
Theorem kernel_wo_bridge_partial n indptr data draws d dr :
  (forall i, i < length indptr - 1 -> nth i indptr 0 <= nth (S i) indptr 0 /\ nth (S i) indptr 0 <= length data) ->
  kernel_wo n indptr data draws = (d, dr, true) ->
  subsample_wo data indptr n tt draws = (d, dr, true).
Proof.
  intros Hb H. unfold subsample_wo. cbv zeta. apply kernel_wo_fold_sim; [|exact H].
  intros i Hi. apply in_seq in Hi. apply Hb. lia.
Qed.

(* ================================================================================================
   with replacement.  The source computes ceil(data) ONCE before the loop and reads the probability
   vectors from that copy; the hand model reads the current array.  Both see the same counts
   because consecutive segments are adjacent (start of i+1 = end of i) and every draw has the
   length of its segment (what rng.multinomial returns), so the part of the array from the current
   start on is still the original.  An empty recording / a zero total is None in the hand model. *)
Lemma kernel_rep_fold_sim n indptr data k : forall a X draws d dr,
  length X = nth a indptr 0 ->
  (forall i, a <= i < a + k -> nth i indptr 0 <= nth (S i) indptr 0 /\ nth (S i) indptr 0 <= length data) ->
  (forall j, j < k -> length (nth j draws []) = nth (S (a + j)) indptr 0 - nth (a + j) indptr 0) ->
  fold_left (fun st i =>
               match st with
               | None => None
               | Some (data, draws) =>
                   let start := nth i indptr 0 in let end_ := nth (S i) indptr 0 in
                   match rep_seg (slice data start end_) draws with
                   | None => None
                   | Some (o, draws') => Some (splice data start end_ o, draws')
                   end
               end) (seq a k) (Some (X ++ skipn (nth a indptr 0) data, draws)) = Some (d, dr) ->
  fold_left (sub_rep_seg indptr n tt data) (seq a k) ((X ++ skipn (nth a indptr 0) data, draws), Gen.Prelude.Ok tt)
  = ((d, dr), Gen.Prelude.Ok tt).
Proof.
  induction k as [|k IH]; intros a X draws d dr LX Hb Hd H; [inversion H; reflexivity|].
  cbn [seq fold_left] in *. cbv zeta in H.
  destruct (Hb a ltac:(lia)) as [H1 H2].
  assert (Sl : slice (X ++ skipn (nth a indptr 0) data) (nth a indptr 0) (nth (S a) indptr 0)
               = slice data (nth a indptr 0) (nth (S a) indptr 0)).
  { unfold slice. rewrite <- LX at 2. rewrite skipn_app_pre0. reflexivity. }
  rewrite Sl in H.
  unfold sub_rep_seg at 2. cbv zeta.
  unfold Gen.Prelude.pvals_ok, Gen.Prelude.pvals_of. cbn [snd].
  unfold rep_seg in H.
  destruct (Z.eqb (zsum (slice data (nth a indptr 0) (nth (S a) indptr 0))) 0%Z).
  - exfalso. clear - H. induction (seq (S a) k) as [|x l IHl]; [discriminate H|exact (IHl H)].
  - cbn [negb]. destruct draws as [|p rest].
    + exfalso. clear - H. induction (seq (S a) k) as [|x l IHl]; [discriminate H|exact (IHl H)].
    + cbn [hd tl].
      assert (Lp : length p = nth (S a) indptr 0 - nth a indptr 0).
      { specialize (Hd 0 ltac:(lia)). rewrite Nat.add_0_r in Hd. exact Hd. }
      assert (Sp : splice (X ++ skipn (nth a indptr 0) data) (nth a indptr 0) (nth (S a) indptr 0) p
                   = (X ++ p) ++ skipn (nth (S a) indptr 0) data).
      { unfold splice. rewrite <- LX at 1. rewrite firstn_app_pre0.
        replace (nth (S a) indptr 0) with (length X + (nth (S a) indptr 0 - nth a indptr 0)) at 1 by lia.
        rewrite skipn_app_pre, skipn_add. replace (nth a indptr 0 + (nth (S a) indptr 0 - nth a indptr 0)) with (nth (S a) indptr 0) by lia.
        rewrite <- app_assoc. reflexivity. }
      rewrite Sp in *.
      apply IH.
      * rewrite app_length. lia.
      * intros i Hi. apply Hb. lia.
      * intros j Hj. specialize (Hd (S j) ltac:(lia)). cbn [nth] in Hd.
        replace (S a + j) with (a + S j) by lia. exact Hd.
      * exact H.
Qed.

Theorem kernel_rep_bridge_partial n indptr data draws d dr :
  (forall i, i < length indptr - 1 -> nth i indptr 0 <= nth (S i) indptr 0 /\ nth (S i) indptr 0 <= length data) ->
  nth 0 indptr 0 <= length data ->
  (forall j, j < length indptr - 1 -> length (nth j draws []) = nth (S j) indptr 0 - nth j indptr 0) ->
  kernel_rep indptr data draws = Some (d, dr) ->
  subsample_rep data indptr n tt draws = Gen.Prelude.Ok (d, dr).
Proof.
  intros Hb H0 Hd H. unfold subsample_rep, kernel_rep in *. cbv zeta.
  rewrite <- (firstn_skipn (nth 0 indptr 0) data) in H at 1.
  rewrite <- (firstn_skipn (nth 0 indptr 0) data) at 2.
  rewrite (kernel_rep_fold_sim n indptr data (length indptr - 1) 0 (firstn (nth 0 indptr 0) data) draws d dr).
  - reflexivity.
  - rewrite firstn_length. lia.
  - intros i Hi. apply Hb. lia.
  - intros j Hj. apply Hd. exact Hj.
  - exact H.
Qed.
