(* proofs for C07 (b): the effect signatures, by evaluation over their whole finite domain *)
From Coq Require Import List Arith ZArith Bool.
From BiomV Require Import Model.Table Model.Effects.
Import ListNotations.

(* ---------------- (b) lifting a check over the finite domain ---------------- *)
Lemma all_bool_complete b : In b all_bool. Proof. destruct b; simpl; tauto. Qed.
Lemma all_lay_complete k : In k all_lay. Proof. destruct k; simpl; tauto. Qed.
Lemma all_ax3_complete x : In x all_ax3. Proof. destruct x; simpl; tauto. Qed.
Lemma all_mdk_complete k : In k all_mdk. Proof. destruct k; simpl; tauto. Qed.
Lemma all_op_complete o : In o all_op. Proof. destruct o; simpl; tauto. Qed.

Lemma all_flags_complete fl : In fl all_flags.
Proof.
  destruct fl as [i x mo ms amo ams v bo bs]. unfold all_flags.
  apply in_flat_map. exists i. split; [apply all_bool_complete|].
  apply in_flat_map. exists x. split; [apply all_ax3_complete|].
  apply in_flat_map. exists mo. split; [apply all_mdk_complete|].
  apply in_flat_map. exists ms. split; [apply all_mdk_complete|].
  apply in_flat_map. exists amo. split; [apply all_mdk_complete|].
  apply in_flat_map. exists ams. split; [apply all_mdk_complete|].
  apply in_flat_map. exists v. split; [apply all_bool_complete|].
  apply in_flat_map. exists bo. split; [apply all_bool_complete|].
  apply in_map. apply all_bool_complete.
Qed.

Lemma for_all_calls_spec P : for_all_calls P = true -> forall o lk fl, P o lk fl = true.
Proof.
  unfold for_all_calls. intros H o lk fl.
  rewrite forallb_forall in H. specialize (H o (all_op_complete o)).
  rewrite forallb_forall in H. specialize (H lk (all_lay_complete lk)).
  rewrite forallb_forall in H. exact (H fl (all_flags_complete fl)).
Qed.

(* the evaluations (the bound is the whole domain: 21 operations x 2 layouts x 3888 flag vectors) *)
Lemma pure_checked : for_all_calls chk_pure = true. Proof. vm_compute. reflexivity. Qed.
Lemma separate_checked : for_all_calls (chk_separate_on [M; DictO; DictS]) = true. Proof. vm_compute. reflexivity. Qed.
Lemma ids_unwritten_checked : for_all_calls chk_ids_unwritten = true. Proof. vm_compute. reflexivity. Qed.
Lemma arg_untouched_checked : for_all_calls chk_arg_untouched = true. Proof. vm_compute. reflexivity. Qed.
Lemma resolved_checked : for_all_calls chk_resolved = true. Proof. vm_compute. reflexivity. Qed.
Lemma mutable_comps_value : mutable_comps = [M; DictO; DictS]. Proof. vm_compute. reflexivity. Qed.

Theorem noninplace_pure_all o lk fl :
  in_place o fl = false ->
  (forall l, In l (written (eff o lk fl)) -> is_input (fst l) = false) /\
  (forall l, In l (assigned (eff o lk fl)) -> is_input (fst l) = false).
Proof.
  intros Hn. pose proof (for_all_calls_spec _ pure_checked o lk fl) as H. unfold chk_pure in H.
  rewrite Hn in H. rewrite orb_false_l in H. apply andb_true_iff in H. destruct H as [A B].
  rewrite forallb_forall in A, B.
  split; intros l Hl; [specialize (A l Hl)|specialize (B l Hl)]; apply negb_true_iff; assumption.
Qed.

Theorem result_separate_all o lk fl :
  in_place o fl = false ->
  forall c, In c mutable_comps -> forall r, In r (roots FUEL (eff o lk fl) (Res, c)) -> is_input (fst r) = false.
Proof.
  intros Hn c Hc r Hr. rewrite mutable_comps_value in Hc.
  pose proof (for_all_calls_spec _ separate_checked o lk fl) as H. unfold chk_separate_on in H.
  rewrite Hn in H. rewrite orb_false_l in H. rewrite forallb_forall in H. specialize (H c Hc).
  rewrite forallb_forall in H. apply negb_true_iff. exact (H r Hr).
Qed.

Theorem ids_never_written_all o lk fl :
  forall l, In l (written (eff o lk fl)) -> never_written (snd l) = false.
Proof.
  intros l Hl. pose proof (for_all_calls_spec _ ids_unwritten_checked o lk fl) as H. unfold chk_ids_unwritten in H.
  rewrite forallb_forall in H. apply negb_true_iff. exact (H l Hl).
Qed.

Theorem arg_untouched_all o lk fl :
  (forall l, In l (written (eff o lk fl)) -> fst l <> Arg) /\ (forall l, In l (assigned (eff o lk fl)) -> fst l <> Arg).
Proof.
  pose proof (for_all_calls_spec _ arg_untouched_checked o lk fl) as H. unfold chk_arg_untouched in H.
  apply andb_true_iff in H. destruct H as [A B]. rewrite forallb_forall in A, B.
  split; intros l Hl E; [specialize (A l Hl)|specialize (B l Hl)]; rewrite E in *; discriminate.
Qed.

Theorem chains_resolved_all o lk fl l :
  (exists c, l = (Res, c)) \/ In (Write l) (eff o lk fl) ->
  forall r, In r (roots FUEL (eff o lk fl) l) -> sources (eff o lk fl) r = [].
Proof.
  intros Hl r Hr. pose proof (for_all_calls_spec _ resolved_checked o lk fl) as H. unfold chk_resolved in H.
  rewrite forallb_forall in H.
  assert (Hin : In l (map (fun c => (Res, c)) all_comps ++ write_targets (eff o lk fl))).
  { apply in_or_app. destruct Hl as [[c ->]|Hw].
    - left. apply in_map. destruct c; simpl; tauto.
    - right. unfold write_targets. apply in_flat_map. exists (Write l). split; [exact Hw|left; reflexivity]. }
  specialize (H l Hin). rewrite forallb_forall in H. specialize (H r Hr).
  destruct (sources (eff o lk fl) r); [reflexivity|discriminate].
Qed.
