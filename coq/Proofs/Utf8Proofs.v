(* Text layer of the HDF5 model: the UTF-8 coder pair round-trips on Unicode scalar values, the
   result monad's mapM, Python's str.replace as used for the slash escape of category names. *)
From Coq Require Import List Arith ZArith Lia Bool.
From BiomV Require Import Base.ListUtil Base.Matrix Model.Table Model.Sparse Model.Hdf5.
Import ListNotations.
Open Scope Z_scope.

Ltac zb := repeat match goal with
  | |- context [?a <? ?b] => destruct (Z.ltb_spec a b); try lia
  | |- context [?a <=? ?b] => destruct (Z.leb_spec a b); try lia
  end.

Lemma split64 c : 0 <= c -> c = 64 * (c / 64) + c mod 64 /\ 0 <= c mod 64 < 64 /\ 0 <= c / 64.
Proof.
  intros H. split; [apply Z.div_mod; lia|]. split; [apply Z.mod_pos_bound; lia|apply Z.div_pos; lia].
Qed.
Lemma div4096 c : c / 4096 = c / 64 / 64.
Proof. rewrite Z.div_div by lia. reflexivity. Qed.
Lemma div262144 c : c / 262144 = c / 64 / 64 / 64.
Proof. rewrite !Z.div_div by lia. reflexivity. Qed.

Lemma utf8_cp c rest : (0 <= c < 55296 \/ 57344 <= c < 1114112) ->
  utf8_decode (enc_cp c ++ rest) = option_map (cons c) (utf8_decode rest).
Proof.
  intros H. unfold enc_cp.
  destruct (Z.ltb_spec c 128); [|destruct (Z.ltb_spec c 2048); [|destruct (Z.ltb_spec c 65536)]].
  - cbn [app utf8_decode]. zb. reflexivity.
  - destruct (split64 c ltac:(lia)) as (E & R & Q).
    set (q := c / 64) in *. set (r := c mod 64) in *. clearbody q r.
    cbn [app utf8_decode]. unfold is_cont. zb; cbn [andb negb]; try lia; do 2 f_equal; lia.
  - rewrite div4096.
    destruct (split64 c ltac:(lia)) as (E & R & Q).
    set (q := c / 64) in *. set (r := c mod 64) in *. clearbody q r.
    destruct (split64 q ltac:(lia)) as (E2 & R2 & Q2).
    set (q2 := q / 64) in *. set (r2 := q mod 64) in *. clearbody q2 r2.
    cbn [app utf8_decode]. unfold is_cont. zb; cbn [andb negb]; try lia; do 2 f_equal; lia.
  - rewrite div262144, div4096.
    destruct (split64 c ltac:(lia)) as (E & R & Q).
    set (q := c / 64) in *. set (r := c mod 64) in *. clearbody q r.
    destruct (split64 q ltac:(lia)) as (E2 & R2 & Q2).
    set (q2 := q / 64) in *. set (r2 := q mod 64) in *. clearbody q2 r2.
    destruct (split64 q2 ltac:(lia)) as (E3 & R3 & Q3).
    set (q3 := q2 / 64) in *. set (r3 := q2 mod 64) in *. clearbody q3 r3.
    cbn [app utf8_decode]. unfold is_cont. zb; cbn [andb negb]; try lia; do 2 f_equal; lia.
Qed.

Lemma scalar_range c : scalar c -> (0 <= c < 55296 \/ 57344 <= c < 1114112).
Proof. unfold scalar. lia. Qed.

Theorem utf8_roundtrip s : text s -> utf8_decode (utf8_encode s) = Some s.
Proof.
  induction s as [|c s IH]; intros T; [reflexivity|]. inversion T as [|? ? Hc Ts]; subst.
  cbn [utf8_encode flat_map]. rewrite utf8_cp by (apply scalar_range; exact Hc).
  fold (utf8_encode s). rewrite IH by exact Ts. reflexivity.
Qed.

Lemma dec_enc s : text s -> dec (utf8_encode s) = ROk s.
Proof. intros T. unfold dec. rewrite utf8_roundtrip by exact T. reflexivity. Qed.

Lemma utf8_encode_inj a b : text a -> text b -> utf8_encode a = utf8_encode b -> a = b.
Proof.
  intros Ta Tb E. pose proof (utf8_roundtrip a Ta) as Ha. rewrite E, (utf8_roundtrip b Tb) in Ha. congruence.
Qed.

Lemma enc_cp_nonempty c : enc_cp c <> [].
Proof. unfold enc_cp. destruct (c <? 128); [discriminate|]. destruct (c <? 2048); [discriminate|]. destruct (c <? 65536); discriminate. Qed.

Lemma utf8_encode_nonempty s : s <> [] -> utf8_encode s <> [].
Proof.
  destruct s as [|c s]; [congruence|]. intros _. cbn [utf8_encode flat_map].
  pose proof (enc_cp_nonempty c). destruct (enc_cp c); [congruence|discriminate].
Qed.

Lemma textb_text s : textb s = true <-> text s.
Proof.
  unfold textb, text. rewrite forallb_forall, Forall_forall. split; intros H c Hc; specialize (H c Hc).
  - unfold scalarb in H. unfold scalar. lia.
  - unfold scalarb. unfold scalar in H. lia.
Qed.
Close Scope Z_scope.

(* ------------------------------------------------------------------ mapM *)
Lemma mapM_ok {A B} (f : A -> result B) (g : A -> B) l :
  Forall (fun x => f x = ROk (g x)) l -> mapM f l = ROk (map g l).
Proof.
  induction l as [|x l IH]; intros F; [reflexivity|]. inversion F as [|? ? Hx Fl]; subst.
  cbn [mapM map]. rewrite Hx. cbn [bind]. rewrite IH by exact Fl. reflexivity.
Qed.

Lemma mapM_dec_enc l : Forall text l -> mapM dec (map utf8_encode l) = ROk l.
Proof.
  induction l as [|x l IH]; intros F; [reflexivity|]. inversion F as [|? ? Hx Fl]; subst.
  cbn [map mapM]. rewrite dec_enc by exact Hx. cbn [bind]. rewrite IH by exact Fl. reflexivity.
Qed.

(* ------------------------------------------------------------------ byte-string equality *)
Lemma lz_eqb_eq a b : lz_eqb a b = true <-> a = b.
Proof. apply list_eqb_Z_eq. Qed.
Lemma lz_eqb_refl a : lz_eqb a a = true.
Proof. apply lz_eqb_eq. reflexivity. Qed.
Lemma lz_eqb_neq a b : a <> b -> lz_eqb a b = false.
Proof. intros H. destruct (lz_eqb a b) eqn:E; [apply lz_eqb_eq in E; contradiction|reflexivity]. Qed.

Lemma path_eqb_eq p q : path_eqb p q = true <-> p = q.
Proof.
  unfold path_eqb. revert q; induction p as [|x p IH]; intros [|y q]; simpl; split; intros H;
    try reflexivity; try discriminate.
  - apply andb_true_iff in H. destruct H as [H1 H2]. apply lz_eqb_eq in H1. apply IH in H2. congruence.
  - inversion H; subst. rewrite lz_eqb_refl. simpl. apply IH. reflexivity.
Qed.
Lemma path_eqb_refl p : path_eqb p p = true.
Proof. apply path_eqb_eq. reflexivity. Qed.
Lemma path_eqb_neq p q : p <> q -> path_eqb p q = false.
Proof. intros H. destruct (path_eqb p q) eqn:E; [apply path_eqb_eq in E; contradiction|reflexivity]. Qed.

(* ------------------------------------------------------------------ the slash escape *)
Lemma sanitize_cons c t :
  sanitize (c :: t) = (if Z.eqb 47 c then s_token else [c]) ++ sanitize t.
Proof.
  unfold sanitize, replace. cbn [replace_go s_slash prefixb length Nat.sub]. rewrite andb_true_r.
  destruct (Z.eqb 47 c); reflexivity.
Qed.

Lemma unsanitize_token rest : unsanitize (s_token ++ rest) = 47%Z :: unsanitize rest.
Proof. reflexivity. Qed.

Lemma unsanitize_other c rest : c <> 64%Z -> unsanitize (c :: rest) = c :: unsanitize rest.
Proof.
  intros H. unfold unsanitize, replace. cbn [replace_go s_token prefixb].
  apply Z.eqb_neq in H. rewrite Z.eqb_sym in H. rewrite H. reflexivity.
Qed.

(* a category name without an at-sign survives the escape *)
Theorem escape_roundtrip k : ~ In 64%Z k -> unsanitize (sanitize k) = k.
Proof.
  induction k as [|c t IH]; intros H; [reflexivity|]. rewrite sanitize_cons.
  assert (Ht : ~ In 64%Z t) by (intros Hi; apply H; right; exact Hi).
  destruct (Z.eqb_spec 47 c) as [<-|Hc].
  - rewrite unsanitize_token, IH by exact Ht. reflexivity.
  - cbn [app]. rewrite unsanitize_other by (intros ->; apply H; left; reflexivity).
    rewrite IH by exact Ht. reflexivity.
Qed.

(* ... and one with at-signs next to a slash need not *)
(* the text  @@SLASH@/  *)
Definition bad_name : str := [64; 64; 83; 76; 65; 83; 72; 64; 47]%Z.
Theorem slash_escape_refuted : exists k, text k /\ ~ In 47%Z (sanitize k) /\ unsanitize (sanitize k) <> k.
Proof.
  exists bad_name. split; [apply textb_text; reflexivity|]. split.
  - vm_compute. intuition discriminate.
  - vm_compute. discriminate.
Qed.

Lemma text_sanitize k : text k -> text (sanitize k).
Proof.
  induction k as [|c t IH]; intros T; [constructor|]. inversion T as [|? ? Hc Tt]; subst.
  rewrite sanitize_cons. apply Forall_app. split; [|apply IH; exact Tt].
  destruct (Z.eqb 47 c); [apply textb_text; reflexivity|constructor; [exact Hc|constructor]].
Qed.
