(* Bridge: the one-to-one collapse regenerated from biom/table.py (Gen/CollapseGen.v, tools/py2v_part,
   collapse subset) is the hand-written model Model/Partition.v collapse_t (OneToOne ..), for every
   table, labelling, axis, flags, minimal group size and mode code. *)
From Coq Require Import List Arith ZArith Lia Bool.
From BiomV Require Import Gen.CollapsePrelude Gen.CollapseGen Proofs.GenBridgePartitionProofs.
Import ListNotations.

Notation grp := (Z * list (Z * list Z * Tree))%type (only parsing).
Definition keep (mgs : Z) (g : grp) : bool := Z.leb mgs (Z.of_nat (length (snd g))).
Definition omd_app (m : option (list Tree)) (l : list Tree) : option (list Tree) := option_map (fun x => x ++ l) m.

Lemma ids_part a o b : tb_ids (orient a (part_rows o b)) a = map v_id b.
Proof. destruct a; reflexivity. Qed.

Lemma sum_part a (t : table) o b :
  tb_sum (orient a (part_rows o b)) (tb_invert_axis t a) = (col_sums (nsamp o) (map v_row b), 1%Z).
Proof. destruct a; reflexivity. Qed.

Lemma loop1_is_rows self f norm mgs incl mode key strict a tr o gl : forall cd ci cm,
  gen_collapse_one_to_one_loop1 self f norm mgs incl mode key strict a tr cd ci cm
    (map (fun g : grp => (fst g, orient a (part_rows o (snd g)))) gl)
  = (cd ++ map (fun g : grp => (col_sums (nsamp o) (map v_row (snd g)),
                                if norm then Z.of_nat (length (snd g)) else 1%Z)) (filter (keep mgs) gl),
     ci ++ map fst (filter (keep mgs) gl),
     if incl then omd_app cm (map (fun g : grp => collapsed_md (map v_id (snd g))) (filter (keep mgs) gl)) else cm).
Proof.
  induction gl as [|[k b] r IH]; intros cd ci cm.
  - cbn. rewrite !app_nil_r. destruct incl, cm; cbn; rewrite ?app_nil_r; reflexivity.
  - cbn [map fst snd gen_collapse_one_to_one_loop1 filter].
    rewrite ids_part, sum_part. unfold len_ids. rewrite map_length.
    change (keep mgs (k, b)) with (Z.leb mgs (Z.of_nat (length b))).
    rewrite Z.ltb_antisym. destruct (Z.leb mgs (Z.of_nat (length b))); cbn [negb].
    + rewrite IH. cbn [map fst snd]. unfold conv_vec, qv_idiv, md_collapsed_ids. cbn [fst snd].
      rewrite <- !app_assoc. cbn [app].
      destruct norm, incl, cm; cbn [omd_append omd_app option_map]; rewrite <- ?app_assoc; cbn [app];
        rewrite ?Z.mul_1_l; reflexivity.
    + apply IH.
Qed.

(* shapes: an all-zero matrix with an empty side is determined by its shape *)
Lemma rect0_repeat (m : matrix) : rect 0 m -> m = repeat [] (length m).
Proof.
  induction m as [|r m IH]; intros H; [reflexivity|]. inversion H; subst. cbn [length repeat].
  destruct r; [|discriminate]. f_equal. apply IH. assumption.
Qed.

Lemma blank_id (m : matrix) dv a b : length m = length a -> rect (length b) m ->
  qm_blank_if_empty (m, dv) a b = (m, dv).
Proof.
  intros L R. unfold qm_blank_if_empty. destruct a as [|x a].
  - destruct m; [reflexivity|discriminate].
  - destruct b as [|y b]; [|reflexivity]. cbn [is_nil orb snd]. pose proof (rect0_repeat m R) as E. rewrite L in E.
    rewrite E. reflexivity.
Qed.

Lemma rect_col_sums c (l : list grp) : rect c (map (fun g => col_sums c (map v_row (snd g))) l).
Proof.
  unfold rect. apply Forall_forall. intros r H. apply in_map_iff in H. destruct H as [g [<- _]].
  unfold col_sums. rewrite map_length. apply transpose_length.
Qed.

Theorem gen_collapse_is_collapse_t t lab norm mgs incl mode key strict a :
  gen_collapse_one_to_one t lab norm mgs incl mode key strict a
  = collapse_t t a (OneToOne lab mgs) norm incl mode.
Proof.
  unfold gen_collapse_one_to_one, collapse_t, mode_known.
  destruct (negb (Z.eqb mode 0 || Z.eqb mode 1)); [reflexivity|].
  rewrite gen_partition_is_partition_t. unfold partition_t.
  destruct (lab_error lab); [reflexivity|]. cbn [rbind].
  set (gl := groups (labels_of lab (oids (orient a t))) (vrecs (orient a t)) false).
  change (map _ gl) with (map (fun g : grp => (fst g, orient a (part_rows (orient a t) (snd g)))) gl).
  rewrite loop1_is_rows. cbn [app].
  unfold collapse_rows. fold gl.
  change (filter (fun g => Z.leb mgs (Z.of_nat (length (snd g)))) gl) with (filter (keep mgs) gl).
  set (gs := filter (keep mgs) gl).
  unfold tb_errcheck_empty. cbn [rbind]. f_equal.
  unfold tb_ctor_q. cbn [ctab cdiv].
  assert (MD : (if incl then omd_app (if incl then Some [] else None)
                               (map (fun g : grp => collapsed_md (map v_id (snd g))) gs)
                else (if incl then Some [] else None))
               = if incl then Some (map (fun g : grp => collapsed_md (map v_id (snd g))) gs) else None)
    by (destruct incl; reflexivity).
  destruct a.
  - (* observation: no transposition *)
    cbn [axis_is_sample orient tb_ids ids ids_copy tb_invert_axis other tb_metadata mds omd_keep tb_type].
    assert (D : (if qvecs_nonempty (map (fun g : grp => (col_sums (nsamp t) (map v_row (snd g)),
                                         if norm then Z.of_nat (length (snd g)) else 1%Z)) gs)
                 then conv_vecs t (map (fun g : grp => (col_sums (nsamp t) (map v_row (snd g)),
                                         if norm then Z.of_nat (length (snd g)) else 1%Z)) gs) false
                 else qm_empty (len_ids (sids t)) Obs)
                = (map (fun g : grp => col_sums (nsamp t) (map v_row (snd g))) gs,
                   map (fun g : grp => if norm then Z.of_nat (length (snd g)) else 1%Z) gs)).
    { destruct gs; [reflexivity|]. unfold conv_vecs, tb_conv_to_self_type. rewrite !map_map. reflexivity. }
    rewrite D, blank_id.
    + cbn [fst snd]. rewrite MD. destruct incl; reflexivity.
    + rewrite !map_length. reflexivity.
    + apply rect_col_sums.
  - (* sample: the collapsed vectors become columns *)
    cbn [axis_is_sample orient tb_ids ids ids_copy tb_invert_axis other tb_metadata mds omd_keep tb_type].
    set (o := flip t).
    assert (D : (if qvecs_nonempty (map (fun g : grp => (col_sums (nsamp o) (map v_row (snd g)),
                                         if norm then Z.of_nat (length (snd g)) else 1%Z)) gs)
                 then conv_vecs t (map (fun g : grp => (col_sums (nsamp o) (map v_row (snd g)),
                                         if norm then Z.of_nat (length (snd g)) else 1%Z)) gs) true
                 else qm_empty (len_ids (oids t)) Samp)
                = (transpose (nobs t) (map (fun g : grp => col_sums (nsamp o) (map v_row (snd g))) gs),
                   map (fun g : grp => if norm then Z.of_nat (length (snd g)) else 1%Z) gs)).
    { destruct gs.
      - cbn [map qvecs_nonempty]. unfold qm_empty, len_ids. cbn [axis_is_sample]. rewrite Nat2Z.id.
        f_equal. rewrite (rect0_repeat (transpose (nobs t) [])).
        + rewrite transpose_length. reflexivity.
        + apply (transpose_rect (nobs t) []).
      - unfold conv_vecs, tb_conv_to_self_type. rewrite !map_map. reflexivity. }
    rewrite D, blank_id.
    + cbn [fst snd]. rewrite MD. unfold flip at 1. cbn [oids sids mat omd smd ttype nsamp].
      destruct incl; reflexivity.
    + rewrite transpose_length. reflexivity.
    + rewrite map_length.
      replace (length gs) with (length (map (fun g : grp => col_sums (nsamp o) (map v_row (snd g))) gs))
        by apply map_length.
      apply transpose_rect.
Qed.
