(* Bridges for C19: the axis conventions, as tools/py2v regenerates them on every check from
   biom/table.py (Gen/HelpersGen.v: the head of Table.sum, Table._axis_to_num, Table._invert_axis),
   against the axis types of the models (Table.axis, Table.other, Summary.axis3). *)
From Coq Require Import String List Arith ZArith Lia Bool.
From BiomV Require Import Base.Tree Base.ListUtil Base.Matrix Model.Table.
From BiomV Require Import Model.Summary Gen.Prelude Gen.HelpersGen.
Import ListNotations.

(* ================================================================================================
   axis names.  Table._invert_axis / _axis_to_num / the axis mapping at the head of Table.sum,
   against the axis types of the models (Table.axis, Table.other, Summary.axis3).                   *)
Open Scope string_scope.
Definition axis_str (a : axis) : string := match a with Obs => "observation" | Samp => "sample" end.
Definition axis3_str (a : axis3) : string :=
  match a with AObs => "observation" | ASamp => "sample" | AWhole => "whole" end.
(* the `axis` argument scipy's sum is called with: None = everything, 0 = one figure per column
   (sample), 1 = one figure per row (observation); Summary.r_sum3 selects by axis3 *)
Definition scipy_axis (a : axis3) : option nat := match a with AWhole => None | ASamp => Some 0 | AObs => Some 1 end.

Theorem invert_axis_bridge a : invert_axis (axis_str a) = inl (axis_str (other a)).
Proof. destruct a; reflexivity. Qed.

Theorem invert_axis_unknown s : s <> "sample" -> s <> "observation" -> invert_axis s = inr (UnknownAxisError s).
Proof.
  intros H1 H2. unfold invert_axis.
  destruct (String.eqb s "sample") eqn:E1; [apply String.eqb_eq in E1; contradiction|].
  destruct (String.eqb s "observation") eqn:E2; [apply String.eqb_eq in E2; contradiction|reflexivity].
Qed.

(* numerical axis: observation = 0 (rows), sample = 1 (columns) *)
Theorem axis_to_num_bridge a : axis_to_num (axis_str a) = Ok (match a with Obs => 0 | Samp => 1 end).
Proof. destruct a; reflexivity. Qed.

Theorem sum_axis_bridge a : sum_axis (axis3_str a) = Ok (scipy_axis a).
Proof. destruct a; reflexivity. Qed.

Theorem sum_axis_unknown s :
  s <> "whole" -> s <> "sample" -> s <> "observation" -> sum_axis s = Raise (UnknownAxisError s).
Proof.
  intros H1 H2 H3. unfold sum_axis.
  destruct (String.eqb s "whole") eqn:E1; [apply String.eqb_eq in E1; contradiction|].
  destruct (String.eqb s "sample") eqn:E2; [apply String.eqb_eq in E2; contradiction|].
  destruct (String.eqb s "observation") eqn:E3; [apply String.eqb_eq in E3; contradiction|reflexivity].
Qed.
