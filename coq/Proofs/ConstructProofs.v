(* Proofs for C17: the denotation of coordinate data, faithfulness of every input form,
   rejection of malformed input by the constructor, and the two record importers. *)
From Coq Require Import List Arith ZArith Lia Bool Sorted.
From BiomV Require Import Base.Tree Base.ListUtil Base.Matrix Base.Dict Model.Table Model.Err
  Proofs.ErrProofs Model.Construct.
Import ListNotations.

(* ================================================================== A. coordinate data *)
Lemma cell_sum_app a b i j : cell_sum (a ++ b) i j = (cell_sum a i j + cell_sum b i j)%Z.
Proof. unfold cell_sum. rewrite filter_app, map_app, zsum_app. reflexivity. Qed.

Lemma cell_sum_cons e es i j :
  cell_sum (e :: es) i j = ((if at_cell i j e then e_val e else 0) + cell_sum es i j)%Z.
Proof. unfold cell_sum. simpl. destruct (at_cell i j e); simpl; lia. Qed.

Lemma cell_sum_nil i j : cell_sum [] i j = 0%Z.
Proof. reflexivity. Qed.

Lemma coo_dense_length nr nc es : length (coo_dense nr nc es) = nr.
Proof. unfold coo_dense. rewrite map_length, seq_length. reflexivity. Qed.

Lemma coo_dense_rect nr nc es : rect nc (coo_dense nr nc es).
Proof.
  apply Forall_forall. intros r Hr. unfold coo_dense in Hr. apply in_map_iff in Hr.
  destruct Hr as [i [Hi _]]. subst. rewrite map_length, seq_length. reflexivity.
Qed.

Lemma get_coo_dense nr nc es i j : i < nr -> j < nc -> get (coo_dense nr nc es) i j = cell_sum es i j.
Proof.
  intros Hi Hj. unfold get, coo_dense.
  rewrite (nth_indep _ [] (map (fun j => cell_sum es 0 j) (seq 0 nc))) by (rewrite map_length, seq_length; exact Hi).
  rewrite (map_nth (fun i => map (fun j => cell_sum es i j) (seq 0 nc))). rewrite seq_nth by exact Hi. simpl.
  rewrite (nth_indep _ 0%Z (cell_sum es i 0)) by (rewrite map_length, seq_length; exact Hj).
  rewrite (map_nth (fun j => cell_sum es i j)). rewrite seq_nth by exact Hj. reflexivity.
Qed.

Lemma coo_dense_is m r c es : length m = r -> rect c m ->
  (forall i j, i < r -> j < c -> cell_sum es i j = get m i j) -> coo_dense r c es = m.
Proof.
  intros Hl R H. apply (mat_ext c).
  - rewrite coo_dense_length. symmetry. exact Hl.
  - apply coo_dense_rect.
  - exact R.
  - intros i j Hi Hj. rewrite coo_dense_length in Hi. rewrite get_coo_dense by assumption. apply H; assumption.
Qed.

Lemma cell_sum_filter_nz es i j : cell_sum (filter nz3 es) i j = cell_sum es i j.
Proof.
  induction es as [|e es IH]; [reflexivity|]. simpl. destruct (nz3 e) eqn:E.
  - rewrite !cell_sum_cons, IH. reflexivity.
  - rewrite cell_sum_cons, IH. unfold nz3 in E. apply negb_false_iff in E. apply Z.eqb_eq in E.
    rewrite E. destruct (at_cell i j e); lia.
Qed.

Definition row_sum (r : row_entries) (j : nat) : Z := zsum (map snd (filter (fun cv => Nat.eqb (fst cv) j) r)).

Lemma cell_sum_row base r i j :
  cell_sum (map (fun cv : nat * Z => (base, fst cv, snd cv)) r) i j = if Nat.eqb base i then row_sum r j else 0%Z.
Proof.
  induction r as [|[c v] r IH]; simpl.
  - destruct (Nat.eqb base i); reflexivity.
  - rewrite cell_sum_cons, IH. unfold at_cell, e_row, e_col, e_val, row_sum. simpl.
    destruct (Nat.eqb base i); simpl; [|reflexivity]. destruct (Nat.eqb c j); simpl; lia.
Qed.

Lemma cell_sum_flatten base rows i j :
  cell_sum (flatten_from base rows) i j =
  if Nat.leb base i && Nat.ltb i (base + length rows) then row_sum (nth (i - base) rows []) j else 0%Z.
Proof.
  revert base. induction rows as [|r rows IH]; intros base; simpl.
  - rewrite cell_sum_nil. destruct (Nat.leb base i && Nat.ltb i (base + 0)) eqn:E; [|reflexivity].
    apply andb_true_iff in E. destruct E as [E1 E2]. apply Nat.leb_le in E1. apply Nat.ltb_lt in E2. lia.
  - rewrite cell_sum_app, cell_sum_row, IH.
    destruct (Nat.eqb base i) eqn:E.
    + apply Nat.eqb_eq in E. subst i. rewrite Nat.sub_diag.
      replace (Nat.leb (S base) base) with false by (symmetry; apply Nat.leb_gt; lia).
      replace (Nat.leb base base && Nat.ltb base (base + S (length rows))) with true
        by (symmetry; apply andb_true_iff; split; [apply Nat.leb_le|apply Nat.ltb_lt]; lia).
      simpl. lia.
    + apply Nat.eqb_neq in E.
      destruct (Nat.leb (S base) i && Nat.ltb i (S base + length rows)) eqn:E2.
      * apply andb_true_iff in E2. destruct E2 as [A B]. apply Nat.leb_le in A. apply Nat.ltb_lt in B.
        replace (Nat.leb base i && Nat.ltb i (base + S (length rows))) with true
          by (symmetry; apply andb_true_iff; split; [apply Nat.leb_le|apply Nat.ltb_lt]; lia).
        replace (i - base) with (S (i - S base)) by lia. simpl. lia.
      * replace (Nat.leb base i && Nat.ltb i (base + S (length rows))) with false; [lia|].
        symmetry. apply andb_false_iff. apply andb_false_iff in E2. destruct E2 as [A|B].
        -- left. apply Nat.leb_gt. apply Nat.leb_gt in A. lia.
        -- right. apply Nat.ltb_ge. apply Nat.ltb_ge in B. lia.
Qed.

Lemma row_sum_enum s row j :
  row_sum (enum_from s row) j = if Nat.leb s j && Nat.ltb j (s + length row) then nth (j - s) row 0%Z else 0%Z.
Proof.
  revert s. induction row as [|v row IH]; intros s; simpl.
  - destruct (Nat.leb s j && Nat.ltb j (s + 0)) eqn:E; [|reflexivity].
    apply andb_true_iff in E. destruct E as [E1 E2]. apply Nat.leb_le in E1. apply Nat.ltb_lt in E2. lia.
  - unfold row_sum in *. simpl. destruct (Nat.eqb s j) eqn:E; simpl.
    + apply Nat.eqb_eq in E. subst j. rewrite IH. rewrite Nat.sub_diag.
      replace (Nat.leb (S s) s) with false by (symmetry; apply Nat.leb_gt; lia).
      replace (Nat.leb s s && Nat.ltb s (s + S (length row))) with true
        by (symmetry; apply andb_true_iff; split; [apply Nat.leb_le|apply Nat.ltb_lt]; lia).
      simpl. lia.
    + apply Nat.eqb_neq in E. rewrite IH.
      destruct (Nat.leb (S s) j && Nat.ltb j (S s + length row)) eqn:E2.
      * apply andb_true_iff in E2. destruct E2 as [A B]. apply Nat.leb_le in A. apply Nat.ltb_lt in B.
        replace (Nat.leb s j && Nat.ltb j (s + S (length row))) with true
          by (symmetry; apply andb_true_iff; split; [apply Nat.leb_le|apply Nat.ltb_lt]; lia).
        replace (j - s) with (S (j - S s)) by lia. reflexivity.
      * replace (Nat.leb s j && Nat.ltb j (s + S (length row))) with false; [reflexivity|].
        symmetry. apply andb_false_iff. apply andb_false_iff in E2. destruct E2 as [A|B].
        -- left. apply Nat.leb_gt. apply Nat.leb_gt in A. lia.
        -- right. apply Nat.ltb_ge. apply Nat.ltb_ge in B. lia.
Qed.

(* the full row-major scan describes the matrix *)
Lemma cell_sum_full m c i j : rect c m -> i < length m -> j < c ->
  cell_sum (flatten (full_rows m)) i j = get m i j.
Proof.
  intros R Hi Hj. unfold flatten, full_rows. rewrite cell_sum_flatten, map_length.
  replace (Nat.leb 0 i && Nat.ltb i (0 + length m)) with true
    by (symmetry; apply andb_true_iff; split; [apply Nat.leb_le|apply Nat.ltb_lt]; lia).
  rewrite Nat.sub_0_r.
  rewrite (nth_indep _ [] (enum_from 0 [])) by (rewrite map_length; exact Hi).
  rewrite (map_nth (enum_from 0)). rewrite row_sum_enum.
  rewrite (rect_nth_length c m i R Hi).
  replace (Nat.leb 0 j && Nat.ltb j (0 + c)) with true
    by (symmetry; apply andb_true_iff; split; [apply Nat.leb_le|apply Nat.ltb_lt]; lia).
  rewrite Nat.sub_0_r. reflexivity.
Qed.

Lemma in_range_flatten base rows nr nc :
  base + length rows <= nr -> Forall (fun r => Forall (fun cv : nat * Z => fst cv < nc) r) rows ->
  forallb (in_range nr nc) (flatten_from base rows) = true.
Proof.
  revert base. induction rows as [|r rows IH]; intros base Hb F; simpl; [reflexivity|].
  inversion F as [|? ? Fr Frows]; subst. rewrite forallb_app. apply andb_true_iff. split.
  - apply forallb_forall. intros e He. apply in_map_iff in He. destruct He as [[c v] [E Hin]]. subst e.
    rewrite Forall_forall in Fr. specialize (Fr _ Hin). simpl in *.
    unfold in_range, e_row, e_col. simpl. apply andb_true_iff. split; apply Nat.ltb_lt; lia.
  - apply IH; [simpl in Hb; lia|exact Frows].
Qed.

Lemma enum_from_bound s row : Forall (fun cv : nat * Z => fst cv < s + length row) (enum_from s row).
Proof.
  revert s. induction row as [|v row IH]; intros s; simpl; constructor.
  - simpl. lia.
  - eapply Forall_impl; [|apply IH]. intros cv H. simpl in H. lia.
Qed.

Lemma full_rows_bound c m : rect c m -> Forall (fun r => Forall (fun cv : nat * Z => fst cv < c) r) (full_rows m).
Proof.
  intros R. unfold full_rows. apply Forall_forall. intros r Hr. apply in_map_iff in Hr.
  destruct Hr as [row [E Hin]]. subst r. unfold rect in R. rewrite Forall_forall in R.
  pose proof (enum_from_bound 0 row) as B. rewrite (R row Hin) in B. exact B.
Qed.

Lemma forallb_filter {A} (p q : A -> bool) l : forallb p l = true -> forallb p (filter q l) = true.
Proof.
  rewrite !forallb_forall. intros H x Hx. apply filter_In in Hx. apply H. tauto.
Qed.

Theorem full_represents m c : rect c m -> represents (flatten (full_rows m)) (length m) c m.
Proof.
  intros R. split.
  - apply in_range_flatten; [unfold full_rows; rewrite map_length; lia|apply full_rows_bound; exact R].
  - intros i j Hi Hj. apply (cell_sum_full m c); assumption.
Qed.

Theorem scan_represents m c : rect c m -> represents (scan m) (length m) c m.
Proof.
  intros R. destruct (full_represents m c R) as [A B]. split.
  - unfold scan. apply forallb_filter. exact A.
  - intros i j Hi Hj. unfold scan. rewrite cell_sum_filter_nz. apply B; assumption.
Qed.

Lemma represents_dense es r c m : length m = r -> rect c m -> represents es r c m -> coo_dense r c es = m.
Proof. intros Hl R [_ H]. apply coo_dense_is; assumption. Qed.

(* rows whose zeros are dropped flatten to the scan *)
Lemma flatten_nz base rows :
  flatten_from base (map nz_row rows) = filter nz3 (flatten_from base rows).
Proof.
  revert base. induction rows as [|r rows IH]; intros base; simpl; [reflexivity|].
  rewrite filter_app, IH. f_equal. unfold nz_row. induction r as [|[c v] r IHr]; [reflexivity|]. simpl.
  unfold nz3 at 1. unfold e_val. simpl. destruct (negb (Z.eqb v 0)); simpl; rewrite IHr; reflexivity.
Qed.
