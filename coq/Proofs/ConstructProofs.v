(* Proofs for C17: the denotation of coordinate data, faithfulness of every input form,
   rejection of malformed input by the constructor, and the two record importers. *)
From Coq Require Import List Arith ZArith Lia Bool Sorted.
From BiomV Require Import Base.Tree Base.ListUtil Base.Matrix Base.Dict Model.Table Model.Err
  Proofs.ErrProofs Model.Construct.
Import ListNotations.

(* ================================================================== A. coordinate data *)
Lemma cell_sum_app a b i j : cell_sum (a ++ b) i j = (cell_sum a i j + cell_sum b i j)%Z.
Proof. unfold cell_sum. rewrite filter_app, map_app, zsum_app. reflexivity. Qed.

Lemma cell_sum_cons e es i j :
  cell_sum (e :: es) i j = ((if at_cell i j e then e_val e else 0) + cell_sum es i j)%Z.
Proof. unfold cell_sum. simpl. destruct (at_cell i j e); simpl; lia. Qed.

Lemma cell_sum_nil i j : cell_sum [] i j = 0%Z.
Proof. reflexivity. Qed.

Lemma coo_dense_length nr nc es : length (coo_dense nr nc es) = nr.
Proof. unfold coo_dense. rewrite map_length, seq_length. reflexivity. Qed.

Lemma coo_dense_rect nr nc es : rect nc (coo_dense nr nc es).
Proof.
  apply Forall_forall. intros r Hr. unfold coo_dense in Hr. apply in_map_iff in Hr.
  destruct Hr as [i [Hi _]]. subst. rewrite map_length, seq_length. reflexivity.
Qed.

Lemma get_coo_dense nr nc es i j : i < nr -> j < nc -> get (coo_dense nr nc es) i j = cell_sum es i j.
Proof.
  intros Hi Hj. unfold get, coo_dense.
  rewrite (nth_indep _ [] (map (fun j => cell_sum es 0 j) (seq 0 nc))) by (rewrite map_length, seq_length; exact Hi).
  rewrite (map_nth (fun i => map (fun j => cell_sum es i j) (seq 0 nc))). rewrite seq_nth by exact Hi. simpl.
  rewrite (nth_indep _ 0%Z (cell_sum es i 0)) by (rewrite map_length, seq_length; exact Hj).
  rewrite (map_nth (fun j => cell_sum es i j)). rewrite seq_nth by exact Hj. reflexivity.
Qed.

Lemma coo_dense_is m r c es : length m = r -> rect c m ->
  (forall i j, i < r -> j < c -> cell_sum es i j = get m i j) -> coo_dense r c es = m.
Proof.
  intros Hl R H. apply (mat_ext c).
  - rewrite coo_dense_length. symmetry. exact Hl.
  - apply coo_dense_rect.
  - exact R.
  - intros i j Hi Hj. rewrite coo_dense_length in Hi. rewrite get_coo_dense by assumption. apply H; assumption.
Qed.

Lemma cell_sum_filter_nz es i j : cell_sum (filter nz3 es) i j = cell_sum es i j.
Proof.
  induction es as [|e es IH]; [reflexivity|]. simpl. destruct (nz3 e) eqn:E.
  - rewrite !cell_sum_cons, IH. reflexivity.
  - rewrite cell_sum_cons, IH. unfold nz3 in E. apply negb_false_iff in E. apply Z.eqb_eq in E.
    rewrite E. destruct (at_cell i j e); lia.
Qed.

Definition row_sum (r : row_entries) (j : nat) : Z := zsum (map snd (filter (fun cv => Nat.eqb (fst cv) j) r)).

Lemma cell_sum_row base r i j :
  cell_sum (map (fun cv : nat * Z => (base, fst cv, snd cv)) r) i j = if Nat.eqb base i then row_sum r j else 0%Z.
Proof.
  induction r as [|[c v] r IH]; simpl.
  - destruct (Nat.eqb base i); reflexivity.
  - rewrite cell_sum_cons, IH. unfold at_cell, e_row, e_col, e_val, row_sum. simpl.
    destruct (Nat.eqb base i); simpl; [|reflexivity]. destruct (Nat.eqb c j); simpl; lia.
Qed.

Lemma cell_sum_flatten base rows i j :
  cell_sum (flatten_from base rows) i j =
  if Nat.leb base i && Nat.ltb i (base + length rows) then row_sum (nth (i - base) rows []) j else 0%Z.
Proof.
  revert base. induction rows as [|r rows IH]; intros base; simpl.
  - rewrite cell_sum_nil. destruct (Nat.leb base i && Nat.ltb i (base + 0)) eqn:E; [|reflexivity].
    apply andb_true_iff in E. destruct E as [E1 E2]. apply Nat.leb_le in E1. apply Nat.ltb_lt in E2. lia.
  - rewrite cell_sum_app, cell_sum_row, IH.
    destruct (Nat.eqb base i) eqn:E.
    + apply Nat.eqb_eq in E. subst i. rewrite Nat.sub_diag.
      replace (Nat.leb (S base) base) with false by (symmetry; apply Nat.leb_gt; lia).
      replace (Nat.leb base base && Nat.ltb base (base + S (length rows))) with true
        by (symmetry; apply andb_true_iff; split; [apply Nat.leb_le|apply Nat.ltb_lt]; lia).
      simpl. lia.
    + apply Nat.eqb_neq in E.
      destruct (Nat.leb (S base) i && Nat.ltb i (S base + length rows)) eqn:E2.
      * apply andb_true_iff in E2. destruct E2 as [A B]. apply Nat.leb_le in A. apply Nat.ltb_lt in B.
        replace (Nat.leb base i && Nat.ltb i (base + S (length rows))) with true
          by (symmetry; apply andb_true_iff; split; [apply Nat.leb_le|apply Nat.ltb_lt]; lia).
        replace (i - base) with (S (i - S base)) by lia. simpl. lia.
      * replace (Nat.leb base i && Nat.ltb i (base + S (length rows))) with false; [lia|].
        symmetry. apply andb_false_iff. apply andb_false_iff in E2. destruct E2 as [A|B].
        -- left. apply Nat.leb_gt. apply Nat.leb_gt in A. lia.
        -- right. apply Nat.ltb_ge. apply Nat.ltb_ge in B. lia.
Qed.

Lemma row_sum_enum s row j :
  row_sum (enum_from s row) j = if Nat.leb s j && Nat.ltb j (s + length row) then nth (j - s) row 0%Z else 0%Z.
Proof.
  revert s. induction row as [|v row IH]; intros s; simpl.
  - destruct (Nat.leb s j && Nat.ltb j (s + 0)) eqn:E; [|reflexivity].
    apply andb_true_iff in E. destruct E as [E1 E2]. apply Nat.leb_le in E1. apply Nat.ltb_lt in E2. lia.
  - unfold row_sum in *. simpl. destruct (Nat.eqb s j) eqn:E; simpl.
    + apply Nat.eqb_eq in E. subst j. rewrite IH. rewrite Nat.sub_diag.
      replace (Nat.leb (S s) s) with false by (symmetry; apply Nat.leb_gt; lia).
      replace (Nat.leb s s && Nat.ltb s (s + S (length row))) with true
        by (symmetry; apply andb_true_iff; split; [apply Nat.leb_le|apply Nat.ltb_lt]; lia).
      simpl. lia.
    + apply Nat.eqb_neq in E. rewrite IH.
      destruct (Nat.leb (S s) j && Nat.ltb j (S s + length row)) eqn:E2.
      * apply andb_true_iff in E2. destruct E2 as [A B]. apply Nat.leb_le in A. apply Nat.ltb_lt in B.
        replace (Nat.leb s j && Nat.ltb j (s + S (length row))) with true
          by (symmetry; apply andb_true_iff; split; [apply Nat.leb_le|apply Nat.ltb_lt]; lia).
        replace (j - s) with (S (j - S s)) by lia. reflexivity.
      * replace (Nat.leb s j && Nat.ltb j (s + S (length row))) with false; [reflexivity|].
        symmetry. apply andb_false_iff. apply andb_false_iff in E2. destruct E2 as [A|B].
        -- left. apply Nat.leb_gt. apply Nat.leb_gt in A. lia.
        -- right. apply Nat.ltb_ge. apply Nat.ltb_ge in B. lia.
Qed.

(* the full row-major scan describes the matrix *)
Lemma cell_sum_full m c i j : rect c m -> i < length m -> j < c ->
  cell_sum (flatten (full_rows m)) i j = get m i j.
Proof.
  intros R Hi Hj. unfold flatten, full_rows. rewrite cell_sum_flatten, map_length.
  replace (Nat.leb 0 i && Nat.ltb i (0 + length m)) with true
    by (symmetry; apply andb_true_iff; split; [apply Nat.leb_le|apply Nat.ltb_lt]; lia).
  rewrite Nat.sub_0_r.
  rewrite (nth_indep _ [] (enum_from 0 [])) by (rewrite map_length; exact Hi).
  rewrite (map_nth (enum_from 0)). rewrite row_sum_enum.
  rewrite (rect_nth_length c m i R Hi).
  replace (Nat.leb 0 j && Nat.ltb j (0 + c)) with true
    by (symmetry; apply andb_true_iff; split; [apply Nat.leb_le|apply Nat.ltb_lt]; lia).
  rewrite Nat.sub_0_r. reflexivity.
Qed.

Lemma in_range_flatten base rows nr nc :
  base + length rows <= nr -> Forall (fun r => Forall (fun cv : nat * Z => fst cv < nc) r) rows ->
  forallb (in_range nr nc) (flatten_from base rows) = true.
Proof.
  revert base. induction rows as [|r rows IH]; intros base Hb F; simpl; [reflexivity|].
  inversion F as [|? ? Fr Frows]; subst. rewrite forallb_app. apply andb_true_iff. split.
  - apply forallb_forall. intros e He. apply in_map_iff in He. destruct He as [[c v] [E Hin]]. subst e.
    rewrite Forall_forall in Fr. specialize (Fr _ Hin). simpl in *.
    unfold in_range, e_row, e_col. simpl. apply andb_true_iff. split; apply Nat.ltb_lt; lia.
  - apply IH; [simpl in Hb; lia|exact Frows].
Qed.

Lemma enum_from_bound s row : Forall (fun cv : nat * Z => fst cv < s + length row) (enum_from s row).
Proof.
  revert s. induction row as [|v row IH]; intros s; simpl; constructor.
  - simpl. lia.
  - eapply Forall_impl; [|apply IH]. intros cv H. simpl in H. lia.
Qed.

Lemma full_rows_bound c m : rect c m -> Forall (fun r => Forall (fun cv : nat * Z => fst cv < c) r) (full_rows m).
Proof.
  intros R. unfold full_rows. apply Forall_forall. intros r Hr. apply in_map_iff in Hr.
  destruct Hr as [row [E Hin]]. subst r. unfold rect in R. rewrite Forall_forall in R.
  pose proof (enum_from_bound 0 row) as B. rewrite (R row Hin) in B. exact B.
Qed.

Lemma forallb_filter {A} (p q : A -> bool) l : forallb p l = true -> forallb p (filter q l) = true.
Proof.
  rewrite !forallb_forall. intros H x Hx. apply filter_In in Hx. apply H. tauto.
Qed.

Theorem full_represents m c : rect c m -> represents (flatten (full_rows m)) (length m) c m.
Proof.
  intros R. split.
  - apply in_range_flatten; [unfold full_rows; rewrite map_length; lia|apply full_rows_bound; exact R].
  - intros i j Hi Hj. apply (cell_sum_full m c); assumption.
Qed.

Theorem scan_represents m c : rect c m -> represents (scan m) (length m) c m.
Proof.
  intros R. destruct (full_represents m c R) as [A B]. split.
  - unfold scan. apply forallb_filter. exact A.
  - intros i j Hi Hj. unfold scan. rewrite cell_sum_filter_nz. apply B; assumption.
Qed.

Lemma represents_dense es r c m : length m = r -> rect c m -> represents es r c m -> coo_dense r c es = m.
Proof. intros Hl R [_ H]. apply coo_dense_is; assumption. Qed.

(* rows whose zeros are dropped flatten to the scan *)
Lemma flatten_nz base rows :
  flatten_from base (map nz_row rows) = filter nz3 (flatten_from base rows).
Proof.
  revert base. induction rows as [|r rows IH]; intros base; simpl; [reflexivity|].
  rewrite filter_app, IH. f_equal. unfold nz_row. induction r as [|[c v] r IHr]; [reflexivity|]. simpl.
  unfold nz3 at 1. unfold e_val. simpl. destruct (negb (Z.eqb v 0)); simpl; rewrite IHr; reflexivity.
Qed.

(* ================================================================== B. every form is faithful *)
Lemma to_dense_checked nr nc es m : length m = nr -> rect nc m -> represents es nr nc m ->
  match coo_checked nr nc es with
  | ROk (a, b, es') => ROk (a, b, coo_dense a b es')
  | RErr c => RErr c
  end = ROk (nr, nc, m).
Proof.
  intros Hl R Rep. unfold coo_checked. destruct Rep as [A B]. rewrite A.
  rewrite (coo_dense_is m nr nc es Hl R B). reflexivity.
Qed.

Lemma rectb_true c m : rect c m -> rectb c m = true.
Proof. apply rectb_rect. Qed.

(* the general statements: ANY entry list describing m (any order, explicit zeros, values split
   over repeated cells) *)
Theorem faithful_triples_gen es m c : rect c m -> represents es (length m) c m ->
  to_dense (InTriples es) (length m, c) = ROk (length m, c, m).
Proof.
  intros R Rep. unfold to_dense, to_coo. destruct es as [|e es].
  - simpl. rewrite (represents_dense [] (length m) c m eq_refl R Rep). reflexivity.
  - apply to_dense_checked; [reflexivity|exact R|exact Rep].
Qed.

Theorem faithful_dict_gen es m c : rect c m -> represents es (length m) c m ->
  to_dense (InDict es) (length m, c) = ROk (length m, c, m).
Proof. intros R Rep. unfold to_dense, to_coo. apply to_dense_checked; [reflexivity|exact R|exact Rep]. Qed.

Theorem faithful_sparse_gen es m c shape : rect c m -> represents es (length m) c m ->
  to_dense (InSparse (length m) c es) shape = ROk (length m, c, m).
Proof. intros R Rep. unfold to_dense, to_coo. apply to_dense_checked; [reflexivity|exact R|exact Rep]. Qed.

(* the canonical encodings *)
Theorem faithful_array m c shape : rect c m -> (length m * c = 0 -> shape = (length m, c)) ->
  to_dense (enc_array c m) shape = ROk (length m, c, m).
Proof.
  intros R Hs. unfold to_dense, enc_array, to_coo.
  destruct (Nat.eqb (length m * c) 0) eqn:E.
  - apply Nat.eqb_eq in E. rewrite (Hs E). simpl.
    rewrite (coo_dense_is m (length m) c [] eq_refl R); [reflexivity|].
    intros i j Hi Hj. exfalso. destruct (length m); [lia|]. destruct c; simpl in E; lia.
  - rewrite (represents_dense _ _ _ _ eq_refl R (scan_represents m c R)). reflexivity.
Qed.

Theorem faithful_lists m c shape : rect c m -> (m = [] -> shape = (0, c)) ->
  to_dense (enc_lists m) shape = ROk (length m, c, m).
Proof.
  intros R Hs. unfold to_dense, enc_lists, to_coo. destruct m as [|r m'].
  - rewrite (Hs eq_refl). reflexivity.
  - assert (Hr : length r = c) by (inversion R; assumption). rewrite Hr.
    rewrite (rectb_true c _ R).
    rewrite (represents_dense _ _ _ _ eq_refl R (scan_represents (r :: m') c R)). reflexivity.
Qed.

Theorem faithful_rowarrays m c shape : rect c m -> (m = [] -> shape = (0, c)) ->
  to_dense (enc_rowarrays m) shape = ROk (length m, c, m).
Proof.
  intros R Hs. unfold to_dense, enc_rowarrays, to_coo. destruct m as [|r m'].
  - rewrite (Hs eq_refl). reflexivity.
  - assert (Hr : length r = c) by (inversion R; assumption). rewrite Hr.
    rewrite (rectb_true c _ R).
    rewrite (represents_dense _ _ _ _ eq_refl R (scan_represents (r :: m') c R)). reflexivity.
Qed.

Theorem faithful_triples m c : rect c m -> to_dense (enc_triples m) (length m, c) = ROk (length m, c, m).
Proof. intros R. apply faithful_triples_gen; [exact R|apply scan_represents; exact R]. Qed.

Theorem faithful_triples_zeros m c : rect c m ->
  to_dense (enc_triples_zeros m) (length m, c) = ROk (length m, c, m).
Proof. intros R. apply faithful_triples_gen; [exact R|apply full_represents; exact R]. Qed.

Theorem faithful_dict m c : rect c m -> to_dense (enc_dict m) (length m, c) = ROk (length m, c, m).
Proof. intros R. apply faithful_dict_gen; [exact R|apply scan_represents; exact R]. Qed.

Theorem faithful_sparse m c shape : rect c m -> to_dense (enc_sparse c m) shape = ROk (length m, c, m).
Proof. intros R. apply faithful_sparse_gen; [exact R|apply scan_represents; exact R]. Qed.

Lemma flatten_nz_rows m : flatten (map (fun r => nz_row (enum_from 0 r)) m) = scan m.
Proof.
  unfold scan, flatten, full_rows. rewrite <- flatten_nz. rewrite map_map. reflexivity.
Qed.

Lemma sparserows_to_coo c (l : list row_entries) shape : l <> [] ->
  to_coo (InSparseRows (map (fun e => (c, e)) l)) shape = coo_checked (length l) c (flatten l).
Proof.
  intros Hne. destruct l as [|e l]; [contradiction|].
  assert (W : forallb (fun r0 : nat * row_entries => Nat.eqb (fst r0) c) (map (fun e => (c, e)) (e :: l)) = true).
  { apply forallb_forall. intros x Hx. apply in_map_iff in Hx. destruct Hx as [y [<- _]]. apply Nat.eqb_refl. }
  assert (S : map snd (map (fun e : row_entries => (c, e)) (e :: l)) = e :: l).
  { rewrite map_map. simpl. f_equal. apply map_id. }
  unfold to_coo. change (map (fun e0 : row_entries => (c, e0)) (e :: l))
    with ((c, e) :: map (fun e0 : row_entries => (c, e0)) l) at 1.
  cbv iota beta. rewrite W, S. rewrite map_length. reflexivity.
Qed.

Theorem faithful_sparserows m c shape : rect c m -> (m = [] -> shape = (0, c)) ->
  to_dense (enc_sparserows c m) shape = ROk (length m, c, m).
Proof.
  intros R Hs. unfold to_dense, enc_sparserows. destruct m as [|r m'] eqn:Em.
  - rewrite (Hs eq_refl). reflexivity.
  - rewrite <- Em in *.
    replace (map (fun r0 : list Z => (c, nz_row (enum_from 0 r0))) m)
      with (map (fun e : row_entries => (c, e)) (map (fun r0 => nz_row (enum_from 0 r0)) m))
      by (rewrite map_map; reflexivity).
    rewrite sparserows_to_coo by (rewrite Em; discriminate).
    rewrite flatten_nz_rows, map_length.
    apply to_dense_checked; [reflexivity|exact R|apply scan_represents; exact R].
Qed.

(* ---- list of row dicts: general statement for dicts keyed (0, column) *)
Lemma nmax_ge x l : In x l -> x <= nmax l.
Proof.
  induction l as [|y l IH]; simpl; intros H; [destruct H|]. destruct H as [->|H]; [lia|]. specialize (IH H). lia.
Qed.
Lemma nmax_le b l : (forall x, In x l -> x <= b) -> nmax l <= b.
Proof.
  induction l as [|y l IH]; simpl; intros H; [lia|].
  assert (y <= b) by (apply H; left; reflexivity).
  assert (nmax l <= b) by (apply IH; intros x Hx; apply H; right; exact Hx). lia.
Qed.

Definition strip (row : list entry3) : row_entries := map (fun e => (e_col e, e_val e)) row.

Theorem faithful_rowdicts_gen rows m c :
  rect c m -> length rows = length m -> concat rows <> [] ->
  (forall e, In e (concat rows) -> e_row e = 0 /\ e_col e < c) ->
  (forall i j, i < length m -> j < c -> row_sum (strip (nth i rows [])) j = get m i j) ->
  to_dense (InRowDicts rows) (length m, c) = ROk (length m, c, m).
Proof.
  intros R Hl Hne Hk Hs. unfold to_dense, to_coo.
  destruct rows as [|r0 rows'] eqn:Er; [exfalso; apply Hne; reflexivity|]. rewrite <- Er in *.
  destruct (concat rows) as [|k0 ks] eqn:Ek; [exfalso; apply Hne; reflexivity|]. rewrite <- Ek in *.
  assert (Hrow0 : nmax (map e_row (concat rows)) = 0).
  { apply Nat.le_0_r. apply nmax_le. intros x Hx. apply in_map_iff in Hx. destruct Hx as [e [<- He]].
    destruct (Hk e He) as [A _]. lia. }
  assert (Hc : c > 0).
  { assert (In k0 (concat rows)) by (rewrite Ek; left; reflexivity). destruct (Hk k0 H). lia. }
  assert (Hcol : S (nmax (map e_col (concat rows))) <= c).
  { assert (nmax (map e_col (concat rows)) <= c - 1); [|lia]. apply nmax_le. intros x Hx.
    apply in_map_iff in Hx. destruct Hx as [e [<- He]]. destruct (Hk e He). lia. }
  rewrite Hrow0.
  replace (Nat.ltb (S (nmax (map e_col (concat rows)))) 1) with false by (symmetry; apply Nat.ltb_ge; lia).
  cbn [fst snd]. rewrite (Nat.max_r _ c Hcol). rewrite Hl.
  apply to_dense_checked; [reflexivity|exact R|]. split.
  - unfold flatten. apply in_range_flatten; [rewrite map_length; lia|].
    apply Forall_forall. intros r Hr. apply in_map_iff in Hr. destruct Hr as [row [<- Hrow]].
    apply Forall_forall. intros cv Hcv. apply in_map_iff in Hcv. destruct Hcv as [e [<- He]]. simpl.
    apply (Hk e). apply in_concat. exists row. tauto.
  - intros i j Hi Hj. unfold flatten. rewrite cell_sum_flatten, map_length, Hl.
    replace (Nat.leb 0 i && Nat.ltb i (0 + length m)) with true
      by (symmetry; apply andb_true_iff; split; [apply Nat.leb_le|apply Nat.ltb_lt]; lia).
    rewrite Nat.sub_0_r.
    rewrite (nth_indep _ [] (map (fun e => (e_col e, e_val e)) [])) by (rewrite map_length; lia).
    rewrite (map_nth (map (fun e => (e_col e, e_val e)))). apply Hs; assumption.
Qed.

Lemma row_sum_nz r j : row_sum (nz_row r) j = row_sum r j.
Proof.
  unfold row_sum, nz_row. induction r as [|[c v] r IH]; [reflexivity|]. simpl.
  destruct (negb (Z.eqb v 0)) eqn:E; simpl.
  - destruct (Nat.eqb c j); simpl; rewrite IH; reflexivity.
  - apply negb_false_iff in E. apply Z.eqb_eq in E. subst v. rewrite IH.
    destruct (Nat.eqb c j); simpl; lia.
Qed.

Lemma strip_keyed (l : row_entries) : strip (map (fun cv : nat * Z => (0, fst cv, snd cv)) l) = l.
Proof. unfold strip. rewrite map_map. rewrite <- (map_id l) at 2. apply map_ext. intros [c v]. reflexivity. Qed.

Definition has_nonzero (m : matrix) : Prop := exists i j, get m i j <> 0%Z.

Lemma nz_row_in r cv : In cv (nz_row r) -> In cv r /\ snd cv <> 0%Z.
Proof.
  unfold nz_row. intros H. apply filter_In in H. destruct H as [A B]. split; [exact A|].
  apply negb_true_iff in B. apply Z.eqb_neq in B. exact B.
Qed.

Lemma enum_from_nth s row j : j < length row -> In (s + j, nth j row 0%Z) (enum_from s row).
Proof.
  revert s j. induction row as [|v row IH]; intros s j Hj; simpl in Hj; [lia|].
  destruct j as [|j]; simpl.
  - left. f_equal. lia.
  - right. replace (s + S j) with (S s + j) by lia. apply IH. lia.
Qed.

Theorem faithful_rowdicts m c : rect c m -> has_nonzero m ->
  to_dense (enc_rowdicts m) (length m, c) = ROk (length m, c, m).
Proof.
  intros R (i & j & Hnz). unfold enc_rowdicts.
  assert (Hi : i < length m).
  { destruct (Nat.lt_ge_cases i (length m)) as [H|H]; [exact H|]. exfalso. apply Hnz. unfold get.
    rewrite (nth_overflow m) by exact H. destruct j; reflexivity. }
  assert (Hj : j < c).
  { destruct (Nat.lt_ge_cases j c) as [H|H]; [exact H|]. exfalso. apply Hnz. unfold get.
    apply nth_overflow. rewrite (rect_nth_length c m i R Hi). exact H. }
  set (f := fun r : list Z => map (fun cv : nat * Z => (0, fst cv, snd cv)) (nz_row (enum_from 0 r))).
  apply faithful_rowdicts_gen.
  - exact R.
  - apply map_length.
  - intros E.
    assert (Hin : In (0, j, get m i j) (concat (map f m))).
    { apply in_concat. exists (f (nth i m [])). split; [apply in_map; apply nth_In; exact Hi|].
      unfold f. apply in_map_iff. exists (j, get m i j). split; [reflexivity|].
      unfold nz_row. apply filter_In. split.
      - pose proof (enum_from_nth 0 (nth i m []) j) as H. simpl in H. apply H.
        rewrite (rect_nth_length c m i R Hi). exact Hj.
      - simpl. apply negb_true_iff. apply Z.eqb_neq. exact Hnz. }
    destruct (eq_ind _ (fun l => In (0, j, get m i j) l) Hin _ E).
  - intros e He. apply in_concat in He. destruct He as [l [Hl He]]. apply in_map_iff in Hl.
    destruct Hl as [row [<- Hrow]]. unfold f in He. apply in_map_iff in He. destruct He as [cv [<- Hcv]].
    apply nz_row_in in Hcv. destruct Hcv as [Hcv _]. unfold e_row, e_col. simpl. split; [reflexivity|].
    pose proof (enum_from_bound 0 row) as B. rewrite Forall_forall in B. specialize (B cv Hcv).
    unfold rect in R. rewrite Forall_forall in R. rewrite (R row Hrow) in B. exact B.
  - intros i' j' Hi' Hj'.
    rewrite (nth_indep _ [] (f [])) by (rewrite map_length; exact Hi').
    rewrite (map_nth f). unfold f. rewrite strip_keyed, row_sum_nz, row_sum_enum.
    rewrite (rect_nth_length c m i' R Hi').
    replace (Nat.leb 0 j' && Nat.ltb j' (0 + c)) with true
      by (symmetry; apply andb_true_iff; split; [apply Nat.leb_le|apply Nat.ltb_lt]; lia).
    rewrite Nat.sub_0_r. reflexivity.
Qed.

(* ================================================================== C. the constructor *)
(* errcheck under the default profile: 'empty' is ignored and skipped, the other six kinds
   raise, in sorted order of their names *)
Module ErrDefault.
Import String.
Local Open Scope string_scope.
Lemma errcheck_default v :
  errcheck default_profile v [] =
    if test_obsdup v then Ok (EvRaise "obsdup")
    else if test_obsmdsize v then Ok (EvRaise "obsmdsize")
    else if test_obssize v then Ok (EvRaise "obssize")
    else if test_sampdup v then Ok (EvRaise "sampdup")
    else if test_sampmdsize v then Ok (EvRaise "sampmdsize")
    else if test_sampsize v then Ok (EvRaise "sampsize")
    else Ok EvNone.
Proof.
  unfold errcheck. rewrite sorted_registry.
  cbn [test_loop dget registry String.eqb Ascii.eqb Bool.eqb].
  change (is_ignored default_profile "empty") with true.
  change (is_ignored default_profile "obsdup") with false.
  change (is_ignored default_profile "obsmdsize") with false.
  change (is_ignored default_profile "obssize") with false.
  change (is_ignored default_profile "sampdup") with false.
  change (is_ignored default_profile "sampmdsize") with false.
  change (is_ignored default_profile "sampsize") with false.
  change (handle_error default_profile "obsdup") with (EvRaise "obsdup").
  change (handle_error default_profile "obsmdsize") with (EvRaise "obsmdsize").
  change (handle_error default_profile "obssize") with (EvRaise "obssize").
  change (handle_error default_profile "sampdup") with (EvRaise "sampdup").
  change (handle_error default_profile "sampmdsize") with (EvRaise "sampmdsize").
  change (handle_error default_profile "sampsize") with (EvRaise "sampsize").
  destruct (test_empty v); reflexivity.
Qed.
End ErrDefault.

(* what the constructor makes of errcheck's answer under the default profile *)
Definition any_test (v : view) : bool :=
  test_obsdup v || test_obsmdsize v || test_obssize v || test_sampdup v || test_sampmdsize v || test_sampsize v.

Lemma errcheck_default_cases v :
  (any_test v = true /\ exists k, errcheck default_profile v [] = Ok (EvRaise k)) \/
  (any_test v = false /\ errcheck default_profile v [] = Ok EvNone).
Proof.
  rewrite ErrDefault.errcheck_default. unfold any_test.
  destruct (test_obsdup v); [left; split; [reflexivity|eexists; reflexivity]|].
  destruct (test_obsmdsize v); [left; split; [reflexivity|eexists; reflexivity]|].
  destruct (test_obssize v); [left; split; [reflexivity|eexists; reflexivity]|].
  destruct (test_sampdup v); [left; split; [reflexivity|eexists; reflexivity]|].
  destruct (test_sampmdsize v); [left; split; [reflexivity|eexists; reflexivity]|].
  destruct (test_sampsize v); [left; split; [reflexivity|eexists; reflexivity]|].
  right. split; reflexivity.
Qed.

Lemma distinct_le l : length (distinct l) <= length l.
Proof.
  induction l as [|x l IH]; simpl; [lia|]. destruct (zmem x l); simpl; lia.
Qed.

Lemma distinct_dup l : zdup l = true -> length (distinct l) < length l.
Proof.
  induction l as [|x l IH]; simpl; [discriminate|]. intros H.
  destruct (zmem x l) eqn:E; simpl.
  - pose proof (distinct_le l). lia.
  - simpl in H. specialize (IH H). lia.
Qed.

Lemma dup_test_true l : zdup l = true -> negb (Nat.eqb (length l) (length (distinct l))) = true.
Proof.
  intros H. apply negb_true_iff. apply Nat.eqb_neq. pose proof (distinct_dup l H). lia.
Qed.

Lemma nodup_test_false l : NoDup l -> negb (Nat.eqb (length l) (length (distinct l))) = false.
Proof. intros H. rewrite (distinct_NoDup l H), Nat.eqb_refl. reflexivity. Qed.

Lemma norm_md_keeps md n l : md = Some l -> length l <> n -> norm_md md n = Some l.
Proof.
  intros -> H. unfold norm_md. replace (Nat.eqb (length l) n) with false by (symmetry; apply Nat.eqb_neq; exact H).
  rewrite !andb_false_r. reflexivity.
Qed.

(* the condition of the property: duplicated ids, an id count that differs from the matrix
   dimension, or a metadata count that differs from the id count *)
Definition malformed (nr nc : nat) (oids sids : list Z) (omd smd : option (list mdin)) : Prop :=
  zdup oids = true \/ zdup sids = true \/ length oids <> nr \/ length sids <> nc
  \/ (exists l, omd = Some l /\ length l <> length oids) \/ (exists l, smd = Some l /\ length l <> length sids).

Lemma malformed_triggers nr nc oids sids omd smd : malformed nr nc oids sids omd smd ->
  any_test (view_of nr nc oids sids (norm_md omd (length oids)) (norm_md smd (length sids))) = true.
Proof.
  unfold any_test, test_obsdup, test_obsmdsize, test_obssize, test_sampdup, test_sampmdsize, test_sampsize, view_of.
  cbn [v_rows v_cols v_oids v_sids v_omd v_smd].
  intros [H|[H|[H|[H|[(l & E & H)|(l & E & H)]]]]].
  - rewrite (dup_test_true _ H). reflexivity.
  - rewrite (dup_test_true _ H). rewrite !orb_true_r. reflexivity.
  - replace (Nat.eqb nr (length oids)) with false by (symmetry; apply Nat.eqb_neq; lia).
    simpl. rewrite !orb_true_r. reflexivity.
  - replace (Nat.eqb nc (length sids)) with false by (symmetry; apply Nat.eqb_neq; lia).
    simpl. rewrite !orb_true_r. reflexivity.
  - rewrite (norm_md_keeps omd (length oids) l E H). simpl.
    destruct (Nat.eqb nr (length l)) eqn:E1; simpl.
    + apply Nat.eqb_eq in E1. replace (Nat.eqb nr (length oids)) with false by (symmetry; apply Nat.eqb_neq; lia).
      simpl. rewrite !orb_true_r. reflexivity.
    + rewrite !orb_true_r. reflexivity.
  - rewrite (norm_md_keeps smd (length sids) l E H). simpl.
    destruct (Nat.eqb nc (length l)) eqn:E1; simpl.
    + apply Nat.eqb_eq in E1. replace (Nat.eqb nc (length sids)) with false by (symmetry; apply Nat.eqb_neq; lia).
      simpl. rewrite !orb_true_r. reflexivity.
    + rewrite !orb_true_r. reflexivity.
Qed.

Theorem malformed_rejected_lemma inp oids sids omd smd ty nr nc m :
  to_dense inp (length oids, length sids) = ROk (nr, nc, m) ->
  malformed nr nc oids sids omd smd ->
  construct default_profile inp oids sids omd smd ty = RErr E_TABLE.
Proof.
  intros D M. unfold construct. rewrite D.
  destruct (errcheck_default_cases (view_of nr nc oids sids (norm_md omd (length oids)) (norm_md smd (length sids))))
    as [[_ [k Hk]]|[Hf _]].
  - rewrite Hk. reflexivity.
  - rewrite (malformed_triggers _ _ _ _ _ _ M) in Hf. discriminate.
Qed.

(* well-formed input is accepted and yields exactly the described table *)
Definition md_valid (md : option (list mdin)) (n : nat) : Prop :=
  match md with None => True | Some l => length l = n /\ forallb is_other l = false /\ existsb is_other l = false end.

Lemma cast_md_valid md n : md_valid md n -> exists o, cast_md (norm_md md n) = ROk o.
Proof.
  destruct md as [l|]; simpl; [|intros _; exists None; reflexivity].
  intros (Hl & _ & Ho).
  destruct (negb (Nat.eqb (length l) 0) && forallb falsy l && Nat.eqb (length l) n); [exists None; reflexivity|].
  unfold cast_md. destruct (forallb is_none l); [exists None; reflexivity|]. rewrite Ho. eexists. reflexivity.
Qed.

Lemma wellformed_quiet nr nc oids sids omd smd :
  NoDup oids -> NoDup sids -> length oids = nr -> length sids = nc ->
  md_valid omd (length oids) -> md_valid smd (length sids) ->
  any_test (view_of nr nc oids sids (norm_md omd (length oids)) (norm_md smd (length sids))) = false.
Proof.
  intros No Ns Ho Hs Vo Vs.
  unfold any_test, test_obsdup, test_obsmdsize, test_obssize, test_sampdup, test_sampmdsize, test_sampsize, view_of.
  cbn [v_rows v_cols v_oids v_sids v_omd v_smd].
  rewrite (nodup_test_false _ No), (nodup_test_false _ Ns). subst nr nc. rewrite !Nat.eqb_refl. simpl.
  assert (A : forall md n, md_valid md n ->
              match option_map (@length mdin) (norm_md md n) with Some k => negb (Nat.eqb n k) | None => false end = false).
  { intros md n V. destruct md as [l|]; [|reflexivity]. destruct V as (Hl & _). simpl.
    destruct (negb (Nat.eqb (length l) 0) && forallb falsy l && Nat.eqb (length l) n); [reflexivity|].
    simpl. rewrite Hl, Nat.eqb_refl. reflexivity. }
  rewrite (A omd _ Vo), (A smd _ Vs). reflexivity.
Qed.

Theorem wellformed_accepted_lemma inp oids sids omd smd ty m :
  to_dense inp (length oids, length sids) = ROk (length oids, length sids, m) ->
  NoDup oids -> NoDup sids -> md_valid omd (length oids) -> md_valid smd (length sids) ->
  exists o s, cast_md (norm_md omd (length oids)) = ROk o /\ cast_md (norm_md smd (length sids)) = ROk s /\
    construct default_profile inp oids sids omd smd ty = ROk (mkT oids sids m o s ty).
Proof.
  intros D No Ns Vo Vs. destruct (cast_md_valid _ _ Vo) as [o Eo]. destruct (cast_md_valid _ _ Vs) as [s Es].
  exists o, s. split; [exact Eo|]. split; [exact Es|].
  unfold construct. rewrite D.
  destruct (errcheck_default_cases (view_of (length oids) (length sids) oids sids
              (norm_md omd (length oids)) (norm_md smd (length sids)))) as [[Ht _]|[_ Hq]].
  - rewrite (wellformed_quiet _ _ _ _ _ _ No Ns eq_refl eq_refl Vo Vs) in Ht. discriminate.
  - rewrite Hq, Es, Eo. reflexivity.
Qed.

(* a metadata entry that is neither a mapping nor None: rejected, unless every entry is falsy *)
Lemma cast_md_other l : existsb is_other l = true -> cast_md (Some l) = RErr E_TABLE.
Proof.
  intros H. unfold cast_md.
  assert (forallb is_none l = false).
  { apply existsb_exists in H. destruct H as [e [He Ho]]. apply not_true_is_false. intros F.
    rewrite forallb_forall in F. specialize (F e He). destruct e; discriminate. }
  rewrite H0, H. reflexivity.
Qed.

Lemma norm_md_truthy l n : existsb (fun e => negb (falsy e)) l = true -> norm_md (Some l) n = Some l.
Proof.
  intros H. unfold norm_md.
  assert (forallb falsy l = false).
  { apply existsb_exists in H. destruct H as [e [He Hf]]. apply not_true_is_false. intros F.
    rewrite forallb_forall in F. rewrite (F e He) in Hf. discriminate. }
  rewrite H0, andb_false_r. reflexivity.
Qed.

Theorem nonmapping_rejected_lemma p inp oids sids omd smd ty l :
  (omd = Some l \/ smd = Some l) -> existsb is_other l = true -> existsb (fun e => negb (falsy e)) l = true ->
  (exists c, construct p inp oids sids omd smd ty = RErr c) /\
  (forall nr nc m, to_dense inp (length oids, length sids) = ROk (nr, nc, m) ->
     construct default_profile inp oids sids omd smd ty = RErr E_TABLE).
Proof.
  intros Hmd Ho Ht.
  assert (Core : forall q, (exists c, construct q inp oids sids omd smd ty = RErr c) /\
     (forall nr nc m, to_dense inp (length oids, length sids) = ROk (nr, nc, m) ->
        (forall k, errcheck q (view_of nr nc oids sids (norm_md omd (length oids)) (norm_md smd (length sids))) [] <> Raise k) ->
        construct q inp oids sids omd smd ty = RErr E_TABLE)).
  { intros q. unfold construct.
    destruct (to_dense inp (length oids, length sids)) as [[[nr nc] m]|c] eqn:D; [|split; [eexists; reflexivity|discriminate]].
    assert (X : match cast_md (norm_md smd (length sids)), cast_md (norm_md omd (length oids)) with
                | ROk s, ROk o => ROk (mkT oids sids m o s ty)
                | RErr c, _ => RErr c
                | _, RErr c => RErr c
                end = RErr E_TABLE).
    { destruct Hmd as [E|E]; subst.
      - rewrite (norm_md_truthy l _ Ht), (cast_md_other l Ho).
        destruct (cast_md (norm_md smd (length sids))) as [s|c] eqn:Es; [reflexivity|].
        destruct (norm_md smd (length sids)) as [l'|]; [|discriminate]. unfold cast_md in Es.
        destruct (forallb is_none l'); [discriminate|]. destruct (existsb is_other l'); [|discriminate].
        inversion Es. reflexivity.
      - rewrite (norm_md_truthy l _ Ht), (cast_md_other l Ho). reflexivity. }
    destruct (errcheck q _ []) as [[| | | |]|e] eqn:Ee.
    - rewrite X. split; [eexists; reflexivity|]. intros ? ? ? H _. reflexivity.
    - rewrite X. split; [eexists; reflexivity|]. intros ? ? ? H _. reflexivity.
    - rewrite X. split; [eexists; reflexivity|]. intros ? ? ? H _. reflexivity.
    - rewrite X. split; [eexists; reflexivity|]. intros ? ? ? H _. reflexivity.
    - split; [eexists; reflexivity|]. intros ? ? ? H _. reflexivity.
    - split; [eexists; reflexivity|]. intros nr' nc' m' H N. inversion H; subst. exfalso. exact (N e Ee). }
  split; [apply (Core p)|]. intros nr nc m D. apply (proj2 (Core default_profile) nr nc m D).
  intros k E. destruct (errcheck_default_cases (view_of nr nc oids sids (norm_md omd (length oids)) (norm_md smd (length sids))))
    as [[_ [k' Hk]]|[_ Hk]]; rewrite Hk in E; discriminate.
Qed.
